// Package vchan is a cooperative re-implementation of buffered Go channels and
// of select for the controlled-schedule runs of package workerpool: the
// channel operations of the instrumented copy are rewritten (tools/chanrw) into
// calls of this package, so that every send / receive / close / select is one
// scheduling point whose enabledness the scheduler can see, and the case a
// select takes among several ready ones is a recorded, enumerable choice.
// Semantics follow the Go specification for buffered channels: send blocks
// while the buffer is full, panics on a closed channel; receive blocks while
// the buffer is empty and the channel open, yields (zero, false) on a closed
// empty channel; close of a closed channel panics.  In a select a send case on
// a closed channel counts as ready (and panics when chosen).
package vchan

import (
	"go.linecorp.com/garr/vshim/vsched"
)

type Chan[T any] struct {
	buf     []T
	cap     int
	closed  bool
	waiting int // receivers parked on an unbuffered channel (rendezvous)
}

func Make[T any](n int) *Chan[T] { return &Chan[T]{cap: n} }

func (c *Chan[T]) Len() int     { return len(c.buf) }
func (c *Chan[T]) Cap() int     { return c.cap }
func (c *Chan[T]) Closed() bool { return c.closed }

// an unbuffered channel (cap 0) accepts a send only while a receiver is parked on it
func (c *Chan[T]) sendReady() bool {
	if c.closed {
		return true
	}
	if c.cap == 0 {
		return len(c.buf) < c.waiting
	}
	return len(c.buf) < c.cap
}
func (c *Chan[T]) recvReady() bool { return c != nil && (c.closed || len(c.buf) > 0) }

func (c *Chan[T]) doSend(v T) {
	if c.closed {
		panic("send on closed channel")
	}
	c.buf = append(c.buf, v)
}

func (c *Chan[T]) doRecv() (v T, ok bool) {
	if len(c.buf) > 0 {
		v = c.buf[0]
		c.buf = c.buf[1:]
		return v, true
	}
	return v, false
}

// Send is `c <- v`.
func Send[T any](c *Chan[T], v T) {
	if c == nil {
		vsched.WaitUntil(func() bool { return false })
	}
	vsched.K(vsched.KSend)
	vsched.WaitUntil(c.sendReady)
	c.doSend(v)
}

// Recv is `<-c`.
func Recv[T any](c *Chan[T]) T {
	v, _ := Recv2(c)
	return v
}

// Recv2 is `v, ok := <-c`.
func Recv2[T any](c *Chan[T]) (T, bool) {
	if c == nil {
		vsched.WaitUntil(func() bool { return false })
	}
	if c.cap == 0 {
		c.waiting++
		defer func() { c.waiting-- }()
	}
	vsched.K(vsched.KRecv)
	vsched.WaitUntil(c.recvReady)
	return c.doRecv()
}

// Close is `close(c)`.
func Close[T any](c *Chan[T]) {
	vsched.StepK(vsched.KClose)
	if c.closed {
		panic("close of closed channel")
	}
	c.closed = true
}

// ---- select ---------------------------------------------------------------

type selCase interface {
	ready() bool
	fire()
	park(d int)
}

type Sel struct {
	hasDefault bool
	cases      []selCase
}

func NewSelect(hasDefault bool) *Sel { return &Sel{hasDefault: hasDefault} }

type SCase[T any] struct {
	c *Chan[T]
	v T
}

func (s *SCase[T]) park(int)    {}
func (s *SCase[T]) ready() bool { return s.c != nil && s.c.sendReady() }
func (s *SCase[T]) fire()       { s.c.doSend(s.v) }

type RCase[T any] struct {
	c  *Chan[T]
	v  T
	ok bool
}

func (r *RCase[T]) park(d int) {
	if r.c != nil && r.c.cap == 0 {
		r.c.waiting += d
	}
}
func (r *RCase[T]) ready() bool { return r.c.recvReady() }
func (r *RCase[T]) fire()       { r.v, r.ok = r.c.doRecv() }
func (r *RCase[T]) Val() T      { return r.v }
func (r *RCase[T]) Ok() bool    { return r.ok }

func SendCase[T any](s *Sel, c *Chan[T], v T) *SCase[T] {
	k := &SCase[T]{c: c, v: v}
	s.cases = append(s.cases, k)
	return k
}

func RecvCase[T any](s *Sel, c *Chan[T]) *RCase[T] {
	k := &RCase[T]{c: c}
	s.cases = append(s.cases, k)
	return k
}

func (s *Sel) readyList() []int {
	var r []int
	for i, c := range s.cases {
		if c.ready() {
			r = append(r, i)
		}
	}
	return r
}

// Wait performs the select: returns the index of the case taken, -1 for default.
func (s *Sel) Wait() int {
	vsched.K(vsched.KSelect)
	if s.hasDefault {
		vsched.Yield()
		r := s.readyList()
		if len(r) == 0 {
			vsched.LogChoice(0)
			return -1
		}
		k := vsched.Choose(len(r))
		vsched.LogChoice(k)
		s.cases[r[k]].fire()
		return r[k]
	}
	for _, c := range s.cases {
		c.park(1)
	}
	vsched.WaitUntilQuiet(func() bool { return len(s.readyList()) > 0 })
	for _, c := range s.cases {
		c.park(-1)
	}
	r := s.readyList()
	k := vsched.Choose(len(r))
	vsched.LogChoice(k)
	s.cases[r[k]].fire()
	return r[k]
}

// ForceClose closes the channel without a scheduling point (context cancellation
// closes several Done channels within one access).
func (c *Chan[T]) ForceClose() { c.closed = true }

// Drain empties the buffer (timer Stop / Reset); Put stores a value without blocking.
func (c *Chan[T]) Drain() { c.buf = nil }
func (c *Chan[T]) Put(v T) {
	if len(c.buf) < c.cap {
		c.buf = append(c.buf, v)
	}
}
