// Package vqueue stands in for go.linecorp.com/garr/queue inside the
// instrumented copy of package cbreaker: the REAL queue, with every operation
// made one atomic, logged access of the cooperative scheduler (the breaker
// model binds the reservoir to an atomic specification object).
package vqueue

import (
	rq "go.linecorp.com/garr/queue"
	"go.linecorp.com/garr/vshim/vsched"
)

type Queue interface {
	Offer(v interface{})
	Poll() interface{}
	Peek() interface{}
	Size() int32
	IsEmpty() bool
	Iterator() Iterator
}

type Iterator interface {
	HasNext() bool
	Next() interface{}
	Remove()
}

type wq struct{ q rq.Queue }
type wi struct{ it rq.Iterator }

// DefaultQueue mirrors queue.DefaultQueue.
func DefaultQueue() Queue { return &wq{q: rq.DefaultQueue()} }

func (w *wq) Offer(v interface{}) { vsched.StepK(101); vsched.Atomic(func() { w.q.Offer(v) }) }
func (w *wq) Poll() (r interface{}) {
	vsched.StepK(102)
	vsched.Atomic(func() { r = w.q.Poll() })
	return
}
func (w *wq) Peek() (r interface{}) {
	vsched.StepK(103)
	vsched.Atomic(func() { r = w.q.Peek() })
	return
}
func (w *wq) Size() (r int32) {
	vsched.StepK(104)
	vsched.Atomic(func() { r = w.q.Size() })
	return
}
func (w *wq) IsEmpty() (r bool) {
	vsched.StepK(105)
	vsched.Atomic(func() { r = w.q.IsEmpty() })
	return
}
func (w *wq) Iterator() Iterator {
	vsched.StepK(106)
	var it rq.Iterator
	vsched.Atomic(func() { it = w.q.Iterator() })
	if it == nil {
		return nil
	}
	return &wi{it: it}
}
func (w *wi) HasNext() (r bool) {
	vsched.StepK(107)
	vsched.Atomic(func() { r = w.it.HasNext() })
	return
}
func (w *wi) Next() (r interface{}) {
	vsched.StepK(108)
	vsched.Atomic(func() { r = w.it.Next() })
	return
}
func (w *wi) Remove() { vsched.StepK(109); vsched.Atomic(func() { w.it.Remove() }) }
