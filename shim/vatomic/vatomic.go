// Package vatomic mirrors the part of sync/atomic that garr uses; every
// operation yields to the vsched scheduler first and is otherwise the real one.
package vatomic

import (
	"sync/atomic"
	"unsafe"

	"go.linecorp.com/garr/vshim/vsched"
)

func LoadPointer(addr *unsafe.Pointer) unsafe.Pointer {
	vsched.At(unsafe.Pointer(addr)); vsched.StepK(vsched.KLoad)
	return atomic.LoadPointer(addr)
}
func StorePointer(addr *unsafe.Pointer, v unsafe.Pointer) {
	vsched.At(unsafe.Pointer(addr)); vsched.StepK(vsched.KStore)
	atomic.StorePointer(addr, v)
}
func CompareAndSwapPointer(addr *unsafe.Pointer, old, new unsafe.Pointer) bool {
	vsched.At(unsafe.Pointer(addr)); vsched.StepK(vsched.KCas)
	return atomic.CompareAndSwapPointer(addr, old, new)
}
func SwapPointer(addr *unsafe.Pointer, new unsafe.Pointer) unsafe.Pointer {
	vsched.At(unsafe.Pointer(addr)); vsched.StepK(vsched.KSwap)
	return atomic.SwapPointer(addr, new)
}

func LoadInt32(addr *int32) int32         { vsched.At(unsafe.Pointer(addr)); vsched.StepK(vsched.KLoad); return atomic.LoadInt32(addr) }
func StoreInt32(addr *int32, v int32)     { vsched.At(unsafe.Pointer(addr)); vsched.StepK(vsched.KStore); atomic.StoreInt32(addr, v) }
func AddInt32(addr *int32, d int32) int32 { vsched.At(unsafe.Pointer(addr)); vsched.StepK(vsched.KAdd); return atomic.AddInt32(addr, d) }
func SwapInt32(addr *int32, v int32) int32 {
	vsched.At(unsafe.Pointer(addr)); vsched.StepK(vsched.KSwap)
	return atomic.SwapInt32(addr, v)
}
func CompareAndSwapInt32(addr *int32, old, new int32) bool {
	vsched.At(unsafe.Pointer(addr)); vsched.StepK(vsched.KCas)
	return atomic.CompareAndSwapInt32(addr, old, new)
}

func LoadInt64(addr *int64) int64         { vsched.At(unsafe.Pointer(addr)); vsched.StepK(vsched.KLoad); return atomic.LoadInt64(addr) }
func StoreInt64(addr *int64, v int64)     { vsched.At(unsafe.Pointer(addr)); vsched.StepK(vsched.KStore); atomic.StoreInt64(addr, v) }
func AddInt64(addr *int64, d int64) int64 { vsched.At(unsafe.Pointer(addr)); vsched.StepK(vsched.KAdd); return atomic.AddInt64(addr, d) }
func SwapInt64(addr *int64, v int64) int64 {
	vsched.At(unsafe.Pointer(addr)); vsched.StepK(vsched.KSwap)
	return atomic.SwapInt64(addr, v)
}
func CompareAndSwapInt64(addr *int64, old, new int64) bool {
	vsched.At(unsafe.Pointer(addr)); vsched.StepK(vsched.KCas)
	return atomic.CompareAndSwapInt64(addr, old, new)
}

func LoadUint32(addr *uint32) uint32     { vsched.At(unsafe.Pointer(addr)); vsched.StepK(vsched.KLoad); return atomic.LoadUint32(addr) }
func StoreUint32(addr *uint32, v uint32) { vsched.At(unsafe.Pointer(addr)); vsched.StepK(vsched.KStore); atomic.StoreUint32(addr, v) }
func AddUint32(addr *uint32, d uint32) uint32 {
	vsched.At(unsafe.Pointer(addr)); vsched.StepK(vsched.KAdd)
	return atomic.AddUint32(addr, d)
}
func SwapUint32(addr *uint32, v uint32) uint32 {
	vsched.At(unsafe.Pointer(addr)); vsched.StepK(vsched.KSwap)
	return atomic.SwapUint32(addr, v)
}
func CompareAndSwapUint32(addr *uint32, old, new uint32) bool {
	vsched.At(unsafe.Pointer(addr)); vsched.StepK(vsched.KCas)
	return atomic.CompareAndSwapUint32(addr, old, new)
}

func LoadUint64(addr *uint64) uint64     { vsched.At(unsafe.Pointer(addr)); vsched.StepK(vsched.KLoad); return atomic.LoadUint64(addr) }
func StoreUint64(addr *uint64, v uint64) { vsched.At(unsafe.Pointer(addr)); vsched.StepK(vsched.KStore); atomic.StoreUint64(addr, v) }
func AddUint64(addr *uint64, d uint64) uint64 {
	vsched.At(unsafe.Pointer(addr)); vsched.StepK(vsched.KAdd)
	return atomic.AddUint64(addr, d)
}
func SwapUint64(addr *uint64, v uint64) uint64 {
	vsched.At(unsafe.Pointer(addr)); vsched.StepK(vsched.KSwap)
	return atomic.SwapUint64(addr, v)
}
func CompareAndSwapUint64(addr *uint64, old, new uint64) bool {
	vsched.At(unsafe.Pointer(addr)); vsched.StepK(vsched.KCas)
	return atomic.CompareAndSwapUint64(addr, old, new)
}

func LoadUintptr(addr *uintptr) uintptr { vsched.At(unsafe.Pointer(addr)); vsched.StepK(vsched.KLoad); return atomic.LoadUintptr(addr) }
func StoreUintptr(addr *uintptr, v uintptr) {
	vsched.At(unsafe.Pointer(addr)); vsched.StepK(vsched.KStore)
	atomic.StoreUintptr(addr, v)
}

// Value mirrors atomic.Value.
type Value struct{ v atomic.Value }

func (x *Value) Load() interface{}   { vsched.At(unsafe.Pointer(x)); vsched.StepK(vsched.KLoad); return x.v.Load() }
func (x *Value) Store(v interface{}) { vsched.At(unsafe.Pointer(x)); vsched.StepK(vsched.KStore); x.v.Store(v) }
func (x *Value) Swap(v interface{}) interface{} {
	vsched.At(unsafe.Pointer(x)); vsched.StepK(vsched.KSwap)
	return x.v.Swap(v)
}
func (x *Value) CompareAndSwap(old, new interface{}) bool {
	vsched.At(unsafe.Pointer(x)); vsched.StepK(vsched.KCas)
	return x.v.CompareAndSwap(old, new)
}

// The typed atomics of Go 1.19+.
type Int32 struct{ v atomic.Int32 }

func (x *Int32) Load() int32        { vsched.At(unsafe.Pointer(x)); vsched.StepK(vsched.KLoad); return x.v.Load() }
func (x *Int32) Store(v int32)      { vsched.At(unsafe.Pointer(x)); vsched.StepK(vsched.KStore); x.v.Store(v) }
func (x *Int32) Add(d int32) int32  { vsched.At(unsafe.Pointer(x)); vsched.StepK(vsched.KAdd); return x.v.Add(d) }
func (x *Int32) Swap(v int32) int32 { vsched.At(unsafe.Pointer(x)); vsched.StepK(vsched.KSwap); return x.v.Swap(v) }
func (x *Int32) CompareAndSwap(o, n int32) bool {
	vsched.At(unsafe.Pointer(x)); vsched.StepK(vsched.KCas)
	return x.v.CompareAndSwap(o, n)
}

type Int64 struct{ v atomic.Int64 }

func (x *Int64) Load() int64        { vsched.At(unsafe.Pointer(x)); vsched.StepK(vsched.KLoad); return x.v.Load() }
func (x *Int64) Store(v int64)      { vsched.At(unsafe.Pointer(x)); vsched.StepK(vsched.KStore); x.v.Store(v) }
func (x *Int64) Add(d int64) int64  { vsched.At(unsafe.Pointer(x)); vsched.StepK(vsched.KAdd); return x.v.Add(d) }
func (x *Int64) Swap(v int64) int64 { vsched.At(unsafe.Pointer(x)); vsched.StepK(vsched.KSwap); return x.v.Swap(v) }
func (x *Int64) CompareAndSwap(o, n int64) bool {
	vsched.At(unsafe.Pointer(x)); vsched.StepK(vsched.KCas)
	return x.v.CompareAndSwap(o, n)
}

type Uint32 struct{ v atomic.Uint32 }

func (x *Uint32) Load() uint32         { vsched.At(unsafe.Pointer(x)); vsched.StepK(vsched.KLoad); return x.v.Load() }
func (x *Uint32) Store(v uint32)       { vsched.At(unsafe.Pointer(x)); vsched.StepK(vsched.KStore); x.v.Store(v) }
func (x *Uint32) Add(d uint32) uint32  { vsched.At(unsafe.Pointer(x)); vsched.StepK(vsched.KAdd); return x.v.Add(d) }
func (x *Uint32) Swap(v uint32) uint32 { vsched.At(unsafe.Pointer(x)); vsched.StepK(vsched.KSwap); return x.v.Swap(v) }
func (x *Uint32) CompareAndSwap(o, n uint32) bool {
	vsched.At(unsafe.Pointer(x)); vsched.StepK(vsched.KCas)
	return x.v.CompareAndSwap(o, n)
}

type Uint64 struct{ v atomic.Uint64 }

func (x *Uint64) Load() uint64         { vsched.At(unsafe.Pointer(x)); vsched.StepK(vsched.KLoad); return x.v.Load() }
func (x *Uint64) Store(v uint64)       { vsched.At(unsafe.Pointer(x)); vsched.StepK(vsched.KStore); x.v.Store(v) }
func (x *Uint64) Add(d uint64) uint64  { vsched.At(unsafe.Pointer(x)); vsched.StepK(vsched.KAdd); return x.v.Add(d) }
func (x *Uint64) Swap(v uint64) uint64 { vsched.At(unsafe.Pointer(x)); vsched.StepK(vsched.KSwap); return x.v.Swap(v) }
func (x *Uint64) CompareAndSwap(o, n uint64) bool {
	vsched.At(unsafe.Pointer(x)); vsched.StepK(vsched.KCas)
	return x.v.CompareAndSwap(o, n)
}

type Bool struct{ v atomic.Bool }

func (x *Bool) Load() bool       { vsched.At(unsafe.Pointer(x)); vsched.StepK(vsched.KLoad); return x.v.Load() }
func (x *Bool) Store(v bool)     { vsched.At(unsafe.Pointer(x)); vsched.StepK(vsched.KStore); x.v.Store(v) }
func (x *Bool) Swap(v bool) bool { vsched.At(unsafe.Pointer(x)); vsched.StepK(vsched.KSwap); return x.v.Swap(v) }
func (x *Bool) CompareAndSwap(o, n bool) bool {
	vsched.At(unsafe.Pointer(x)); vsched.StepK(vsched.KCas)
	return x.v.CompareAndSwap(o, n)
}

type Pointer[T any] struct{ v atomic.Pointer[T] }

func (x *Pointer[T]) Load() *T     { vsched.StepK(vsched.KLoad); return x.v.Load() }
func (x *Pointer[T]) Store(v *T)   { vsched.StepK(vsched.KStore); x.v.Store(v) }
func (x *Pointer[T]) Swap(v *T) *T { vsched.StepK(vsched.KSwap); return x.v.Swap(v) }
func (x *Pointer[T]) CompareAndSwap(o, n *T) bool {
	vsched.StepK(vsched.KCas)
	return x.v.CompareAndSwap(o, n)
}
