// Package vadder stands in for go.linecorp.com/garr/adder inside the
// instrumented copy of package cbreaker: the REAL adders, each operation one
// atomic, logged access of the cooperative scheduler.
package vadder

import (
	ra "go.linecorp.com/garr/adder"
	"go.linecorp.com/garr/vshim/vsched"
)

type Type = ra.Type

const (
	JDKAdderType        = ra.JDKAdderType
	RandomCellAdderType = ra.RandomCellAdderType
	AtomicAdderType     = ra.AtomicAdderType
	MutexAdderType      = ra.MutexAdderType
)

type LongAdder interface {
	Add(x int64)
	Inc()
	Dec()
	Sum() int64
	Reset()
	SumAndReset() int64
	Store(v int64)
}

type wa struct{ a ra.LongAdder }

func NewLongAdder(t Type) LongAdder { return &wa{a: ra.NewLongAdder(t)} }
func DefaultAdder() LongAdder       { return &wa{a: ra.DefaultAdder()} }

func (w *wa) Add(x int64) { vsched.StepK(111); vsched.Atomic(func() { w.a.Add(x) }) }
func (w *wa) Inc()        { vsched.StepK(112); vsched.Atomic(func() { w.a.Inc() }) }
func (w *wa) Dec()        { vsched.StepK(113); vsched.Atomic(func() { w.a.Dec() }) }
func (w *wa) Sum() (r int64) {
	vsched.StepK(114)
	vsched.Atomic(func() { r = w.a.Sum() })
	return
}
func (w *wa) Reset() { vsched.StepK(115); vsched.Atomic(func() { w.a.Reset() }) }
func (w *wa) SumAndReset() (r int64) {
	vsched.StepK(116)
	vsched.Atomic(func() { r = w.a.SumAndReset() })
	return
}
func (w *wa) Store(v int64) { vsched.StepK(117); vsched.Atomic(func() { w.a.Store(v) }) }
