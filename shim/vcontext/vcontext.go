// Package vcontext is the cooperative stand-in for package context inside the
// instrumented copy of package workerpool: Done() is a vchan channel the
// scheduler can see, cancel is one logged access.
package vcontext

import (
	"errors"

	"go.linecorp.com/garr/vshim/vchan"
	"go.linecorp.com/garr/vshim/vsched"
)

var Canceled = errors.New("context canceled")

// DeadlineExceeded is what Err() returns for a context ended by its deadline (see WithDeadlineManual).
var DeadlineExceeded = errors.New("context deadline exceeded")

type Context interface {
	Done() *vchan.Chan[struct{}]
	Err() error
}

type CancelFunc func()

type background struct{ done *vchan.Chan[struct{}] }

func (b *background) Done() *vchan.Chan[struct{}] { return b.done }
func (b *background) Err() error                  { return nil }

var bg = &background{done: vchan.Make[struct{}](0)}

func Background() Context { return bg }
func TODO() Context       { return bg }

type cancelCtx struct {
	done     *vchan.Chan[struct{}]
	err      error
	cause    error
	children []*cancelCtx
}

func (c *cancelCtx) Done() *vchan.Chan[struct{}] { return c.done }
func (c *cancelCtx) Err() error                  { return c.err }

func (c *cancelCtx) cancel() { c.end(Canceled) }

// end finishes the context with the given error; children inherit the parent's error, as in package context.
func (c *cancelCtx) end(err error) {
	if c.err != nil {
		return
	}
	c.err = err
	c.done.ForceClose()
	for _, ch := range c.children {
		if ch.cause == nil {
			ch.cause = c.cause
		}
		ch.end(err)
	}
}

// CancelCauseFunc mirrors context.CancelCauseFunc.
type CancelCauseFunc func(cause error)

// WithCancelCause mirrors context.WithCancelCause: Err() is Canceled, Cause() the given error.
func WithCancelCause(parent Context) (Context, CancelCauseFunc) {
	ctx, _ := WithCancel(parent)
	c := ctx.(*cancelCtx)
	return c, func(cause error) {
		vsched.StepK(vsched.KCancel)
		if c.err == nil {
			c.cause = cause
		}
		c.cancel()
	}
}

// Cause mirrors context.Cause: the cause recorded when the context (or an ancestor) was cancelled with one, else Err().
func Cause(ctx Context) error {
	if c, ok := ctx.(*cancelCtx); ok && c.err != nil {
		if c.cause != nil {
			return c.cause
		}
		return c.err
	}
	return ctx.Err()
}

// WithCancel mirrors context.WithCancel; the returned cancel is one logged access.
func WithCancel(parent Context) (Context, CancelFunc) {
	c := &cancelCtx{done: vchan.Make[struct{}](0)}
	if p, ok := parent.(*cancelCtx); ok {
		if p.err != nil {
			c.end(p.err)
		} else {
			p.children = append(p.children, c)
		}
	}
	return c, func() {
		vsched.StepK(vsched.KCancel)
		c.cancel()
	}
}

// WithDeadlineManual is a context with a deadline whose expiry is an event of the scenario (wall-clock time does not
// exist in the controlled runs): expire ends it with DeadlineExceeded, as WithDeadline / WithTimeout contexts end.
func WithDeadlineManual(parent Context) (ctx Context, expire func()) {
	c := &cancelCtx{done: vchan.Make[struct{}](0)}
	if p, ok := parent.(*cancelCtx); ok {
		if p.err != nil {
			c.end(p.err)
		} else {
			p.children = append(p.children, c)
		}
	}
	return c, func() {
		vsched.StepK(vsched.KCancel)
		c.end(DeadlineExceeded)
	}
}
