// Package vcontext is the cooperative stand-in for package context inside the
// instrumented copy of package workerpool: Done() is a vchan channel the
// scheduler can see, cancel is one logged access.
package vcontext

import (
	"errors"

	"go.linecorp.com/garr/vshim/vchan"
	"go.linecorp.com/garr/vshim/vsched"
)

var Canceled = errors.New("context canceled")

type Context interface {
	Done() *vchan.Chan[struct{}]
	Err() error
}

type CancelFunc func()

type background struct{ done *vchan.Chan[struct{}] }

func (b *background) Done() *vchan.Chan[struct{}] { return b.done }
func (b *background) Err() error                  { return nil }

var bg = &background{done: vchan.Make[struct{}](0)}

func Background() Context { return bg }
func TODO() Context       { return bg }

type cancelCtx struct {
	done     *vchan.Chan[struct{}]
	err      error
	children []*cancelCtx
}

func (c *cancelCtx) Done() *vchan.Chan[struct{}] { return c.done }
func (c *cancelCtx) Err() error                  { return c.err }

func (c *cancelCtx) cancel() {
	if c.err != nil {
		return
	}
	c.err = Canceled
	c.done.ForceClose()
	for _, ch := range c.children {
		ch.cancel()
	}
}

// WithCancel mirrors context.WithCancel; the returned cancel is one logged access.
func WithCancel(parent Context) (Context, CancelFunc) {
	c := &cancelCtx{done: vchan.Make[struct{}](0)}
	if p, ok := parent.(*cancelCtx); ok {
		if p.err != nil {
			c.cancel()
		} else {
			p.children = append(p.children, c)
		}
	}
	return c, func() {
		vsched.StepK(vsched.KCancel)
		c.cancel()
	}
}
