// Package vtime is the cooperative stand-in for package time inside the
// instrumented copy of package workerpool.  Timers never fire by themselves:
// the scenario's environment operation Fire(i) expires the i-th armed timer.
// Channel semantics are those of Go >= 1.23 (go.mod says 1.23.5): after Stop
// or Reset no stale value can be received, and Stop reports true when the
// timer was armed or had fired without its value being received.
package vtime

import (
	"time"

	"go.linecorp.com/garr/vshim/vchan"
	"go.linecorp.com/garr/vshim/vsched"
)

type Duration = time.Duration
type Time = time.Time

const (
	Nanosecond  = time.Nanosecond
	Microsecond = time.Microsecond
	Millisecond = time.Millisecond
	Second      = time.Second
	Minute      = time.Minute
	Hour        = time.Hour
)

type Timer struct {
	C     *vchan.Chan[Time]
	armed bool
	D     Duration
	Arms  []Duration // every duration the timer was armed with (NewTimer / AfterFunc / Reset), in order
	f     func() // AfterFunc callback, run in its own goroutine when the timer fires
}

var timers []*Timer

// Reset forgets all timers (start of a scenario).
func ResetAll() { timers = nil }

func NewTimer(d Duration) *Timer {
	vsched.StepK(vsched.KTimerNew)
	t := &Timer{C: vchan.Make[Time](1), armed: true, D: d, Arms: []Duration{d}}
	timers = append(timers, t)
	return t
}

// AfterFunc mirrors time.AfterFunc: when the timer is fired the callback runs in a new goroutine.
func AfterFunc(d Duration, f func()) *Timer {
	vsched.StepK(vsched.KAfterFunc)
	t := &Timer{C: vchan.Make[Time](1), armed: true, D: d, f: f, Arms: []Duration{d}}
	timers = append(timers, t)
	return t
}

func (t *Timer) Stop() bool {
	vsched.StepK(vsched.KTimerStop)
	was := t.armed || t.C.Len() > 0
	t.armed = false
	t.C.Drain()
	return was
}

func (t *Timer) Reset(d Duration) bool {
	vsched.StepK(vsched.KTimerReset)
	was := t.armed || t.C.Len() > 0
	t.armed = true
	t.D = d
	t.Arms = append(t.Arms, d)
	t.C.Drain()
	return was
}

// Armed lists the armed timers in creation order.
func Armed() []*Timer {
	var r []*Timer
	for _, t := range timers {
		if t.armed {
			r = append(r, t)
		}
	}
	return r
}

// Fire expires the i-th armed timer (environment step); false if there is none.
func Fire(i int) bool {
	a := Armed()
	if i < 0 || i >= len(a) {
		return false
	}
	a[i].armed = false
	if a[i].f != nil {
		vsched.Go(a[i].f)
	} else {
		a[i].C.Put(Time{})
	}
	return true
}

// All returns every timer created in this scenario.
func All() []*Timer { return timers }

// IsArmed reports whether the timer is armed.
func (t *Timer) IsArmed() bool { return t.armed }

// NowHook, when set, is the virtual clock (the breaker driver points it at the
// scripted ticker so that the package's own SystemTicker reads scripted time).
var NowHook func() Time

func Now() Time {
	if NowHook != nil {
		return NowHook()
	}
	return time.Now()
}
func Since(t Time) Duration { return Now().Sub(t) }
func Until(t Time) Duration { return t.Sub(Now()) }
func Sleep(d Duration)      {}

// the rest of package time that code under test may reasonably reach for
type Month = time.Month
type Weekday = time.Weekday
type Location = time.Location

var (
	UTC   = time.UTC
	Local = time.Local
)

func Unix(s, n int64) Time                 { return time.Unix(s, n) }
func UnixMilli(ms int64) Time              { return time.UnixMilli(ms) }
func UnixMicro(us int64) Time              { return time.UnixMicro(us) }
func ParseDuration(s string) (Duration, error) { return time.ParseDuration(s) }
func Date(year int, month Month, day, hour, min, sec, nsec int, loc *Location) Time {
	return time.Date(year, month, day, hour, min, sec, nsec, loc)
}
