// Package vsync mirrors the part of package sync that garr's queue/adder/breaker
// packages use. Under a controlled vsched run the locks are cooperative (a
// thread that cannot acquire parks itself in the scheduler); otherwise they are
// the real ones.
package vsync

import (
	"sync"

	"go.linecorp.com/garr/vshim/vsched"
)

type Mutex struct {
	real   sync.Mutex
	locked bool
}

func (m *Mutex) Lock() {
	if vsched.Killing() {
		return // the run is over: deferred unlocks of a thread being unwound touch nothing
	}
	if !vsched.Active() {
		m.real.Lock()
		return
	}
	for {
		vsched.Yield()
		if !m.locked {
			m.locked = true
			vsched.K(vsched.KLock)
			vsched.Log()
			return
		}
		vsched.Block(m)
	}
}

func (m *Mutex) Unlock() {
	if vsched.Killing() {
		return // the run is over: deferred unlocks of a thread being unwound touch nothing
	}
	if !vsched.Active() {
		m.real.Unlock()
		return
	}
	vsched.StepK(vsched.KUnlock)
	m.locked = false
	vsched.Unblock(m)
}

func (m *Mutex) TryLock() bool {
	if vsched.Killing() {
		return true
	}
	if !vsched.Active() {
		return m.real.TryLock()
	}
	vsched.StepK(vsched.KTryLock)
	if m.locked {
		return false
	}
	m.locked = true
	return true
}

type RWMutex struct {
	real    sync.RWMutex
	writer  bool
	readers int
}

func (m *RWMutex) Lock() {
	if vsched.Killing() {
		return // the run is over: deferred unlocks of a thread being unwound touch nothing
	}
	if !vsched.Active() {
		m.real.Lock()
		return
	}
	for {
		vsched.Yield()
		if !m.writer && m.readers == 0 {
			m.writer = true
			vsched.K(vsched.KLock)
			vsched.Log()
			return
		}
		vsched.Block(m)
	}
}

func (m *RWMutex) Unlock() {
	if vsched.Killing() {
		return // the run is over: deferred unlocks of a thread being unwound touch nothing
	}
	if !vsched.Active() {
		m.real.Unlock()
		return
	}
	vsched.StepK(vsched.KUnlock)
	m.writer = false
	vsched.Unblock(m)
}

func (m *RWMutex) RLock() {
	if vsched.Killing() {
		return // the run is over: deferred unlocks of a thread being unwound touch nothing
	}
	if !vsched.Active() {
		m.real.RLock()
		return
	}
	for {
		vsched.Yield()
		if !m.writer {
			m.readers++
			vsched.K(vsched.KRLock)
			vsched.Log()
			return
		}
		vsched.Block(m)
	}
}

func (m *RWMutex) RUnlock() {
	if vsched.Killing() {
		return // the run is over: deferred unlocks of a thread being unwound touch nothing
	}
	if !vsched.Active() {
		m.real.RUnlock()
		return
	}
	vsched.StepK(vsched.KRUnlock)
	m.readers--
	vsched.Unblock(m)
}

func (m *RWMutex) RLocker() sync.Locker { return (*rlocker)(m) }

type rlocker RWMutex

func (r *rlocker) Lock()   { (*RWMutex)(r).RLock() }
func (r *rlocker) Unlock() { (*RWMutex)(r).RUnlock() }

// Types without scheduling relevance for the controlled packages are aliases.
type (
	Once   = sync.Once
	Pool   = sync.Pool
	Map    = sync.Map
	Locker = sync.Locker
	Cond   = sync.Cond
)

func NewCond(l Locker) *Cond { return sync.NewCond(l) }

// WaitGroup is a cooperative wait group: Add / Done are logged accesses, Wait
// parks the thread in the scheduler until the counter is zero.  The counter is
// kept in both modes (the pool constructor runs outside a controlled run).
type WaitGroup struct {
	n int
}

func (w *WaitGroup) Add(d int) {
	vsched.StepK(vsched.KWgAdd)
	w.n += d
	if w.n < 0 {
		panic("sync: negative WaitGroup counter")
	}
}

func (w *WaitGroup) Done() { w.Add(-1) }

func (w *WaitGroup) Wait() {
	vsched.K(vsched.KWgWait)
	vsched.WaitUntil(func() bool { return w.n == 0 })
}

// Count exposes the counter to the harness.
func (w *WaitGroup) Count() int { return w.n }
