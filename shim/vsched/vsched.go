// Package vsched is a deterministic cooperative scheduler for systematic
// concurrency testing of the garr packages. Code under test runs in an
// import-rewritten scratch copy in which sync/atomic, sync (and, for the worker
// pool, channels, context and timers) are replaced by shims; every shared
// access first calls Yield, which is the only place where control can move to
// another controlled thread. Exactly one controlled thread runs at a time, so a
// schedule (the list of choices at the scheduling points) determines the
// execution completely.
package vsched

import (
	"unsafe"
	"fmt"
	"runtime"
	"sync"
)

type thread struct {
	id      int
	wake    chan struct{}
	done    bool
	blocked interface{} // non-nil: waiting for this object (a lock)
	cond    func() bool // non-nil: parked until the predicate holds
	daemon  bool        // spawned by the code under test (go statement)
	body    func()
	kind    int           // kind of the next logged access of this thread (0 = unspecified)
	addr    unsafe.Pointer // its address, when the shim knows it
	dead    chan struct{} // closed when the goroutine has gone
}

// Choice records one scheduling decision: Opts enabled alternatives, Pick chosen.
type Choice struct{ Pick, Opts int }

var (
	mu          sync.Mutex // guards setup/teardown
	active      bool
	threads     []*thread
	pending     []func() // go statements executed outside a controlled run
	cur         *thread
	prefix      []int    // forced picks for the first scheduling points
	Trace       []Choice // decisions taken in this run
	Sched       []int    // thread id chosen at each scheduling point
	preempts    int
	MaxPreempt  = -1 // <0: unbounded
	// PreemptBefore, when set, restricts preemptions to the points right before an access of one of these kinds (mode
	// "dfsw": before CAS / Store / Add / Swap - the points where a read-modify-write loses a race); nil: everywhere
	PreemptBefore map[int]bool
	MaxSteps    = 5000
	SpinLimit   = 150 // consecutive scheduling points of one thread before a forced hand-over
	lastRun     = -1
	consecutive int
	steps       int
	Aborted     string // non-empty: run was cut (step bound, deadlock, panic)
	finished    chan struct{}
	Acc         []int // thread id of every logged (sync) access, in execution order
	AccChoice   []int // parallel to Acc: the select case taken (index among the ready ones), -1 otherwise
	AccLoc      []int // parallel to Acc: which object the access touches (numbered by first access; 0 = unknown)
	locIdx      map[unsafe.Pointer]int
	AccKind     []int // parallel to Acc: what the access is (K* constants; 0 = unspecified)
	// Picker, when set, decides the scheduling points beyond the forced prefix:
	// it gets the ids of the runnable threads (the current one first when
	// canStay) and returns an index into them.
	Picker func(canStay bool, ids []int) int
	// OnSpin, when set, is told which thread was forced to hand over (priority schedulers demote it).
	OnSpin func(id int)
	// Fine enables the statement-level scheduling points (Plain) of the hunt build.
	Fine        bool
	atomicDepth int
	// killing: the run is over and the goroutines still parked are being
	// unwound one at a time (runtime.Goexit); every scheduler entry point is a
	// no-op meanwhile, so their deferred calls cannot touch the next run.
	killing bool
)

// parkOn parks the calling thread; a thread woken up after the end of the run unwinds.
func parkOn(t *thread) {
	<-t.wake
	if killing {
		runtime.Goexit()
	}
}

// Killing reports whether the goroutines of a finished run are being unwound.
func Killing() bool { return killing }

// Active reports whether a controlled run is in progress.
func Active() bool { return active }

// Cur returns the id of the running controlled thread.
func Cur() int {
	if cur == nil {
		return -1
	}
	return cur.id
}

// NumThreads returns the number of controlled threads created so far in this run.
func NumThreads() int { return len(threads) }

// LiveDaemons returns how many spawned threads have not terminated.
func LiveDaemons() int {
	n := 0
	for _, t := range threads {
		if t.daemon && !t.done {
			n++
		}
	}
	return n
}

// Atomic runs f without scheduling points: every shim call inside it is a
// plain call (used by the wrappers that turn a whole queue / adder operation
// into one access).
func Atomic(f func()) {
	atomicDepth++
	defer func() { atomicDepth-- }()
	f()
}

// Access kinds: the replayer compares them with the kind of the model step (a
// Load swapped for a CAS, an RLock for a Lock, ... keeps the number of accesses).
const (
	KLoad, KStore, KCas, KAdd, KSwap               = 1, 2, 3, 4, 5
	KLock, KUnlock, KRLock, KRUnlock, KTryLock     = 10, 11, 12, 13, 14
	KSend, KRecv, KClose, KSelect, KChanLen        = 20, 21, 22, 23, 24
	KWgAdd, KWgWait                                = 30, 31
	KCtx, KCancel                                  = 40, 41
	KTimerNew, KTimerStop, KTimerReset, KAfterFunc = 50, 51, 52, 53
	KInvoke, KHarness, KTick, KQueueOp, KAdderOp   = 90, 91, 92, 93, 94
	KListener                                      = 95
)

// K announces the kind of the calling thread's next logged access.
func K(k int) {
	if active && atomicDepth == 0 {
		cur.kind = k
	}
}

// At announces the address of the calling thread's next logged access (vatomic shims): the replayer checks that two
// accesses touch the same object in the implementation exactly when they touch the same location in the model.
func At(p unsafe.Pointer) {
	if active && atomicDepth == 0 {
		cur.addr = p
	}
}

// StepK is K followed by Step.
func StepK(k int) {
	if !active || atomicDepth > 0 {
		return
	}
	cur.kind = k
	Step()
}

func logKind() {
	AccKind = append(AccKind, cur.kind)
	cur.kind = 0
	idx := 0
	if cur.addr != nil {
		// objects are numbered in the order they are first accessed; the map keeps them alive for the run, so that no
		// address is reused by a later allocation
		if locIdx == nil {
			locIdx = map[unsafe.Pointer]int{}
		}
		var ok bool
		if idx, ok = locIdx[cur.addr]; !ok {
			idx = len(locIdx) + 1
			locIdx[cur.addr] = idx
		}
		cur.addr = nil
	}
	AccLoc = append(AccLoc, idx)
}

// Log records one sync access of the running thread.
func Log() {
	if active && atomicDepth == 0 {
		Acc = append(Acc, cur.id)
		AccChoice = append(AccChoice, -1)
		logKind()
	}
}

// LogChoice records a select: one access together with the case taken.
func LogChoice(k int) {
	if active && atomicDepth == 0 {
		Acc = append(Acc, cur.id)
		AccChoice = append(AccChoice, k)
		logKind()
	}
}

// Step is a scheduling point followed by a logged access: called by the
// vatomic shims and by the harness at every operation invocation.
func Step() {
	if !active || atomicDepth > 0 {
		return
	}
	Yield()
	Acc = append(Acc, cur.id)
	AccChoice = append(AccChoice, -1)
	logKind()
}

// Plain is an unlogged scheduling point (statement-level instrumentation).
func Plain() {
	if active && Fine && atomicDepth == 0 {
		Yield()
	}
}

// Abort cuts the current run from inside a controlled thread.
func Abort(why string) { abort(why) }

type abortPanic struct{}

func runnable(t *thread) bool {
	return !t.done && t.blocked == nil && (t.cond == nil || t.cond())
}

// options lists runnable threads, the current one first when runnable.
func options(me *thread) []*thread {
	var opts []*thread
	if me != nil && runnable(me) {
		opts = append(opts, me)
	}
	for _, t := range threads {
		if t != me && runnable(t) {
			opts = append(opts, t)
		}
	}
	return opts
}

func decide(canStay bool, n int, ids func(i int) int) int {
	k := 0
	if len(Trace) < len(prefix) {
		k = prefix[len(Trace)]
		if k >= n {
			k = n - 1
		}
	} else if Picker != nil && n > 1 {
		l := make([]int, n)
		for i := 0; i < n; i++ {
			l[i] = ids(i)
		}
		k = Picker(canStay, l)
		if k < 0 || k >= n {
			k = 0
		}
	}
	Trace = append(Trace, Choice{k, n})
	return k
}

// pick chooses the next thread to run at a scheduling point.
func pick(me *thread) *thread {
	opts := options(me)
	if len(opts) == 0 {
		return nil
	}
	canStay := me != nil && runnable(me)
	n := len(opts)
	if canStay {
		if lastRun == me.id {
			consecutive++
		} else {
			lastRun, consecutive = me.id, 1
		}
		if consecutive > SpinLimit && n > 1 {
			// fairness: a thread that has run this long without any other thread being
			// scheduled is probably spinning on a flag another thread holds; hand over
			// (not counted as a preemption; recorded so that replays are exact).
			consecutive = 0
			if OnSpin != nil {
				OnSpin(me.id)
			}
			Trace = append(Trace, Choice{1, 2})
			Sched = append(Sched, opts[1].id)
			lastRun = opts[1].id
			return opts[1]
		}
	}
	if canStay && MaxPreempt >= 0 && preempts >= MaxPreempt {
		n = 1 // no preemption budget left: must stay
	}
	if canStay && PreemptBefore != nil && !PreemptBefore[me.kind] {
		n = 1 // directed search: the running thread is only preempted right before the listed kinds of access
	}
	k := decide(canStay, n, func(i int) int { return opts[i].id })
	if canStay && k != 0 {
		preempts++
	}
	Sched = append(Sched, opts[k].id)
	if opts[k].id != lastRun {
		lastRun, consecutive = opts[k].id, 0
	}
	return opts[k]
}

// Choose is a recorded, enumerable non-deterministic choice among n alternatives
// (which ready case a select takes).
func Choose(n int) int {
	if !active || n <= 1 {
		return 0
	}
	return decide(false, n, func(i int) int { return i })
}

func switchTo(me, next *thread) {
	if next == me {
		return
	}
	cur = next
	next.wake <- struct{}{}
	if me != nil && !me.done {
		parkOn(me)
	}
}

// Yield is called by the shims immediately before every shared access.
func Yield() {
	if !active || atomicDepth > 0 {
		return
	}
	me := cur
	steps++
	if steps > MaxSteps {
		abort("step bound exceeded (possible livelock or non-termination)")
	}
	next := pick(me)
	switchTo(me, next)
}

// abort cuts the run: the current thread unwinds, the others stay parked (leaked).
func abort(why string) {
	if Aborted == "" {
		Aborted = why
	}
	panic(abortPanic{})
}

// nobody can run: either the scenario is over (every client thread returned;
// spawned threads may stay parked, e.g. idle workers) or it is a deadlock.
func stuck(me *thread) {
	for _, o := range threads {
		if !o.done && !o.daemon {
			what := "a lock"
			if o.cond != nil {
				what = "a channel / wait-group / gate condition"
			}
			abort(fmt.Sprintf("deadlock: client thread %d is blocked forever on %s", o.id, what))
		}
	}
	closeFinished()
	if me != nil && !me.done {
		parkOn(me) // parked until the run is torn down
	}
}

// Block parks the current thread until Unblock(obj); used by the lock shims.
func Block(obj interface{}) {
	if killing {
		return
	}
	me := cur
	me.blocked = obj
	next := pick(me)
	if next == nil {
		stuck(me)
		return
	}
	switchTo(me, next)
}

// Unblock makes every thread waiting for obj runnable again.
func Unblock(obj interface{}) {
	for _, t := range threads {
		if t.blocked == obj {
			t.blocked = nil
		}
	}
}

// WaitUntilQuiet blocks the running thread until cond holds; on return cond is
// true and no other thread has run since it was evaluated (the caller performs
// its action atomically and logs it itself).
func WaitUntilQuiet(cond func() bool) {
	if killing {
		return
	}
	if !active || atomicDepth > 0 {
		if !cond() {
			panic("vsched: operation would block outside a controlled run")
		}
		return
	}
	me := cur
	for {
		Yield()
		if cond() {
			return
		}
		me.cond = cond
		next := pick(me)
		if next == nil {
			stuck(me)
		} else {
			switchTo(me, next)
		}
		me.cond = nil
	}
}

// WaitUntil is WaitUntilQuiet followed by a logged access.
func WaitUntil(cond func() bool) {
	WaitUntilQuiet(cond)
	Log()
}

func closeFinished() {
	select {
	case <-finished:
	default:
		close(finished)
	}
}

func launch(t *thread) {
	t.dead = make(chan struct{})
	go func() {
		defer close(t.dead)
		<-t.wake
		if killing {
			return
		}
		defer func() {
			if killing {
				recover()
				t.done = true
				return
			}
			if r := recover(); r != nil {
				if _, ok := r.(abortPanic); !ok && Aborted == "" {
					Aborted = fmt.Sprintf("panic in thread %d: %v", t.id, r)
				}
			}
			t.done = true
			if Aborted != "" {
				closeFinished()
				return
			}
			next := pick(nil)
			if next == nil {
				defer func() {
					if r := recover(); r != nil {
						closeFinished()
					}
				}()
				stuck(nil)
				return
			}
			cur = next
			next.wake <- struct{}{}
		}()
		t.body()
	}()
}

// Go is the `go` statement of the code under test: a new controlled (daemon)
// thread; outside a controlled run the body is kept until the next Run starts.
func Go(f func()) {
	if killing {
		return
	}
	if !active {
		pending = append(pending, f)
		return
	}
	t := &thread{id: len(threads), wake: make(chan struct{}, 1), daemon: true, body: f}
	threads = append(threads, t)
	launch(t)
}

// Run executes the given thread bodies (plus the threads spawned before the run)
// under the schedule prefix (remaining choices default to "stay on the current
// thread, else lowest id"). It returns the decisions taken.
func Run(bodies []func(), forced []int) []Choice {
	mu.Lock()
	defer mu.Unlock()
	threads = nil
	prefix, Trace, Sched, preempts, steps, Aborted, Acc, AccChoice = forced, nil, nil, 0, 0, "", nil, nil
	AccKind = nil
	AccLoc, locIdx = nil, nil
	lastRun, consecutive = -1, 0
	finished = make(chan struct{})
	for _, body := range bodies {
		threads = append(threads, &thread{id: len(threads), wake: make(chan struct{}, 1), body: body})
	}
	for _, body := range pending {
		threads = append(threads, &thread{id: len(threads), wake: make(chan struct{}, 1), body: body, daemon: true})
	}
	pending = nil
	for _, t := range threads {
		launch(t)
	}
	active = true
	first := pick(nil)
	cur = first
	first.wake <- struct{}{}
	<-finished
	active = false
	return Trace
}

// Reap unwinds, one at a time, every goroutine of the finished run that is
// still parked (blocked threads, idle workers, threads cut by an abort), so
// that long explorations do not accumulate goroutines. The driver calls it once
// it has read everything it reports about the finished run (their deferred
// calls still change the state of the objects under test).
func Reap() {
	mu.Lock()
	defer mu.Unlock()
	killing = true
	saved := Aborted
	for i := 0; i < len(threads); i++ {
		t := threads[i]
		select {
		case <-t.dead:
			continue
		default:
		}
		if !t.done {
			select {
			case t.wake <- struct{}{}:
			default:
			}
		}
		<-t.dead
	}
	Aborted = saved
	killing = false
}

// DropPending forgets go statements executed outside a run (scenario set-up that is discarded).
func DropPending() { pending = nil }

// NextPrefix returns the next schedule prefix in depth-first order, or nil when exhausted.
func NextPrefix(tr []Choice) []int {
	for i := len(tr) - 1; i >= 0; i-- {
		if tr[i].Pick+1 < tr[i].Opts {
			p := make([]int, i+1)
			for j := 0; j < i; j++ {
				p[j] = tr[j].Pick
			}
			p[i] = tr[i].Pick + 1
			return p
		}
	}
	return nil
}
