// Package vsched is a deterministic cooperative scheduler for systematic
// concurrency testing of the garr packages. Code under test runs in an
// import-rewritten scratch copy in which sync/atomic and sync are replaced by
// the vatomic / vsync shims; every shared access first calls Yield, which is
// the only place where control can move to another controlled thread. Exactly
// one controlled thread runs at a time, so a schedule (the list of choices at
// the yield points) determines the execution completely.
package vsched

import (
	"fmt"
	"sync"
)

type thread struct {
	id      int
	wake    chan struct{}
	done    bool
	blocked interface{} // non-nil: waiting for this object (a lock)
	started bool
}

// Choice records one scheduling decision: Opts enabled alternatives, Pick chosen.
type Choice struct{ Pick, Opts int }

var (
	mu          sync.Mutex // protects nothing at run time (one thread runs); guards setup/teardown
	active      bool
	threads     []*thread
	cur         *thread
	prefix      []int    // forced picks for the first scheduling points
	Trace       []Choice // decisions taken in this run
	Sched       []int    // thread id chosen at each scheduling point
	preempts    int
	MaxPreempt  = -1 // <0: unbounded
	MaxSteps    = 5000
	SpinLimit   = 150 // consecutive scheduling points of one thread before a forced hand-over
	lastRun     = -1
	consecutive int
	steps       int
	Aborted     string // non-empty: run was cut (step bound, deadlock)
	finished    chan struct{}
	Acc         []int // thread id of every logged (sync) access, in execution order
	// Picker, when set, decides the scheduling points beyond the forced prefix:
	// it gets the ids of the runnable threads (the current one first when
	// canStay) and returns an index into them.
	Picker func(canStay bool, ids []int) int
	// Fine enables the statement-level scheduling points (Plain) of the hunt build.
	Fine bool
)

// Cur returns the id of the running controlled thread.
func Cur() int {
	if cur == nil {
		return -1
	}
	return cur.id
}

var atomicDepth int

// Atomic runs f without scheduling points: every shim call inside it is a
// plain call (used by the wrappers that turn a whole queue / adder operation
// into one access).
func Atomic(f func()) {
	atomicDepth++
	defer func() { atomicDepth-- }()
	f()
}

// Log records one sync access of the running thread.
func Log() {
	if active && atomicDepth == 0 {
		Acc = append(Acc, cur.id)
	}
}

// Step is a scheduling point followed by a logged access: called by the
// vatomic shims and by the harness at every operation invocation.
func Step() {
	if !active || atomicDepth > 0 {
		return
	}
	Yield()
	Acc = append(Acc, cur.id)
}

// Plain is an unlogged scheduling point (statement-level instrumentation).
func Plain() {
	if active && Fine && atomicDepth == 0 {
		Yield()
	}
}

// Abort cuts the current run from inside a controlled thread.
func Abort(why string) { abort(why) }

// Active reports whether a controlled run is in progress.
func Active() bool { return active }

type abortPanic struct{}

// enabledExcept lists runnable threads, the current one first when runnable.
func options(me *thread) []*thread {
	var opts []*thread
	if me != nil && !me.done && me.blocked == nil {
		opts = append(opts, me)
	}
	for _, t := range threads {
		if t != me && !t.done && t.blocked == nil {
			opts = append(opts, t)
		}
	}
	return opts
}

// pick chooses the next thread to run at a scheduling point.
func pick(me *thread) *thread {
	opts := options(me)
	if len(opts) == 0 {
		return nil
	}
	canStay := me != nil && !me.done && me.blocked == nil
	n := len(opts)
	if canStay {
		if lastRun == me.id {
			consecutive++
		} else {
			lastRun, consecutive = me.id, 1
		}
		if consecutive > SpinLimit && n > 1 {
			// fairness: a thread that has run this long without any other thread being
			// scheduled is probably spinning on a flag another thread holds; hand over
			// (not counted as a preemption; recorded so that replays are exact).
			consecutive = 0
			Trace = append(Trace, Choice{1, 2})
			Sched = append(Sched, opts[1].id)
			lastRun = opts[1].id
			return opts[1]
		}
	}
	if canStay && MaxPreempt >= 0 && preempts >= MaxPreempt {
		n = 1 // no preemption budget left: must stay
	}
	k := 0
	if len(Trace) < len(prefix) {
		k = prefix[len(Trace)]
		if k >= n {
			k = n - 1
		}
	} else if Picker != nil && n > 1 {
		ids := make([]int, n)
		for i := 0; i < n; i++ {
			ids[i] = opts[i].id
		}
		k = Picker(canStay, ids)
		if k < 0 || k >= n {
			k = 0
		}
	}
	Trace = append(Trace, Choice{k, n})
	if canStay && k != 0 {
		preempts++
	}
	Sched = append(Sched, opts[k].id)
	if opts[k].id != lastRun {
		lastRun, consecutive = opts[k].id, 0
	}
	return opts[k]
}

func switchTo(me, next *thread) {
	if next == me {
		return
	}
	cur = next
	next.wake <- struct{}{}
	if me != nil && !me.done {
		<-me.wake
	}
}

// Yield is called by the shims immediately before every shared access.
func Yield() {
	if !active || atomicDepth > 0 {
		return
	}
	me := cur
	steps++
	if steps > MaxSteps {
		abort("step bound exceeded (possible livelock or non-termination)")
	}
	next := pick(me)
	switchTo(me, next)
}

// abort cuts the run: the current thread unwinds, the others stay parked (leaked).
func abort(why string) {
	if Aborted == "" {
		Aborted = why
	}
	panic(abortPanic{})
}

// Block parks the current thread until Unblock(obj); used by the lock shims.
func Block(obj interface{}) {
	me := cur
	me.blocked = obj
	next := pick(me)
	if next == nil {
		abort(fmt.Sprintf("deadlock: every thread is blocked (thread %d on %T)", me.id, obj))
	}
	switchTo(me, next)
}

// Unblock makes every thread waiting for obj runnable again.
func Unblock(obj interface{}) {
	for _, t := range threads {
		if t.blocked == obj {
			t.blocked = nil
		}
	}
}

func closeFinished() {
	select {
	case <-finished:
	default:
		close(finished)
	}
}

// Run executes the given thread bodies under the schedule prefix (remaining
// choices default to "stay on the current thread, else lowest id").
// It returns the decisions taken.
func Run(bodies []func(), forced []int) []Choice {
	mu.Lock()
	defer mu.Unlock()
	threads = nil
	prefix, Trace, Sched, preempts, steps, Aborted, Acc = forced, nil, nil, 0, 0, "", nil
	lastRun, consecutive = -1, 0
	finished = make(chan struct{})
	for i := range bodies {
		threads = append(threads, &thread{id: i, wake: make(chan struct{}, 1)})
	}
	for i, body := range bodies {
		t, body := threads[i], body
		go func() {
			<-t.wake
			t.started = true
			defer func() {
				if r := recover(); r != nil {
					if _, ok := r.(abortPanic); !ok && Aborted == "" {
						Aborted = fmt.Sprintf("panic in thread %d: %v", t.id, r)
					}
				}
				t.done = true
				if Aborted != "" {
					closeFinished()
					return
				}
				next := pick(nil)
				if next == nil {
					for _, o := range threads {
						if !o.done {
							Aborted = fmt.Sprintf("deadlock: thread %d is blocked forever", o.id)
						}
					}
					closeFinished()
					return
				}
				cur = next
				next.wake <- struct{}{}
			}()
			body()
		}()
	}
	active = true
	first := pick(nil)
	cur = first
	first.wake <- struct{}{}
	<-finished
	active = false
	return Trace
}

// NextPrefix returns the next schedule prefix in depth-first order, or nil when exhausted.
func NextPrefix(tr []Choice) []int {
	for i := len(tr) - 1; i >= 0; i-- {
		if tr[i].Pick+1 < tr[i].Opts {
			p := make([]int, i+1)
			for j := 0; j < i; j++ {
				p[j] = tr[j].Pick
			}
			p[i] = tr[i].Pick + 1
			return p
		}
	}
	return nil
}
