// Package vdrv is the component-independent part of the controlled-schedule
// drivers: scenario parsing, schedule exploration (exhaustive DFS with a
// preemption bound, seeded random, solo-from-a-reachable-state, exact replay)
// and the run log consumed by the extracted Coq model (OCaml replayer).
//
// Scenario text format (one scenario = a block of lines, fed on stdin):
//
//	SCN <id> <kind> [key=value ...]
//	P <v> <v> ...                 prefill / setup arguments (component-specific)
//	T <op> <op> ...               one line per thread; op = <letters>[<int>[,<int>...]]
//	MODE dfs <preempt> <max> | rand <n> <seed> | solo <n> <seed> | replay <c> <c> ...
//	GO
//
// Output, per executed schedule:
//
//	RUN <id> <n>
//	S <tid> ...                   thread id of every logged access, in order
//	C <choice> ...                scheduler choices (for exact replay)
//	H i<t>.<k> r<t>.<k>=<res> ... invocation / response events in order
//	F <final-state digest>
//	A <abort reason>              only if the run was cut
//	V <violation>                 only if a property monitor failed on this run
//	END
package vdrv

import (
	"bufio"
	"fmt"
	"math/rand"
	"os"
	"strconv"
	"strings"

	"go.linecorp.com/garr/vshim/vsched"
)

type Op struct {
	Name string
	Args []int64
}

func (o Op) Arg(i int) int64 {
	if i < len(o.Args) {
		return o.Args[i]
	}
	return 0
}

func (o Op) String() string {
	s := o.Name
	for i, a := range o.Args {
		if i > 0 {
			s += ","
		}
		s += strconv.FormatInt(a, 10)
	}
	return s
}

type Scenario struct {
	ID      string
	Kind    string
	Opts    map[string]string
	Prefill []int64
	Threads [][]Op
	Mode    []string
}

// Op returns the k-th real operation of thread t (phase separators skipped).
func (s *Scenario) Op(t, k int) Op {
	for _, o := range s.Threads[t] {
		if o.Name == "/" {
			continue
		}
		if k == 0 {
			return o
		}
		k--
	}
	return Op{}
}

func (s *Scenario) OptInt(k string, def int) int {
	if v, ok := s.Opts[k]; ok {
		n, err := strconv.Atoi(v)
		if err == nil {
			return n
		}
	}
	return def
}

// Event is one invocation or response in a history.
type Event struct {
	Ret    bool
	T, K   int
	Res    string
	Time   int // number of logged accesses executed before this event
	Aborts bool
}

type History struct {
	Events []Event
}

// Instance is one fresh object under test.
type Instance interface {
	Exec(t int, op Op) string // run one operation, return its canonical result
	Final() string            // state digest, computed after the run (uncontrolled)
}

type Component struct {
	New     func(s *Scenario) Instance
	Monitor func(s *Scenario, h *History, final string, aborted string) string
	// SoloBound returns the maximal number of own accesses an operation may
	// need when it runs alone (C07-style monitor); 0 = no bound checked.
	SoloBound func(s *Scenario) int
}

func ParseOp(tok string) Op {
	i := 0
	for i < len(tok) && (tok[i] < '0' || tok[i] > '9') && tok[i] != '-' {
		i++
	}
	op := Op{Name: tok[:i]}
	if i < len(tok) {
		for _, a := range strings.Split(tok[i:], ",") {
			n, _ := strconv.ParseInt(a, 10, 64)
			op.Args = append(op.Args, n)
		}
	}
	return op
}

var out = bufio.NewWriterSize(os.Stdout, 1<<20)

// Main reads scenarios from stdin and explores each.
func Main(comps map[string]Component) {
	defer out.Flush()
	in := bufio.NewScanner(os.Stdin)
	in.Buffer(make([]byte, 1<<20), 1<<26)
	var s *Scenario
	for in.Scan() {
		f := strings.Fields(in.Text())
		if len(f) == 0 {
			continue
		}
		switch f[0] {
		case "SCN":
			s = &Scenario{ID: f[1], Kind: f[2], Opts: map[string]string{}}
			for _, kv := range f[3:] {
				if i := strings.IndexByte(kv, '='); i > 0 {
					s.Opts[kv[:i]] = kv[i+1:]
				}
			}
		case "P":
			for _, v := range f[1:] {
				n, _ := strconv.ParseInt(v, 10, 64)
				s.Prefill = append(s.Prefill, n)
			}
		case "T":
			var ops []Op
			for _, t := range f[1:] {
				ops = append(ops, ParseOp(t))
			}
			s.Threads = append(s.Threads, ops)
		case "MODE":
			s.Mode = f[1:]
		case "GO":
			c, ok := comps[s.Kind]
			if !ok {
				fmt.Fprintf(out, "ERROR unknown kind %s\n", s.Kind)
				continue
			}
			explore(s, c)
			out.Flush()
		}
	}
}

func atoi(s string) int { n, _ := strconv.Atoi(s); return n }

func explore(s *Scenario, c Component) {
	fmt.Fprintf(out, "SCN %s %s", s.ID, s.Kind)
	for k, v := range s.Opts {
		fmt.Fprintf(out, " %s=%s", k, v)
	}
	fmt.Fprintf(out, "\nP")
	for _, v := range s.Prefill {
		fmt.Fprintf(out, " %d", v)
	}
	fmt.Fprintln(out)
	for _, th := range s.Threads {
		fmt.Fprintf(out, "T")
		for _, o := range th {
			fmt.Fprintf(out, " %s", o)
		}
		fmt.Fprintln(out)
	}
	fmt.Fprintln(out, "GO")
	vsched.MaxSteps = s.OptInt("maxsteps", 4000)
	vsched.Fine = s.OptInt("fine", 0) != 0
	n := 0
	switch s.Mode[0] {
	case "dfs", "dfsw":
		if s.Mode[0] == "dfsw" {
			vsched.PreemptBefore = map[int]bool{vsched.KCas: true, vsched.KStore: true, vsched.KAdd: true, vsched.KSwap: true}
			defer func() { vsched.PreemptBefore = nil }()
		}
		vsched.MaxPreempt = atoi(s.Mode[1])
		max := atoi(s.Mode[2])
		vsched.Picker = nil
		var prefix []int
		truncated := false
		for {
			tr := runOnce(s, c, n, prefix, -1)
			n++
			prefix = vsched.NextPrefix(tr)
			if prefix == nil {
				break
			}
			if n >= max {
				truncated = true
				break
			}
		}
		fmt.Fprintf(out, "DONE %s runs=%d exhaustive=%v\n", s.ID, n, !truncated)
	case "rand":
		cnt, seed := atoi(s.Mode[1]), int64(atoi(s.Mode[2]))
		vsched.MaxPreempt = -1
		rng := rand.New(rand.NewSource(seed))
		for ; n < cnt; n++ {
			stay := 0.3 + 0.6*rng.Float64()
			vsched.Picker = func(canStay bool, ids []int) int {
				if canStay && rng.Float64() < stay {
					return 0
				}
				return rng.Intn(len(ids))
			}
			runOnce(s, c, n, nil, -1)
		}
		vsched.Picker = nil
		fmt.Fprintf(out, "DONE %s runs=%d exhaustive=false\n", s.ID, n)
	case "pct":
		// priority-based random schedules (PCT): every thread gets a random priority, the highest-priority
		// runnable thread runs; at d random points the running thread drops to the lowest priority.
		// Unlike uniform random choices this freezes some threads for long stretches.
		cnt, seed, depth := atoi(s.Mode[1]), int64(atoi(s.Mode[2])), atoi(s.Mode[3])
		vsched.MaxPreempt = -1
		rng := rand.New(rand.NewSource(seed))
		for ; n < cnt; n++ {
			prio := map[int]int{}
			low := 0
			change := map[int]bool{}
			for i := 0; i < depth; i++ {
				change[rng.Intn(60+20*len(s.Threads))] = true
			}
			point := 0
			vsched.OnSpin = func(id int) { low--; prio[id] = low }
			vsched.Picker = func(canStay bool, ids []int) int {
				point++
				best, bi := -1<<30, 0
				for i, id := range ids {
					if _, ok := prio[id]; !ok {
						prio[id] = 1000 + rng.Intn(1000)
					}
					if prio[id] > best {
						best, bi = prio[id], i
					}
				}
				if change[point] {
					low--
					prio[ids[bi]] = low
				}
				return bi
			}
			runOnce(s, c, n, nil, -1)
		}
		vsched.Picker = nil
		vsched.OnSpin = nil
		fmt.Fprintf(out, "DONE %s runs=%d exhaustive=false\n", s.ID, n)
	case "freeze":
		// one thread is suspended for good after k of its own accesses (every k, every thread); the others,
		// randomly interleaved, must still finish all their operations: a stalled goroutine blocks nobody.
		reps, seed := atoi(s.Mode[1]), int64(atoi(s.Mode[2]))
		vsched.MaxPreempt = -1
		rng := rand.New(rand.NewSource(seed))
		// no fairness hand-over here: a thread that spins waiting for the suspended one must run into the step bound
		spin := vsched.SpinLimit
		vsched.SpinLimit = 1 << 30
		defer func() { vsched.SpinLimit = spin }()
		// calibration run: how many accesses each thread makes when nobody is frozen
		vsched.Picker = nil
		runOnce(s, c, n, nil, -1)
		n++
		per := make([]int, len(s.Threads))
		for _, id := range vsched.Acc {
			if id < len(per) {
				per[id]++
			}
		}
		for f := range s.Threads {
			for k := 0; k <= per[f]+2; k++ {
				for r := 0; r < reps; r++ {
					stay := 0.3 + 0.6*rng.Float64()
					f, k := f, k
					vsched.Picker = func(canStay bool, ids []int) int {
						done := 0
						for _, id := range vsched.Acc {
							if id == f {
								done++
							}
						}
						var allowed []int
						for i, id := range ids {
							if id != f || done < k {
								allowed = append(allowed, i)
							}
						}
						if len(allowed) == 0 {
							vsched.Abort("solo-done") // only the frozen thread is left: everybody else has finished
						}
						if canStay && allowed[0] == 0 && rng.Float64() < stay {
							return 0
						}
						return allowed[rng.Intn(len(allowed))]
					}
					runOnce(s, c, n, nil, -1)
					n++
				}
			}
		}
		vsched.Picker = nil
		fmt.Fprintf(out, "DONE %s runs=%d exhaustive=false\n", s.ID, n)
	case "solo":
		// random prefix, then one thread runs alone until its current
		// operation returns; every other thread stays frozen forever.
		cnt, seed := atoi(s.Mode[1]), int64(atoi(s.Mode[2]))
		vsched.MaxPreempt = -1
		rng := rand.New(rand.NewSource(seed))
		total := 0
		for _, th := range s.Threads {
			total += len(th)
		}
		for ; n < cnt; n++ {
			cut := rng.Intn(total*12 + 4)
			target := rng.Intn(len(s.Threads))
			stay := 0.3 + 0.6*rng.Float64()
			vsched.Picker = func(canStay bool, ids []int) int {
				if len(vsched.Acc) >= cut {
					for i, id := range ids {
						if id == target {
							return i
						}
					}
					return 0
				}
				if canStay && rng.Float64() < stay {
					return 0
				}
				return rng.Intn(len(ids))
			}
			soloCut, soloTarget = cut, target
			runOnce(s, c, n, nil, cut)
		}
		vsched.Picker = nil
		soloCut = -1
		fmt.Fprintf(out, "DONE %s runs=%d exhaustive=false\n", s.ID, n)
	case "replay":
		var prefix []int
		for _, x := range s.Mode[1:] {
			prefix = append(prefix, atoi(x))
		}
		vsched.MaxPreempt = -1
		vsched.Picker = nil
		runOnce(s, c, 0, prefix, -1)
		fmt.Fprintf(out, "DONE %s runs=1 exhaustive=false\n", s.ID)
	}
}

var (
	soloCut    = -1
	soloTarget = 0
)

func runOnce(s *Scenario, c Component, n int, prefix []int, cut int) []vsched.Choice {
	inst := c.New(s)
	h := &History{}
	bodies := make([]func(), len(s.Threads))
	soloViolation := ""
	bound := 0
	if c.SoloBound != nil {
		bound = c.SoloBound(s)
	}
	// phases: a "/" token in a thread's op list is a phase separator; no thread starts
	// an operation of phase p+1 before every thread has finished its phase-p operations
	// (a pure scheduling restriction: nothing is logged, the model sees nothing).
	phase, phaseObj := 0, new(int)
	remaining := map[int]int{}
	for _, th := range s.Threads {
		p := 0
		for _, op := range th {
			if op.Name == "/" {
				p++
			} else {
				remaining[p]++
			}
		}
	}
	for remaining[phase] == 0 && len(remaining) > 0 && phase < 64 {
		phase++
	}
	for t := range s.Threads {
		t := t
		bodies[t] = func() {
			myPhase, k := 0, -1
			for _, op := range s.Threads[t] {
				if op.Name == "/" {
					myPhase++
					continue
				}
				k++
				for phase < myPhase {
					vsched.Block(phaseObj)
				}
				defer0 := func() {
					remaining[myPhase]--
					for remaining[phase] == 0 && phase < 64 {
						phase++
						vsched.Unblock(phaseObj)
					}
				}
				vsched.StepK(vsched.KInvoke) // invocation: a scheduling point and a logged access
				start := len(vsched.Acc)
				h.Events = append(h.Events, Event{T: t, K: k, Time: start})
				res := inst.Exec(t, op)
				h.Events = append(h.Events, Event{Ret: true, T: t, K: k, Res: res, Time: len(vsched.Acc)})
				defer0()
				if cut >= 0 && t == soloTarget && len(vsched.Acc) >= cut {
					// the solo operation has returned: stop the run here
					own := 0
					for _, id := range vsched.Acc[min(cut, len(vsched.Acc)):] {
						if id == t {
							own++
						}
					}
					if bound > 0 && own > bound {
						soloViolation = fmt.Sprintf("solo-bound: thread %d op %s needed %d own steps running alone (bound %d)", t, op, own, bound)
					}
					vsched.Abort("solo-done")
				}
			}
		}
	}
	tr := vsched.Run(bodies, prefix)
	fmt.Fprintf(out, "RUN %s %d\nS", s.ID, n)
	for i, t := range vsched.Acc {
		if vsched.AccChoice[i] >= 0 {
			fmt.Fprintf(out, " %d:%d", t, vsched.AccChoice[i])
		} else {
			fmt.Fprintf(out, " %d", t)
		}
	}
	fmt.Fprintf(out, "\nK")
	for _, k := range vsched.AccKind {
		fmt.Fprintf(out, " %d", k)
	}
	fmt.Fprintf(out, "\nL")
	for _, k := range vsched.AccLoc {
		fmt.Fprintf(out, " %d", k)
	}
	fmt.Fprintf(out, "\nC")
	for _, ch := range tr {
		fmt.Fprintf(out, " %d", ch.Pick)
	}
	fmt.Fprintf(out, "\nH")
	for _, e := range h.Events {
		if e.Ret {
			fmt.Fprintf(out, " r%d.%d=%s", e.T, e.K, e.Res)
		} else {
			fmt.Fprintf(out, " i%d.%d", e.T, e.K)
		}
	}
	fmt.Fprintln(out)
	aborted := vsched.Aborted
	final := ""
	if aborted == "solo-done" {
		aborted = ""
		fmt.Fprintf(out, "A solo-done\n")
	} else if aborted != "" {
		fmt.Fprintf(out, "A %s\n", aborted)
	} else {
		final = inst.Final()
		fmt.Fprintf(out, "F %s\n", final)
	}
	v := soloViolation
	if v == "" && cut >= 0 && aborted != "" {
		v = "solo run did not finish: " + aborted
	}
	if v == "" && c.Monitor != nil && vsched.Aborted != "solo-done" {
		v = c.Monitor(s, h, final, aborted)
	}
	if v != "" {
		fmt.Fprintf(out, "V %s\n", strings.ReplaceAll(v, "\n", " | "))
	}
	fmt.Fprintln(out, "END")
	vsched.Reap()
	return tr
}
