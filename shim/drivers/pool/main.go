// Controlled-schedule driver for package workerpool (channel / select / go /
// context / timer constructs rewritten to the cooperative runtime by
// tools/chanrw).  Options: workers=<n> limit=<expandable limit> autostart=0|1.
// Ops:  D<task>[,<ctx>[,<gate>]] Do      T... TryDo      E<task>[,<gate>] Execute
//
//	Y<task>[,<gate>] TryExecute      X Stop   S Start   C<k> cancel user context k
//	G<g> open gate g   F<i> fire the i-th armed timer   R<task> wait for the result
//	r<task> poll the result.
//
// ctx 0 = nil (the pool's context), k >= 1 = user context k.  A gated task's
// executor waits until its gate is open.  Results: u, b0/b1, v<task>, ec, n.
package main

import (
	"runtime"
	"fmt"
	"sort"
	"strings"

	"go.linecorp.com/garr/vshim/vchan"
	"go.linecorp.com/garr/vshim/vcontext"
	"go.linecorp.com/garr/vshim/vdrv"
	"go.linecorp.com/garr/vshim/vsched"
	"go.linecorp.com/garr/vshim/vtime"
	wp "go.linecorp.com/garr/worker-pool"
)

type taskInfo struct {
	id        int
	task      *wp.Task
	begins    []int // access-log time of every executor entry
	ends      []int
	ctxSeen   []int // which context the executor was handed: 0 pool, k user, -1 unknown
	received  []string
	ctxid     int
	nilexec   bool // submitted WITHOUT an executor (legal): accepted, never "executed", one {nil, nil} result
	submitted bool
	queued    bool    // the submission call returned (accepted) with no result present yet: the task sits in the queue
	errs      []error // the errors of the results received
}

type ev struct {
	kind string // begin end
	task int
	time int
}

type inst struct {
	started  bool // the pool was started (auto-start, or a Start call was issued)
	p        *wp.Pool
	poolCtx  vcontext.Context
	ctxs     map[int]vcontext.Context
	cancels  map[int]vcontext.CancelFunc
	gates    map[int]bool
	tasks    map[int]*taskInfo
	running  int
	maxRun   int
	workers  int
	limit    int
	stopInfo []string // snapshot at each Stop return
}

func (in *inst) info(id int) *taskInfo {
	t := in.tasks[id]
	if t == nil {
		t = &taskInfo{id: id}
		in.tasks[id] = t
	}
	return t
}

func (in *inst) executor(id, gate int) func(vcontext.Context) (interface{}, error) {
	return func(ctx vcontext.Context) (interface{}, error) {
		vsched.Step() // begin
		ti := in.info(id)
		ti.begins = append(ti.begins, len(vsched.Acc))
		seen := -1
		if ctx == in.poolCtx {
			seen = 0
		}
		for k, c := range in.ctxs {
			if c == ctx {
				seen = k
			}
		}
		ti.ctxSeen = append(ti.ctxSeen, seen)
		in.running++
		if in.running > in.maxRun {
			in.maxRun = in.running
		}
		if gate > 0 {
			vsched.WaitUntil(func() bool { return in.gates[gate] })
		}
		vsched.Step() // end
		in.running--
		ti.ends = append(ti.ends, len(vsched.Acc))
		return int64(id), nil
	}
}

var errCause = fmt.Errorf("application is shutting down")

// resString: "ec" = the error of a context that has ended - the task's own or the pool's (Canceled for a cancelled
// one, DeadlineExceeded for one that ran into its deadline); any other error value is reported as such.
func resString(r *wp.TaskResult) string { return current.resString(-1, r) }

func (in *inst) resString(id int, r *wp.TaskResult) string {
	if r == nil {
		return "nilresult"
	}
	if r.Err != nil {
		ok := in.poolCtx != nil && in.poolCtx.Err() == r.Err
		if ti := in.tasks[id]; ti != nil && ti.ctxid > 0 && in.ctxs[ti.ctxid].Err() == r.Err {
			ok = true
		}
		if id < 0 && (r.Err == vcontext.Canceled || r.Err == vcontext.DeadlineExceeded) {
			ok = true
		}
		if ok {
			return "ec"
		}
		return fmt.Sprintf("e?(%v)", r.Err)
	}
	if v, ok := r.Result.(int64); ok {
		return fmt.Sprintf("v%d", v)
	}
	if ti := in.tasks[id]; ti != nil && ti.nilexec && r.Result == nil {
		return "vnil"
	}
	return "v?"
}

func (in *inst) Exec(t int, op vdrv.Op) string {
	id := int(op.Arg(0))
	switch op.Name {
	case "D", "T":
		ti := in.info(id)
		ti.ctxid = int(op.Arg(1))
		var ctx vcontext.Context
		if ti.ctxid > 0 {
			ctx = in.ctxs[ti.ctxid]
		}
		if op.Arg(2) == 99 {
			ti.nilexec = true
			ti.task = wp.NewTask(ctx, nil)
		} else {
			ti.task = wp.NewTask(ctx, in.executor(id, int(op.Arg(2))))
		}
		ti.submitted = true
		if op.Name == "D" {
			in.p.Do(ti.task)
			ti.queued = ti.task.Result().Len() == 0
			return "u"
		}
		if in.p.TryDo(ti.task) {
			ti.queued = ti.task.Result().Len() == 0
			return "b1"
		}
		return "b0"
	case "E":
		ti := in.info(id)
		ti.submitted = true
		// Execute(f) and ExecuteWithCtx(nil, f) are documented to be the same submission (the pool's context)
		if id%2 == 1 {
			ti.task = in.p.ExecuteWithCtx(nil, in.executor(id, int(op.Arg(1))))
		} else {
			ti.task = in.p.Execute(in.executor(id, int(op.Arg(1))))
		}
		return "u"
	case "Y":
		ti := in.info(id)
		ti.submitted = true
		var tk *wp.Task
		var ok bool
		if id%2 == 1 {
			tk, ok = in.p.TryExecuteWithCtx(nil, in.executor(id, int(op.Arg(1))))
		} else {
			tk, ok = in.p.TryExecute(in.executor(id, int(op.Arg(1))))
		}
		ti.task = tk
		if ok {
			return "b1"
		}
		return "b0"
	case "X":
		in.p.Stop()
		in.stopInfo = append(in.stopInfo, fmt.Sprintf("live=%d running=%d armed=%d q=%d", vsched.LiveDaemons(), in.running, len(vtime.Armed()), in.p.VerifQueueLen()))
		return "u"
	case "S":
		in.started = true
		in.p.Start()
		return "u"
	case "C":
		if c := in.cancels[id]; c != nil {
			c()
		} else {
			vsched.Step()
		}
		return "u"
	case "G":
		vsched.Step()
		in.gates[id] = true
		return "u"
	case "F":
		vsched.Step()
		if vtime.Fire(id) {
			return "b1"
		}
		return "b0"
	case "W":
		vsched.WaitUntil(func() bool {
			n := 0
			for _, ti := range in.tasks {
				n += len(ti.begins)
			}
			return n >= id
		})
		return "u"
	case "A":
		vsched.WaitUntil(func() bool { return len(vtime.Armed()) >= id })
		return "u"
	case "Z":
		vsched.WaitUntil(func() bool { return int(in.p.VerifExpanded()) <= id })
		return "u"
	case "K":
		vsched.WaitUntil(func() bool { ti := in.tasks[id]; return ti != nil && ti.task != nil })
		return "u"
	case "R", "r":
		ti := in.info(id)
		if ti.task == nil {
			vsched.Step()
			return "x"
		}
		ch := ti.task.Result()
		var r *wp.TaskResult
		if op.Name == "R" {
			r = vchan.Recv(ch)
		} else {
			s := vchan.NewSelect(true)
			c := vchan.RecvCase(s, ch)
			if s.Wait() != 0 {
				return "n"
			}
			r = c.Val()
		}
		res := in.resString(id, r)
		ti.received = append(ti.received, res)
		if r != nil && r.Err != nil {
			ti.errs = append(ti.errs, r.Err)
		}
		return res
	}
	panic("unknown op " + op.Name)
}

func (in *inst) Final() string {
	var ids []int
	for id := range in.tasks {
		ids = append(ids, id)
	}
	sort.Ints(ids)
	var parts []string
	for _, id := range ids {
		ti := in.tasks[id]
		var rest []string
		if ti.task != nil {
			ch := ti.task.Result()
			for ch.Len() > 0 {
				rest = append(rest, in.resString(id, vchan.Recv(ch)))
			}
		}
		parts = append(parts, fmt.Sprintf("t%d:x%d:%s", id, len(ti.begins), strings.Join(rest, "+")))
	}
	parts = append(parts, fmt.Sprintf("exp=%d st=%d q=%d wg=%d armed=%d live=%d", in.p.VerifExpanded(), in.p.VerifState(), in.p.VerifQueueLen(), in.p.VerifWG(), len(vtime.Armed()), vsched.LiveDaemons()))
	return strings.Join(parts, " ")
}

var current *inst

func newInst(s *vdrv.Scenario) vdrv.Instance {
	vsched.DropPending()
	vtime.ResetAll()
	in := &inst{ctxs: map[int]vcontext.Context{}, cancels: map[int]vcontext.CancelFunc{}, gates: map[int]bool{}, tasks: map[int]*taskInfo{}}
	for k := 1; k <= s.OptInt("ctxs", 3); k++ {
		if k%2 == 0 {
			// every second task context ends by "deadline": the scenario's cancel operation is its expiry
			in.ctxs[k], in.cancels[k] = vcontext.WithDeadlineManual(vcontext.Background())
		} else if k%4 == 3 {
			// cancelled WITH A CAUSE: Err() stays context.Canceled, which is what a refused task must carry
			c, cc := vcontext.WithCancelCause(vcontext.Background())
			in.ctxs[k], in.cancels[k] = c, func() { cc(errCause) }
		} else {
			in.ctxs[k], in.cancels[k] = vcontext.WithCancel(vcontext.Background())
		}
	}
	// the options go to NewPool as given (zero / negative values included); the monitors use their documented meaning:
	// NumberWorker <= 0 means runtime.NumCPU() (fixed to 2 here), ExpandableLimit < 0 means 0
	rawWorkers, rawLimit := s.OptInt("workers", 1), s.OptInt("limit", 0)
	wp.VerifSetNumCPU(2)
	in.workers, in.limit = rawWorkers, rawLimit
	if in.workers <= 0 {
		in.workers = 2
	}
	if in.limit < 0 {
		in.limit = 0
	}
	// the pool context is a child of a harness-owned root, so that the harness can recognise it
	var root vcontext.Context
	if s.OptInt("nilctx", 0) == 1 {
		// no parent context at all: documented to mean context.Background()
		in.cancels[0] = func() {}
	} else if s.OptInt("pooldl", 0) == 2 {
		// the pool's parent context is cancelled with a cause
		c, cc := vcontext.WithCancelCause(vcontext.Background())
		root, in.cancels[0] = c, func() { cc(errCause) }
	} else if s.OptInt("pooldl", 0) == 1 {
		// the pool's parent context ends by deadline
		var expire func()
		root, expire = vcontext.WithDeadlineManual(vcontext.Background())
		in.cancels[0] = expire
	} else {
		var rootCancel vcontext.CancelFunc
		root, rootCancel = vcontext.WithCancel(vcontext.Background())
		in.cancels[0] = rootCancel
	}
	in.p = wp.NewPool(root, wp.Option{NumberWorker: rawWorkers, ExpandableLimit: int32(rawLimit), ExpandedLifetime: vtime.Duration(s.OptInt("lifetime", 0)), DisableAutoStart: s.OptInt("autostart", 1) == 0})
	in.poolCtx = in.p.VerifCtx()
	in.started = s.OptInt("autostart", 1) != 0
	current = in
	return in
}

// ---- monitors -----------------------------------------------------------

type call struct {
	t, k     int
	op       vdrv.Op
	inv, ret int // Time (access-log position)
	res      string
	done     bool
}

func calls(s *vdrv.Scenario, h *vdrv.History) []*call {
	m := map[[2]int]*call{}
	var cs []*call
	for _, e := range h.Events {
		key := [2]int{e.T, e.K}
		if !e.Ret {
			c := &call{t: e.T, k: e.K, op: s.Op(e.T, e.K), inv: e.Time}
			m[key] = c
			cs = append(cs, c)
		} else {
			m[key].ret, m[key].res, m[key].done = e.Time, e.Res, true
		}
	}
	return cs
}

func monitor(s *vdrv.Scenario, h *vdrv.History, fin string, aborted string) string {
	in := current
	if aborted != "" {
		if strings.HasPrefix(aborted, "panic") {
			return "a call panicked: " + aborted
		}
		if strings.HasPrefix(aborted, "deadlock") {
			return "a call hangs forever: " + aborted
		}
		return "run did not complete: " + aborted
	}
	if initNumCPU != runtime.NumCPU() {
		return fmt.Sprintf("the default worker count computed at package init is %d, documented (and required for the cap of a default pool): runtime.NumCPU() = %d", initNumCPU, runtime.NumCPU())
	}
	// expansion is temporary by IDLE time: every time an expanded worker arms its idle timer (at its start and after each
	// task) it is for the configured ExpandedLifetime (default: one minute) - wall-clock time decides nothing else
	want := vtime.Duration(s.OptInt("lifetime", 0))
	if want <= 0 {
		want = vtime.Minute
	}
	for _, t := range vtime.All() {
		for _, d := range t.Arms {
			if d != want {
				return fmt.Sprintf("an expanded worker armed its idle timer with %v: an expanded worker exits after being idle for ExpandedLifetime = %v (requires a full lifetime after every task)", d, want)
			}
		}
	}
	// a pool without expansion that was never started executes nothing: a task that was accepted into its queue can
	// only be released by Stop, with the pool context's error (its own context's error would say it was refused)
	if !in.started && in.limit == 0 {
		for id, ti := range in.tasks {
			for _, e := range ti.errs {
				if ti.queued && in.poolCtx != nil && e != in.poolCtx.Err() {
					return fmt.Sprintf("task %d was accepted into the queue of a pool that was never started and was delivered %v: Stop releases queued tasks with the pool context's error (%v)", id, e, in.poolCtx.Err())
				}
			}
		}
	}
	cs := calls(s, h)
	stopped := false
	for _, c := range cs {
		if c.op.Name == "X" && c.done {
			stopped = true
		}
	}
	// per-task accounting
	var ids []int
	for id := range in.tasks {
		ids = append(ids, id)
	}
	sort.Ints(ids)
	finParts := map[int]string{}
	for _, p := range strings.Fields(fin) {
		if strings.HasPrefix(p, "t") {
			var id, x int
			var rest string
			q := strings.SplitN(p, ":", 3)
			fmt.Sscanf(q[0], "t%d", &id)
			fmt.Sscanf(q[1], "x%d", &x)
			if len(q) > 2 {
				rest = q[2]
			}
			finParts[id] = rest
		}
	}
	accepted := map[int]bool{}
	refused := map[int]bool{}
	for _, c := range cs {
		if !c.done {
			continue
		}
		id := int(c.op.Arg(0))
		switch c.op.Name {
		case "D", "E":
			accepted[id] = true
		case "T", "Y":
			if c.res == "b1" {
				accepted[id] = true
			} else {
				refused[id] = true
			}
		}
	}
	notBegunNoResult := 0
	for _, id := range ids {
		ti := in.tasks[id]
		if !ti.submitted {
			continue
		}
		var results []string
		results = append(results, ti.received...)
		if finParts[id] != "" {
			results = append(results, strings.Split(finParts[id], "+")...)
		}
		if ti.nilexec {
			// a task without an executor: nothing to run, but its waiter gets exactly one result all the same
			if len(results) > 1 {
				return fmt.Sprintf("task %d delivered %d results (%v)", id, len(results), results)
			}
			for _, r := range results {
				if r != "vnil" && r != "ec" {
					return fmt.Sprintf("task %d (no executor) delivered result %s, not the empty result", id, r)
				}
			}
			if stopped && accepted[id] && len(results) == 0 {
				return fmt.Sprintf("task %d was submitted, Stop has returned, and its waiter is never released (no execution result, no context error)", id)
			}
			continue
		}
		if len(ti.begins) > 1 {
			return fmt.Sprintf("task %d was executed %d times", id, len(ti.begins))
		}
		if len(results) > 1 {
			return fmt.Sprintf("task %d delivered %d results (%v)", id, len(results), results)
		}
		for _, r := range results {
			if r == "ec" && len(ti.begins) > 0 {
				return fmt.Sprintf("task %d was refused with a context error and executed nevertheless", id)
			}
			if r != "ec" && r != fmt.Sprintf("v%d", id) {
				return fmt.Sprintf("task %d delivered result %s, not its executor's own value", id, r)
			}
			if r != "ec" && len(ti.begins) == 0 {
				return fmt.Sprintf("task %d delivered a value without having been executed", id)
			}
		}
		for _, sc := range ti.ctxSeen {
			if sc != ti.ctxid {
				return fmt.Sprintf("task %d was executed with context %d, it was given context %d (0 = the pool's)", id, sc, ti.ctxid)
			}
		}
		if refused[id] && len(results) == 0 && len(ti.begins) > 0 {
			return fmt.Sprintf("task %d was refused by TryDo (false, no result) and executed nevertheless", id)
		}
		if len(ti.begins) == 1 && len(ti.ends) == 1 && len(results) == 0 {
			return fmt.Sprintf("task %d finished executing but no result was delivered", id)
		}
		if accepted[id] && len(ti.begins) == 0 && len(results) == 0 {
			notBegunNoResult++
		}
		if stopped && accepted[id] && len(results) == 0 && !(len(ti.begins) == 1 && len(ti.ends) == 0) {
			return fmt.Sprintf("task %d was submitted, Stop has returned, and its waiter is never released (no execution result, no context error)", id)
		}
	}
	var q int
	for _, p := range strings.Fields(fin) {
		fmt.Sscanf(p, "q=%d", &q)
	}
	if notBegunNoResult > q {
		return fmt.Sprintf("%d accepted tasks are neither executed, refused nor still queued (queue holds %d): a task was lost", notBegunNoResult, q)
	}
	// parallelism cap
	if in.maxRun > in.workers+in.limit {
		return fmt.Sprintf("%d tasks executed simultaneously, the cap is NumberWorker+ExpandableLimit = %d", in.maxRun, in.workers+in.limit)
	}
	if hw, ok := s.Opts["expect_highwater"]; ok {
		if fmt.Sprint(in.maxRun) != hw {
			return fmt.Sprintf("with more gated tasks pending than workers the pool ran %d tasks at once, it must expand to exactly %s", in.maxRun, hw)
		}
	}
	// backpressure: never more than one accepted task waiting
	for _, c := range cs {
		if !c.done || !(c.op.Name == "D" || c.op.Name == "E" || ((c.op.Name == "T" || c.op.Name == "Y") && c.res == "b1")) {
			continue
		}
		waiting := 0
		for _, o := range cs {
			id := int(o.op.Arg(0))
			if !o.done || o.ret > c.ret || !accepted[id] || !(o.op.Name == "D" || o.op.Name == "E" || o.op.Name == "T" || o.op.Name == "Y") {
				continue
			}
			ti := in.tasks[id]
			if ti.nilexec {
				continue // no executor: when a worker took it cannot be observed
			}
			hasCtxErr := false
			for _, r := range ti.received {
				if r == "ec" {
					hasCtxErr = true
				}
			}
			if finParts[id] == "ec" {
				hasCtxErr = true
			}
			if hasCtxErr {
				continue
			}
			if len(ti.begins) == 0 || ti.begins[0] > c.ret {
				waiting++
			}
		}
		// a task counts as waiting until its executor starts; a worker that is not executing
		// may already hold one task it has taken out of the queue
		runningNow := 0
		for _, ti := range in.tasks {
			if len(ti.begins) > 0 && ti.begins[0] <= c.ret && (len(ti.ends) == 0 || ti.ends[0] > c.ret) {
				runningNow++
			}
		}
		if free := in.workers + in.limit - runningNow; waiting > 1+free {
			return fmt.Sprintf("%d accepted tasks were waiting when %s returned although only %d worker(s) were not executing: more than the single queue slot was buffered", waiting, c.op, free)
		}
	}
	// Stop: drained and no goroutine left
	if len(in.stopInfo) > 0 {
		// the Stop call that returned last did (or waited for) the real work unless Stops overlapped
		overlap := false
		var stops []*call
		for _, c := range cs {
			if c.op.Name == "X" {
				stops = append(stops, c)
			}
		}
		for i := range stops {
			for j := range stops {
				if i != j && stops[i].inv < stops[j].ret && stops[j].inv < stops[i].ret {
					overlap = true
				}
			}
		}
		if !overlap {
			var live, running, armed, ql int
			fmt.Sscanf(in.stopInfo[0], "live=%d running=%d armed=%d q=%d", &live, &running, &armed, &ql)
			if running != 0 {
				return fmt.Sprintf("Stop returned while %d task(s) were still executing", running)
			}
			if live != 0 {
				return fmt.Sprintf("Stop returned while %d pool goroutine(s) were still alive", live)
			}
			if armed != 0 {
				return fmt.Sprintf("Stop returned while %d expanded-worker timer(s) were still armed", armed)
			}
			for _, c := range cs {
				id := int(c.op.Arg(0))
				if c.done && accepted[id] && c.ret <= stops[0].inv && (c.op.Name == "D" || c.op.Name == "E" || c.op.Name == "T" || c.op.Name == "Y") {
					ti := in.tasks[id]
					if ti.nilexec {
						continue
					}
					okDone := len(ti.ends) == 1 && ti.ends[0] <= stops[0].ret
					ctxErr := finParts[id] == "ec"
					for _, r := range ti.received {
						if r == "ec" {
							ctxErr = true
						}
					}
					if !okDone && !ctxErr {
						return fmt.Sprintf("task %d was accepted before Stop was called but had not finished when Stop returned", id)
					}
					// a pool that was running when it accepted the task (and no context was cancelled by the
					// scenario) must execute it: a context-error result is only legitimate for a pool never started
					if !okDone && ctxErr && s.OptInt("autostart", 1) == 1 && !hasCancel(s) {
						return fmt.Sprintf("task %d was accepted by a running pool before Stop was called, yet Stop returned without it having been executed (it got a context error instead)", id)
					}
				}
			}
		}
	}
	// scenario-specific expectations
	for k, want := range s.Opts {
		if strings.HasPrefix(k, "expect_res_") {
			var t, kk int
			fmt.Sscanf(k, "expect_res_%d_%d", &t, &kk)
			for _, c := range cs {
				if c.t == t && c.k == kk && c.done && c.res != want {
					return fmt.Sprintf("%s (thread %d op %d) returned %s, the scenario requires %s", c.op, t, kk, c.res, want)
				}
			}
		}
	}
	if want, ok := s.Opts["expect_exp"]; ok {
		for _, p := range strings.Fields(fin) {
			if strings.HasPrefix(p, "exp=") && p != "exp="+want {
				return fmt.Sprintf("expanded-worker counter is %s at the end, expected %s (expansion capacity not restored)", p[4:], want)
			}
		}
	}
	return ""
}

func hasCancel(s *vdrv.Scenario) bool {
	for _, th := range s.Threads {
		for _, o := range th {
			if o.Name == "C" {
				return true
			}
		}
	}
	return false
}

// what the package's init() computed as the default worker count, before the driver fixes it
var initNumCPU = wp.VerifNumCPU()

func main() {
	comp := vdrv.Component{New: newInst, Monitor: monitor}
	vdrv.Main(map[string]vdrv.Component{"pool": comp})
}
