// Controlled-schedule driver for package cbreaker.
// Kinds: breaker (NonBlockingCircuitBreaker), window (SlidingWindowCounter alone).
// Options: thr=<float64 bits> minreq= trial= openw= window= interval= (ns) listeners=<k>.
// P line = the ticker readings, in order (then 0).
// Ops: c CanRequest, s OnSuccess, f OnFailure; ws / wf / wc on the window.
// Results: b0/b1, u, n (nil count), e<s>:<f>.
package main

import (
	"context"
	"fmt"
	"math"
	"strconv"
	"strings"
	"time"

	"go.linecorp.com/garr/vshim/vtime"

	cb "go.linecorp.com/garr/circuit-breaker"
	"go.linecorp.com/garr/vshim/vdrv"
	"go.linecorp.com/garr/vshim/vsched"
)

type tickRead struct {
	thread int
	val    int64
}

type ticker struct {
	stream []int64
	pos    int
	reads  []tickRead
}

func (t *ticker) Tick() int64 {
	vsched.StepK(vsched.KTick)
	var v int64
	if t.pos < len(t.stream) {
		v = t.stream[t.pos]
		t.pos++
	}
	t.reads = append(t.reads, tickRead{vsched.Cur(), v})
	return v
}

type listener struct {
	id   int
	log  *[]string
	fail bool // this listener answers every callback with an error (the breaker must log it and go on)
}

var errListener = fmt.Errorf("listener failed")

func (l *listener) ret() error {
	if l.fail {
		return errListener
	}
	return nil
}

func (l *listener) OnStateChanged(_ cb.CircuitBreaker, st cb.CircuitState) error {
	*l.log = append(*l.log, fmt.Sprintf("%d:S%d", l.id, int(st)))
	return l.ret()
}
func (l *listener) OnEventCountUpdated(_ cb.CircuitBreaker, e *cb.EventCount) error {
	*l.log = append(*l.log, fmt.Sprintf("%d:C%d:%d", l.id, e.Success(), e.Failure()))
	return l.ret()
}
func (l *listener) OnRequestRejected(_ cb.CircuitBreaker) error {
	*l.log = append(*l.log, fmt.Sprintf("%d:R", l.id))
	return l.ret()
}

// nullLogger is installed by scenarios with logger=1: logging must not change behaviour.
type nullLogger struct{}

func (nullLogger) Info(string)               {}
func (nullLogger) Warn(string, interface{})  {}
func (nullLogger) Error(string, interface{}) {}

func (l *listener) Stop() {}

type config struct {
	thr                                    float64
	minreq, trial, openw, window, interval int64
	listeners                              int
}

func readConfig(s *vdrv.Scenario) config {
	bits, _ := strconv.ParseUint(s.Opts["thr"], 10, 64)
	g := func(k string, d int64) int64 {
		if v, ok := s.Opts[k]; ok {
			n, _ := strconv.ParseInt(v, 10, 64)
			return n
		}
		return d
	}
	return config{math.Float64frombits(bits), g("minreq", 1), g("trial", 3), g("openw", 10), g("window", 20), g("interval", 5), int(g("listeners", 1))}
}

type inst struct {
	kind string
	cfg  config
	tk   *ticker
	br   cb.CircuitBreaker
	bad  string // a broken API contract found while setting up (apichk=1)
	win  *cb.SlidingWindowCounter
	log  []string
}

func count(e *cb.EventCount) string {
	if e == nil {
		return "n"
	}
	return fmt.Sprintf("e%d:%d", e.Success(), e.Failure())
}

func (in *inst) Exec(t int, op vdrv.Op) string {
	switch op.Name {
	case "c":
		if in.br.CanRequest() {
			return "b1"
		}
		return "b0"
	case "x":
		// Execute(ctx, fn) = CanRequest, then fn exactly once with its results passed through, or ErrFailFast
		calls, want := 0, fmt.Errorf("fn error")
		r, err := in.br.(*cb.NonBlockingCircuitBreaker).Execute(context.Background(), func(context.Context) (interface{}, error) {
			calls++
			return 42, want
		})
		switch {
		case calls == 1 && r == 42 && err == want:
			return "b1"
		case calls == 0 && r == nil && err == cb.ErrFailFast:
			return "b0"
		}
		return fmt.Sprintf("bad-execute(calls=%d,r=%v,err=%v)", calls, r, err)
	case "s":
		in.br.OnSuccess()
		return "u"
	case "f":
		in.br.OnFailure()
		return "u"
	case "ws":
		return count(in.win.OnSuccess())
	case "wf":
		return count(in.win.OnFailure())
	case "wc":
		return count(in.win.Count())
	case "wP":
		// n events of each kind at once into the current bucket (through the bucket's own adders): windows holding
		// billions of events without billions of calls; monitor-only scenarios (nomodel)
		in.win.VerifPreload(op.Arg(0), op.Arg(0))
		return "u"
	}
	panic("unknown op " + op.Name)
}

func (in *inst) Final() string {
	return "L" + strings.Join(in.log, ",")
}

func newInst(s *vdrv.Scenario) vdrv.Instance {
	in := &inst{kind: s.Kind, cfg: readConfig(s)}
	in.tk = &ticker{stream: s.Prefill}
	c := in.cfg
	if s.Kind == "window" {
		w, err := cb.NewSlidingWindowCounter(in.tk, time.Duration(c.window), time.Duration(c.interval))
		if err != nil {
			panic(err)
		}
		in.win = w
		in.tk.reads = nil // constructor readings do not belong to any controlled thread
		return in
	}
	b := cb.NewCircuitBreakerBuilder()
	vtime.NowHook = nil
	if s.OptInt("systk", 0) == 1 {
		// the builder's default ticker (the package's SystemTicker) on the scripted clock
		tk := in.tk
		vtime.NowHook = func() time.Time { return time.Unix(0, tk.Tick()) }
	} else {
		b.SetTicker(in.tk)
	}
	b.SetFailureRateThreshold(c.thr).SetMinimumRequestThreshold(c.minreq).
		SetTrialRequestInterval(time.Duration(c.trial)).SetCircuitOpenWindow(time.Duration(c.openw)).
		SetCounterSlidingWindow(time.Duration(c.window)).SetCounterUpdateInterval(time.Duration(c.interval))
	lerr := s.OptInt("lerr", 0)
	for i := 0; i < c.listeners; i++ {
		b.AddListener(&listener{id: i, log: &in.log, fail: lerr&(1<<uint(i)) != 0})
	}
	if s.OptInt("logger", 0) == 1 {
		cb.SetDefaultLogger(nullLogger{})
	} else {
		cb.SetDefaultLogger(nil)
	}
	named := s.OptInt("named", 0) == 1
	if named {
		b.Name(&cb.Name{Namespace: "ns", Subsystem: "sub", Name: "brk"})
	}
	br, err := b.Build()
	if err != nil {
		panic(err)
	}
	in.br = br
	if s.OptInt("apichk", 0) == 1 {
		in.bad = apiCheck(in, br, named)
	}
	in.tk.reads = nil
	return in
}

// apiCheck: the parts of the package's API that are no operation of the scenarios - what the breaker remembers of its
// configuration, the constructor's argument checks, Execute without a function, the rates of an empty count.
func apiCheck(in *inst, br cb.CircuitBreaker, named bool) string {
	c := in.cfg
	nb, ok := br.(*cb.NonBlockingCircuitBreaker)
	if !ok {
		return "Build() did not return the non-blocking breaker"
	}
	if (nb.Name() != nil) != named || (named && (nb.Name().Namespace != "ns" || nb.Name().Subsystem != "sub" || nb.Name().Name != "brk")) {
		return "Name() is not the name given to the builder"
	}
	cf := cb.VerifConfig(nb)
	if cf.GetFailureRateThreshold() != c.thr || cf.GetMinimumRequestThreshold() != c.minreq || int64(cf.GetTrialRequestInterval()) != c.trial ||
		int64(cf.GetCircuitOpenWindow()) != c.openw || int64(cf.GetCounterSlidingWindow()) != c.window || int64(cf.GetCounterUpdateInterval()) != c.interval ||
		len(cf.Getlisteners()) != c.listeners || (cf.GetName() != nil) != named {
		return "the configuration the breaker holds is not the one given to the builder: " + cf.String()
	}
	if cf.Validate() != nil {
		return "the configuration of a built breaker does not validate"
	}
	if !strings.Contains(cf.String(), fmt.Sprintf("minimumRequestThreshold: %d", c.minreq)) {
		return "String() of the configuration does not show it"
	}
	// constructor argument checks
	if x, err := cb.NewNonBlockingCircuitBreaker(nil, cf); err == nil || x != nil {
		return "NewNonBlockingCircuitBreaker accepted a nil ticker"
	}
	if x, err := cb.NewNonBlockingCircuitBreaker(in.tk, nil); err == nil || x != nil {
		return "NewNonBlockingCircuitBreaker accepted a nil configuration"
	}
	if x, err := cb.NewNonBlockingCircuitBreaker(in.tk, &cb.CircuitBreakerConfig{}); err == nil || x != nil {
		return "NewNonBlockingCircuitBreaker accepted the zero configuration"
	}
	if w, err := cb.NewSlidingWindowCounter(nil, 20, 5); err == nil || w != nil {
		return "NewSlidingWindowCounter accepted a nil ticker"
	}
	// one field outside its documented domain at a time: Build must refuse
	mk := func() *cb.CircuitBreakerBuilder {
		return cb.NewCircuitBreakerBuilder().SetTicker(&ticker{}).SetFailureRateThreshold(0.5).SetMinimumRequestThreshold(2).
			SetTrialRequestInterval(3).SetCircuitOpenWindow(10).SetCounterSlidingWindow(20).SetCounterUpdateInterval(5)
	}
	if _, err := mk().Build(); err != nil {
		return "a configuration inside the documented domain was refused: " + err.Error()
	}
	for what, bb := range map[string]*cb.CircuitBreakerBuilder{
		"threshold 0": mk().SetFailureRateThreshold(0), "threshold > 1": mk().SetFailureRateThreshold(1.5),
		"trial interval 0": mk().SetTrialRequestInterval(0), "open window -1": mk().SetCircuitOpenWindow(-1),
		"sliding window 0": mk().SetCounterSlidingWindow(0), "update interval 0": mk().SetCounterUpdateInterval(0),
		"sliding window = update interval": mk().SetCounterSlidingWindow(5),
	} {
		if _, err := bb.Build(); err == nil {
			return "Build accepted a configuration outside the documented domain: " + what
		}
	}
	nlog, npos := len(in.log), in.tk.pos
	if r, err := br.Execute(context.Background(), nil); r != nil || err != nil {
		return fmt.Sprintf("Execute without a function returned (%v, %v)", r, err)
	}
	if len(in.log) != nlog || in.tk.pos != npos {
		return "Execute without a function touched the breaker"
	}
	z := cb.EventCountZero
	if z.Total() != 0 || z.SuccessRate() != -1 || z.FailureRate() != -1 {
		return "the rates of an empty count must be -1"
	}
	e := cb.NewEventCount(3, 1)
	if e.Success() != 3 || e.Failure() != 1 || e.Total() != 4 || e.SuccessRate() != 0.75 || e.FailureRate() != 0.25 {
		return "EventCount(3,1): total / rates wrong"
	}
	return ""
}

var current *inst

func newInstTracked(s *vdrv.Scenario) vdrv.Instance {
	in := newInst(s).(*inst)
	current = in
	return in
}

// ---- reference machine for single-threaded scripts (C06, C10 sequential part) -------

type rbucket struct{ ts, s, f int64 }

type refWindow struct {
	cfg  config
	cur  rbucket
	res  []rbucket
	snap [2]int64
}

func (w *refWindow) event(succ bool, tick func() int64) *[2]int64 {
	t := tick()
	add := func(b *rbucket) {
		if succ {
			b.s++
		} else {
			b.f++
		}
	}
	if t < w.cur.ts {
		b := rbucket{ts: t}
		add(&b)
		w.res = append(w.res, b)
		return nil
	}
	if t < w.cur.ts+w.cfg.interval {
		add(&w.cur)
		return nil
	}
	nb := rbucket{ts: t}
	add(&nb)
	w.res = append(w.res, w.cur)
	w.cur = nb
	var keep []rbucket
	var s, f int64
	for _, b := range w.res {
		if b.ts < t-w.cfg.window {
			continue
		}
		keep = append(keep, b)
		s += b.s
		f += b.f
	}
	w.res = keep
	w.snap = [2]int64{s, f}
	return &w.snap
}

type refBreaker struct {
	cfg      config
	kind     int // 0 closed 1 open 2 half-open
	win      *refWindow
	deadline int64
	dur      int64
	log      []string
}

func (r *refBreaker) notifyState(k int) {
	code := map[int]int{0: int(cb.CircuitStateClosed), 1: int(cb.CircuitStateOpen), 2: int(cb.CircuitStateHalfOpen)}[k]
	for i := 0; i < r.cfg.listeners; i++ {
		r.log = append(r.log, fmt.Sprintf("%d:S%d", i, code), fmt.Sprintf("%d:C0:0", i))
	}
}
func (r *refBreaker) notifyCount(c [2]int64) {
	for i := 0; i < r.cfg.listeners; i++ {
		r.log = append(r.log, fmt.Sprintf("%d:C%d:%d", i, c[0], c[1]))
	}
}

func (r *refBreaker) apply(op string, tick func() int64) string {
	switch op {
	case "c", "x":
		if r.kind == 0 {
			return "b1"
		}
		if r.dur > 0 && r.deadline <= tick() {
			t := tick()
			r.kind, r.deadline, r.dur = 2, t+r.cfg.trial, r.cfg.trial
			r.notifyState(2)
			return "b1"
		}
		for i := 0; i < r.cfg.listeners; i++ {
			r.log = append(r.log, fmt.Sprintf("%d:R", i))
		}
		return "b0"
	case "s":
		if r.kind == 0 {
			if c := r.win.event(true, tick); c != nil {
				r.notifyCount(*c)
			}
		} else if r.kind == 2 {
			t1 := tick()
			tick()
			r.kind, r.win = 0, &refWindow{cfg: r.cfg, cur: rbucket{ts: t1}}
			r.notifyState(0)
		}
		return "u"
	case "f":
		if r.kind == 0 {
			if c := r.win.event(false, tick); c != nil {
				total := c[0] + c[1]
				if 0 < total && r.cfg.minreq <= total && r.cfg.thr < float64(c[1])/float64(total) {
					t := tick()
					r.kind, r.deadline, r.dur = 1, t+r.cfg.openw, r.cfg.openw
					r.notifyState(1)
				} else {
					r.notifyCount(*c)
				}
			}
		} else if r.kind == 2 {
			t := tick()
			r.kind, r.deadline, r.dur = 1, t+r.cfg.openw, r.cfg.openw
			r.notifyState(1)
		}
		return "u"
	}
	return "?"
}

// ---- monitors -----------------------------------------------------------

type call struct {
	t, k     int
	op       vdrv.Op
	inv, ret int
	res      string
}

func calls(s *vdrv.Scenario, h *vdrv.History) []*call {
	m := map[[2]int]*call{}
	var cs []*call
	for i, e := range h.Events {
		key := [2]int{e.T, e.K}
		if !e.Ret {
			c := &call{t: e.T, k: e.K, op: s.Op(e.T, e.K), inv: i, ret: -1}
			m[key] = c
			cs = append(cs, c)
		} else {
			m[key].ret, m[key].res = i, e.Res
		}
	}
	return cs
}

func monitor(s *vdrv.Scenario, h *vdrv.History, fin string, aborted string) string {
	if aborted != "" {
		return "run did not complete: " + aborted
	}
	in := current
	if in.bad != "" {
		return "API contract: " + in.bad
	}
	cfg := in.cfg
	cs := calls(s, h)
	log := in.log
	if len(s.Threads) == 1 {
		// exact comparison with the reference machine
		pos := 0
		tick := func() int64 {
			if pos < len(s.Prefill) {
				pos++
				return s.Prefill[pos-1]
			}
			return 0
		}
		if s.Kind == "window" {
			w := &refWindow{cfg: cfg, cur: rbucket{ts: tick()}}
			for _, c := range cs {
				want := ""
				switch c.op.Name {
				case "ws", "wf":
					if e := w.event(c.op.Name == "ws", tick); e != nil {
						want = fmt.Sprintf("e%d:%d", e[0], e[1])
					} else {
						want = "n"
					}
				case "wc":
					want = fmt.Sprintf("e%d:%d", w.snap[0], w.snap[1])
				case "wP":
					w.cur.s += c.op.Arg(0)
					w.cur.f += c.op.Arg(0)
					want = "u"
				}
				if c.res != want {
					return fmt.Sprintf("sliding window, sequential script: op #%d %s returned %s, the reference window gives %s", c.k, c.op, c.res, want)
				}
			}
			return ""
		}
		r := &refBreaker{cfg: cfg}
		t1 := tick()
		tick()
		r.win = &refWindow{cfg: cfg, cur: rbucket{ts: t1}}
		r.notifyState(0)
		for _, c := range cs {
			before := len(r.log)
			want := r.apply(c.op.Name, tick)
			if c.res != want {
				return fmt.Sprintf("state machine: call #%d %s returned %s, the documented machine gives %s", c.k, c.op, c.res, want)
			}
			_ = before
		}
		if strings.Join(r.log, ",") != strings.Join(log, ",") {
			return fmt.Sprintf("state machine: listener callbacks [%s] differ from the documented machine's [%s]", strings.Join(log, ","), strings.Join(r.log, ","))
		}
		return ""
	}
	if s.Kind == "window" {
		return windowMonitor(s, cs, in)
	}
	// concurrent breaker runs: transition / rejection accounting per listener
	admittedNonClosed, rejected := 0, 0
	for _, c := range cs {
		if (c.op.Name == "c" || c.op.Name == "x") && c.res == "b0" {
			rejected++
		}
	}
	for l := 0; l < cfg.listeners; l++ {
		nRej, nHalf := 0, 0
		for _, e := range log {
			if e == fmt.Sprintf("%d:R", l) {
				nRej++
			}
			if e == fmt.Sprintf("%d:S%d", l, int(cb.CircuitStateHalfOpen)) {
				nHalf++
			}
		}
		if nRej != rejected {
			return fmt.Sprintf("listener %d saw %d rejections for %d rejected CanRequest calls", l, nRej, rejected)
		}
		_ = nHalf
	}
	_ = admittedNonClosed
	// scenario-specific expectations (set by the generator through options)
	if exp, ok := s.Opts["expect_admitted"]; ok {
		// phase-2 CanRequest calls: how many may be admitted
		want, _ := strconv.Atoi(exp)
		got := 0
		for _, c := range cs {
			if (c.op.Name == "c" || c.op.Name == "x") && c.res == "b1" && c.k >= s.OptInt("phase2_from", 0) && c.t >= s.OptInt("phase2_threads_from", 0) {
				got++
			}
		}
		if s.Opts["expect_mode"] == "exact" && got != want {
			return fmt.Sprintf("%d concurrent CanRequest calls were admitted on an expired %s circuit, exactly %d must be", got, s.Opts["expect_state"], want)
		}
		if s.Opts["expect_mode"] == "atmost" && got > want {
			return fmt.Sprintf("%d concurrent CanRequest calls were admitted, at most %d may be (circuit %s, window not elapsed)", got, want, s.Opts["expect_state"])
		}
	}
	if exp, ok := s.Opts["expect_transitions"]; ok {
		want, _ := strconv.Atoi(exp)
		for l := 0; l < cfg.listeners; l++ {
			n := 0
			for _, e := range log {
				if strings.HasPrefix(e, fmt.Sprintf("%d:S", l)) {
					n++
				}
			}
			if n != want {
				return fmt.Sprintf("listener %d saw %d state transitions, the scenario allows exactly %d (initial CLOSED included)", l, n, want)
			}
		}
	}
	if exp, ok := s.Opts["expect_final"]; ok {
		last := ""
		for _, e := range log {
			if strings.HasPrefix(e, "0:S") {
				last = e[3:]
			}
		}
		if last != exp {
			return fmt.Sprintf("final circuit state code %s, expected %s", last, exp)
		}
	}
	return ""
}

// concurrent reporters on a SlidingWindowCounter
func windowMonitor(s *vdrv.Scenario, cs []*call, in *inst) string {
	cfg := in.cfg
	// the first tick each event call read = its event time
	evTime := map[*call]int64{}
	perThread := map[int][]int64{}
	for _, r := range in.tk.reads {
		perThread[r.thread] = append(perThread[r.thread], r.val)
	}
	idx := map[int]int{}
	for _, c := range cs {
		if c.op.Name == "ws" || c.op.Name == "wf" {
			if idx[c.t] < len(perThread[c.t]) {
				evTime[c] = perThread[c.t][idx[c.t]]
				idx[c.t]++
			}
		}
	}
	for _, c := range cs {
		if c.ret < 0 || len(c.res) == 0 || c.res[0] != 'e' {
			continue
		}
		var gs, gf int64
		fmt.Sscanf(c.res, "e%d:%d", &gs, &gf)
		// upper bound: events invoked before this call returned whose time lies within the window of the reporting tick
		var t int64
		if c.op.Name == "wc" {
			t = math.MinInt64 / 2 // unknown roll: bound by everything invoked so far
		} else {
			t = evTime[c] - cfg.window
		}
		var us, uf int64
		for _, o := range cs {
			if (o.op.Name != "ws" && o.op.Name != "wf") || o.inv > c.ret {
				continue
			}
			if evTime[o] >= t {
				if o.op.Name == "ws" {
					us++
				} else {
					uf++
				}
			}
		}
		if gs > us || gf > uf {
			return fmt.Sprintf("window count %s (thread %d op %d) exceeds the events reported so far within the window (at most %d successes, %d failures): an event was invented or counted twice", c.res, c.t, c.k, us, uf)
		}
	}
	// exactness at quiescence: the last call of the scenario, when it runs alone, must report exactly
	if exp, ok := s.Opts["expect_last"]; ok {
		last := cs[len(cs)-1]
		for _, o := range cs {
			if o != last && (o.ret < 0 || o.ret > last.inv) {
				return ""
			}
		}
		want := exp
		if exp == "all" {
			var ws, wf int64
			for _, o := range cs {
				if o == last {
					continue
				}
				if o.op.Name == "ws" {
					ws++
				} else if o.op.Name == "wf" {
					wf++
				}
			}
			want = fmt.Sprintf("e%d:%d", ws, wf)
		}
		if last.res != want {
			return fmt.Sprintf("after all reporters returned, the next roll reported %s, exactly %s must be reported (an event was lost, kept too long or double-counted)", last.res, want)
		}
	}
	return ""
}

func main() {
	comp := vdrv.Component{New: newInstTracked, Monitor: monitor}
	vdrv.Main(map[string]vdrv.Component{"breaker": comp, "window": comp})
}
