// Controlled-schedule driver for package adder (all six variants).
// Kinds: jdkadd, jdkf, rc, atomic, atomicf, mutexadd.  Ops: a<x> Add, i Inc, d Dec,
// s Sum, r Reset, q SumAndReset, w<v> Store.  Results: u, z<n>.
// P line = the words fastrand.Uint32 returns, in order (then 0).
package main

import (
	"fmt"
	"math"
	"sort"
	"strconv"
	"strings"

	"github.com/anishathalye/porcupine"
	"github.com/valyala/fastrand"
	"go.linecorp.com/garr/adder"
	"go.linecorp.com/garr/vshim/vdrv"
)

type inst struct {
	l    adder.LongAdder
	f    adder.Float64Adder
	kind string
}

func fz(x float64) string {
	if x == math.Trunc(x) && math.Abs(x) < 1e18 {
		return "z" + strconv.FormatInt(int64(x), 10)
	}
	return "zf" + strconv.FormatUint(math.Float64bits(x), 10)
}

func (in *inst) Exec(t int, op vdrv.Op) string {
	x := op.Arg(0)
	if in.f != nil {
		switch op.Name {
		case "h": // a value outside the modelled (exactly representable) range: +-MaxFloat64
			if x < 0 {
				in.f.Add(-math.MaxFloat64)
			} else {
				in.f.Add(math.MaxFloat64)
			}
		case "a":
			in.f.Add(float64(x))
		case "i":
			in.f.Inc()
		case "d":
			in.f.Dec()
		case "s":
			return fz(in.f.Sum())
		case "r":
			in.f.Reset()
		case "q":
			return fz(in.f.SumAndReset())
		case "w":
			in.f.Store(float64(x))
		}
		return "u"
	}
	switch op.Name {
	case "a":
		in.l.Add(x)
	case "i":
		in.l.Inc()
	case "d":
		in.l.Dec()
	case "s":
		return "z" + strconv.FormatInt(in.l.Sum(), 10)
	case "r":
		in.l.Reset()
	case "q":
		return "z" + strconv.FormatInt(in.l.SumAndReset(), 10)
	case "w":
		in.l.Store(x)
	}
	return "u"
}

// the quiescent script of C16: Sum, Store, Sum, Add, Sum, SumAndReset, Sum, Add, Reset, Sum, Add, Sum
var finalScript = []vdrv.Op{{Name: "s"}, {Name: "w", Args: []int64{7}}, {Name: "s"}, {Name: "a", Args: []int64{5}}, {Name: "s"},
	{Name: "q"}, {Name: "s"}, {Name: "a", Args: []int64{3}}, {Name: "r"}, {Name: "s"}, {Name: "a", Args: []int64{11}}, {Name: "s"}}

func (in *inst) Final() string {
	var out []string
	for _, op := range finalScript {
		out = append(out, in.Exec(0, op))
	}
	return strings.Join(out, ",")
}

func newInst(s *vdrv.Scenario) vdrv.Instance {
	in := &inst{kind: s.Kind}
	adder.VerifSetMaxCells(s.OptInt("maxcells", 2))
	switch s.Kind {
	case "jdkadd":
		if len(s.Threads)%2 == 1 {
			in.l = adder.DefaultAdder() // documented default: JDKAdder
		} else {
			in.l = adder.NewLongAdder(adder.JDKAdderType)
		}
	case "rc":
		in.l = adder.NewLongAdder(adder.RandomCellAdderType)
	case "atomic":
		in.l = adder.NewLongAdder(adder.AtomicAdderType)
	case "mutexadd":
		in.l = adder.NewLongAdder(adder.MutexAdderType)
	case "jdkf":
		if len(s.Threads)%2 == 1 {
			in.f = adder.DefaultFloat64Adder() // documented default: JDKF64Adder
		} else {
			in.f = adder.NewFloat64Adder(adder.JDKF64AdderType)
		}
	case "atomicf":
		in.f = adder.NewFloat64Adder(adder.AtomicF64AdderType)
	}
	if n := s.OptInt("pglen", 0); n > 0 {
		mask, mod := uint64(s.OptInt("pgmask", 0)), s.OptInt("pgmod", 0)
		// pgmod m > 0 (tables too big for a mask): slot j holds a cell unless j is a multiple of m; m = 1: no slot, m > n: every slot but 0
		full := func(j int) bool {
			if mod > 0 {
				return j%mod != 0
			}
			return mask&(1<<uint(j)) != 0
		}
		if in.l != nil {
			adder.VerifPregrowF(in.l, n, s.OptInt("pgcap", n), full)
		} else {
			adder.VerifPregrowF(in.f, n, s.OptInt("pgcap", n), full)
		}
	}
	pos := 0
	fastrand.SetSource(func() uint32 {
		if pos < len(s.Prefill) {
			pos++
			return uint32(s.Prefill[pos-1])
		}
		return 0
	})
	return in
}

// ---- monitors -----------------------------------------------------------

type call struct {
	t, k     int
	op       vdrv.Op
	inv, ret int
	res      string
}

func calls(s *vdrv.Scenario, h *vdrv.History) []*call {
	m := map[[2]int]*call{}
	var cs []*call
	for i, e := range h.Events {
		key := [2]int{e.T, e.K}
		if !e.Ret {
			c := &call{t: e.T, k: e.K, op: s.Op(e.T, e.K), inv: i, ret: -1}
			m[key] = c
			cs = append(cs, c)
		} else {
			m[key].ret, m[key].res = i, e.Res
		}
	}
	return cs
}

func delta(op vdrv.Op) (int64, bool) {
	switch op.Name {
	case "a":
		return op.Arg(0), true
	case "i":
		return 1, true
	case "d":
		return -1, true
	}
	return 0, false
}

type ain struct {
	op string
	v  int64
}

// sequential counter specification (whole API) for the mutex adder
var counterModel = porcupine.Model{
	Init: func() interface{} { return int64(0) },
	Step: func(st, input, output interface{}) (bool, interface{}) {
		v, in, res := st.(int64), input.(ain), output.(string)
		switch in.op {
		case "a":
			return true, v + in.v
		case "s":
			return res == "z"+strconv.FormatInt(v, 10), v
		case "r":
			return true, int64(0)
		case "q":
			return res == "z"+strconv.FormatInt(v, 10), int64(0)
		case "w":
			return true, in.v
		}
		return true, v
	},
	Equal: func(a, b interface{}) bool { return a.(int64) == b.(int64) },
}

func monitor(s *vdrv.Scenario, h *vdrv.History, fin string, aborted string) string {
	if aborted != "" {
		return "run did not complete: " + aborted
	}
	cs := calls(s, h)
	if s.OptInt("nomodel", 0) != 0 && (s.Kind == "jdkf" || s.Kind == "atomicf") && len(s.Threads) == 1 {
		return floatScript(cs, fin)
	}
	stores := false
	var total int64
	for _, c := range cs {
		if d, ok := delta(c.op); ok {
			total += d
		}
		if c.op.Name == "r" || c.op.Name == "q" || c.op.Name == "w" {
			stores = true
		}
	}
	if s.Kind == "mutexadd" {
		var ops []porcupine.Operation
		for _, c := range cs {
			in := ain{c.op.Name, c.op.Arg(0)}
			if d, ok := delta(c.op); ok {
				in = ain{"a", d}
			}
			ops = append(ops, porcupine.Operation{ClientId: c.t, Input: in, Call: int64(c.inv), Output: c.res, Return: int64(c.ret)})
		}
		if res, _ := porcupine.CheckOperationsVerbose(counterModel, ops, 0); res != porcupine.Ok {
			return "mutex adder history is not linearizable as a single number"
		}
		// conservation: SumAndReset results + final Sum = total added (no Store/Reset)
		onlyQ := true
		var got int64
		for _, c := range cs {
			if c.op.Name == "r" || c.op.Name == "w" {
				onlyQ = false
			}
			if c.op.Name == "q" {
				v, _ := strconv.ParseInt(c.res[1:], 10, 64)
				got += v
			}
		}
		if onlyQ {
			f0 := strings.Split(fin, ",")[0]
			v, _ := strconv.ParseInt(f0[1:], 10, 64)
			if got+v != total {
				return fmt.Sprintf("SumAndReset results (%d) + final Sum (%d) != total added (%d)", got, v, total)
			}
		}
	}
	if !stores {
		// C09: every Sum = total of a set of updates between "returned before" and "invoked before return"
		for _, c := range cs {
			if c.op.Name != "s" || c.ret < 0 {
				continue
			}
			got, err := strconv.ParseInt(c.res[1:], 10, 64)
			if err != nil {
				return "Sum returned a non-integral value " + c.res
			}
			var must int64
			var opt []int64
			for _, u := range cs {
				d, ok := delta(u.op)
				if !ok {
					continue
				}
				if u.ret >= 0 && u.ret < c.inv {
					must += d
				} else if u.inv < c.ret {
					opt = append(opt, d)
				}
			}
			found := subsetSum(got-must, opt)
			if !found {
				return fmt.Sprintf("Sum (thread %d op %d) returned %d: not the total of any set of whole updates containing all that had returned (%d) and only ones already invoked (optional %v)", c.t, c.k, got, must, opt)
			}
		}
		// C02: quiescent Sum = exact total
		f0 := strings.Split(fin, ",")[0]
		if f0 != "z"+strconv.FormatInt(total, 10) {
			return fmt.Sprintf("after all updates returned Sum() = %s, exact total = %d (an update was lost, duplicated or torn)", f0, total)
		}
	}
	// C16: the quiescent script behaves like a single number
	if len(s.Threads) == 1 || !stores || phased(s) {
		if m := numberScript(s, cs, fin); m != "" {
			return m
		}
	}
	return ""
}

// reference: a plain number, for single-threaded scripts and for the final script
func numberScript(s *vdrv.Scenario, cs []*call, fin string) string {
	var v int64
	apply := func(op vdrv.Op) string {
		if d, ok := delta(op); ok {
			v += d
			return "u"
		}
		switch op.Name {
		case "s":
			return "z" + strconv.FormatInt(v, 10)
		case "r":
			v = 0
		case "q":
			r := "z" + strconv.FormatInt(v, 10)
			v = 0
			return r
		case "w":
			v = op.Arg(0)
		}
		return "u"
	}
	if len(s.Threads) == 1 || phased(s) {
		for _, c := range cs {
			if want := apply(c.op); c.res != want && (len(s.Threads) == 1 || c.op.Name != "s" || exclusive(cs, c)) {
				return fmt.Sprintf("op %s of thread %d returned %s, a single number gives %s", c.op, c.t, c.res, want)
			}
		}
	} else {
		for _, c := range cs {
			apply(c.op)
		}
	}
	var want []string
	for _, op := range finalScript {
		want = append(want, apply(op))
	}
	if w := strings.Join(want, ","); w != fin {
		return fmt.Sprintf("quiescent script Sum,Store(7),Sum,Add(5),Sum,SumAndReset,Sum,Add(3),Reset,Sum,Add(11),Sum returned %s, a single number gives %s", fin, w)
	}
	return ""
}

// single-threaded float scripts with values outside the modelled range (overflow to +-Inf, NaN):
// exact comparison with a plain float64
func floatScript(cs []*call, fin string) string {
	var v float64
	apply := func(op vdrv.Op) string {
		x := float64(op.Arg(0))
		switch op.Name {
		case "h":
			if op.Arg(0) < 0 {
				v += -math.MaxFloat64
			} else {
				v += math.MaxFloat64
			}
		case "a":
			v += x
		case "i":
			v += 1
		case "d":
			v += -1
		case "s":
			return fz(v)
		case "r":
			v = 0
		case "q":
			r := fz(v)
			v = 0
			return r
		case "w":
			v = x
		}
		return "u"
	}
	same := func(a, b string) bool {
		// every NaN is the same number for this purpose
		return a == b || (strings.HasPrefix(a, "zf") && strings.HasPrefix(b, "zf") && isNaNBits(a) && isNaNBits(b))
	}
	for _, c := range cs {
		if want := apply(c.op); !same(c.res, want) {
			return fmt.Sprintf("op %s returned %s, a single number (plain float64) gives %s", c.op, c.res, want)
		}
	}
	var want []string
	for _, op := range finalScript {
		want = append(want, apply(op))
	}
	got := strings.Split(fin, ",")
	for i := range want {
		if i >= len(got) || !same(got[i], want[i]) {
			return fmt.Sprintf("quiescent script returned %s, a single number (plain float64) gives %s", fin, strings.Join(want, ","))
		}
	}
	return ""
}

func isNaNBits(z string) bool {
	b, err := strconv.ParseUint(z[2:], 10, 64)
	if err != nil {
		return false
	}
	f := math.Float64frombits(b)
	return f != f
}

func phased(s *vdrv.Scenario) bool {
	for _, th := range s.Threads {
		for _, o := range th {
			if o.Name == "/" {
				return true
			}
		}
	}
	return false
}

// no other call overlaps c
func exclusive(cs []*call, c *call) bool {
	for _, o := range cs {
		if o != c && o.inv < c.ret && (o.ret < 0 || o.ret > c.inv) {
			return false
		}
	}
	return true
}

// subsetSum decides whether target is the sum of a sub-multiset of vals.  The generators use
// +-1 (Inc/Dec) and distinct powers of two >= 4 (signed): the powers are decoded bit by bit,
// the units enumerated; anything else falls back to enumeration (bounded).
func subsetSum(target int64, vals []int64) bool {
	var plus, minus int
	var pows []int64
	seen := map[int64]bool{}
	regular := true
	for _, v := range vals {
		m := v
		if m < 0 {
			m = -m
		}
		switch {
		case v == 1:
			plus++
		case v == -1:
			minus++
		case m >= 4 && m&(m-1) == 0 && !seen[m]:
			seen[m] = true
			pows = append(pows, v)
		default:
			regular = false
		}
	}
	if !regular {
		if len(vals) > 22 {
			return true // too many irregular optional updates to decide cheaply: not judged
		}
		for mask := 0; mask < 1<<len(vals); mask++ {
			var sum int64
			for i, d := range vals {
				if mask>>i&1 == 1 {
					sum += d
				}
			}
			if sum == target {
				return true
			}
		}
		return false
	}
	sort.Slice(pows, func(i, j int) bool { return abs64(pows[i]) < abs64(pows[j]) })
	for a := 0; a <= plus; a++ {
		for b := 0; b <= minus; b++ {
			rem := target - int64(a) + int64(b)
			for _, v := range pows {
				m := abs64(v)
				if rem%(2*m) != 0 {
					rem -= v
				}
			}
			if rem == 0 {
				return true
			}
		}
	}
	return false
}

func abs64(x int64) int64 {
	if x < 0 {
		return -x
	}
	return x
}

func main() {
	comp := vdrv.Component{New: newInst, Monitor: monitor}
	vdrv.Main(map[string]vdrv.Component{"jdkadd": comp, "jdkf": comp, "rc": comp, "atomic": comp, "atomicf": comp, "mutexadd": comp})
}
