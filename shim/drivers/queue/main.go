// Controlled-schedule driver for package queue (JDKLinkedQueue, MutexLinkedQueue).
// Ops: o<v> Offer, p Poll, k Peek, e IsEmpty, z Size, i Iterator(), h HasNext,
// n Next, r Remove.  Results: u, v<n> (v0 = nil), b0/b1, s<n>.
package main

import (
	"fmt"
	"sort"
	"strconv"
	"strings"

	"github.com/anishathalye/porcupine"
	"go.linecorp.com/garr/queue"
	"go.linecorp.com/garr/vshim/vdrv"
)

type inst struct {
	q     queue.Queue
	iters []queue.Iterator
	kind  string
}

// Elements of unusual but legal kinds: a queue element is any non-nil interface value, also one whose data word is
// nil or zero (typed nil pointer / map / chan / func, empty struct, zero int, empty string, nil slice).
type marker struct{ _ int }

func elem(v int64) interface{} {
	switch v {
	case 901:
		return (*marker)(nil)
	case 902:
		return map[int]int(nil)
	case 903:
		return (chan int)(nil)
	case 904:
		return (func())(nil)
	case 905:
		return struct{}{}
	case 906:
		return ""
	case 907:
		return int(0)
	case 908:
		return []int(nil)
	}
	return v
}

func val(x interface{}) string {
	if x == nil {
		return "v0"
	}
	switch y := x.(type) {
	case int64:
		return "v" + strconv.FormatInt(y, 10)
	case *marker:
		if y == nil {
			return "v901"
		}
	case map[int]int:
		if y == nil {
			return "v902"
		}
	case chan int:
		if y == nil {
			return "v903"
		}
	case func():
		if y == nil {
			return "v904"
		}
	case struct{}:
		return "v905"
	case string:
		if y == "" {
			return "v906"
		}
	case int:
		if y == 0 {
			return "v907"
		}
	case []int:
		if y == nil {
			return "v908"
		}
	}
	return fmt.Sprintf("v-unexpected(%T)", x)
}

func (in *inst) Exec(t int, op vdrv.Op) string {
	switch op.Name {
	case "o":
		if op.Arg(0) == 0 {
			in.q.Offer(nil)
		} else {
			in.q.Offer(elem(op.Arg(0)))
		}
		return "u"
	case "p":
		return val(in.q.Poll())
	case "k":
		return val(in.q.Peek())
	case "e":
		if in.q.IsEmpty() {
			return "b1"
		}
		return "b0"
	case "z":
		return "s" + strconv.Itoa(int(in.q.Size()))
	case "i":
		in.iters[t] = in.q.Iterator()
		return "u"
	case "h":
		if in.iters[t] == nil {
			return "b0"
		}
		if in.iters[t].HasNext() {
			return "b1"
		}
		return "b0"
	case "n":
		if in.iters[t] == nil {
			return "v0"
		}
		return val(in.iters[t].Next())
	case "r":
		if in.iters[t] != nil {
			in.iters[t].Remove()
		}
		return "u"
	}
	panic("unknown op " + op.Name)
}

func (in *inst) Final() string {
	sz := in.q.Size()
	var d, tr []string
	if it := in.q.Iterator(); it != nil {
		for it.HasNext() {
			tr = append(tr, val(it.Next())[1:])
		}
	}
	for {
		x := in.q.Poll()
		if x == nil {
			break
		}
		d = append(d, val(x)[1:])
	}
	return fmt.Sprintf("s%d t%s d%s", sz, strings.Join(tr, ","), strings.Join(d, ","))
}

func newInst(s *vdrv.Scenario) vdrv.Instance {
	in := &inst{kind: s.Kind, iters: make([]queue.Iterator, len(s.Threads))}
	if s.Kind == "mutex" {
		in.q = queue.NewQueue(queue.MutexLinkedQueueType)
	} else if k := s.OptInt("qtype", -1); k >= 0 {
		in.q = queue.NewQueue(queue.Type(k)) // any Type but MutexLinkedQueueType: the lock-free queue
	} else if len(s.Prefill)%3 == 1 {
		in.q = queue.DefaultQueue() // documented default: the lock-free queue
	} else {
		in.q = queue.NewQueue(queue.JDKLinkedQueueType)
	}
	for _, v := range s.Prefill {
		if v < 0 {
			in.q.Poll() // set-up scripts: a negative entry is a Poll (lagging head / tail shapes)
		} else {
			in.q.Offer(elem(v))
		}
	}
	return in
}

// livePrefill is the content the set-up script leaves in the queue.
func livePrefill(s *vdrv.Scenario) []int64 {
	var q []int64
	for _, v := range s.Prefill {
		if v >= 0 {
			q = append(q, v)
		} else if len(q) > 0 {
			q = q[1:]
		}
	}
	return q
}

// ---- monitors -----------------------------------------------------------

type qin struct {
	op string
	v  int64
}

// sequential FIFO specification (+ Remove(v) of iterators, + Size for the mutex queue)
var fifoModel = porcupine.Model{
	Init: func() interface{} { return "" },
	Step: func(st, input, output interface{}) (bool, interface{}) {
		s := st.(string)
		var items []string
		if s != "" {
			items = strings.Split(s, ",")
		}
		in, res := input.(qin), output.(string)
		switch in.op {
		case "o":
			if in.v == 0 {
				return true, s
			}
			items = append(items, strconv.FormatInt(in.v, 10))
			return true, strings.Join(items, ",")
		case "p":
			if len(items) == 0 {
				return res == "v0", s
			}
			return res == "v"+items[0], strings.Join(items[1:], ",")
		case "k":
			if len(items) == 0 {
				return res == "v0", s
			}
			return res == "v"+items[0], s
		case "e":
			if len(items) == 0 {
				return res == "b1", s
			}
			return res == "b0", s
		case "z":
			return res == "s"+strconv.Itoa(len(items)), s
		case "r":
			x := strconv.FormatInt(in.v, 10)
			var keep []string
			for _, it := range items {
				if it != x {
					keep = append(keep, it)
				}
			}
			return true, strings.Join(keep, ",")
		}
		return true, s
	},
	Equal: func(a, b interface{}) bool { return a.(string) == b.(string) },
}

type trav struct {
	t          int
	start, end int
	vals       []int64
	complete   bool
}

type call struct {
	t, k     int
	op       vdrv.Op
	inv, ret int // event indexes; ret = -1: pending
	res      string
}

func calls(s *vdrv.Scenario, h *vdrv.History) []*call {
	m := map[[2]int]*call{}
	var cs []*call
	for i, e := range h.Events {
		key := [2]int{e.T, e.K}
		if !e.Ret {
			c := &call{t: e.T, k: e.K, op: s.Op(e.T, e.K), inv: i, ret: -1}
			m[key] = c
			cs = append(cs, c)
		} else {
			m[key].ret = i
			m[key].res = e.Res
		}
	}
	return cs
}

func monitor(s *vdrv.Scenario, h *vdrv.History, fin string, aborted string) string {
	if aborted != "" {
		if strings.HasPrefix(aborted, "panic") || strings.HasPrefix(aborted, "deadlock") || strings.HasPrefix(aborted, "step bound") {
			return "run did not complete: " + aborted
		}
		return ""
	}
	cs := calls(s, h)
	end := len(h.Events) + 10
	// the value each Remove targets = the last value its thread's Next returned
	lastNext := map[int]int64{}
	var ops []porcupine.Operation
	offered := map[int64]bool{}
	pre := livePrefill(s)
	for _, v := range pre {
		offered[v] = true
		ops = append(ops, porcupine.Operation{ClientId: 99, Input: qin{"o", v}, Call: int64(-2 * (len(pre) - len(ops))), Output: "u", Return: int64(-2*(len(pre)-len(ops)) + 1)})
	}
	polled := map[int64]int{}
	goneInv := map[int64]int{} // earliest invocation of a call that took the element out
	pendingPoll := false
	removedAt := map[int64]int{}
	var travs []*trav
	cur := map[int]*trav{}
	for _, c := range cs {
		ret := c.ret
		if ret < 0 {
			ret = end
		}
		o := porcupine.Operation{ClientId: c.t, Call: int64(c.inv), Return: int64(ret), Output: c.res}
		switch c.op.Name {
		case "o":
			if c.op.Arg(0) != 0 {
				offered[c.op.Arg(0)] = true
			}
			o.Input = qin{"o", c.op.Arg(0)}
			ops = append(ops, o)
		case "p", "k", "e":
			if c.op.Name == "p" && c.res != "v0" && c.res != "" {
				v, _ := strconv.ParseInt(c.res[1:], 10, 64)
				polled[v]++
				if g, ok := goneInv[v]; !ok || c.inv < g {
					goneInv[v] = c.inv
				}
			}
			if c.op.Name == "p" && c.ret < 0 {
				pendingPoll = true
			}
			o.Input = qin{c.op.Name, 0}
			ops = append(ops, o)
		case "z":
			if s.Kind == "mutex" {
				o.Input = qin{"z", 0}
				ops = append(ops, o)
			}
		case "i":
			tr := &trav{t: c.t, start: c.inv, end: ret}
			delete(lastNext, c.t) // a fresh iterator has no last-returned element
			cur[c.t] = tr
			travs = append(travs, tr)
		case "n":
			if c.res != "v0" && c.res != "" {
				v, _ := strconv.ParseInt(c.res[1:], 10, 64)
				lastNext[c.t] = v
				if tr := cur[c.t]; tr != nil {
					tr.vals = append(tr.vals, v)
					tr.end = ret
				}
			} else if tr := cur[c.t]; tr != nil && !tr.complete {
				tr.end = ret
				tr.complete = c.ret >= 0
			}
		case "h":
			if tr := cur[c.t]; tr != nil && c.res == "b0" && !tr.complete {
				tr.end = ret
				tr.complete = true
			}
		case "r":
			if v, ok := lastNext[c.t]; ok && v != 0 {
				o.Input = qin{"r", v}
				o.Output = "u"
				ops = append(ops, o)
				if _, seen := removedAt[v]; !seen {
					removedAt[v] = ret
				}
				if g, ok := goneInv[v]; !ok || c.inv < g {
					goneInv[v] = c.inv
				}
				delete(lastNext, c.t)
			}
		}
	}
	if res, _ := porcupine.CheckOperationsVerbose(fifoModel, ops, 0); res != porcupine.Ok {
		return "not linearizable as a FIFO queue: no sequential witness for this history"
	}
	// final state: s<size> d<drained>
	var sz int
	var dstr, tstr string
	ff := strings.Fields(fin)
	if len(ff) == 3 {
		sz, _ = strconv.Atoi(ff[0][1:])
		tstr, dstr = ff[1][1:], ff[2][1:]
	}
	if s.Kind == "jdk" && tstr != dstr {
		return fmt.Sprintf("at quiescence a full iteration returned [%s] but the drain returned [%s]", tstr, dstr)
	}
	var drained []int64
	if dstr != "" {
		for _, x := range strings.Split(dstr, ",") {
			v, _ := strconv.ParseInt(x, 10, 64)
			drained = append(drained, v)
		}
	}
	if sz != len(drained) {
		return fmt.Sprintf("quiescent Size()=%d but the drain returned %d elements", sz, len(drained))
	}
	seen := map[int64]int{}
	for v, n := range polled {
		seen[v] += n
	}
	for _, v := range drained {
		seen[v]++
		if _, rem := removedAt[v]; rem {
			return fmt.Sprintf("element %d was removed through an iterator and is still in the queue afterwards", v)
		}
	}
	var keys []int64
	for v := range offered {
		keys = append(keys, v)
	}
	sort.Slice(keys, func(i, j int) bool { return keys[i] < keys[j] })
	for _, v := range keys {
		_, rem := removedAt[v]
		if seen[v] > 1 {
			return fmt.Sprintf("element %d left the queue %d times", v, seen[v])
		}
		if seen[v] == 0 && !rem {
			return fmt.Sprintf("element %d was offered but is neither polled, removed nor still queued (lost)", v)
		}
	}
	for v := range seen {
		if !offered[v] {
			return fmt.Sprintf("element %d left the queue but was never offered", v)
		}
	}
	// iterator traversals
	offInv, offRet := map[int64]int{}, map[int64]int{}
	for _, v := range livePrefill(s) {
		offInv[v], offRet[v] = -1, -1
	}
	for _, c := range cs {
		ret := c.ret
		if ret < 0 {
			ret = end
		}
		if c.op.Name == "o" && c.op.Arg(0) != 0 {
			offInv[c.op.Arg(0)], offRet[c.op.Arg(0)] = c.inv, ret
		}
	}
	for _, tr := range travs {
		dup := map[int64]bool{}
		for i, v := range tr.vals {
			if !offered[v] {
				return fmt.Sprintf("iterator returned %d which was never offered", v)
			}
			if dup[v] {
				return fmt.Sprintf("iterator returned %d twice in one traversal", v)
			}
			dup[v] = true
			if r, ok := removedAt[v]; ok && r < tr.start {
				return fmt.Sprintf("iterator returned %d after its removal had completed", v)
			}
			for _, w := range tr.vals[i+1:] {
				if offRet[w] < offInv[v] {
					return fmt.Sprintf("iterator returned %d before %d although %d was offered first (queue order)", v, w, w)
				}
			}
		}
		// completeness: a traversal run to its end returns every element that was in the
		// queue before it started and was not taken out before it ended
		if tr.complete && !pendingPoll {
			for _, v := range keys {
				g, gone := goneInv[v]
				if offRet[v] < tr.start && (!gone || g > tr.end) && !dup[v] {
					return fmt.Sprintf("iterator missed %d, which was in the queue during the whole traversal", v)
				}
			}
		}
	}
	if len(s.Threads) == 1 {
		if m := seqReference(s, cs); m != "" {
			return m
		}
	}
	return ""
}

// single-threaded scripts: exact comparison with a plain list (C15)
func seqReference(s *vdrv.Scenario, cs []*call) string {
	type cell struct {
		v    int64
		live bool
	}
	var cells []cell
	for _, v := range livePrefill(s) {
		cells = append(cells, cell{v, true})
	}
	firstLive := func(from int) int {
		for i := from; i < len(cells); i++ {
			if cells[i].live {
				return i
			}
		}
		return -1
	}
	cursor, lastRet, hasIter := -1, -1, false
	for _, c := range cs {
		want := ""
		switch c.op.Name {
		case "o":
			if c.op.Arg(0) != 0 {
				cells = append(cells, cell{c.op.Arg(0), true})
			}
			want = "u"
		case "p":
			if i := firstLive(0); i >= 0 {
				want = "v" + strconv.FormatInt(cells[i].v, 10)
				cells[i].live = false
			} else {
				want = "v0"
			}
		case "k":
			if i := firstLive(0); i >= 0 {
				want = "v" + strconv.FormatInt(cells[i].v, 10)
			} else {
				want = "v0"
			}
		case "e":
			want = "b1"
			if firstLive(0) >= 0 {
				want = "b0"
			}
		case "z":
			n := 0
			for _, x := range cells {
				if x.live {
					n++
				}
			}
			want = "s" + strconv.Itoa(n)
		case "i":
			want = "u"
			if s.Kind == "mutex" {
				break
			}
			hasIter, cursor, lastRet = true, firstLive(0), -1
		case "h":
			want = "b0"
			if hasIter && cursor >= 0 {
				want = "b1"
			}
		case "n":
			want = "v0"
			if hasIter && cursor >= 0 {
				want = "v" + strconv.FormatInt(cells[cursor].v, 10)
				lastRet = cursor
				cursor = firstLive(cursor + 1)
			}
		case "r":
			want = "u"
			if hasIter && lastRet >= 0 {
				cells[lastRet].live = false
				lastRet = -1
			}
		}
		if c.res != want {
			return fmt.Sprintf("sequential script: op #%d %s returned %s, a plain FIFO list gives %s", c.k, c.op, c.res, want)
		}
	}
	return ""
}

func main() {
	comp := vdrv.Component{New: newInst, Monitor: monitor, SoloBound: func(s *vdrv.Scenario) int {
		n := len(s.Prefill)
		for _, th := range s.Threads {
			for _, o := range th {
				if o.Name == "o" {
					n++
				}
			}
		}
		return 6*(n+2) + 12
	}}
	vdrv.Main(map[string]vdrv.Component{"jdk": comp, "mutex": {New: newInst, Monitor: monitor}})
}
