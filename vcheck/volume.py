"""Volume runs (harness/cmd/volume): the real, uninstrumented library at sizes the controlled-schedule runs cannot reach
(2^20 tasks through one worker, tens of thousands of workers, thousands of window buckets, consumer storms on a
well-filled queue).  A search aid: it turns a change that the exercised-code obligation or the lockstep only reports as a
broken tie into a concrete failing input.  Every verdict rests on an assertion that holds under every schedule."""
import os, re
from . import common as C

def make_corr(prop, kind, relevant):
    def run(tier, seed):
        res = {"rule": "volume runs of the real library (no instrumentation): one case per named workload", "evaluations": 0, "distinct_nontrivial": 0,
               "mismatches": [], "violations": [], "samples": [], "traces_validated_against_impl": 0, "stats": {}}
        ok, exe, out = C.go_build("volume")
        if not ok:
            res["build_error"] = "go build of the volume harness against /repo failed:\n" + out
            return res
        rc, out = C.sh([exe, "-kinds", kind], timeout=900)
        oks = re.findall(r'^OK (\S+)', out, flags=re.M)
        viols = re.findall(r'^VIOL (\S+) \| (.*)$', out, flags=re.M)
        if rc != 0 or not (oks or viols):
            res["mismatches"].append({"kind": "the volume harness crashed", "log": out[-1500:], "driver": "volume"})
        for name, what in viols:
            item = {"what": "volume run %s: %s" % (name, what), "history": "", "scenario": {"id": name, "kind": "volume"},
                    "replay_input": "build/bin/volume -kinds %s   (workload %s; go build ./cmd/volume in harness/)" % (kind, name), "driver": "volume"}
            if re.search(relevant, what):
                res["violations"].append(item)
            else:
                res["mismatches"].append(dict(item, kind="volume verdict outside this property: " + what))
        res["evaluations"] = len(oks) + len(viols)
        res["stats"] = {"volume_workloads": sorted(oks + [v[0] for v in viols])}
        return res
    return run

def replay(prop, data):
    ok, exe, out = C.go_build("volume")
    if not ok:
        print(out[-2000:])
        return 2
    bad = 0
    kinds = sorted({(it.get("scenario") or {}).get("id", "").split("/")[0] for it in (data.get("violations") or data.get("mismatches") or []) if it.get("driver") == "volume"} - {""})
    for k in kinds:
        rc, out = C.sh([exe, "-kinds", k], timeout=900)
        for l in out.splitlines():
            if l.startswith("VIOL"):
                print(l)
                bad += 1
    if bad:
        print("VIOLATION property=%s replay=%s" % (prop, data.get("_path", "")))
        return 1
    print("no volume verdict on this tree")
    return 0
