"""Shared machinery of the ./check driver: building the Coq development, the
extracted OCaml model runners and the Go harness; evidence; known findings."""
import fcntl, hashlib, json, os, re, subprocess, sys, time

ROOT = os.path.dirname(os.path.dirname(os.path.abspath(__file__)))
BUILD = os.path.join(ROOT, "build")
COQ = os.path.join(ROOT, "coq")
REPO = os.environ.get("VERIF_REPO", "/repo")
GOENV = dict(os.environ, GOFLAGS="-mod=mod", GOPROXY="off", GOSUMDB="off", GOTOOLCHAIN="local",
             CGO_ENABLED=os.environ.get("CGO_ENABLED", "0"))

STD_AXIOMS = {
    "ClassicalDedekindReals.sig_not_dec", "ClassicalDedekindReals.sig_forall_dec",
    "FunctionalExtensionality.functional_extensionality_dep", "Classical_Prop.classic",
}

def log(*a):
    print(*a, file=sys.stderr, flush=True)

def sh(cmd, cwd=ROOT, timeout=3600, env=None, input=None):
    p = subprocess.run(cmd, cwd=cwd, shell=isinstance(cmd, str), env=env or os.environ,
                       stdout=subprocess.PIPE, stderr=subprocess.STDOUT, timeout=timeout,
                       input=input, text=True)
    return p.returncode, p.stdout

class Lock:
    def __init__(self, name):
        os.makedirs(BUILD, exist_ok=True)
        self.path = os.path.join(BUILD, "." + name + ".lock")
    def __enter__(self):
        self.f = open(self.path, "w")
        fcntl.flock(self.f, fcntl.LOCK_EX)
        return self
    def __exit__(self, *a):
        fcntl.flock(self.f, fcntl.LOCK_UN)
        self.f.close()

# ---------------------------------------------------------------- Coq

def coq_build():
    """Full .vo build of the whole development (no -vos). Returns (ok, output, failing_file)."""
    with Lock("coq"):
        if not os.path.exists(os.path.join(COQ, "Makefile")) or \
           os.path.getmtime(os.path.join(COQ, "Makefile")) < os.path.getmtime(os.path.join(COQ, "_CoqProject")):
            rc, out = sh("coq_makefile -f _CoqProject -o Makefile", cwd=COQ)
            if rc != 0:
                return False, out, None
        rc, out = sh("timeout 3000 make -j16", cwd=COQ, timeout=3100)
    bad = None
    m = re.search(r'File "\./(theories/[^"]+)", line (\d+)', out)
    if rc != 0 and m:
        bad = m.group(1) + ":" + m.group(2)
    return rc == 0, out, bad

def coq_deps():
    """file -> direct deps (theories/*.v), from coq_makefile's dependency file."""
    deps = {}
    path = os.path.join(COQ, ".Makefile.d")
    if not os.path.exists(path):
        return deps
    for line in open(path):
        if ":" not in line:
            continue
        lhs, rhs = line.split(":", 1)
        tgt = [t for t in lhs.split() if t.endswith(".vo")]
        if not tgt:
            continue
        src = tgt[0][:-1]
        deps[src] = [d[:-1] for d in rhs.split() if d.endswith(".vo") and d.startswith("theories/")]
    return deps

def coq_cone(prop_file):
    deps = coq_deps()
    seen, todo = [], [prop_file]
    while todo:
        f = todo.pop()
        if f in seen:
            continue
        seen.append(f)
        todo.extend(deps.get(f, []))
    return sorted(seen)

PROOF_START = re.compile(r'^\s*(?:Local\s+|Global\s+|#\[[^\]]*\]\s*)*(Lemma|Theorem|Corollary|Example|Fact|Proposition|Remark)\s+([A-Za-z0-9_\']+)', re.M)

def count_obligations(files):
    """(#statements opened, #closed by Qed/Defined, names of admitted) over the given files."""
    opened = closed = 0
    bad = []
    for f in files:
        src = open(os.path.join(COQ, f)).read()
        src = re.sub(r'\(\*.*?\*\)', '', src, flags=re.S)
        opened += len(PROOF_START.findall(src))
        # section-local statements proved interactively: Let name ... : statement. Proof. ... Qed.
        opened += sum(1 for m in re.finditer(r'^\s*Let\s+[A-Za-z0-9_\']+\b(.*?)\.\s', src, flags=re.M | re.S) if ':=' not in m.group(1))
        closed += len(re.findall(r'\b(Qed|Defined)\s*\.', src))
        if re.search(r'\b(Admitted|admit|Axiom|Parameter|Conjecture|Admit Obligations)\b', src):
            bad.append(f)
    # every Qed/Defined closes a statement; a statement form this scan does not know must not make the record inconsistent
    return max(opened, closed), closed, bad

FORBIDDEN = re.compile(r'\b(Admitted|admit\b|Axiom|Parameter|Conjecture|Admit Obligations|Unset Guard|bypass_check|type-in-type|impredicative-set|Unset Positivity|Unset Universe)')

def forbidden_scan():
    hits = []
    for dp, _, fs in os.walk(os.path.join(COQ, "theories")):
        for f in fs:
            if f.endswith(".v"):
                src = open(os.path.join(dp, f)).read()
                src = re.sub(r'\(\*.*?\*\)', '', src, flags=re.S)
                for m in FORBIDDEN.finditer(src):
                    hits.append("%s: %s" % (os.path.join(dp, f), m.group(0)))
    proj = open(os.path.join(COQ, "_CoqProject")).read()
    if re.search(r'type-in-type|impredicative-set', proj):
        hits.append("_CoqProject: forbidden flag")
    return hits

def theorem_names(prop_file):
    src = open(os.path.join(COQ, prop_file)).read()
    src = re.sub(r'\(\*.*?\*\)', '', src, flags=re.S)
    return [m.group(2) for m in PROOF_START.finditer(src) if m.group(1) == "Theorem"]

def theorem_statements(prop_file):
    src = open(os.path.join(COQ, prop_file)).read()
    out = []
    for m in re.finditer(r'(Theorem\s+[A-Za-z0-9_\']+.*?)\s*Proof\.', src, flags=re.S):
        out.append(re.sub(r'\s+', ' ', m.group(1)).strip())
    return out

def coq_assumptions(prop_id, extra_files=()):
    """Print Assumptions of every Theorem of Properties/<id>.v (and of the extra property files), run now.
    Returns (ok, {theorem: [axioms]}, raw)"""
    pf = "theories/Properties/%s.v" % prop_id
    names = theorem_names(pf)
    extra_mods = []
    for f in extra_files:
        names += theorem_names(f)
        extra_mods.append(f[len("theories/"):-2].replace("/", "."))
    d = os.path.join(BUILD, "assume")
    os.makedirs(d, exist_ok=True)
    # Print Assumptions walks the whole proof term of every theorem: shard the theorem list over parallel coqc runs
    import subprocess
    nsh = max(1, min(8, (len(names) + 2) // 3))
    procs = []
    for k in range(nsh):
        part = names[k::nsh]
        vf = os.path.join(d, "Assume_%s_%d.v" % (prop_id, k))
        with open(vf, "w") as f:
            f.write("From Garr Require Import Properties.%s.\n" % prop_id)
            for m in extra_mods:
                f.write("From Garr Require Import %s.\n" % m)
            for n in part:
                f.write('Goal True. idtac "@@THEOREM %s". exact I. Qed.\nPrint Assumptions %s.\n' % (n, n))
        procs.append(subprocess.Popen(["timeout", "900", "coqc", "-Q", os.path.join(COQ, "theories"), "Garr", vf], cwd=d,
                                      stdout=subprocess.PIPE, stderr=subprocess.STDOUT, text=True))
    rc, out = 0, ""
    for pr in procs:
        o, _ = pr.communicate()
        out += o
        rc = rc or pr.returncode
    res, cur = {}, None
    for line in out.splitlines():
        m = re.match(r'@@THEOREM (\S+)', line)
        if m:
            cur = m.group(1); res[cur] = []
            continue
        m = re.match(r'^([A-Za-z_][A-Za-z0-9_\.\']*)\s*(:|$)', line)
        if cur and m and not line.startswith(("Axioms", "Closed", "Goal", " ")):
            res[cur].append(m.group(1))
    return rc == 0 and len(res) == len(names), res, out

# ---------------------------------------------------------------- OCaml / Go builds

def _stale(target, sources):
    if not os.path.exists(target):
        return True
    t = os.path.getmtime(target)
    return any(os.path.getmtime(s) > t for s in sources)

def ocaml_build(name, extract_v, model_name, driver_ml, extra_srcs=(), zconv=True):
    """Extract `extract_v` (which writes <model_name>.ml in cwd) and link it with the driver."""
    d = os.path.join(BUILD, "ocaml", name)
    os.makedirs(d, exist_ok=True)
    exe = os.path.join(d, name)
    ev = os.path.join(COQ, extract_v)
    drv = os.path.join(ROOT, "ocaml", driver_ml)
    zc = os.path.join(ROOT, "ocaml", "zconv.ml.in")
    vos = []
    for dp, _, fs in os.walk(os.path.join(COQ, "theories")):
        vos += [os.path.join(dp, f) for f in fs if f.endswith(".vo")]
    with Lock("ocaml-" + name):
        if not _stale(exe, [ev, drv, zc] + vos + [os.path.join(ROOT, "ocaml", s) for s in extra_srcs]):
            return True, exe, ""
        rc, out = sh(["coqc", "-Q", os.path.join(COQ, "theories"), "Garr", "-o", os.path.join(d, os.path.basename(ev) + "o"), ev], cwd=d, timeout=900)
        if rc != 0:
            return False, exe, out
        mod = model_name[0].upper() + model_name[1:]
        srcs = [model_name + ".mli", model_name + ".ml"]
        if zconv:
            open(os.path.join(d, "zconv.ml"), "w").write(open(zc).read().replace("@MODEL@", mod))
            srcs.append("zconv.ml")
        for s in list(extra_srcs) + [driver_ml]:
            open(os.path.join(d, s), "w").write(open(os.path.join(ROOT, "ocaml", s)).read())
            srcs.append(s)
        rc, out2 = sh(["ocamlfind", "ocamlopt", "-package", "zarith", "-linkpkg", "-w", "-a"] + srcs + ["-o", name], cwd=d, timeout=900)
        return rc == 0, exe, out + out2

def go_build(cmd, out_name=None, tags="", modfile=None, race=False, cover=None):
    """Build harness/cmd/<cmd> against the current /repo working tree."""
    exe = os.path.join(BUILD, "bin", out_name or cmd)
    os.makedirs(os.path.dirname(exe), exist_ok=True)
    args = ["go", "build"]
    if tags:
        args += ["-tags", tags]
    if race:
        args += ["-race"]
    if modfile:
        args += ["-modfile", modfile]
    if cover:
        args += ["-cover", "-covermode=set", "-coverpkg=" + cover + ",./cmd/" + cmd]
    args += ["-o", exe, "./cmd/" + cmd]
    env = dict(GOENV)
    if race:
        env["CGO_ENABLED"] = "1"
    with Lock("go"):
        rc, out = sh(args, cwd=os.path.join(ROOT, "harness"), env=env, timeout=1200)
    return rc == 0, exe, out

# ---------------------------------------------------------------- findings / evidence

def known_findings(prop_id):
    """open entries of known-findings.txt for this property: list of dicts."""
    res = []
    path = os.path.join(ROOT, "known-findings.txt")
    if not os.path.exists(path):
        return res
    for line in open(path):
        line = line.strip()
        if not line.startswith("open:"):
            continue
        m = re.match(r'open:\s+property=(\S+)\s+id=(\S+)\s+match=(\S+)\s+(.*)', line)
        if m and m.group(1) == prop_id:
            res.append({"id": m.group(2), "match": m.group(3), "text": m.group(4)})
    return res

def write_replay(prop_id, kind, payload):
    os.makedirs(os.path.join(ROOT, "replays"), exist_ok=True)
    h = hashlib.sha1(json.dumps(payload, sort_keys=True).encode()).hexdigest()[:10]
    rel = "replays/%s-%s-%s.json" % (prop_id, kind, h)
    with open(os.path.join(ROOT, rel), "w") as f:
        json.dump(dict(payload, property=prop_id, kind=kind), f, indent=1, sort_keys=True)
    return rel

def write_evidence(prop_id, tier, seed, level, coverage, assumptions, wall, violations):
    os.makedirs(os.path.join(ROOT, "evidence"), exist_ok=True)
    ev = {"property_id": prop_id, "tier": tier, "seed": seed, "level": level, "coverage": coverage,
          "assumptions": assumptions, "wall_s": round(wall, 2), "violations": violations}
    with open(os.path.join(ROOT, "evidence", prop_id + ".json"), "w") as f:
        json.dump(ev, f, indent=1)

def repo_head():
    rc, out = sh(["git", "-C", REPO, "rev-parse", "--short", "HEAD"])
    rc2, st = sh(["git", "-C", REPO, "status", "--porcelain"])
    return out.strip() + ("+dirty" if st.strip() else "")
