"""Adder properties C02, C09, C16 (+ the adder half of C19): scenario generators.
P line = the fastrand words (small, so that probes collide and the table grows)."""
from . import conc
from .queue import scale

INT_KINDS = ["jdkadd", "jdkadd", "jdkadd", "rc", "atomic", "mutexadd"]
F_KINDS = ["jdkf", "jdkf", "atomicf"]

def rnd_words(rng, n):
    """what fastrand.Uint32 returns, in order: mostly a tiny palette (collisions), the ends of the 128-cell array of the
    random-cell adder and of the probe mask, now and then any 31-bit value"""
    m = rng.choice([1, 2, 4, 8])
    edge = [127, 126, 64, 63, 128, 255, (1 << 31) - 1, 0]
    def w():
        r = rng.random()
        if r < 0.7:
            return rng.randrange(0, m)
        if r < 0.88:
            return rng.choice(edge)
        return rng.randrange(0, 1 << 31)
    return [w() for _ in range(n)]

def upd(rng, used, kind, big=False):
    r = rng.random()
    if r < 0.12:
        return "i"
    if r < 0.2:
        return "d"
    if big and kind not in ("jdkf", "atomicf") and r < 0.35:
        return "a%d" % rng.choice([1 << 62, (1 << 63) - 1, -(1 << 63), -(1 << 62)])
    k = len(used) + 2
    used.append(k)
    v = 1 << min(k, 40)
    return "a%d" % (v if rng.random() < 0.8 else -v)

def gen_updates(rng, prefix, kinds, count, nthreads, nops, mode, sums=0.0, big=False, opts=None):
    out = []
    for i in range(count):
        kind = rng.choice(kinds)
        nt = rng.choice(nthreads)
        used, ths = [], []
        for t in range(nt):
            th = []
            for _ in range(rng.choice(nops)):
                th.append("s" if rng.random() < sums else upd(rng, used, kind, big))
            ths.append(th)
        o = dict(opts or {})
        if kind in ("jdkadd", "jdkf"):
            o["maxcells"] = rng.choice([1, 2, 2, 4, 8])
        if kind == "rc":
            m = "rand %d %d" % (40, rng.randint(1, 1 << 30))     # 128-cell sums are long: fewer schedules
        else:
            m = mode(rng) if callable(mode) else mode
        out.append(conc.Scn("%s%d" % (prefix, i), kind, rnd_words(rng, 40), ths, m, o))
    return out

# growth races are rare events: these families run SAMPLE times the schedules and replay every SAMPLE-th on the model
# (the monitors judge every run; a run with a monitor verdict is always replayed)
SAMPLE = 5

def gen_growth(rng, prefix, count, runs, sums=0.0, readers=0):
    runs *= SAMPLE
    """many colliding updaters on a tiny probe palette: the table is created, attached to, re-sliced
    to its capacity and re-allocated (make+copy) while Sums / other updates are in flight"""
    out = []
    for i in range(count):
        kind = rng.choice(["jdkadd", "jdkadd", "jdkf"])
        used, ths = [], []
        for t in range(rng.choice([4, 5, 6])):
            ths.append([("s" if rng.random() < sums else upd(rng, used, kind)) for _ in range(rng.choice([4, 5, 6]))])
        for t in range(readers):
            ths.append(["s"] * rng.choice([2, 3, 4]))
        words = [rng.choice([1, 2, 3, 1, 2]) for _ in range(120)]
        m = ("rand %d %d" % (runs, rng.randint(1, 1 << 30))) if i % 2 == 0 else ("pct %d %d %d" % (runs, rng.randint(1, 1 << 30), rng.choice([2, 3, 5])))
        out.append(conc.Scn("%s%d" % (prefix, i), kind, words, ths, m,
                            {"maxcells": rng.choice([4, 8, 8]), "maxsteps": 20000, "sample": SAMPLE}))
    return out

def gen_pregrown(rng, prefix, count, runs, sums=0.0, readers=0):
    """the same from an already grown table (4 of 4, 2 of 4, 8 of 16, 16 of 16 slots; some empty): the next growth
    (re-slice or make+copy) and attaches into empty slots are a couple of collisions away"""
    out = []
    runs *= SAMPLE
    shapes = [(4, 4, 8), (4, 4, 16), (2, 4, 8), (8, 16, 16), (16, 16, 32)]
    for i in range(count):
        kind = rng.choice(["jdkadd", "jdkadd", "jdkf"])
        n, cap, mx = shapes[i % len(shapes)] if i % 5 else shapes[0]
        mask = 0
        for j in range(n):
            if rng.random() < 0.7:
                mask |= 1 << j
        used, ths = [], []
        for t in range(rng.choice([3, 4, 5])):
            ths.append([("s" if rng.random() < sums else upd(rng, used, kind)) for _ in range(rng.choice([2, 3, 4]))])
        for t in range(readers):
            ths.append(["s"] * rng.choice([2, 3]))
        words = [rng.randint(1, n - 1) if rng.random() < 0.8 else rng.randint(1, 2 * n) for _ in range(120)]
        m = ("rand %d %d" % (runs, rng.randint(1, 1 << 30))) if i % 2 == 0 else ("pct %d %d %d" % (runs, rng.randint(1, 1 << 30), rng.choice([2, 3, 5])))
        out.append(conc.Scn("%s%d" % (prefix, i), kind, words, ths, m,
                            {"maxcells": mx, "maxsteps": 20000, "pglen": n, "pgcap": cap, "pgmask": mask, "sample": SAMPLE}))
    return out

def gen_stale_len(rng, prefix, count, runs):
    """the table has 2 of 4 slots (an in-place doubling is pending) and many updaters collide on ONE cell: an updater keeps
    its 2-slot view across somebody else's in-place doubling and then grows the table itself - the growth decision and the
    copy must both be made from the CURRENT table"""
    out = []
    for i in range(count):
        kind = ["jdkadd", "jdkf"][i % 2] if i % 4 else "jdkadd"
        used, ths = [], []
        for t in range(rng.choice([4, 5, 6])):
            ths.append([upd(rng, used, kind) for _ in range(rng.choice([3, 4]))])
        words = [rng.choice([1, 3, 5, 7, 9, 2]) for _ in range(120)]
        m = ("rand %d %d" % (runs * SAMPLE, rng.randint(1, 1 << 30))) if i % 2 == 0 else ("pct %d %d %d" % (runs * SAMPLE, rng.randint(1, 1 << 30), rng.choice([3, 5, 8])))
        out.append(conc.Scn("%s%d" % (prefix, i), kind, words, ths, m,
                            {"maxcells": rng.choice([8, 16]), "maxsteps": 20000, "pglen": 2, "pgcap": 4, "pgmask": 3, "sample": SAMPLE}))
    return out

def gen_directed_attach(tier, prefix="da"):
    """a FULL table (4 of 4 slots) with one empty slot; one updater loses three cell CASes in a row to three others
    (Add's own attempt and two in accumulate: the table must be re-allocated) while a fifth attaches a cell to the empty slot.
    Searched with preemptions ONLY right before CAS / Store accesses (mode dfsw, 4 preemptions): every ordering in which
    the attach lands inside the grower's (or the grow inside the attacher's) read-to-CAS windows"""
    out = []
    for kind in ["jdkadd", "jdkf"]:
        for j, (mask, empty) in enumerate([(7, 3)] if tier == "quick" else [(7, 3), (11, 2)]):
            hit = 1 if empty != 1 else 2
            words = [hit, hit, hit, hit, empty] + [hit] * 30
            ths = [["a8"], ["a16"], ["a32"], ["a64"], ["a128"]]
            out.append(conc.Scn("%s_%s%d" % (prefix, kind, j), kind, words, ths, "dfsw 4 %d" % scale(tier, 40000, 400000),
                                {"maxcells": 8, "maxsteps": 20000, "pglen": 4, "pgcap": 4, "pgmask": mask, "sample": 25}))
    return out

def rand_mode(tier, q, t):
    return lambda r: "rand %d %d" % (scale(tier, q, t), r.randint(1, 1 << 30))

def gen_c02(tier, rng):
    s = []
    s += gen_updates(rng, "a", ["jdkadd"], scale(tier, 14, 100), [2, 3], [1, 2, 3], "dfs 2 %d" % scale(tier, 6000, 80000), big=True)
    s += gen_updates(rng, "b", ["jdkf"], scale(tier, 8, 60), [2, 3], [1, 2, 3], "dfs 2 %d" % scale(tier, 6000, 80000))
    s += gen_updates(rng, "c", ["jdkadd", "jdkadd", "jdkf"], scale(tier, 24, 300), [3, 4, 5], [2, 3, 4], rand_mode(tier, 400, 4000), big=True)
    s += gen_updates(rng, "d", ["rc", "atomic", "atomicf", "mutexadd"], scale(tier, 12, 100), [2, 3], [2, 3], "dfs 2 %d" % scale(tier, 1500, 20000), big=True)
    s += gen_growth(rng, "g", scale(tier, 24, 100), scale(tier, 400, 4000))
    s += gen_pregrown(rng, "h", scale(tier, 48, 120), scale(tier, 400, 4000))
    s += gen_stale_len(rng, "sl", scale(tier, 16, 60), scale(tier, 1200, 6000))
    s += gen_directed_attach(tier)
    return s

def gen_c09(tier, rng):
    s = []
    s += gen_updates(rng, "a", ["jdkadd"], scale(tier, 14, 100), [2, 3], [2, 3], "dfs 2 %d" % scale(tier, 6000, 80000), sums=0.35)
    s += gen_updates(rng, "b", ["jdkf"], scale(tier, 8, 60), [2, 3], [2, 3], "dfs 2 %d" % scale(tier, 6000, 80000), sums=0.35)
    s += gen_updates(rng, "c", ["jdkadd", "jdkadd", "jdkf"], scale(tier, 24, 300), [3, 4, 5], [2, 3, 4], rand_mode(tier, 400, 4000), sums=0.3)
    s += gen_updates(rng, "d", ["rc", "atomic", "atomicf", "mutexadd"], scale(tier, 10, 80), [2, 3], [2, 3], "dfs 2 %d" % scale(tier, 1500, 20000), sums=0.35)
    s += gen_growth(rng, "g", scale(tier, 24, 120), scale(tier, 500, 4000), sums=0.0, readers=2)
    s += gen_pregrown(rng, "h", scale(tier, 48, 150), scale(tier, 500, 4000), sums=0.0, readers=1)
    s += gen_stale_len(rng, "sl", scale(tier, 16, 60), scale(tier, 1200, 6000))
    s += gen_directed_attach(tier)
    return s

ALLOPS = ["a", "a", "a", "i", "d", "s", "s", "r", "q", "w"]

def script(rng, n, used, kind, big=False):
    th = []
    for _ in range(n):
        o = rng.choice(ALLOPS)
        if o == "a":
            th.append(upd(rng, used, kind, big))
        elif o == "w":
            th.append("w%d" % rng.choice([0, 5, -9, 1 << 33, 123456789] + ([(1 << 63) - 1, -(1 << 63), (1 << 63) - 2] if big else [])))
        else:
            th.append(o)
    return th

def gen_exhaustive_scripts(tier, rng):
    """bounded-exhaustive single-goroutine scripts over the whole API, every adder kind: EVERY sequence up to the bound"""
    import itertools
    alpha = ["a3", "a-2", "i", "d", "s", "w5", "r", "q"]
    out, n = [], 0
    for kind in ["jdkadd", "jdkf", "rc", "atomic", "atomicf", "mutexadd"]:
        maxlen = scale(tier, 3, 4) if kind != "rc" else scale(tier, 2, 3)     # 128-cell scans are long
        for L in range(1, maxlen + 1):
            for seq in itertools.product(alpha, repeat=L):
                o = {"maxcells": 2} if kind in ("jdkadd", "jdkf") else {}
                out.append(conc.Scn("e%d" % n, kind, rnd_words(rng, 8), [list(seq)], "dfs 0 1", o))
                n += 1
    return out

def gen_big_tables(tier, rng):
    """single-goroutine scripts on tables that have ALREADY grown to 32 / 64 / 128 slots (what sustained contention leaves
    behind): Store / Reset / SumAndReset rebuild every slot, later updates go through probes all over the table"""
    out = []
    for i in range(scale(tier, 18, 120)):
        kind = ["jdkadd", "jdkf"][i % 2]
        n = [32, 64, 128][i % 3]
        mod = rng.choice([n + 1, n + 1, 2, 3, 5])          # all slots but 0 / every slot that is not a multiple of mod
        ops = [rng.choice(["w5", "r", "q", "w0"])]
        for _ in range(rng.choice([6, 10])):
            ops.append(rng.choice(["a3", "a7", "i", "d", "s", "a3", "a1"]))
        ops += ["s", rng.choice(["q", "r", "w9"]), "a2", "s"]
        words = [rng.randrange(0, 2 * n) for _ in range(40)]
        out.append(conc.Scn("bt%d" % i, kind, words, [ops], "dfs 0 1",
                            {"maxcells": 256, "maxsteps": 60000, "pglen": n, "pgcap": n, "pgmod": mod}))
    return out

def gen_c16(tier, rng):
    s = []
    s += gen_exhaustive_scripts(tier, rng)
    s += gen_big_tables(tier, rng)
    # the concurrent update phases are what creates and grows the table: the growth families, judged at quiescence
    s += gen_growth(rng, "g", scale(tier, 12, 80), scale(tier, 400, 4000))
    s += gen_pregrown(rng, "h", scale(tier, 32, 100), scale(tier, 400, 4000))
    s += gen_stale_len(rng, "sl", scale(tier, 16, 60), scale(tier, 1200, 6000))
    s += gen_directed_attach(tier)
    kinds = ["jdkadd", "jdkf", "rc", "atomic", "atomicf", "mutexadd"]
    # single-threaded scripts over the whole API
    for i in range(scale(tier, 150, 2500)):
        kind = rng.choice(kinds)
        s.append(conc.Scn("a%d" % i, kind, rnd_words(rng, 30), [script(rng, rng.choice([3, 6, 10]) if kind != "rc" else rng.choice([2, 4]), [], kind, big=(i % 4 == 3 and kind not in ("jdkf", "atomicf")))], "dfs 0 1",
                          {"maxcells": rng.choice([1, 2, 4])} if kind in ("jdkadd", "jdkf") else {}))
    # phases: concurrent updates / exclusive Store-Reset-SumAndReset / concurrent updates / exclusive reads
    for i in range(scale(tier, 30, 400)):
        kind = rng.choice(["jdkadd", "jdkadd", "jdkf", "jdkf", "atomic", "mutexadd", "atomicf"])
        nt = rng.choice([2, 3, 4])
        used, ths = [], []
        for t in range(nt):
            th = [upd(rng, used, kind) for _ in range(rng.choice([2, 3, 4]))] + ["/"]
            th += (script(rng, rng.choice([1, 2, 3]), used, kind) if t == 0 else []) + ["/"]
            th += [upd(rng, used, kind) for _ in range(rng.choice([2, 3, 4]))] + ["/"]
            th += (["s"] + script(rng, rng.choice([1, 2]), used, kind) + ["s"] if t == 0 else [])
            ths.append(th)
        o = {"maxcells": rng.choice([2, 4, 8])} if kind in ("jdkadd", "jdkf") else {}
        s.append(conc.Scn("p%d" % i, kind, rnd_words(rng, 80), ths, "rand %d %d" % (scale(tier, 150, 1500), rng.randint(1, 1 << 30)), o))
    # float adders beyond the modelled range (overflow to +-Inf, Inf-Inf = NaN): single-threaded scripts against a plain
    # float64 (no model replay: these values are outside the exactly-representable domain the model covers)
    for i in range(scale(tier, 30, 300)):
        kind = ["jdkf", "atomicf"][i % 2]
        ops = list(rng.choice([["h1", "h1"], ["h-1", "h-1"], ["h1", "h1", "h-1"], ["h1"], []]))
        for _ in range(rng.choice([4, 7, 10])):
            ops.append(rng.choice(["h1", "h-1", "a3", "i", "s", "s", "q", "q", "r", "w5", "a-2"]))
        s.append(conc.Scn("h%d" % i, kind, rnd_words(rng, 30), [ops], "dfs 0 1", {"nomodel": 1, "maxcells": 2}))
    # grow under contention / Store / grow again / read: stale cells must not come back
    for i in range(scale(tier, 16, 120)):
        kind = ["jdkadd", "jdkf"][i % 2]
        used = []
        nt = rng.choice([4, 5])
        ths = []
        for t in range(nt):
            th = [upd(rng, used, kind) for _ in range(rng.choice([4, 5, 6]))] + ["/"]
            th += (["w%d" % rng.choice([0, 5, 77]), "s"] if t == 0 else []) + ["/"]
            th += [upd(rng, used, kind) for _ in range(rng.choice([4, 5, 6]))] + ["/"]
            th += (["s", "q", "s"] if t == 0 else [])
            ths.append(th)
        words = [rng.choice([1, 2, 3, 1, 2]) for _ in range(160)]
        m = ("rand %d %d" % (scale(tier, 300, 3000), rng.randint(1, 1 << 30))) if i % 3 else ("pct %d %d %d" % (scale(tier, 300, 3000), rng.randint(1, 1 << 30), 3))
        s.append(conc.Scn("g%d" % i, kind, words, ths, m, {"maxcells": rng.choice([4, 8]), "maxsteps": 30000}))
    return s

def fine_c19_adder(tier, rng):
    """statement-level interleavings (monitors only): what a call does to the value AFTER it has released the lock"""
    s = []
    for i in range(scale(tier, 16, 120)):
        nt = rng.choice([2, 3])
        ths = [script(rng, rng.choice([1, 2, 3]), [], "mutexadd") for _ in range(nt)]
        if i % 2 == 0:   # SumAndReset / Store / Reset overlapping on a non-zero value (no phases: judged as one linearizable number)
            ths = [["w7", rng.choice(["q", "q", "s"])]] + [[rng.choice(["q", "q", "w3", "r", "a5"])] for _ in range(nt - 1)]
        s.append(conc.Scn("fx%d" % i, "mutexadd", [], ths, "rand %d %d" % (scale(tier, 300, 3000), rng.randint(1, 1 << 30))))
    return s

def gen_c19_adder(tier, rng):
    s = []
    for i in range(scale(tier, 24, 200)):
        nt = rng.choice([2, 3])
        # every other scenario works at the ends of int64: sums there wrap (two's complement), totals stay exact
        ths = [script(rng, rng.choice([1, 2, 3]), [], "mutexadd", big=(i % 2 == 1)) for _ in range(nt)]
        s.append(conc.Scn("x%d" % i, "mutexadd", [], ths, "dfs 2 %d" % scale(tier, 3000, 40000)))
    for i in range(scale(tier, 10, 100)):
        ths = [script(rng, rng.choice([2, 3, 4]), [], "mutexadd", big=(i % 2 == 1)) for _ in range(rng.choice([3, 4]))]
        s.append(conc.Scn("y%d" % i, "mutexadd", [], ths, "rand %d %d" % (scale(tier, 300, 3000), rng.randint(1, 1 << 30))))
    return s
