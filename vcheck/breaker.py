"""Breaker properties C03, C06, C10: scenario generators (P line = ticker readings)."""
import math
import struct
from . import conc
from .queue import scale

def fbits(x):
    return struct.unpack("<Q", struct.pack("<d", x))[0]

def cfg_opts(thr=0.5, minreq=2, trial=3, openw=10, window=20, interval=5, listeners=1, **extra):
    o = {"thr": fbits(thr), "minreq": minreq, "trial": trial, "openw": openw, "window": window, "interval": interval, "listeners": listeners}
    o.update(extra)
    return o

def tick_stream(rng, n, start=0, style=None):
    style = style or rng.choice(["advance", "advance", "advance", "mixed", "still", "back"])
    t, out = start, []
    for _ in range(n):
        r = rng.random()
        if style == "advance":
            t += rng.choice([0, 1, 1, 2, 3, 5, 6, 11, 25])
        elif style == "still":
            t += 0 if r < 0.8 else rng.choice([1, 6])
        elif style == "back":
            t += rng.choice([-7, -2, -1, 0, 1, 2, 6, 12])
        else:
            t += rng.choice([-3, 0, 0, 1, 2, 5, 7, 13, 30])
        out.append(t)
    return out

def rand_cfg(rng, **extra):
    nl = rng.choice([1, 1, 2, 3])
    o = cfg_opts(thr=rng.choice([0.5, 0.5, 0.3, 0.8, 1.0, 0.01, 0.6666666666666666, 0.7, 0.1]), minreq=rng.choice([1, 2, 3, 5]),
                 trial=rng.choice([1, 3, 7]), openw=rng.choice([4, 10, 15]),
                 # huge windows are legal ("never expire"): t - window and ts + window must not wrap the wrong way
                 window=rng.choice([12, 20, 40, 12, 20, 40, (1 << 63) - 1, (1 << 63) - 26, 1 << 62]),
                 interval=rng.choice([2, 5, 10]), listeners=nl, **extra)
    # listeners that answer every callback with an error, with and without a logger installed: the breaker logs and goes on
    if rng.random() < 0.35:
        o["lerr"] = rng.randint(1, (1 << nl) - 1)
    if rng.random() < 0.4:
        o["logger"] = 1
    # the builder's default ticker (the package's own SystemTicker) on the scripted clock instead of an injected one
    if rng.random() < 0.3:
        o["systk"] = 1
    return o

THR_PALETTE = [k / 10 for k in range(1, 10)] + [0.25, 0.75, 0.58, 0.29, 0.33, 0.35, 0.15, 0.05, 0.95, 0.01, 0.99, 1 / 3, 2 / 3, 0.125, 0.0625]

def trip_boundary_cases():
    """(thr, successes, failures) with failures/total equal to the threshold in the reals or next to it: the trip rule is a
    strict float64 comparison threshold < failures/total, where rewritings (thr*total < failures, 1 - success rate, ...) round differently"""
    from fractions import Fraction
    out = []
    for thr in THR_PALETTE:
        ft = Fraction(thr).limit_denominator(1000)
        for total in range(2, 201):
            x = ft * total
            if x.denominator == 1 and 0 < x < total:
                f = int(x)
                out.append((thr, total - f, f))          # rate == threshold: must NOT trip
                out.append((thr, total - f - 1, f + 1))  # one more failure: must trip
    return out

def trip_ulp_cases():
    out = []
    # thresholds that are no attainable ratio themselves: one float64 step below / above a rate the window can hold
    # (an absolute or relative tolerance in the comparison decides these the other way)
    for (f, total) in [(1, 2), (1, 3), (2, 3), (1, 4), (3, 4), (1, 5), (3, 5), (1, 10), (7, 10), (9, 10), (1, 100), (99, 100), (1, 7), (5, 6), (2, 2), (3, 3)]:
        r = f / total
        out.append((math.nextafter(r, 0.0), total - f, f))    # rate one step above the threshold: must trip
        if r < 1:
            out.append((math.nextafter(r, 1.0), total - f, f))    # rate one step below: must NOT trip
        out.append((r, total - f, f))
        for eps in (1e-9, 1e-12, 1e-15):
            if 0 < r - eps:
                out.append((r - eps, total - f, f))
            if r + eps < 1:
                out.append((r + eps, total - f, f))
    return out

def gen_trip_boundary(tier, rng, count):
    cases = trip_boundary_cases()
    rng.shuffle(cases)
    out = []
    for i, (thr, ns, nf) in enumerate(trip_ulp_cases() + (cases[:count] if count else cases)):
        ops = ["s"] * ns + ["f"] * nf
        rng.shuffle(ops)
        ops += ["f", rng.choice(["c", "x"])]
        ticks = [0, 0] + [1] * (ns + nf) + [6, 7, 8, 8, 8, 8]
        out.append(conc.Scn("t%d" % i, "breaker", ticks, [ops], "dfs 0 1",
                            cfg_opts(thr=thr, minreq=rng.choice([1, 2]), window=1000, interval=5, listeners=rng.choice([1, 2]), maxsteps=20000)))
    return out

def gen_c06(tier, rng):
    s = []
    for i in range(scale(tier, 1500, 30000)):
        n = rng.choice([6, 12, 20, 40])
        w = rng.choice([(1, 1, 4), (2, 1, 3), (3, 2, 2), (1, 3, 1)])
        ops = rng.choices(["c", "s", "f"], weights=w, k=n)
        ops = [("x" if o == "c" and rng.random() < 0.3 else o) for o in ops]
        # the Ticker interface promises nothing about sign or origin: streams also start below zero and cross it
        s.append(conc.Scn("a%d" % i, "breaker", tick_stream(rng, 4 * n + 8, start=rng.choice([0, 0, 0, -3, -10, -17, -25, -40, -(1 << 62) - 100, -(1 << 63) + 5])), [ops], "dfs 0 1", rand_cfg(rng)))
    s += gen_trip_boundary(tier, rng, scale(tier, 160, 0))
    s += gen_big_counts(tier)
    # bounded-exhaustive: EVERY call sequence up to the bound, under a few configurations and ticker styles
    import itertools
    n = 0
    for L in range(1, scale(tier, 6, 8) + 1):
        for seq in itertools.product(["c", "s", "f"], repeat=L):
            for k in range(scale(tier, 1, 2)):
                style = rng.choice(["advance", "still", "back", "mixed"])
                cfgo = cfg_opts(thr=rng.choice([0.5, 0.3, 0.01]), minreq=rng.choice([1, 2]), trial=rng.choice([1, 3]), openw=rng.choice([4, 10]),
                                window=rng.choice([12, 20]), interval=rng.choice([2, 5]), listeners=rng.choice([1, 2]))
                s.append(conc.Scn("e%d" % n, "breaker", tick_stream(rng, 4 * L + 8, style=style), [list(seq)], "dfs 0 1", cfgo))
                n += 1
    return s

# deterministic set-up: thr .5, minreq 2, interval 5, window 20, openw 10, trial 3;
# ticks 0,0 (constructor) 1 2 6 (three failures, the third rolls with count (0,2) and trips) 7 (open deadline = 17)
TRIP = (["f", "f", "f"], [0, 0, 1, 2, 6, 7])

def gen_c03(tier, rng):
    s = []
    n1 = scale(tier, 10, 80)
    for i in range(n1):          # open, window not elapsed: everybody is rejected
        nt = rng.choice([2, 3, 4])
        ths = [TRIP[0] + ["/"] + ["c"] * rng.choice([1, 2])] + [["/"] + ["c"] * rng.choice([1, 2]) for _ in range(nt - 1)]
        # before the deadline (17): later than the trip, or the clock stepped back below the tick the open state was created at
        off = rng.choice([0, 0, -17, -7, -100])
        ticks = [t + off for t in TRIP[1] + [rng.choice([8, 12, 16, 6, 3, 0, -5])] * 40]
        s.append(conc.Scn("a%d" % i, "breaker", ticks, ths, "dfs 2 %d" % scale(tier, 3000, 40000),
                          cfg_opts(listeners=rng.choice([1, 2]), expect_admitted=0, expect_mode="atmost", expect_state="open")))
    for i in range(n1):          # open, window elapsed, ticker standing still: exactly one trial
        nt = rng.choice([2, 3, 4])
        ths = [TRIP[0] + ["/"] + ["c"] * rng.choice([1, 2])] + [["/"] + ["c"] * rng.choice([1, 2]) for _ in range(nt - 1)]
        off = rng.choice([0, 0, -17, -17, -7, -100])      # -17: the open deadline is exactly tick 0
        ticks = [t + off for t in TRIP[1] + [rng.choice([17, 18, 40])] * 40]
        s.append(conc.Scn("b%d" % i, "breaker", ticks, ths, "dfs 2 %d" % scale(tier, 3000, 40000),
                          cfg_opts(listeners=rng.choice([1, 2]), expect_admitted=1, expect_mode="exact", expect_state="open")))
    for i in range(n1):          # half-open: concurrent reports cause exactly one transition
        nt = rng.choice([2, 3])
        rep = rng.choice(["s", "f"])
        ths = [TRIP[0] + ["c", "/"] + [rng.choice(["s", "f"]) if rep == "x" else rep]] + [["/"] + [rep] * rng.choice([1, 2]) for _ in range(nt - 1)]
        ticks = TRIP[1] + [20, 21] + [22] * 40
        s.append(conc.Scn("c%d" % i, "breaker", ticks, ths, "dfs 2 %d" % scale(tier, 3000, 40000),
                          cfg_opts(listeners=rng.choice([1, 2]), expect_transitions=4, expect_final=("0" if rep == "s" else "1"))))
    for i in range(n1):          # half-open, trial interval not elapsed: concurrent callers all rejected, reports on OPEN change nothing
        nt = rng.choice([2, 3])
        ths = [TRIP[0] + ["c", "/"] + ["c"]] + [["/"] + ["c"] * rng.choice([1, 2]) for _ in range(nt - 1)]
        ticks = TRIP[1] + [20, 21] + [rng.choice([21, 22, 23])] * 40
        s.append(conc.Scn("d%d" % i, "breaker", ticks, ths, "dfs 2 %d" % scale(tier, 3000, 40000),
                          cfg_opts(listeners=1, expect_admitted=1, expect_mode="atmost", expect_state="half-open", expect_transitions=3)))
    for i in range(n1):          # open: reports must not close or re-trip the circuit
        nt = rng.choice([2, 3])
        ths = [TRIP[0] + ["/"] + [rng.choice(["s", "f"])]] + [["/"] + [rng.choice(["s", "f", "c"])] * rng.choice([1, 2]) for _ in range(nt - 1)]
        ticks = TRIP[1] + [rng.choice([8, 12])] * 40
        s.append(conc.Scn("e%d" % i, "breaker", ticks, ths, "dfs 2 %d" % scale(tier, 3000, 40000),
                          cfg_opts(listeners=1, expect_transitions=2, expect_final="1")))
    for i in range(n1):          # the clock steps back across the deadline inside the admitting call: the trial period runs from the
        # reading the new state was created at, so callers at or past (that reading + trial interval) get exactly one more trial
        nt = rng.choice([2, 3, 4])
        back = rng.choice([16, 14, 12, 10, 5, 0, -20])
        seen = rng.choice([17, 17, 18, 25])
        probe = rng.choice(list(range(back + 3, 20)) or [19]) if back + 3 < 20 else 19
        ths = [TRIP[0] + ["c", "/"] + ["c"] * rng.choice([1, 2])] + [["/"] + ["c"] * rng.choice([1, 2]) for _ in range(nt - 1)]
        ticks = TRIP[1] + [seen, back] + [probe] * 40
        o = cfg_opts(listeners=rng.choice([1, 2]), expect_admitted=2, expect_mode="exact", expect_state="half-open")
        if rng.random() < 0.3:
            o["systk"] = 1
        s.append(conc.Scn("g%d" % i, "breaker", ticks, ths, "dfs 2 %d" % scale(tier, 3000, 40000), o))
    for i in range(n1):          # same inside a half-open trial: the next period runs from the reading the successor was created at
        nt = rng.choice([2, 3])
        back = rng.choice([21, 20, 18, 12])
        probe = rng.choice(list(range(back + 3, 26)))
        ths = [TRIP[0] + ["c", "c", "/"] + ["c"]] + [["/"] + ["c"] * rng.choice([1, 2]) for _ in range(nt - 1)]
        ticks = TRIP[1] + [20, 20] + [23, back] + [probe] * 40      # half-open deadline 23, its successor's deadline back + 3
        s.append(conc.Scn("h%d" % i, "breaker", ticks, ths, "dfs 2 %d" % scale(tier, 3000, 40000),
                          cfg_opts(listeners=1, expect_admitted=3, expect_mode="exact", expect_state="half-open")))
    for i in range(n1):          # trial intervals that float64 cannot hold (2^53+1, 2^60+127, ...): rejected one tick before
        # creation + interval, exactly one trial at it
        T = rng.choice([(1 << 53) + 1, (1 << 60) + 127, (1 << 61) + 5, (1 << 55) + 3])      # 20 + 2T stays below 2^63 (documented boundary)
        nt = rng.choice([2, 3])
        ths = [TRIP[0] + ["c", "/"] + ["c"] * rng.choice([1, 2])] + [["/"] + ["c"] * rng.choice([1, 2]) for _ in range(nt - 1)]
        if i % 2 == 0:           # one tick before creation + interval: nobody
            ticks, exp = TRIP[1] + [20, 20] + [20 + T - 1] * 40, 1
        else:                    # at creation + interval: exactly one more
            ticks, exp = TRIP[1] + [20, 20] + [20 + T] * 40, 2
        s.append(conc.Scn("i%d" % i, "breaker", ticks, ths, "dfs 2 %d" % scale(tier, 3000, 40000),
                          cfg_opts(trial=T, listeners=1, expect_admitted=exp, expect_mode="exact", expect_state="half-open")))
    for i in range(n1):          # readings 2^63 or more apart (the Ticker interface promises nothing): a deadline is compared
        # with a reading as numbers, not by the sign of a wrapped difference
        nt = rng.choice([2, 3])
        ths = [TRIP[0] + ["/"] + ["c"] * rng.choice([1, 2])] + [["/"] + ["c"] * rng.choice([1, 2]) for _ in range(nt - 1)]
        if i % 2 == 0:           # opened far below zero, looked at far above: the window HAS elapsed
            off, probe, exp, mode = -(1 << 62) - 100, 1 << 62, 1, "exact"
        else:                    # opened far above zero, the clock then reads far below: the window has NOT elapsed
            off, probe, exp, mode = 1 << 62, -(1 << 62), 0, "atmost"
        ticks = [t + off for t in TRIP[1]] + [probe] * 40
        s.append(conc.Scn("j%d" % i, "breaker", ticks, ths, "dfs 2 %d" % scale(tier, 3000, 40000),
                          cfg_opts(listeners=1, expect_admitted=exp, expect_mode=mode, expect_state="open")))
    for i in range(scale(tier, 20, 200)):   # free mix: lockstep with the model + rejection accounting
        nt = rng.choice([2, 3, 4])
        ths = [rng.choices(["c", "s", "f"], weights=(2, 1, 3), k=rng.choice([2, 3, 4])) for _ in range(nt)]
        mode = "dfs 2 %d" % scale(tier, 2500, 30000) if nt == 2 else "rand %d %d" % (scale(tier, 300, 3000), rng.randint(1, 1 << 30))
        s.append(conc.Scn("f%d" % i, "breaker", tick_stream(rng, 60), ths, mode, rand_cfg(rng)))
    return s

def gen_long_window(tier):
    """one event per tick for n ticks (interval 1): hundreds of buckets in the reservoir, all of them
    expiring in ONE roll after a gap longer than the window; judged by the reference window of the driver (the model replay of
    such a script is quadratic in time and memory: not replayed)"""
    out = []
    # larger scripts (1 500 / 6 000 buckets) run in the volume harness: here a run prints one token per access
    for n, window, jump in [(700, 2000, 10 ** 6)]:
        ticks = [0] + list(range(1, n + 1)) + [jump, jump + 1]
        ops = ["ws" if i % 3 else "wf" for i in range(n)] + ["wf", "wc"]
        out.append(conc.Scn("lw%d" % n, "window", ticks, [ops], "dfs 0 1", cfg_opts(window=window, interval=1, maxsteps=400000000, nomodel=1)))
    return out

def gen_big_counts(tier):
    """windows holding 2^31 and more events of one kind (four buckets of 2^29 .. 2^33 each, put there at once through the
    buckets' own adders): the totals are 64-bit; judged by the reference window of the driver"""
    out = []
    for k, n in enumerate([1 << 29, 1 << 30, (1 << 31) + 7, 1 << 33]):
        ops, ticks = [], [0]
        for j in range(4):
            ops += ["wP%d" % n, "ws"]
            ticks.append(5 * (j + 1))
        ops += ["wf", "wc"]
        ticks += [26, 27]
        out.append(conc.Scn("bc%d" % k, "window", ticks, [ops], "dfs 0 1", cfg_opts(window=1000, interval=5, nomodel=1)))
    return out

def gen_c10(tier, rng):
    s = gen_long_window(tier) + gen_big_counts(tier)
    for i in range(scale(tier, 300, 5000)):   # sequential window scripts vs the reference window
        n = rng.choice([6, 12, 24])
        ops = rng.choices(["ws", "wf", "wc"], weights=(3, 3, 1), k=n)
        s.append(conc.Scn("a%d" % i, "window", tick_stream(rng, n + 4), [ops], "dfs 0 1", rand_cfg(rng)))
    for i in range(scale(tier, 20, 200)):     # concurrent reporters, free ticks: upper bound + lockstep
        nt = rng.choice([2, 3])
        ths = [rng.choices(["ws", "wf", "wc"], weights=(3, 3, 1), k=rng.choice([2, 3])) for _ in range(nt)]
        s.append(conc.Scn("b%d" % i, "window", tick_stream(rng, 30), ths, "dfs 2 %d" % scale(tier, 2500, 30000), rand_cfg(rng)))
    for i in range(scale(tier, 24, 240)):     # reporters racing to roll, then a quiescent roll: exact count
        nt = rng.choice([2, 3, 4])
        ths = [rng.choices(["ws", "wf"], k=rng.choice([2, 3, 4])) + ["/"] for _ in range(nt)]
        nev = sum(len(t) - 1 for t in ths)
        ths[0] += [rng.choice(["ws", "wf"])]
        base = 100
        ticks = [base] + [base + rng.choice([0, 1, 4, 5, 6, 9, 11, 3, -2]) for _ in range(nev)]
        if i % 3 == 0:
            # the first reporter still accumulates in the current bucket while the second one rolls it
            ticks = [base, base + 1, base + 6] + [base + rng.choice([6, 7, 8, 12, 13]) for _ in range(nev - 2)]
        if rng.random() < 0.6:
            ticks.append(base + 200); expect = "all"
        else:
            ticks.append(base + 5000); expect = "e0:0"
        mode = "dfs 2 %d" % scale(tier, 2500, 30000) if nt == 2 else "rand %d %d" % (scale(tier, 400, 4000), rng.randint(1, 1 << 30))
        s.append(conc.Scn("c%d" % i, "window", ticks, ths, mode, cfg_opts(window=1000, interval=5, expect_last=expect)))
    return s
