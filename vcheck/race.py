"""C14 (data-race freedom): the access table is regenerated from the current Go
sources on every run and checked, by computation inside Coq, against the
protection classes of Race/Discipline.v; a -race build of stress workloads over
the whole concurrent-safe API is the search aid that turns a broken discipline
into a concrete race report."""
import hashlib, json, os, re, subprocess
from . import common as C

GEN = os.path.join(C.BUILD, "gen")

def build_tool(name):
    exe = os.path.join(C.BUILD, "bin", name)
    src = os.path.join(C.ROOT, "tools", name)
    if C._stale(exe, [os.path.join(src, "main.go")]):
        os.makedirs(os.path.dirname(exe), exist_ok=True)
        rc, out = C.sh(["go", "build", "-o", exe, "."], cwd=src, env=C.GOENV, timeout=900)
        if rc != 0:
            return False, exe, out
    return True, exe, ""

CHECK_V = """From Coq Require Import String List.
From Garr Require Import Race.Discipline.
From Gen Require Import AccessTable.
(* the discipline theorem for the tree as it is now *)
Theorem C14_discipline_current_tree : table_ok access_table = true.
Proof. vm_compute. reflexivity. Qed.
Theorem C14_every_access_obeys : forall a, In a access_table -> obeys a.
Proof. exact (table_ok_sound access_table C14_discipline_current_tree). Qed.
Print Assumptions C14_every_access_obeys.
(* ... and, through the happens-before development (Race/HB*.v), data-race freedom of every execution that stems
   from this table in the sense of [static_to_dynamic_esc] *)
From Garr Require Import Race.HBModel Race.HB Race.HBPublish Race.HBEscape Race.HBStaticEscape.
Theorem C14_current_tree_drf :
  forall E src fld obj_of creator gets gives guard elem,
    static_to_dynamic_esc access_table E src fld obj_of creator gives guard elem ->
    wf_mutex E -> ref_flow E obj_of creator gets gives -> ~ data_race E.
Proof.
  intros E src fld obj_of creator gets gives guard elem H1 H2 H3.
  exact (table_ok_implies_drf_esc access_table E src fld obj_of creator gets gives guard elem C14_discipline_current_tree H1 H2 H3).
Qed.
Print Assumptions C14_current_tree_drf.
"""
BAD_V = """From Coq Require Import String List.
From Garr Require Import Race.Discipline.
From Gen Require Import AccessTable.
Definition bad := filter (fun a => negb (access_ok a)) access_table.
Eval vm_compute in (length access_table).
Eval vm_compute in bad.
"""

def discipline():
    """-> (ok, n_accesses, offending, log)"""
    os.makedirs(GEN, exist_ok=True)
    ok, exe, out = build_tool("accesstab")
    if not ok:
        return False, 0, [], "building tools/accesstab failed:\n" + out
    rc, tab = C.sh([exe, C.REPO], env=C.GOENV, timeout=600)
    if rc != 0:
        return False, 0, [], "access-table extraction failed (the sources do not type-check?):\n" + tab[-1500:]
    tab = "\n".join(l for l in tab.splitlines() if not l.startswith("WARNING"))
    open(os.path.join(GEN, "AccessTable.v"), "w").write(tab + "\n")
    open(os.path.join(GEN, "C14Check.v"), "w").write(CHECK_V)
    open(os.path.join(GEN, "C14Bad.v"), "w").write(BAD_V)
    q = ["-Q", os.path.join(C.COQ, "theories"), "Garr", "-Q", GEN, "Gen"]
    rc, out = C.sh(["coqc"] + q + ["AccessTable.v"], cwd=GEN, timeout=600)
    if rc != 0:
        return False, 0, [], "generated access table does not compile:\n" + out[-1500:]
    rc, out = C.sh(["coqc"] + q + ["C14Bad.v"], cwd=GEN, timeout=600)
    n = 0
    m = re.search(r'=\s*(\d+)\s*:\s*nat', out)
    if m:
        n = int(m.group(1))
    bad = re.findall(r'a_pkg := "([^"]*)";\s*a_typ := "([^"]*)";\s*a_field := "([^"]*)";\s*a_fn := "([^"]*)";\s*a_kind := "([^"]*)"', out)
    rc, out2 = C.sh(["coqc"] + q + ["C14Check.v"], cwd=GEN, timeout=600)
    closed = "Closed under the global context" in out2
    return rc == 0 and closed and not bad, n, [dict(zip(("pkg", "type", "field", "func", "kind"), b)) for b in bad], out2[-800:]

def stress(secs, focus=""):
    exe = os.path.join(C.BUILD, "bin", "race")
    env = dict(C.GOENV, CGO_ENABLED="1")
    with C.Lock("go"):
        rc, out = C.sh(["go", "build", "-race", "-o", exe, "."], cwd=os.path.join(C.ROOT, "harness_race"), env=env, timeout=1800)
    if rc != 0:
        return None, "go build -race of the stress harness against /repo failed:\n" + out[-1500:]
    env2 = dict(os.environ, GORACE="halt_on_error=0 exitcode=0 history_size=3")
    try:
        p = subprocess.run([exe, "-secs", str(secs)] + (["-focus", focus] if focus else []), stdout=subprocess.PIPE, stderr=subprocess.STDOUT, env=env2, timeout=secs * 6 + 120, text=True)
        out = p.stdout
    except subprocess.TimeoutExpired as e:
        out = (e.stdout or "") + "\nTIMEOUT (a workload hangs)"
    return out, None

def corr(tier, seed):
    res = {"rule": "every field access and every sync-object method call extracted from the current sources is one case (distinct = distinct table rows; "
                   "non-trivial = rows on locations classified Atomic / Guarded / sync sites, i.e. not plain reads of immutable data); plus rounds of the -race stress workloads"}
    ok, n, bad, log = discipline()
    mism, viol = [], []
    if not ok:
        if bad:
            for b in bad:
                mism.append({"kind": "access outside the declared protection class", **b})
        else:
            res["build_error"] = log
    secs = 12 if tier == "quick" else 180
    if not ok:
        secs = max(secs, 45)          # the discipline broke: look harder for a concrete race
    out, err = stress(secs)
    if not ok and bad and not err and "WARNING: DATA RACE" not in out:
        # nothing yet: concentrate on the packages whose discipline broke
        out2, err2 = stress(60 if tier == "quick" else 300, ",".join(sorted({b["pkg"] for b in bad})))
        if not err2:
            out = out2 + "\n" + out
    rounds, races = 0, []
    if err:
        res["build_error"] = (res.get("build_error", "") + "\n" + err).strip()
    else:
        m = re.search(r'ROUNDS (\d+)', out)
        rounds = int(m.group(1)) if m else 0
        blocks = out.split("WARNING: DATA RACE")[1:]
        seen = set()
        for b in blocks:
            fr = re.findall(r'^\s+([\w\./\(\)\*\-]+)\(\)\n\s+(\S+?):(\d+)', b, flags=re.M)
            key = tuple((f[0], os.path.basename(f[1])) for f in fr[:2])
            if key in seen:
                continue
            seen.add(key)
            races.append({"what": "data race reported by the Go race detector under the stress workloads",
                          "report": ("WARNING: DATA RACE" + b)[:1800], "replay_input": "build/bin/race -secs %d (go build -race . in harness_race/)" % secs})
        if "HANG" in out and not races:
            viol_hang = re.findall(r'HANG (.*)', out)
            races.append({"what": "a concurrent-safe operation never returned under the stress workloads: " + "; ".join(viol_hang[:3]), "report": "", "replay_input": "build/bin/race -secs %d" % secs})
        if "TIMEOUT" in out and not races:
            mism.append({"kind": "a stress workload did not finish (hang) - no race report"})
        if not m and not races and "TIMEOUT" not in out:
            mism.append({"kind": "stress harness crashed", "log": out[-1200:]})
    viol = races[:10]
    nontriv = 0
    try:
        for l in open(os.path.join(GEN, "AccessTable.v")):
            if '"atomic"' in l or '"sync:' in l or '"write"' in l:
                nontriv += 1
    except OSError:
        pass
    res.update(evaluations=n + rounds, distinct_nontrivial=nontriv, mismatches=mism, violations=viol,
               traces_validated_against_impl=n,
               samples=[{"accesses_in_table": n, "stress_rounds": rounds, "stress_seconds": secs, "offending_accesses": bad[:5]}],
               stats={"accesses_extracted": n, "offending": len(bad), "stress_rounds": rounds, "race_reports": len(races), "stress_seconds": secs})
    return res

def replay(data):
    out, err = stress(30)
    if err:
        print(err); return 2
    n = out.count("WARNING: DATA RACE")
    print("race reports on this tree in 30 s:", n)
    if n:
        print(out[out.index("WARNING: DATA RACE"):][:2500])
        print("VIOLATION property=C14 replay=%s" % data.get("_path", ""))
        return 1
    return 0

SPECS = {
    "C14": dict(
        title="Concurrent-safe APIs are free of data races",
        corr=corr, replay=replay, extra_prop_files=["theories/Properties/C14HB.v"],
        model_note="Race/Discipline.v: protection class of every struct field + exact list of sync-object call sites; the access table is regenerated from /repo by tools/accesstab (go/types) on every run and decided in Coq by vm_compute",
        trusted=["tools/accesstab (go/packages + go/types): classification of an access as atomic / init / write / read / sync-method",
                 "Race/HBModel.v as a rendering of the Go memory model's happens-before (program order, Unlock->Lock/RLock, RUnlock->Lock, atomic write -> the atomic read that observes it, go -> goroutine, send -> receive; sequentially consistent order of synchronisation events); fewer edges than Go guarantees only strengthen the theorem",
                 "the assumption static_to_dynamic_esc (Race/HBStaticEscape.v), stated precisely and shown satisfiable: every dynamic access stems from a row of the extracted table, functions listed for a guarded field hold its mutex around the access, owned objects are confined, constructors finish before the reference escapes; for the 17 fields classified as goroutine-owned (builders, queue iterators, Task.ctx) confinement itself is part of the assumption - the table does not constrain them",
                 "the Go race detector and the stress workloads are a search aid only"],
        partial=["PARTIAL: machine-checked are (1) every access in the current sources obeys the declared discipline, (2) 'discipline => no data race' for every well-formed execution of the abstract happens-before model, (3) their composition under static_to_dynamic_esc; that the Go sources' executions ARE such executions (the extractor's classification is right, lock-held regions, confinement of owned objects) is an assumption, not a theorem",
                 "lock-held regions are approximated by the enclosing function (Guarded class lists functions)",
                 "code reached only through interfaces supplied by the user (listeners, executors, tickers) is outside the table"],
        replay_how="re-run the -race stress harness: build/bin/race -secs N (built from harness_race/ against the current /repo)",
    ),
}
