"""Which code the correspondence runs actually executed.

The driver binaries (and the pure-function harness) are built with Go's
coverage instrumentation; every run of a check leaves its counters in a fresh
directory.  A basic block of a file the property is anchored in that NO
model-validated run of this check executed is code whose behaviour nothing
compared with the model: the tie between model and code does not cover it, so
the property is not shown for the tree as it is (reported as a broken tie,
`no-failing-input-found` unless a failing input turns up as well).

Blocks that no scenario can reach on the pinned tree are listed, by file,
function and text, in corpus/unreached.tsv with the reason; they are part of
the trusted base ("modelled, not exercised")."""
import os, re, subprocess
from . import common as C

ALLOW_FILE = os.path.join(C.ROOT, "corpus", "unreached.tsv")
MOD = "go.linecorp.com/garr/"

def norm(s):
    return re.sub(r'\s+', ' ', s).strip()

def load_allow():
    out = []
    if os.path.exists(ALLOW_FILE):
        for l in open(ALLOW_FILE):
            l = l.rstrip("\n")
            if not l or l.startswith("#"):
                continue
            f = l.split("\t")
            if len(f) >= 4:
                out.append((f[0], f[1], norm(f[2]), f[3]))
    return out

def textfmt(covdir, cwd):
    """-> {(relfile, (sl, sc, el, ec)): hit?}"""
    out = os.path.join(covdir, "cover.txt")
    rc, log = C.sh(["go", "tool", "covdata", "textfmt", "-i=" + covdir, "-o=" + out], cwd=cwd, env=C.GOENV, timeout=300)
    if rc != 0 or not os.path.exists(out):
        return None, log
    blocks = {}
    for l in open(out):
        m = re.match(r'(\S+):(\d+)\.(\d+),(\d+)\.(\d+) (\d+) (\d+)$', l.strip())
        if not m or not m.group(1).startswith(MOD):
            continue
        k = (m.group(1)[len(MOD):], tuple(int(x) for x in m.group(2, 3, 4, 5)))
        blocks[k] = blocks.get(k, False) or int(m.group(7)) > 0
    return blocks, ""

_src = {}
def lines_of(root, rel):
    p = os.path.join(root, rel)
    if p not in _src:
        try:
            _src[p] = open(p).read().split("\n")
        except OSError:
            _src[p] = []
    return _src[p]

def describe(root, rel, span):
    """-> (function name, normalized text of the block)"""
    ls = lines_of(root, rel)
    sl, sc, el, ec = span
    if not ls or sl > len(ls):
        return "?", ""
    # the whole first line (it carries the condition that guards the block), then the block
    if sl == el:
        txt = ls[sl - 1][:ec - 1]
    else:
        txt = "\n".join([ls[sl - 1]] + ls[sl:el - 1] + [ls[el - 1][:ec - 1]])
    fn = "?"
    for i in range(sl - 1, -1, -1):
        m = re.match(r'func\s+(\([^)]*\)\s*)?([A-Za-z_]\w*)', ls[i])
        if m:
            recv = re.sub(r'[()*]', ' ', m.group(1) or "").split()
            fn = (recv[-1] + "." if recv else "") + m.group(2)
            break
    return fn, norm(txt)[:160]

def unexercised(covdir, root, scope, cwd=None):
    """scope: set of repo-relative files.  -> (list of dicts for blocks in scope never executed and not listed as
    unreachable, stats dict, error text)"""
    blocks, err = textfmt(covdir, cwd or root)
    if blocks is None:
        return [], {}, "coverage data could not be read: " + err[-400:]
    allow = load_allow()
    missing, n, hit, listed = [], 0, 0, 0
    for (rel, span), h in sorted(blocks.items()):
        if rel not in scope:
            continue
        n += 1
        if h:
            hit += 1
            continue
        fn, txt = describe(root, rel, span)
        if any(a[0] == rel and a[1] == fn and txt.startswith(a[2]) for a in allow):
            listed += 1
            continue
        missing.append({"file": rel, "func": fn, "lines": "%d-%d" % (span[0], span[2]), "text": txt})
    present = {rel for (rel, _) in blocks}
    stats = {"blocks_in_scope": n, "executed": hit, "listed_unreachable": listed, "not_executed": len(missing),
             "files": sorted(scope & present)}
    return missing, stats, ""

def anchors(prop):
    import json
    for l in open(os.path.join(C.ROOT, "properties.jsonl")):
        d = json.loads(l)
        if d["id"] == prop:
            return list(d["anchors"]["files"])
    return []
