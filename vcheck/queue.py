"""Queue properties C01, C07, C13, C15 (+ the queue half of C19): scenario generators."""
from . import conc

def prog(rng, alphabet, n, fresh):
    ops = []
    for _ in range(n):
        o = rng.choice(alphabet)
        if o == "o":
            ops.append("o%d" % fresh())
        elif o == "o0":
            ops.append("o0")
        else:
            ops.append(o)
    return ops

class Fresh:
    def __init__(self, start):
        self.n = start
    def __call__(self):
        self.n += 1
        return self.n

def gen_family(rng, prefix, kind, alphabet, count, nthreads, nops, mode, prefill_max=2, iter_threads=0, opts=None):
    out = []
    for i in range(count):
        npre = rng.randint(0, prefill_max)
        fresh = Fresh(npre)
        nt = rng.choice(nthreads) if isinstance(nthreads, (list, tuple)) else nthreads
        ths = []
        for t in range(nt):
            k = rng.choice(nops) if isinstance(nops, (list, tuple)) else nops
            if t < iter_threads:
                # an iterator thread: construct, then a traversal with optional removes
                th = ["i"]
                for _ in range(k):
                    th.append(rng.choice(["n", "n", "n", "h", "r"]))
                ths.append(th)
            else:
                ths.append(prog(rng, alphabet, k, fresh))
        m = mode(rng) if callable(mode) else mode
        out.append(conc.Scn("%s%d" % (prefix, i), kind, list(range(1, npre + 1)), ths, m, opts))
    return out

FIFO = ["o", "o", "p", "p", "k", "e"]
ALL = ["o", "o", "p", "p", "k", "e", "z"]

def scale(tier, q, t):
    return q if tier == "quick" else t

def gen_c01(tier, rng):
    s = []
    s += gen_family(rng, "a", "jdk", FIFO, scale(tier, 24, 120), 2, [2, 3], "dfs 2 %d" % scale(tier, 4000, 60000))
    s += gen_family(rng, "b", "jdk", FIFO, scale(tier, 12, 60), 3, [1, 2], "dfs 2 %d" % scale(tier, 4000, 60000))
    s += gen_family(rng, "c", "jdk", FIFO, scale(tier, 16, 200), [3, 4], [2, 3, 4], lambda r: "rand %d %d" % (scale(tier, 300, 3000), r.randint(1, 1 << 30)), prefill_max=3)
    s += gen_family(rng, "m", "mutex", FIFO, scale(tier, 8, 60), [2, 3], [2, 3], "dfs 2 %d" % scale(tier, 2000, 30000))
    s += gen_family(rng, "n", "mutex", FIFO, scale(tier, 6, 60), [3, 4], [2, 3], lambda r: "rand %d %d" % (scale(tier, 200, 2000), r.randint(1, 1 << 30)))
    return s

def gen_c07(tier, rng):
    s = []
    full = ["o", "o", "p", "p", "k", "e", "z", "i", "n", "n", "r", "h"]
    s += gen_family(rng, "a", "jdk", full, scale(tier, 30, 300), [2, 3, 4], [2, 3, 4], lambda r: "solo %d %d" % (scale(tier, 400, 3000), r.randint(1, 1 << 30)), prefill_max=4)
    s += gen_family(rng, "b", "jdk", full, scale(tier, 12, 100), [2, 3], [2, 3], "dfs 2 %d" % scale(tier, 3000, 40000), prefill_max=3)
    s += gen_family(rng, "c", "jdk", full, scale(tier, 10, 100), [3, 4], [3, 4, 5], lambda r: "rand %d %d" % (scale(tier, 300, 3000), r.randint(1, 1 << 30)), prefill_max=4)
    # a goroutine suspended for good at every one of its access points: everybody else must still finish
    s += gen_family(rng, "f", "jdk", ["o", "o", "p", "p", "k", "z"], scale(tier, 16, 150), [3], [2, 3, 4], lambda r: "freeze %d %d" % (scale(tier, 3, 12), r.randint(1, 1 << 30)), prefill_max=3)
    return s

def gen_two_iters(tier, rng, count):
    """two iterators walking and removing over the same elements while a third thread polls / offers"""
    out = []
    for i in range(count):
        npre = rng.choice([3, 4, 5])
        def walker():
            th = ["i"]
            for _ in range(rng.choice([3, 4, 5])):
                th.append(rng.choice(["n", "n", "r"]))
            return th
        ths = [walker(), walker()]
        if rng.random() < 0.5:
            ths.append(rng.choice([["p"], ["o9"], ["p", "o9"]]))
        m = "dfs 3 %d" % scale(tier, 6000, 80000) if len(ths) == 2 else "rand %d %d" % (scale(tier, 500, 5000), rng.randint(1, 1 << 30))
        out.append(conc.Scn("w%d" % i, "jdk", list(range(1, npre + 1)), ths, m))
    return out

def gen_c13(tier, rng):
    s = gen_two_iters(tier, rng, scale(tier, 14, 120))
    alpha = ["o", "p", "p", "o"]
    s += gen_family(rng, "a", "jdk", alpha, scale(tier, 24, 150), 2, [2, 3, 4], "dfs 2 %d" % scale(tier, 4000, 60000), prefill_max=3, iter_threads=1)
    s += gen_family(rng, "b", "jdk", alpha, scale(tier, 10, 80), 3, [2, 3], "dfs 2 %d" % scale(tier, 4000, 60000), prefill_max=3, iter_threads=2)
    s += gen_family(rng, "c", "jdk", alpha, scale(tier, 16, 200), [3, 4], [3, 4, 5], lambda r: "rand %d %d" % (scale(tier, 300, 3000), r.randint(1, 1 << 30)), prefill_max=4, iter_threads=2)
    return s

def gen_c15(tier, rng):
    s = []
    seq = ["o", "o", "o0", "p", "p", "k", "e", "z", "i", "n", "n", "h", "r"]
    s += gen_family(rng, "a", "jdk", seq, scale(tier, 400, 6000), 1, [4, 8, 12, 20], "dfs 0 1", prefill_max=3)
    s += gen_family(rng, "m", "mutex", ["o", "o", "o0", "p", "p", "k", "e", "z"], scale(tier, 150, 2000), 1, [4, 8, 12], "dfs 0 1", prefill_max=3)
    # concurrent phase, then the quiescent digest (Size, full iteration, drain)
    s += gen_family(rng, "q", "jdk", ALL, scale(tier, 16, 150), [2, 3], [2, 3], "dfs 2 %d" % scale(tier, 2000, 30000), prefill_max=3, iter_threads=1)
    s += gen_family(rng, "r", "jdk", ALL, scale(tier, 10, 150), [3, 4], [3, 4], lambda r: "rand %d %d" % (scale(tier, 200, 2000), r.randint(1, 1 << 30)), prefill_max=3, iter_threads=1)
    s += gen_family(rng, "s", "mutex", ALL, scale(tier, 6, 60), [2, 3], [2, 3], lambda r: "rand %d %d" % (scale(tier, 200, 2000), r.randint(1, 1 << 30)), prefill_max=3)
    return s

def gen_c19_queue(tier, rng):
    s = []
    s += gen_family(rng, "a", "mutex", ALL, scale(tier, 16, 120), 2, [2, 3], "dfs 2 %d" % scale(tier, 3000, 40000))
    s += gen_family(rng, "b", "mutex", ALL, scale(tier, 8, 60), 3, [1, 2], "dfs 2 %d" % scale(tier, 3000, 40000))
    s += gen_family(rng, "c", "mutex", ALL, scale(tier, 10, 100), [3, 4], [2, 3, 4], lambda r: "rand %d %d" % (scale(tier, 300, 3000), r.randint(1, 1 << 30)))
    return s

def fine_c01(tier, rng):
    """statement-level interleavings (monitors only): catches races on plain fields"""
    s = []
    s += gen_family(rng, "fa", "jdk", FIFO, scale(tier, 10, 80), [2, 3], [2, 3], lambda r: "rand %d %d" % (scale(tier, 400, 4000), r.randint(1, 1 << 30)), prefill_max=3)
    s += gen_family(rng, "fb", "jdk", ["k", "p", "o", "k", "p"], scale(tier, 10, 80), [2, 3], [2, 3], lambda r: "rand %d %d" % (scale(tier, 400, 4000), r.randint(1, 1 << 30)), prefill_max=3)
    return s
