"""Queue properties C01, C07, C13, C15 (+ the queue half of C19): scenario generators."""
from . import conc

def prog(rng, alphabet, n, fresh):
    ops = []
    for _ in range(n):
        o = rng.choice(alphabet)
        if o == "o":
            ops.append("o%d" % fresh())
        elif o == "o0":
            ops.append("o0")
        else:
            ops.append(o)
    return ops

class Fresh:
    """fresh element values; now and then one of the unusual element kinds of the driver (901..908: typed nil pointer / map /
    chan / func, empty struct, empty string, zero int, nil slice), each at most once per scenario"""
    SPECIAL = list(range(901, 909))
    rng = None
    def __init__(self, start):
        self.n = start
        self.left = list(Fresh.SPECIAL)
    def __call__(self):
        r = Fresh.rng
        if r is not None and self.left and r.random() < 0.12:
            return self.left.pop(r.randrange(len(self.left)))
        self.n += 1
        return self.n

def lag_script(rng):
    """set-up script of Offer bursts and Poll bursts (negative entry = Poll): leaves head and tail lagging
    behind, dead and self-linked nodes near them - the shapes the help-along / fell-off-list paths exist for"""
    out, live, nxt = [], 0, 1
    for _ in range(rng.choice([1, 2, 2, 3])):
        for _ in range(rng.randint(1, 5)):
            out.append(nxt); nxt += 1; live += 1
        for _ in range(rng.randint(1, live)):
            out.append(-1); live -= 1
    return out

def gen_lag_sweep(tier, rng, prefix="s", mode=None, pats=None):
    """systematic sweep over set-up shapes (a Offers, b Polls, c Offers, d Polls; a, c <= 5): the parity of the
    hops decides where head and tail lag, which a random script rarely varies; each shape is followed by a short
    producer / consumer mix with one goroutine suspended for good at every one of its access points"""
    pats = pats or [lambda v: [["o%d" % v], ["p", "o%d" % (v + 1)]],
            lambda v: [["o%d" % v], ["o%d" % (v + 1), "p"]],
            lambda v: [["p"], ["o%d" % v, "p"]],
            lambda v: [["o%d" % v], ["p"], ["o%d" % (v + 1)]]]
    out = []
    for a in range(1, 6):
        for b in range(0, a + 1):
            for c in range(0, 6):
                for d in range(0, a - b + c + 1):
                    pre = list(range(1, a + 1)) + [-1] * b + list(range(a + 1, a + c + 1)) + [-1] * d
                    use = pats if tier != "quick" else [pats[0] if rng.random() < 0.5 else rng.choice(pats[1:])]
                    for k, pat in enumerate(use):
                        out.append(conc.Scn("%s%d%d%d%d_%d" % (prefix, a, b, c, d, k), "jdk", pre, pat(a + c + 1),
                                            mode(rng) if mode else "freeze %d %d" % (scale(tier, 2, 4), rng.randint(1, 1 << 30))))
    return out

def gen_family(rng, prefix, kind, alphabet, count, nthreads, nops, mode, prefill_max=2, iter_threads=0, opts=None, script=None):
    out = []
    Fresh.rng = rng
    for i in range(count):
        npre = rng.randint(0, prefill_max)
        pre = list(range(1, npre + 1))
        if script is not None:
            pre = script(rng)
            npre = max([0] + pre)
        fresh = Fresh(npre)
        nt = rng.choice(nthreads) if isinstance(nthreads, (list, tuple)) else nthreads
        ths = []
        for t in range(nt):
            k = rng.choice(nops) if isinstance(nops, (list, tuple)) else nops
            if t < iter_threads:
                # an iterator thread: construct, then a traversal with optional removes
                th = ["i"]
                for _ in range(k):
                    th.append(rng.choice(["n", "n", "n", "h", "r"]))
                ths.append(th)
            else:
                ths.append(prog(rng, alphabet, k, fresh))
        m = mode(rng) if callable(mode) else mode
        o = opts
        if kind == "jdk" and rng.random() < 0.15:
            # NewQueue with a Type value that names no implementation: documented to give the lock-free queue
            o = dict(opts or {}, qtype=rng.choice([2, 3, 128, 255]))
        out.append(conc.Scn("%s%d" % (prefix, i), kind, pre, ths, m, o))
    return out

def gen_stale_iter(tier, rng, prefix="si"):
    """an iterator left behind: created (and advanced k times) on n elements, then the queue is polled past it, refilled and
    polled again before the iterator goes on - its node, or the node after it, has meanwhile been consumed, passed by the
    two-hop head update or self-linked.  Every small combination, single goroutine."""
    out = []
    for n in range(1, 6):
        for k in range(0, min(n, 2) + 1):
            for m in range(0, n + 1):
                for j in range(0, 3):
                    for l in range(0, min(j + n - m, 2) + 1):
                        if m == 0 and j == 0:
                            continue
                        ops = ["o%d" % v for v in range(1, n + 1)] + ["i"] + ["n"] * k + ["p"] * m
                        ops += ["o%d" % (n + 1 + v) for v in range(j)] + ["p"] * l
                        ops += ["h", "n", "h", "n", "r", "n"] + ["n"] * (n + j) + ["z", "e", "k"]
                        out.append(conc.Scn("%s%d_%d_%d_%d_%d" % (prefix, n, k, m, j, l), "jdk", [], [ops], "dfs 0 1", {"maxsteps": 20000}))
    return out

def gen_wrap_runs(tier, rng, kind, prefix="wr"):
    """contents that have travelled: fill to a power of two, take some from the front, refill past that size (an array-backed
    or chunked representation grows here with its first element in the middle), then everything must come out in order"""
    out = []
    caps = [4, 8, 16, 32, 64, 128] + ([256] if tier != "quick" else [])
    for c in caps:
        for h in sorted(set([1, c // 2, c - 1, rng.randint(1, c - 1)])):
            ops = ["o%d" % v for v in range(1, c + 1)] + ["p"] * h
            ops += ["o%d" % v for v in range(c + 1, c + h + 3)] + ["z", "k"]
            ops += ["p"] * (c + 3) + ["e", "z"]
            out.append(conc.Scn("%s%d_%d" % (prefix, c, h), kind, [], [ops], "dfs 0 1", {"maxsteps": 200000}))
    return out

def gen_wrap_conc(tier, rng, kind, prefix="wc"):
    """the same shapes as set-up, then concurrent offers and polls across the growth point"""
    out = []
    for i, c in enumerate([4, 8, 16, 32, 64, 128]):
        h = rng.randint(1, c - 1)
        pre = list(range(1, c + 1)) + [-1] * h + list(range(c + 1, c + h))      # live = c - 1, one short of the old size
        v = c + h
        ths = [["o%d" % v, "o%d" % (v + 1), "p"], ["p", "o%d" % (v + 2), "p"]]
        out.append(conc.Scn("%s%d" % (prefix, i), kind, pre, ths, "dfs 2 %d" % scale(tier, 300, 4000), {"maxsteps": 200000}))
    return out

FIFO = ["o", "o", "p", "p", "k", "e"]
ALL = ["o", "o", "p", "p", "k", "e", "z"]

def scale(tier, q, t):
    return q if tier == "quick" else t

def gen_c01(tier, rng):
    s = []
    s += gen_family(rng, "a", "jdk", FIFO, scale(tier, 24, 120), 2, [2, 3], "dfs 2 %d" % scale(tier, 4000, 60000))
    s += gen_family(rng, "b", "jdk", FIFO, scale(tier, 12, 60), 3, [1, 2], "dfs 2 %d" % scale(tier, 4000, 60000))
    s += gen_family(rng, "c", "jdk", FIFO, scale(tier, 16, 200), [3, 4], [2, 3, 4], lambda r: "rand %d %d" % (scale(tier, 300, 3000), r.randint(1, 1 << 30)), prefill_max=3)
    s += gen_family(rng, "m", "mutex", FIFO, scale(tier, 8, 60), [2, 3], [2, 3], "dfs 2 %d" % scale(tier, 2000, 30000))
    s += gen_family(rng, "n", "mutex", FIFO, scale(tier, 6, 60), [3, 4], [2, 3], lambda r: "rand %d %d" % (scale(tier, 200, 2000), r.randint(1, 1 << 30)))
    s += gen_lag_sweep(tier, rng, "s", mode=lambda r: "rand %d %d" % (scale(tier, 12, 60), r.randint(1, 1 << 30)))
    s += gen_long_runs(tier, rng, "jdk")
    s += gen_poll_storm(tier, rng)
    s += gen_wrap_conc(tier, rng, "mutex", "wm")
    s += gen_wrap_conc(tier, rng, "jdk", "wj")
    return s

def gen_poll_storm(tier, rng, prefix="ps"):
    """many consumers on a well-filled queue: one Poll call falls off the list (its node was consumed and self-linked by
    others) several times IN A ROW; many schedules, every 5th replayed on the model, all judged by the monitors"""
    out = []
    for i in range(scale(tier, 4, 16)):
        npre = rng.choice([12, 14, 16])
        nt = rng.choice([3, 4])
        ths = [["p"] * rng.choice([1, 2])] + [["p"] * rng.choice([4, 5]) for _ in range(nt - 1)]
        m = "rand %d %d" % (scale(tier, 12000, 60000), rng.randint(1, 1 << 30)) if i % 2 == 0 else "pct %d %d %d" % (scale(tier, 12000, 60000), rng.randint(1, 1 << 30), rng.choice([5, 8]))
        out.append(conc.Scn("%s%d" % (prefix, i), "jdk", list(range(1, npre + 1)), ths, m, {"sample": 5}))
    return out

def gen_c07(tier, rng):
    s = []
    full = ["o", "o", "p", "p", "k", "e", "z", "i", "n", "n", "r", "h"]
    s += gen_family(rng, "a", "jdk", full, scale(tier, 30, 300), [2, 3, 4], [2, 3, 4], lambda r: "solo %d %d" % (scale(tier, 400, 3000), r.randint(1, 1 << 30)), prefill_max=4)
    s += gen_family(rng, "b", "jdk", full, scale(tier, 12, 100), [2, 3], [2, 3], "dfs 2 %d" % scale(tier, 3000, 40000), prefill_max=3)
    s += gen_family(rng, "c", "jdk", full, scale(tier, 10, 100), [3, 4], [3, 4, 5], lambda r: "rand %d %d" % (scale(tier, 300, 3000), r.randint(1, 1 << 30)), prefill_max=4)
    # a goroutine suspended for good at every one of its access points: everybody else must still finish
    s += gen_family(rng, "f", "jdk", ["o", "o", "p", "p", "k", "z"], scale(tier, 16, 150), [3], [2, 3, 4], lambda r: "freeze %d %d" % (scale(tier, 3, 12), r.randint(1, 1 << 30)), prefill_max=3)
    # the same from lagging head / tail shapes (set-up scripts of Offer and Poll bursts)
    s += gen_family(rng, "g", "jdk", ["o", "o", "p", "p", "k"], scale(tier, 24, 200), [2, 3], [1, 2, 3], lambda r: "freeze %d %d" % (scale(tier, 3, 12), r.randint(1, 1 << 30)), script=lag_script)
    s += gen_family(rng, "l", "jdk", full, scale(tier, 16, 150), [2, 3], [2, 3], lambda r: "solo %d %d" % (scale(tier, 300, 3000), r.randint(1, 1 << 30)), script=lag_script)
    s += gen_lag_sweep(tier, rng)
    s += gen_stale_iter(tier, rng)
    return s

def gen_two_iters(tier, rng, count):
    """two iterators walking and removing over the same elements while a third thread polls / offers"""
    out = []
    for i in range(count):
        npre = rng.choice([3, 4, 5])
        def walker():
            th = ["i"]
            for _ in range(rng.choice([3, 4, 5])):
                th.append(rng.choice(["n", "n", "r"]))
            return th
        ths = [walker(), walker()]
        if rng.random() < 0.5:
            ths.append(rng.choice([["p"], ["o9"], ["p", "o9"]]))
        m = "dfs 3 %d" % scale(tier, 6000, 80000) if len(ths) == 2 else "rand %d %d" % (scale(tier, 500, 5000), rng.randint(1, 1 << 30))
        out.append(conc.Scn("w%d" % i, "jdk", list(range(1, npre + 1)), ths, m))
    return out

def gen_iter_pairs(tier, rng):
    """every pair of short traversals-with-removes over the same elements, all interleavings with up to two
    (thorough: three) preemptions: one iterator removing what the other has captured / returned last"""
    walks = ["nnn", "nnr", "nrn", "nnnr", "nnrn", "nrnn", "nrnr"]
    out = []
    for i, a in enumerate(walks):
        for b in walks[i:]:
            if "r" not in a + b:
                continue
            npre = rng.choice([3, 4])
            out.append(conc.Scn("y%s_%s" % (a, b), "jdk", list(range(1, npre + 1)), [["i"] + list(a), ["i"] + list(b)],
                                "dfs %d %d" % (scale(tier, 2, 3), scale(tier, 3000, 60000))))
    return out

def gen_c13(tier, rng):
    s = gen_two_iters(tier, rng, scale(tier, 14, 120))
    s += gen_iter_pairs(tier, rng)
    alpha = ["o", "p", "p", "o"]
    s += gen_family(rng, "a", "jdk", alpha, scale(tier, 24, 150), 2, [2, 3, 4], "dfs 2 %d" % scale(tier, 4000, 60000), prefill_max=3, iter_threads=1)
    s += gen_family(rng, "b", "jdk", alpha, scale(tier, 10, 80), 3, [2, 3], "dfs 2 %d" % scale(tier, 4000, 60000), prefill_max=3, iter_threads=2)
    s += gen_family(rng, "c", "jdk", alpha, scale(tier, 16, 200), [3, 4], [3, 4, 5], lambda r: "rand %d %d" % (scale(tier, 300, 3000), r.randint(1, 1 << 30)), prefill_max=4, iter_threads=2)
    ipats = [lambda v: [["i", "n", "n", "r", "n"], ["p", "o%d" % v]],
             lambda v: [["i", "n", "r", "n", "n"], ["o%d" % v, "p"]],
             lambda v: [["i", "n", "n", "r"], ["i", "n", "r", "n"]],
             lambda v: [["i", "h", "n", "r", "n"], ["p"], ["o%d" % v]]]
    s += gen_lag_sweep(tier, rng, "s", mode=lambda r: "rand %d %d" % (scale(tier, 12, 60), r.randint(1, 1 << 30)), pats=ipats)
    s += gen_stale_iter(tier, rng)
    return s

def gen_exhaustive_seq(tier, kind, prefix):
    """bounded-exhaustive single-goroutine scripts: EVERY sequence over the alphabet up to the bound (values are fresh
    per Offer), on an empty queue and on one holding two elements"""
    import itertools
    alpha = ["o", "p", "k", "e", "z"] + (["i", "n", "r"] if kind == "jdk" else [])
    maxlen = scale(tier, 4, 5) if kind == "jdk" else scale(tier, 5, 6)
    out, n = [], 0
    for L in range(1, maxlen + 1):
        for seq in itertools.product(alpha, repeat=L):
            if kind == "jdk" and ("n" in seq or "r" in seq) and "i" not in seq:
                continue            # Next / Remove without an iterator do nothing interesting
            for pre in ([], [1, 2]):
                v, ops = max([0] + pre), []
                for o in seq:
                    if o == "o":
                        v += 1
                        ops.append("o%d" % v)
                    else:
                        ops.append(o)
                out.append(conc.Scn("%s%d" % (prefix, n), kind, pre, [ops], "dfs 0 1"))
                n += 1
    return out

def gen_long_runs(tier, rng, kind="jdk", prefix="lr"):
    """long single-goroutine scripts: many elements, long runs of consumed nodes at the head (polled, or removed through an
    iterator) with nothing / one element / many elements behind them - depths that short scripts never reach"""
    out = []
    sizes = [17, 18, 33, 40, 70] if tier == "quick" else [16, 17, 18, 31, 32, 33, 40, 64, 65, 70, 130]
    for i, n in enumerate(sizes):
        offers = ["o%d" % v for v in range(1, n + 1)]
        for k, tail in enumerate([[], ["o%d" % (n + 1)], ["o%d" % (n + 1), "o%d" % (n + 2), "o%d" % (n + 3)]]):
            probes = ["e", "k", "z", "p", "e", "z"] + (["i", "n", "h"] if kind == "jdk" else [])
            if kind == "jdk":
                # remove the first n elements through an iterator (all, or all but the last), then look
                rem = ["i"] + ["n", "r"] * (n if k % 2 == 0 else n - 1)
                out.append(conc.Scn("%s%d_%da" % (prefix, n, k), kind, [], [offers + rem + tail + probes], "dfs 0 1", {"maxsteps": 60000}))
            out.append(conc.Scn("%s%d_%db" % (prefix, n, k), kind, [], [offers + ["p"] * (n if k % 2 == 0 else n - 1) + tail + probes], "dfs 0 1", {"maxsteps": 60000}))
    return out

def gen_c15(tier, rng):
    s = []
    s += gen_long_runs(tier, rng, "jdk")
    s += gen_long_runs(tier, rng, "mutex", "lm")
    s += gen_stale_iter(tier, rng)
    s += gen_wrap_runs(tier, rng, "jdk", "wj")
    s += gen_wrap_runs(tier, rng, "mutex", "wm")
    s += gen_exhaustive_seq(tier, "jdk", "xj")
    s += gen_exhaustive_seq(tier, "mutex", "xm")
    seq = ["o", "o", "o0", "p", "p", "k", "e", "z", "i", "n", "n", "h", "r"]
    s += gen_family(rng, "a", "jdk", seq, scale(tier, 400, 6000), 1, [4, 8, 12, 20], "dfs 0 1", prefill_max=3)
    s += gen_family(rng, "m", "mutex", ["o", "o", "o0", "p", "p", "k", "e", "z"], scale(tier, 150, 2000), 1, [4, 8, 12], "dfs 0 1", prefill_max=3)
    # concurrent phase, then the quiescent digest (Size, full iteration, drain)
    s += gen_family(rng, "q", "jdk", ALL, scale(tier, 16, 150), [2, 3], [2, 3], "dfs 2 %d" % scale(tier, 2000, 30000), prefill_max=3, iter_threads=1)
    s += gen_family(rng, "r", "jdk", ALL, scale(tier, 10, 150), [3, 4], [3, 4], lambda r: "rand %d %d" % (scale(tier, 200, 2000), r.randint(1, 1 << 30)), prefill_max=3, iter_threads=1)
    s += gen_family(rng, "s", "mutex", ALL, scale(tier, 6, 60), [2, 3], [2, 3], lambda r: "rand %d %d" % (scale(tier, 200, 2000), r.randint(1, 1 << 30)), prefill_max=3)
    return s

def gen_c19_queue(tier, rng):
    s = []
    s += gen_family(rng, "a", "mutex", ALL, scale(tier, 16, 120), 2, [2, 3], "dfs 2 %d" % scale(tier, 3000, 40000))
    s += gen_family(rng, "b", "mutex", ALL, scale(tier, 8, 60), 3, [1, 2], "dfs 2 %d" % scale(tier, 3000, 40000))
    s += gen_family(rng, "c", "mutex", ALL, scale(tier, 10, 100), [3, 4], [2, 3, 4], lambda r: "rand %d %d" % (scale(tier, 300, 3000), r.randint(1, 1 << 30)))
    s += gen_wrap_runs(tier, rng, "mutex", "wm")
    s += gen_wrap_conc(tier, rng, "mutex")
    return s

def fine_c13(tier, rng):
    """statement-level interleavings of traversals with Remove / Poll (monitors only): the plain fields of a node
    (its value) and of an iterator are read next to atomic loads without a scheduling point in the sync-level build"""
    s = []
    s += gen_family(rng, "fi", "jdk", ["p", "o", "p"], scale(tier, 14, 100), [2, 3], [2, 3], lambda r: "rand %d %d" % (scale(tier, 400, 4000), r.randint(1, 1 << 30)), prefill_max=4, iter_threads=1)
    for i in range(scale(tier, 10, 80)):
        npre = rng.choice([2, 3, 4])
        a = ["i"] + [rng.choice(["n", "n", "r"]) for _ in range(rng.choice([3, 4]))]
        b = ["i"] + [rng.choice(["n", "h", "n"]) for _ in range(rng.choice([3, 4]))]
        ths = [a, b] + ([["p", "k"]] if rng.random() < 0.5 else [])
        s.append(conc.Scn("fj%d" % i, "jdk", list(range(1, npre + 1)), ths, "rand %d %d" % (scale(tier, 400, 4000), rng.randint(1, 1 << 30))))
    return s

def fine_c19(tier, rng):
    """statement-level interleavings of the mutex queue (monitors only): plain accesses made after the lock was released"""
    s = []
    s += gen_family(rng, "fm", "mutex", ["k", "p", "o", "k", "p", "e", "z"], scale(tier, 16, 120), [2, 3], [2, 3], lambda r: "rand %d %d" % (scale(tier, 400, 4000), r.randint(1, 1 << 30)), prefill_max=4)
    return s

def fine_c01(tier, rng):
    """statement-level interleavings (monitors only): catches races on plain fields"""
    s = []
    s += gen_family(rng, "fa", "jdk", FIFO, scale(tier, 10, 80), [2, 3], [2, 3], lambda r: "rand %d %d" % (scale(tier, 400, 4000), r.randint(1, 1 << 30)), prefill_max=3)
    s += gen_family(rng, "fb", "jdk", ["k", "p", "o", "k", "p"], scale(tier, 10, 80), [2, 3], [2, 3], lambda r: "rand %d %d" % (scale(tier, 400, 4000), r.randint(1, 1 << 30)), prefill_max=3)
    return s
