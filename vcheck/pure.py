"""Tier 2 (pure value code): C05, C18, C20 — correspondence between the
extracted Coq models and the implementation, plus the property predicates
(independent Python reference, exact arithmetic) used to turn a disagreement
into a concrete failing input."""
import json, math, os, re, struct
from . import common as C

MAXI, MINI = 2**63 - 1, -2**63

def f_of_bits(b):
    return struct.unpack("<d", struct.pack("<Q", int(b)))[0]

def isnan(x):
    return x != x

# ------------------------------------------------------------ reference predicates

def ref_validate(a):
    thr = f_of_bits(a[0]); mr, tr, ow, w, iv = map(int, a[1:6])
    return (not isnan(thr)) and 0 < thr <= 1 and tr > 0 and ow > 0 and w > 0 and iv > 0 and w > iv

def ref_ctor(kind, a):
    if kind == "newfixed":
        return int(a[0]) >= 0
    if kind == "newlimit":
        return int(a[0]) > 0
    if kind == "newrandom":
        return 0 <= int(a[0]) <= int(a[1])
    if kind == "newexpo":
        m = f_of_bits(a[2])
        return (not isnan(m)) and m > 1 and 0 <= int(a[0]) <= int(a[1])
    if kind == "newjitter":
        lo, hi = f_of_bits(a[0]), f_of_bits(a[1])
        return (not isnan(lo)) and (not isnan(hi)) and -1 <= lo <= hi <= 1
    raise ValueError(kind)

def sat_floor(x):
    """floor of a non-negative float product, saturating at MaxInt64 (NaN saturates)."""
    if isnan(x) or x >= 2.0**63:
        return MAXI
    return int(math.floor(x))

def parse_backoff(toks):
    """prefix description -> (tree, rest); tree = (kind, params..., child?)"""
    k = toks[0]
    if k == "F":
        return ("F", int(toks[1])), toks[2:]
    if k == "E":
        return ("E", int(toks[1]), int(toks[2]), f_of_bits(toks[3])), toks[4:]
    if k == "R":
        return ("R", int(toks[1]), int(toks[2])), toks[3:]
    if k == "J":
        ch, rest = parse_backoff(toks[3:])
        return ("J", f_of_bits(toks[1]), f_of_bits(toks[2]), ch), rest
    if k == "L":
        ch, rest = parse_backoff(toks[2:])
        return ("L", int(toks[1]), ch), rest
    raise ValueError(toks)

def tree_valid(t):
    k = t[0]
    if k == "F": return t[1] >= 0
    if k == "E": return (not isnan(t[3])) and t[3] > 1 and 0 <= t[1] <= t[2]
    if k == "R": return 0 <= t[1] <= t[2]
    if k == "J": return tree_valid(t[3]) and not isnan(t[1]) and not isnan(t[2]) and -1 <= t[1] <= t[2] <= 1
    if k == "L": return tree_valid(t[2]) and t[1] > 0
    return False

def envelope(t, n, pw):
    """the set of delays the property allows: ('stop',) or ('range', lo, hi)"""
    k = t[0]
    if k == "F":
        return ("range", t[1], t[1])
    if k == "E":
        i, mx, m = t[1], t[2], t[3]
        if n == 1:
            return ("range", i, i)
        v = min(mx, sat_floor(float(i) * pw))
        return ("range", v, v)
    if k == "R":
        return ("range", t[1], t[2])
    if k == "L":
        if n >= t[1]:
            return ("stop",)
        return envelope(t[2], n, pw)
    if k == "J":
        inner = envelope(t[3], n, pw)
        if inner[0] == "stop":
            return inner
        lo, hi = inner[1], inner[2]
        if hi <= 0:
            return inner                       # <= 0 passes through unchanged
        a = sat_floor(float(max(lo, 1)) * (1.0 + t[1])) if lo > 0 else 0
        b = sat_floor(float(hi) * (1.0 + t[2]))
        return ("range", min(a, lo) if lo <= 0 else a, b)
    raise ValueError(t)

def ref_delay_ok(a, impl):
    """does the implementation's answer satisfy C05's envelope?"""
    n, pw, k = int(a[0]), f_of_bits(a[1]), int(a[2])
    tree, _ = parse_backoff(a[3 + k:])
    if not tree_valid(tree):
        return impl == "none", "constructor must reject"
    if impl == "none":
        return False, "constructor rejected a documented-valid configuration"
    if n < 1:
        return True, "attempt < 1 is outside the property"
    v = int(impl)
    env = envelope(tree, n, pw)
    if env[0] == "stop":
        return v < 0, "limit reached: must be negative"
    ok = env[1] <= v <= env[2]
    if has_limit_passed(tree, n) and v < 0:
        ok = False
    return ok, "allowed %s" % (env,)

def has_limit_passed(t, n):
    return False

def go_parse_int(s):
    if not re.fullmatch(rb'[+-]?[0-9]+', s):
        return None
    v = int(s.decode())
    return v if MINI <= v <= MAXI else None

def ref_spec(a):
    """expected result string of building spec a[0] with oracle a[1] and layers a[2:]"""
    s = bytes.fromhex(a[0][1:]); pf = a[1]; lt = a[2:]
    def base():
        if s == b"": return None
        i = s.find(b"=")
        if i < 0: return None
        key, val = s[:i], s[i+1:]
        def fld(x, d):
            return d if x == b"" else go_parse_int(x)
        if key == b"fixed":
            d = fld(val, 200)
            return ("F", d) if d is not None and d >= 0 else None
        if key == b"random":
            fs = val.split(b":")
            if len(fs) != 2: return None
            mn, mx = fld(fs[0], 0), fld(fs[1], 10000)
            if mn is None or mx is None or not (0 <= mn <= mx): return None
            return ("R", mn, mx)
        if key == b"exponential":
            fs = val.split(b":")
            if len(fs) != 3: return None
            i0, mx = fld(fs[0], 200), fld(fs[1], 10000)
            if i0 is None or mx is None: return None
            if fs[2] == b"": m = 2.0
            elif pf in ("pferr", "pfnone"): return None
            else: m = f_of_bits(pf)
            if isnan(m) or not m > 1 or not (0 <= i0 <= mx): return None
            return ("E", i0, mx, m)
        return None
    t = base()
    if t is None:
        return "err"
    i = 0
    while i < len(lt):
        if lt[i] == "l":
            l = int(lt[i+1]); i += 2
            if l <= 0: return "err"
            t = ("L", l, t)
        elif lt[i] == "j":
            lo, hi = f_of_bits(lt[i+1]), f_of_bits(lt[i+2]); i += 3
            if isnan(lo) or isnan(hi) or not (-1 <= lo <= hi <= 1): return "err"
            t = ("J", lo, hi, t)
        elif lt[i] == "w":
            x = f_of_bits(lt[i+1]); i += 2
            lo, hi = -x, x
            if isnan(lo) or not (-1 <= lo <= hi <= 1): return "err"
            t = ("J", lo, hi, t)
    return "ok " + desc(t)

def bits(f):
    if isnan(f): return 0x7ff8000000000000
    return struct.unpack("<Q", struct.pack("<d", f))[0]

def desc(t):
    k = t[0]
    if k == "F": return "F %d" % t[1]
    if k == "E": return "E %d %d %d" % (t[1], t[2], bits(t[3]))
    if k == "R": return "R %d %d %d" % (t[1], t[2], t[2] - t[1])
    if k == "J": return "J %d %d (%s)" % (bits(t[1]), bits(t[2]), desc(t[3]))
    if k == "L": return "L %d (%s)" % (t[1], desc(t[2]))

def predicate(kind, args, impl):
    """(ok, explanation): does the implementation's answer satisfy the property?"""
    if kind == "validate":
        want = ref_validate(args)
        return (impl == "1") == want, "documented domain says accept=%s" % want
    if kind in ("newfixed", "newlimit", "newrandom", "newexpo", "newjitter"):
        want = ref_ctor(kind, args)
        if impl not in ("0", "1"):
            # the builder route: an accepted policy that cannot be used, or Build() answers that differ between calls
            return False, "documented domain says accept=%s on every Build" % want
        return (impl == "1") == want, "documented domain says accept=%s" % want
    if kind == "delay":
        return ref_delay_ok(args, impl)
    if kind == "spec":
        want = ref_spec(args)
        return impl == want, "grammar + direct construction says %s" % want
    if kind == "bseq":
        # every Build of the call sequence: the last explicit base if any (judged by the model only), else the LAST
        # specification with the layers added so far, by the same grammar + direct-construction reference
        outs = [] if impl == "" else impl.split(" ; ")
        if any(o.startswith("panic") for o in outs):
            return False, "a builder call panicked; building from a specification never panics"
        i, k, spec, explicit, layers = 0, 0, None, False, []
        while i < len(args):
            t = args[i]
            if t == "S":
                spec = (args[i+1], args[i+2]); i += 3
            elif t == "N":
                i += 1
            elif t == "B":
                explicit = True; i += 3          # B F <d>
            elif t == "l":
                layers += args[i:i+2]; i += 2
            elif t == "j":
                layers += args[i:i+3]; i += 3
            elif t == "w":
                layers += args[i:i+2]; i += 2
            elif t == "D":
                if k >= len(outs):
                    return False, "Build #%d has no recorded outcome" % (k + 1)
                if not explicit:
                    want = "err" if spec is None else ref_spec([spec[0], spec[1]] + layers)
                    if outs[k] != want:
                        return False, "Build #%d of the call sequence: the specification in force and the layers added so far give %s" % (k + 1, want)
                k += 1; i += 1
            else:
                return True, ""
        return True, ""
    if kind == "apicheck":
        return impl == "1", "the API contract %s holds" % args[0]
    if kind == "parseint":
        v = go_parse_int(bytes.fromhex(args[0][1:]))
        want = "err" if v is None else str(v)
        return impl == want, "decimal int64 grammar says %s" % want
    return True, ""

# ------------------------------------------------------------ correspondence

ALL_KINDS = "validate,ctors,delay,spec,parseint"
KIND_GROUP = {"newfixed": "ctors", "newexpo": "ctors", "newjitter": "ctors", "newlimit": "ctors", "newrandom": "ctors", "bseq": "spec"}

def corr(kinds, prop_id):
    def run(tier, seed):
        n = 1500 if tier == "quick" else 150000
        res = {"rule": "boundary palettes (all combinations for constructors) + seeded structured random cases from the single PRNG; "
                       "distinct = distinct (kind,args) lines; non-trivial = the implementation accepted the configuration / returned a value (not only an early rejection)"}
        ok, exe, out = C.ocaml_build("pure_run", "theories/Extract/ExtractPure.v", "pure_model", "pure_run.ml")
        if not ok:
            res["build_error"] = "model runner: " + out
            return res
        ok, gobin, out = C.go_build("pure", cover="go.linecorp.com/garr/retry,go.linecorp.com/garr/circuit-breaker")
        if not ok:
            res["build_error"] = "go build of the harness against /repo failed:\n" + out
            return res
        d = os.path.join(C.BUILD, "run", prop_id)
        os.makedirs(d, exist_ok=True)
        import shutil
        covdir = os.path.join(d, "cov")
        shutil.rmtree(covdir, ignore_errors=True)
        os.makedirs(covdir)
        cenv = dict(os.environ, GOCOVERDIR=covdir)
        # the coverage corpus of the pure packages: every kind of case with the fixed seed 0 (boundary palettes and a few
        # hundred random cases each), judged like the property's own cases below; then the property's own kinds
        dc = os.path.join(d, "corpus")
        os.makedirs(dc, exist_ok=True)
        rc, out = C.sh([gobin, "-seed", "0", "-n", "300", "-out", dc, "-kinds", ALL_KINDS], timeout=3000, env=cenv)
        if rc == 0:
            rc, out = C.sh([gobin, "-seed", str(seed), "-n", str(n), "-out", d, "-kinds", kinds], timeout=3000, env=cenv)
        if rc != 0:
            res["build_error"] = "harness run failed:\n" + out
            return res
        # corpus cases other than the property's own kinds join the comparison with the model (mismatches only: their
        # verdicts belong to other properties)
        own = set(kinds.split(","))
        with open(os.path.join(d, "cases.tsv"), "a") as fc, open(os.path.join(d, "impl.tsv"), "a") as fi:
            cimpl = dict(l.rstrip("\n").split("\t", 1) for l in open(os.path.join(dc, "impl.tsv")))
            for l in open(os.path.join(dc, "cases.tsv")):
                f = l.rstrip("\n").split("\t")
                if KIND_GROUP.get(f[1], f[1]) in own:
                    continue
                fc.write("\t".join(["c" + f[0]] + f[1:]) + "\n")
                fi.write("c%s\t%s\n" % (f[0], cimpl.get(f[0], "")))
        rc, model_out = C.sh("%s < cases.tsv > model.tsv" % exe, cwd=d, timeout=3000)
        if rc != 0:
            res["build_error"] = "model runner failed:\n" + model_out
            return res
        cases = [l.rstrip("\n").split("\t") for l in open(os.path.join(d, "cases.tsv"))]
        impl = dict(l.rstrip("\n").split("\t", 1) for l in open(os.path.join(d, "impl.tsv")))
        model = dict(l.rstrip("\n").split("\t", 1) for l in open(os.path.join(d, "model.tsv")))
        mism, viol, seen, nontriv = [], [], set(), set()
        samples = []
        for c in cases:
            cid, kind, args = c[0], c[1], " ".join(c[2:]).split()
            iv, mv = impl.get(cid), model.get(cid)
            if kind == "apicheck":
                mv = "1"          # judged by the documented contract alone (no model counterpart)
            key = (kind, tuple(args))
            seen.add(key)
            if iv not in ("0", "none", "err"):
                nontriv.add(key)
            okp, why = (True, "") if cid.startswith("c") else predicate(kind, args, iv)
            if iv != mv:
                mism.append({"kind": kind, "args": " ".join(c[2:]), "impl": iv, "model": mv})
            if not okp:
                viol.append({"kind": kind, "args": " ".join(c[2:]), "impl": iv, "model": mv, "property_says": why})
            if len(samples) < 8 and not cid.startswith("c") and int(cid) % max(1, len(cases) // 8) == 0:
                samples.append({"kind": kind, "args": " ".join(c[2:]), "impl": iv, "model": mv})
        res.update(evaluations=len(cases), distinct_nontrivial=len(nontriv), mismatches=mism, violations=viol,
                   samples=samples, traces_validated_against_impl=len(cases),
                   stats=json.load(open(os.path.join(d, "stats.json"))))
        res["stats"]["distinct_cases"] = len(seen)
        from . import cover
        scope = {f for f in cover.anchors(prop_id) if f.startswith("retry/") or f == "circuit-breaker/circuitBreakerConfig.go"}
        unex, cstats, cerr = cover.unexercised(covdir, C.REPO, scope, cwd=os.path.join(C.ROOT, "harness"))
        if cerr:
            res["build_error"] = cerr
        for u in unex:
            mism.append({"kind": "code not executed by any model-validated case (the correspondence does not cover it)",
                         "args": "%s: %s (lines %s)" % (u["file"], u["func"], u["lines"]), "impl": u["text"], "model": ""})
        res["stats"]["impl_block_coverage"] = cstats
        return res
    return run

COMMON_TRUST = [
    "exercised-code obligation: every basic block of the retry files / circuitBreakerConfig.go the property is anchored in must be executed by a case compared with the model (all case kinds with seed 0 + the property's own cases); dead blocks are listed with reasons in corpus/unreached.tsv",
    "math.Pow and strconv.ParseFloat are oracles: the harness passes Go's own answer to the model",
    "float64 modelled as Coq.Floats.SpecFloat binary64 (prec 53, emax 1024), round-to-nearest-even; no FMA (amd64)",
    "int64(float) outside the int64 range modelled as amd64's MinInt64; theorems prove the conversion is in range wherever the code converts",
]

SPECS = {
    "C20": dict(
        title="Constructors accept exactly their documented parameter domain",
        corr=corr("validate,ctors", "C20"),
        model_note="Pure/Config.v validate, Pure/Retry.v new_* model circuitBreakerConfig.go Validate and the five retry constructors",
        trusted=COMMON_TRUST + ["real-number reading of float parameters through Flocq B2R (brings the standard library's classical real axioms)"],
        partial=["error message texts; the nil-delegate and nil-ticker checks (not part of the numeric domain)"],
        replay_how="each entry: constructor kind + arguments (floats as IEEE-754 bit patterns in decimal); run harness/cmd/pure or call the constructor directly",
    ),
    "C05": dict(
        title="Backoff delays stay inside their documented envelope",
        corr=corr("delay", "C05"),
        extra_prop_files=["theories/Properties/C05Float.v"],
        model_note="Pure/Retry.v next_delay models the five NextDelayMillis methods and retry/utils.go (random source = explicit word stream, math.Pow = oracle value)",
        trusted=COMMON_TRUST,
        partial=["exponential 'never below initial' is proved for Pow oracle values > 1 (or +Inf / NaN) and, for initial <= 2^53, for >= 1; with a factor of exactly 1.0 and initial > 2^53 the float round-trip loses up to 512 ms (C05_sat_mul_one_below_arg) - unreachable with math.Pow(m > 1, n-1 >= 1) >= 1+2^-52, documented boundary",
                 "monotonicity in n is relative to monotonicity of the math.Pow oracle values",
                 "attempt numbers < 1 are outside the property"],
        replay_how="each entry: attempt, Pow oracle bits, random words, backoff in prefix notation (F d | E i max mbits | R min max | J lobits hibits <b> | L limit <b>)",
    ),
    "C18": dict(
        title="Backoff specifications parse totally, exactly and with the documented defaults",
        corr=corr("spec,parseint", "C18"),
        model_note="Pure/Spec.v parse_spec/build_spec model retry/backoff.go parseFromSpec, the three parse* helpers and BackoffBuilder.Build over byte strings; Pure/Builder.v models the BackoffBuilder object (specification, remembered base, layers) over arbitrary call sequences; strconv.ParseInt modelled exactly, strconv.ParseFloat an oracle",
        trusted=COMMON_TRUST,
        partial=[],
        replay_how="each entry: spec string as hex after 'x', ParseFloat oracle for the 3rd field, layers (l n | j lobits hibits | w ratebits)",
    ),
}
