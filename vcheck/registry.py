"""property id -> check specification"""
import json, os
from . import pure

SPECS = {}
SPECS.update(pure.SPECS)
from . import tier1, conc
SPECS.update(tier1.SPECS)
from . import race
SPECS.update(race.SPECS)

from . import common as C
BUILDERS = [
    lambda: C.ocaml_build("pure_run", "theories/Extract/ExtractPure.v", "pure_model", "pure_run.ml"),
    lambda: C.go_build("pure", cover="go.linecorp.com/garr/retry,go.linecorp.com/garr/circuit-breaker"),
    lambda: C.go_build("volume"),
    lambda: conc.build_replayer(),
    lambda: conc.build_driver("queue"),
    lambda: conc.build_driver("adder"),
    lambda: conc.build_driver("breaker"),
    lambda: conc.build_driver("pool"),
]

def replay(prop_id, path):
    """Re-evaluate the cases of a replay file against the current /repo."""
    data = json.load(open(path))
    data["_path"] = path
    print(json.dumps({k: data[k] for k in data if k in ("property", "kind", "no_longer_checks", "violations")}, indent=1)[:4000])
    mod = SPECS[prop_id].get("replay")
    if mod:
        return mod(data)
    return 0
