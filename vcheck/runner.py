"""The decision procedure shared by every property check (DESIGN.md §1, §7)."""
import json, os, sys, time
from . import common as C

TRUSTED_COMMON = [
    "Coq 8.16.1 kernel (coqc, full .vo build; vm_compute used, native_compute not used)",
    "hand-written Gallina model of the garr code named in level_note; tied to /repo only by the correspondence check of this run",
    "extraction: Require Extraction + ExtrOcamlBasic only (Extract Inductive for bool, option, unit, list, prod, sumbool, sumor, comparison); Z/positive/nat stay extracted inductives; no Extract Constant",
    "OCaml drivers (ocaml/*.ml), Go harness (harness/), fastrand stub, Python comparator (vcheck/)",
]

def run(prop_id, tier, seed, spec):
    """spec: dict with keys
       title, model_note, corr(tier, seed) -> result dict, std_axioms_ok (bool),
       partial (list of str: what the theorems do not cover)"""
    t0 = time.time()
    problems = []          # things that break the proof side
    # ---- proof side
    hits = C.forbidden_scan()
    if hits:
        problems.append({"what": "forbidden construct in the Coq development", "where": hits[:5]})
    ok, out, bad = C.coq_build()
    prop_file = "theories/Properties/%s.v" % prop_id
    cone = C.coq_cone(prop_file) if os.path.exists(os.path.join(C.COQ, prop_file)) else []
    extra_files = [f for f in spec.get("extra_prop_files", []) if os.path.exists(os.path.join(C.COQ, f))]
    for f in extra_files:
        cone = sorted(set(cone) | set(C.coq_cone(f)))
    if not ok:
        problems.append({"what": "Coq build failed", "where": bad, "log": out[-1500:]})
    opened, closed, admitted = C.count_obligations(cone) if cone else (0, 0, [])
    if admitted:
        problems.append({"what": "Admitted/Axiom in cone", "where": admitted})
    assum, assum_raw = {}, ""
    if ok and cone:
        aok, assum, assum_raw = C.coq_assumptions(prop_id, extra_files)
        if not aok:
            problems.append({"what": "Print Assumptions run failed", "log": assum_raw[-1500:]})
        for thm, axs in assum.items():
            for a in axs:
                if a not in C.STD_AXIOMS:
                    problems.append({"what": "theorem depends on an axiom outside the allow-list", "where": thm + ": " + a})
    chk = None
    if tier == "thorough" and ok and cone:
        # independent re-check of the compiled property file and everything it depends on
        mods = ["Garr.Properties." + prop_id] + ["Garr." + f[len("theories/"):-2].replace("/", ".") for f in extra_files]
        rc, out = C.sh(["timeout", "3000", "coqchk", "-silent", "-o", "-Q", "theories", "Garr"] + mods,
                       cwd=C.COQ, timeout=3100)
        tail = out[out.find("CONTEXT SUMMARY"):] if "CONTEXT SUMMARY" in out else out[-1500:]
        chk = {"cmd": "coqchk -silent -o -Q theories Garr " + " ".join(mods), "rc": rc, "summary": tail[:2500]}
        if rc != 0:
            problems.append({"what": "coqchk rejected the compiled development", "log": out[-1500:]})
    discharged = closed if ok and not problems else 0
    # ---- correspondence + search
    res = spec["corr"](tier, seed)
    concrete = res.get("violations", [])          # concrete failing inputs on the implementation
    mismatches = res.get("mismatches", [])        # model/impl disagreements
    if res.get("build_error"):
        problems.append({"what": "harness build/run failed (tie cannot be checked)", "log": res["build_error"][-1500:]})
    # ---- decide
    findings = C.known_findings(prop_id)
    lines, nviol = [], 0
    unknown = []
    for v in concrete:
        kf = next((f for f in findings if spec.get("match_finding", lambda f, v: False)(f, v)), None)
        if kf:
            lines.append("KNOWN-FINDING: property=%s %s (%s)" % (prop_id, kf["text"], kf["id"]))
        else:
            unknown.append(v)
    # open findings are always announced on a run that still reproduces them or not (they are documented defects)
    for f in findings:
        l = "KNOWN-FINDING: property=%s %s (%s)" % (prop_id, f["text"], f["id"])
        if l not in lines and spec.get("announce_findings", True):
            lines.append(l)
    if unknown:
        rel = C.write_replay(prop_id, "impl-input", {"violations": unknown[:20], "seed": seed, "tier": tier,
                                                       "repo": C.repo_head(), "how": spec.get("replay_how", "")})
        lines.append("VIOLATION property=%s replay=%s" % (prop_id, rel))
        nviol += len(unknown)
    elif mismatches or problems:
        broken = []
        if mismatches:
            broken.append("correspondence model<->implementation (%d disagreements)" % len(mismatches))
        for p in problems:
            broken.append("%s: %s" % (p["what"], p.get("where")))
        rel = C.write_replay(prop_id, "unproved", {"no_longer_checks": broken, "mismatches": mismatches[:20],
                                                     "problems": problems, "seed": seed, "tier": tier, "repo": C.repo_head(),
                                                     "theorems": list(assum.keys())})
        lines.append("VIOLATION property=%s replay=%s no-failing-input-found" % (prop_id, rel))
        nviol += 1
    # ---- evidence
    cov = {
        "obligations": max(opened, 1), "discharged": discharged if opened else 0,
        "checker_cmd": "make -C coq -j16 (coq_makefile, full .vo) ; coqc Print Assumptions on Properties/%s.v" % prop_id,
        "trusted_base": C_trusted(spec, assum),
        "theorems": (C.theorem_statements(prop_file) + [t for f in extra_files for t in C.theorem_statements(f)]) if cone else [],
        "print_assumptions": {k: (v or ["Closed under the global context"]) for k, v in assum.items()},
        "cone_files": cone,
        "evaluations": res.get("evaluations", 0),
        "distinct_nontrivial": res.get("distinct_nontrivial", 0),
        "rule": res.get("rule", ""),
        "samples": res.get("samples", [])[:8],
        "traces_validated_against_impl": res.get("traces_validated_against_impl", res.get("evaluations", 0)),
        "disagreements_checked": len(mismatches),
        "input_distribution": res.get("stats", {}),
        "not_covered_by_theorems": spec.get("partial", []),
        "repo": C.repo_head(),
    }
    if chk:
        cov["coqchk"] = chk
    for k in ("states", "transitions", "exhaustive", "schedules", "scenarios"):
        if k in res:
            cov[k] = res[k]
    C.write_evidence(prop_id, tier, seed, "proof", cov,
                     [spec.get("model_note", "")] + spec.get("assumes", []), time.time() - t0, nviol)
    for l in lines:
        print(l)
    sys.stdout.flush()
    return 1 if nviol else 0

def C_trusted(spec, assum):
    tb = list(TRUSTED_COMMON)
    axs = sorted({a for v in assum.values() for a in v})
    if axs:
        tb.append("standard-library axioms reported by Print Assumptions: " + ", ".join(axs))
    else:
        tb.append("Print Assumptions: closed under the global context (no axioms)")
    tb += spec.get("trusted", [])
    return tb
