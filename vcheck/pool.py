"""Worker-pool properties C04, C08, C11, C12, C17: scenario generators.
Every scenario must be deadlock-free on correct code: a blocking Await (R) is only used
for tasks submitted with Do/Execute whose gates are opened by some thread unconditionally,
and either the pool is started or a Stop occurs (Stop releases whatever is still queued)."""
from . import conc
from .queue import scale

def S(sid, threads, mode, **opts):
    return conc.Scn(sid, "pool", [], threads, mode, opts)

def dfs(tier, q=4000, t=60000, p=2):
    return "dfs %d %d" % (p, scale(tier, q, t))

def rnd(tier, rng, q=400, t=4000):
    return "rand %d %d" % (scale(tier, q, t), rng.randint(1, 1 << 30))

def mode(tier, rng, nthreads):
    return dfs(tier) if nthreads <= 2 and rng.random() < 0.6 else rnd(tier, rng)

def gen_basic(tier, rng, prefix, count, stop=True, cancels=True, starts=False):
    """free mix of submissions, result reads, context cancellations, optional Stop/Start"""
    out = []
    for i in range(count):
        # zero / negative options are legal: NumberWorker <= 0 means NumCPU (2 in these runs), ExpandableLimit < 0 means 0
        workers, limit = rng.choice([(1, 0), (1, 0), (2, 0), (1, 1), (2, 1), (1, 2), (0, 0), (-3, -1), (1, -2), (0, 1)])
        autostart = 0 if starts and rng.random() < 0.5 else 1
        nt = rng.choice([2, 3])
        tid, ths = [0], []
        for t in range(nt):
            th = []
            for _ in range(rng.choice([1, 2])):
                tid[0] += 1
                k = rng.random()
                ctx = rng.choice([0, 0, 1, 2, 3])
                if k < 0.5:
                    th += ["D%d,%d" % (tid[0], ctx), "R%d" % tid[0]]
                elif k < 0.7:
                    th += ["E%d" % tid[0], "R%d" % tid[0]]
                else:
                    th += ["T%d,%d" % (tid[0], ctx), "r%d" % tid[0]]
            ths.append(th)
        extra = []
        if cancels and rng.random() < 0.6:
            extra.append("C%d" % rng.choice([1, 2, 3, 1, 2, 0]))
        if starts:
            extra.append("S")
        if stop or autostart == 0:
            extra.append("X")
        rng.shuffle(extra)
        if autostart == 0 or stop:
            # the Awaits must not precede the Stop that may be needed to release them: move reads to a later phase
            ths = [[o for o in th if o[0] not in "Rr"] + ["/"] + [o for o in th if o[0] in "Rr"] for th in ths]
            ths.append(extra + ["/"])
        elif extra:
            ths.append(extra)
        out.append(S("%s%d" % (prefix, i), ths, mode(tier, rng, len(ths)), workers=workers, limit=limit, autostart=autostart,
                     pooldl=rng.choice([0, 0, 1, 2])))     # pooldl: the pool's parent context ends by deadline (1) / is cancelled with a cause (2)
    return out

def gen_saturated(tier, rng, prefix, count):
    """one fixed worker held by a gated task, the queue slot taken: TryDo must say false, a further Do blocks until
    cancellation / a free worker; every gate is opened by the second thread"""
    out = []
    for i in range(count):
        v = ["try", "cancel_task", "cancel_pool", "backpressure", "expanded_cancel", "bigpool"][i % 6]
        if v == "bigpool":
            # more workers than 2*NumCPU (NumCPU is 2 in these runs): the queue still has ONE slot
            nw = rng.choice([5, 6])
            subs = ["D%d,0,1" % (k + 1) for k in range(nw)]
            ths = [subs + ["W%d" % nw, "D21", "T22", "Y23", "/"] + ["R%d" % (k + 1) for k in range(nw)] + ["R21", "r22", "r23"], ["/", "G1"]]
            out.append(S("%s%d" % (prefix, i), ths, rnd(tier, rng, 300, 3000), workers=nw, limit=0, autostart=1,
                         **{"expect_res_0_%d" % (nw + 2): "b0", "expect_res_0_%d" % (nw + 3): "b0"}))
            continue
        if v == "expanded_cancel":
            # the Do that spawned an expanded worker still waits (the worker expired before taking anything, or took the
            # queued task): cancelling its own context must release it within the phase - the gate opens only afterwards
            ths = [["D1,0,1", "W1", "D2", "D3,2", "/", "R1", "R2", "R3"], ["A1", "F0", "C2", "/", "G1"]]
            out.append(S("%s%d" % (prefix, i), ths, dfs(tier, 8000, 80000, p=3) if rng.random() < 0.5 else rnd(tier, rng, 800, 6000),
                         workers=1, limit=rng.choice([1, 1, 2]), autostart=1))
            continue
        if v == "try":
            ths = [["D1,0,1", "D2", "T3", "Y4", "/", "R1", "R2", "r3", "r4"], ["/", "G1"]]
            o = dict(expect_res_0_2="b0", expect_res_0_3="b0")
        elif v == "cancel_task":
            cx = rng.choice([1, 2, 3])       # plain cancel / deadline / cancel with a cause
            ths = [["D1,0,1", "D2", "D3,%d" % cx, "R3", "/", "R1", "R2"], [rng.choice(["K3", "K2", "K1"]), "C%d" % cx, "/", "G1"]]
            o = dict(expect_res_0_3="ec")
        elif v == "cancel_pool":
            ths = [["D1,0,1", "D2", "D3,1", "R3", "/"], ["K3", "C0", "/", "G1", "X"]]
            o = dict(expect_res_0_3="ec", pooldl=rng.choice([0, 1, 2]))
        else:
            ths = [["D1,0,1", "D2", "D3", "/", "R1", "R2", "R3"], ["T4", "K1", "G1", "/"]]
            o = {}
        out.append(S("%s%d" % (prefix, i), ths, dfs(tier, 6000, 80000) if rng.random() < 0.7 else rnd(tier, rng), workers=1, limit=0, autostart=1, **o))
    return out

def gen_expansion(tier, rng, prefix, count):
    """more gated tasks than workers: the pool must expand to exactly workers+limit, not beyond; the expanded
    workers expire when their timers are fired and the capacity is available again.  The gate opens only once
    workers+limit executors have been entered (W), timers are fired only once they are armed (A)."""
    out = []
    for i in range(count):
        workers, limit = rng.choice([(1, 1), (1, 2), (2, 1)])
        cap = workers + limit
        n = cap + 1
        subs = ["D%d,0,1" % (k + 1) for k in range(n)]
        reads = ["R%d" % (k + 1) for k in range(n)]
        v = ["highwater", "expire", "twobursts", "race", "busy_fire", "race3", "precancelled", "biglimit"][i % 8]
        if v == "biglimit":
            # "unbounded" expansion: the largest limits an int32 holds; every submission beyond the queue slot gets its own worker
            big = [(1 << 31) - 1, (1 << 31) - 2, (1 << 31) - 1, 1 << 30][(i // 8) % 4]
            k = rng.choice([3, 4])
            subs = ["D%d,0,1" % (j + 1) for j in range(k + 1)]
            reads = ["R%d" % (j + 1) for j in range(k + 1)]
            ths = [subs + ["/"] + reads, ["W%d" % k, "G1", "/"]]
            out.append(S("%s%d" % (prefix, i), ths, rnd(tier, rng, 300, 3000), workers=1, limit=big, autostart=1))
            continue
        if v == "precancelled":
            # on the saturated pool, submissions whose own context is ALREADY done (refused at once), then a live burst:
            # the refused ones must leave the reservation counter as they found it
            pre = ["D%d,0,1" % (k + 1) for k in range(cap + 1)] + ["W%d" % cap, "C1", "C2"]
            dead = ["D%d,%d,1" % (31 + j, 1 + j % 2) for j in range(rng.choice([2, 3]))]
            live = ["D%d,0,1" % (41 + j) for j in range(2)]
            ths = [pre + dead + ["/"] + live[:1] + ["/"] + ["R%d" % (k + 1) for k in range(cap + 1)] + ["R%s" % d[1:].split(",")[0] for d in dead] + ["R41"],
                   ["/", live[1], "/", "R42"], ["/", "K41", "K42", "G1", "/"]]
            out.append(S("%s%d" % (prefix, i), ths, rnd(tier, rng, 800, 6000), workers=workers, limit=limit, autostart=1, expect_highwater=cap))
            continue
        if v == "race3":
            # the pool is saturated (cap executors at a closed gate, the queue slot taken): several submitters overshoot the
            # reservation counter at the same time and undo it; whatever the order, nothing more may be started
            pre = ["D%d,0,1" % (k + 1) for k in range(cap + 1)] + ["W%d" % cap]
            nsub = rng.choice([2, 3, 4])
            ths = [pre + ["/", "D21,0,1", "/"] + ["R%d" % (k + 1) for k in range(cap + 1)] + ["R21"]]
            for j in range(1, nsub):
                ths.append(["/", "D%d,0,1" % (21 + j), "/", "R%d" % (21 + j)])
            ths.append(["/"] + ["K%d" % (21 + j) for j in range(nsub)] + ["G1", "/"])
            o = dict(expect_highwater=cap)
            out.append(S("%s%d" % (prefix, i), ths, rnd(tier, rng, 1500, 8000), workers=workers, limit=limit, autostart=1, **o))
            continue
        if v == "race":
            # two submitters compete for the last expansion slot while the queue is full
            pre = ["D%d,0,1" % (k + 1) for k in range(cap)]
            ths = [pre + ["/", "D21,0,1", "/"] + ["R%d" % (k + 1) for k in range(cap)] + ["R21"],
                   ["/", "D22,0,1", "/", "R22"], ["/", "W%d" % cap, "G1", "/"]]
            o = dict(expect_highwater=cap)
            out.append(S("%s%d" % (prefix, i), ths, dfs(tier, 8000, 80000) if rng.random() < 0.5 else rnd(tier, rng, 800, 6000), workers=workers, limit=limit, autostart=1, **o))
            continue
        if v == "busy_fire":
            # every worker (fixed and expanded) is executing: no idle timer may be armed, Fire finds none
            ths = [subs + ["/"] + reads, ["W%d" % cap, "F0", "G1", "/"]]
            o = dict(expect_highwater=cap, expect_res_1_1="b0")
            out.append(S("%s%d" % (prefix, i), ths, rnd(tier, rng, 500, 5000), workers=workers, limit=limit, autostart=1, **o))
            continue
        if v == "highwater":
            ths = [subs + ["/"] + reads, ["W%d" % cap, "G1", "/"]]
            o = dict(expect_highwater=cap)
        elif v == "expire":
            fires = []
            for k in range(limit, 0, -1):
                fires += ["A%d" % k, "F0"]
            ths = [subs + ["/"] + reads + ["/"], ["W%d" % cap, "G1", "/", "/"] + fires]
            o = dict(expect_highwater=cap, expect_exp=0)
        else:
            fires = []
            for k in range(limit, 0, -1):
                fires += ["A%d" % k, "F0"]
            subs2 = ["D%d,0,2" % (k + 11) for k in range(n)]
            reads2 = ["R%d" % (k + 11) for k in range(n)]
            ths = [subs + ["/"] + reads + ["/", "/"] + subs2 + ["/"] + reads2,
                   ["W%d" % cap, "G1", "/", "/"] + fires + ["Z0", "/", "W%d" % (n + cap), "G2", "/"]]
            o = dict(expect_highwater=cap)
        out.append(S("%s%d" % (prefix, i), ths, rnd(tier, rng, 500, 5000), workers=workers, limit=limit, autostart=1,
                     lifetime=rng.choice([0, 1, 1]), **o))     # lifetime 1 ns: legal; wall-clock time must not decide anything
    return out

def gen_stop(tier, rng, prefix, count):
    """Stop with work in flight: busy / idle / expiring expanded workers, queued tasks, a pool never started"""
    out = []
    for i in range(count):
        v = ["inflight", "notstarted", "expanded_idle", "expanded_busy", "twice", "notstarted_expanded"][i % 6]
        if v == "inflight":
            ths = [["D1,0,1", "D2", "/", "X", "/", "R1", "R2"], ["/", "G1", "/"]]
            o = dict(workers=1, limit=0, autostart=1)
        elif v == "notstarted":
            ths = [["D1", "/", "X", "/", "R1"], ["/", rng.choice(["T2", "S", "D3"]), "/"]]
            o = dict(workers=1, limit=rng.choice([0, 1]), autostart=0)
        elif v == "notstarted_expanded":
            # never started, but the second Do finds the queue full and spawns an expanded worker: Stop must wait for it
            ths = [["D1,0,1", "D2,0,1", "/", "X", "/", "R1", "R2"], ["/", "G1", "/"]]
            o = dict(workers=1, limit=1, autostart=0)
        elif v == "expanded_idle":
            ths = [["D1,0,1", "D2,0,1", "D3,0,1", "/", "R1", "R2", "R3", "/", "X"], ["W2", "G1", "/", "/", rng.choice(["F0", "T5"])]]
            o = dict(workers=1, limit=1, autostart=1)
        elif v == "expanded_busy":
            ths = [["D1,0,1", "D2,0,1", "D3,0,1", "/", "X", "/", "R1", "R2", "R3"], ["/", "G1", "F0", "/"]]
            o = dict(workers=1, limit=1, autostart=1)
        else:
            ths = [["D1", "X", "/", "R1", "X", "S", "T2", "r2"], ["X", "/"]]
            o = dict(workers=1, limit=0, autostart=1)
        o["lifetime"] = rng.choice([0, 1])
        out.append(S("%s%d" % (prefix, i), ths, dfs(tier, 6000, 80000) if rng.random() < 0.6 else rnd(tier, rng), **o))
    return out

def gen_race_stop(tier, rng, prefix, count):
    """submissions racing with Stop / a deferred Start"""
    out = []
    for i in range(count):
        workers, limit = rng.choice([(1, 0), (1, 1), (2, 0)])
        autostart = rng.choice([1, 1, 0])
        nt = rng.choice([1, 2])
        ths, tid = [], 0
        for t in range(nt):
            th = []
            for _ in range(rng.choice([1, 2])):
                tid += 1
                th.append(rng.choice(["D%d", "D%d,1", "E%d", "T%d", "Y%d"]) % tid)
            ths.append(th + ["/"] + [("r%d" if o[0] in "TY" else "R%d") % int(o[1:].split(",")[0]) for o in th])
        # the pool's parent context may end first (cancelled, with a cause, or by deadline): refusals carry the pool context's error
        ctl = ["X"] + (["S"] if autostart == 0 or rng.random() < 0.3 else []) + (["C1"] if rng.random() < 0.3 else []) + (["C0"] if rng.random() < 0.35 else [])
        rng.shuffle(ctl)
        ths.append(ctl + ["/"])
        out.append(S("%s%d" % (prefix, i), ths, dfs(tier, 6000, 80000) if len(ths) <= 2 or rng.random() < 0.5 else rnd(tier, rng, 600, 6000),
                     workers=workers, limit=limit, autostart=autostart, pooldl=rng.choice([0, 1, 2])))
    return out

def gen_deferred_start(tier, rng, prefix, count):
    """a pool created with DisableAutoStart: submitters fill the queue slot and block (holding the read lock)
    BEFORE Start is called; Start must get through, serve them, and TryDo must keep returning at once"""
    out = []
    for i in range(count):
        workers, limit = rng.choice([(1, 0), (1, 0), (2, 0), (1, 1)])
        n = 2 + limit + rng.choice([0, 1])
        subs = ["D%d" % (k + 1) for k in range(n)]
        reads = ["R%d" % (k + 1) for k in range(n)]
        v = i % 3
        if v == 0:
            ths = [subs + ["/"] + reads, ["S", "T11", "/", "r11"]]
        elif v == 1:
            ths = [subs + ["/"] + reads, ["S", "/"], ["T11", "Y12", "/", "r11", "r12"]]
        else:
            ths = [subs[:1] + ["/"] + reads[:1], subs[1:] + ["/"] + reads[1:], ["T11", "S", "T12", "/", "r11", "r12"]]
        out.append(S("%s%d" % (prefix, i), ths, dfs(tier, 6000, 80000) if len(ths) == 2 else rnd(tier, rng, 600, 6000),
                     workers=workers, limit=limit, autostart=0))
    return out

def gen_never_started(tier, rng, prefix, count):
    """a pool that is never started (no expansion either): a queued task whose OWN context ends (cancelled, deadline, cause)
    while it waits is released by Stop, with the pool context's error"""
    out = []
    for i in range(count):
        k = [2, 1, 3, 2][i % 4]          # ctx 2: deadline type; 3: cancelled with a cause; 1: plain cancel
        ths = [["%s1,%d" % ("DT"[(i // 4) % 2], k), "/", "/", "R1"], ["/", "C%d" % k, "X", "/"]]
        out.append(S("%s%d" % (prefix, i), ths, rnd(tier, rng, 60, 600), workers=rng.choice([1, 2]), limit=0, autostart=0,
                     pooldl=rng.choice([0, 1, 2])))
    return out

def gen_many_workers(tier, rng, prefix, count):
    """tens of thousands of fixed workers (legal): everything still starts, runs and stops.  NOT used by the checks: one such
    run takes 17 s under the cooperative scheduler and the replayer's configuration for 16 000 threads does not fit in
    memory; the volume runs (harness/cmd/volume) cover pools of 16 387 and 40 000 workers on the real runtime"""
    out = []
    for i in range(count):
        nw = [16387, 20000, 33000][i % 3]
        ths = [["E1", "D2,0", "R1", "R2", "X"]]
        out.append(S("%s%d" % (prefix, i), ths, "dfs 0 1", workers=nw, limit=0, autostart=1, nomodel=1, maxsteps=3000000))
    return out

def gen_nilexec(tier, rng, prefix, count):
    """tasks WITHOUT an executor (NewTask(ctx, nil): legal) among ordinary ones - outside the model (no begin / end
    accesses to replay), judged by the monitors: accepted, one empty result, Stop returns"""
    out = []
    for i in range(count):
        workers, limit = rng.choice([(1, 0), (2, 0), (1, 1)])
        ths = [["D1", "D2,0,99", "D3", "/", "R1", "R2", "R3", "/", "X"], ["D11,0,99", "T12,0,99", "/", "R11", "r12", "/"]]
        if i % 2:
            ths = [["D1,0,99", "D2", "/", "X", "/", "R1", "R2"], ["T11,0,99", "/", "/", "r11"]]
        out.append(S("%s%d" % (prefix, i), ths, rnd(tier, rng, 200, 2000), workers=workers, limit=limit, autostart=1, nomodel=1,
                     lifetime=rng.choice([0, 1])))
    return out

def gen_c04(tier, rng):
    return (gen_basic(tier, rng, "a", scale(tier, 24, 200), stop=False) + gen_basic(tier, rng, "b", scale(tier, 16, 150), stop=True)
            + gen_saturated(tier, rng, "s", scale(tier, 8, 60)) + gen_stop(tier, rng, "x", scale(tier, 10, 80))
            + gen_nilexec(tier, rng, "n", scale(tier, 6, 40)))

def gen_c08(tier, rng):
    return gen_stop(tier, rng, "a", scale(tier, 30, 250)) + gen_basic(tier, rng, "b", scale(tier, 12, 100), stop=True) \
        + gen_nilexec(tier, rng, "n", scale(tier, 6, 40)) \
        + gen_never_started(tier, rng, "ns", scale(tier, 4, 16))

def gen_c11(tier, rng):
    return gen_expansion(tier, rng, "a", scale(tier, 24, 200)) + gen_basic(tier, rng, "b", scale(tier, 10, 80), stop=False, cancels=False)

def gen_c12(tier, rng):
    return gen_race_stop(tier, rng, "a", scale(tier, 36, 300)) + gen_basic(tier, rng, "b", scale(tier, 10, 80), stop=True, starts=True) \
        + gen_deferred_start(tier, rng, "d", scale(tier, 9, 60)) + gen_never_started(tier, rng, "ns", scale(tier, 8, 24))

def gen_c17(tier, rng):
    return gen_saturated(tier, rng, "a", scale(tier, 24, 200)) + gen_expansion(tier, rng, "e", scale(tier, 8, 56)) \
        + gen_basic(tier, rng, "b", scale(tier, 10, 80), stop=False) + gen_deferred_start(tier, rng, "d", scale(tier, 9, 60))
