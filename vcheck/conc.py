"""Tier 1 (concurrent cores): lockstep correspondence between the hand-written
Coq step machines (extracted to OCaml) and the real Go code executed under a
deterministic cooperative scheduler (import-rewritten scratch copy of /repo,
build/inst), plus property monitors on the implementation's histories.

Every scenario is a small client program (threads x operations, prefill);
every explored schedule of the implementation is replayed, access by access,
on the model: the invocation/response history and the final-state digest
must be identical.  Monitors (linearizability via porcupine, conservation,
iterator rules, solo step bounds ...) judge the implementation's history
alone: a monitor hit is a concrete violation with an exact replay."""
import json, os, random, re, zlib
from . import common as C

INST = os.path.join(C.BUILD, "inst")

PRIMARY = {"C19": "queue", "C10": "breaker"}     # properties served by several drivers: the one that owns build/run/<id>
PKG_OF = {"queue": "queue", "adder": "adder", "breaker": "circuit-breaker", "pool": "worker-pool"}

def load_corpus(driver):
    """the committed coverage corpus of a driver: scenarios (with their exploration modes) that together execute every
    reachable block of the package; run - and replayed on the model - by every check that uses the driver"""
    p = os.path.join(C.ROOT, "corpus", driver + ".jsonl")
    out = []
    if os.path.exists(p):
        for l in open(p):
            if l.strip():
                d = json.loads(l)
                out.append(Scn("cv_" + d["id"], d["kind"], d["prefill"], d["threads"], d["mode"], d.get("opts") or {}))
    return out

def build_inst():
    rc, out = C.sh(["python3", os.path.join(C.ROOT, "tools", "mkinst.py"), INST], timeout=600)
    return rc == 0, out

def build_driver(name, fine=False):
    """fine: the hunt build with a scheduling point before every statement (tools/finegrain)"""
    exe = os.path.join(C.BUILD, "bin", ("drvf_" if fine else "drv_") + name)
    os.makedirs(os.path.dirname(exe), exist_ok=True)
    with C.Lock("inst"):
        if not fine:
            ok, out = build_inst()
            if not ok:
                return False, exe, out
            # the models treat node / cell / state references as ordinary (GC-visible) pointers: go vet's unsafeptr pass
            # is clean on the pinned sources; a uintptr round trip would let the collector recycle a referenced object
            rc, out = C.sh(["go", "vet", "-unsafeptr", "./queue", "./adder", "./circuit-breaker", "./worker-pool", "./retry"],
                           cwd=C.REPO, env=C.GOENV, timeout=600)
            vet = "\n".join(l for l in out.splitlines() if "possible misuse of unsafe.Pointer" in l)
            if vet:
                return False, exe, "go vet -unsafeptr reports on the current sources (the model assumes GC-visible pointers):\n" + vet
            # coverage instrumentation of the package under test: which blocks the validated runs executed (vcheck/cover.py)
            rc, out = C.sh(["go", "build", "-cover", "-covermode=set", "-coverpkg=./%s/...,./vdrv_%s" % (PKG_OF[name], name), "-o", exe, "./vdrv_" + name],
                           cwd=INST, env=C.GOENV, timeout=1200)
            return rc == 0, exe, out
        fg = os.path.join(C.BUILD, "bin", "finegrain")
        src = os.path.join(C.ROOT, "tools", "finegrain")
        if C._stale(fg, [os.path.join(src, "main.go")]):
            rc, out = C.sh(["go", "build", "-o", fg, "."], cwd=src, env=C.GOENV, timeout=600)
            if rc != 0:
                return False, exe, out
        import shutil
        shutil.rmtree(INST + "_fine", ignore_errors=True)
        rc, out = C.sh(["python3", os.path.join(C.ROOT, "tools", "mkinst.py"), INST + "_fine"], timeout=600)
        if rc != 0:
            return False, exe, out
        rc, out = C.sh([fg] + [os.path.join(INST + "_fine", d) for d in ("queue", "adder", "circuit-breaker")], timeout=600)
        if rc != 0:
            return False, exe, out
        rc, out = C.sh(["go", "build", "-o", exe, "./vdrv_" + name], cwd=INST + "_fine", env=C.GOENV, timeout=1200)
    return rc == 0, exe, out

def build_replayer():
    return C.ocaml_build("conc_run", "theories/Extract/ExtractConc.v", "conc_model", "conc_run.ml", zconv=True)

# ------------------------------------------------------------------ scenarios

class Scn:
    def __init__(self, sid, kind, prefill, threads, mode, opts=None):
        self.sid, self.kind, self.prefill, self.threads, self.mode, self.opts = sid, kind, prefill, threads, mode, opts or {}
    def text(self, mode=None):
        o = "".join(" %s=%s" % kv for kv in sorted(self.opts.items()))
        lines = ["SCN %s %s%s" % (self.sid, self.kind, o), "P " + " ".join(map(str, self.prefill))]
        lines += ["T " + " ".join(th) for th in self.threads]
        lines += ["MODE " + (mode or self.mode), "GO"]
        return "\n".join(lines) + "\n"
    def describe(self):
        return {"id": self.sid, "kind": self.kind, "prefill": self.prefill, "threads": self.threads, "mode": self.mode, "opts": self.opts}

def rng_for(prop, seed, salt=""):
    return random.Random((zlib.crc32((prop + salt).encode()) << 20) ^ (seed * 1000003 + 17))

def run_scenarios(driver_exe, replayer_exe, scns, workdir, timeout=3000, shards=16):
    """returns dict(runs, mismatches[list], viols[list], aborts[list], per[sid] = (runs, mism, exhaustive))"""
    os.makedirs(workdir, exist_ok=True)
    covdir = os.path.join(workdir, "cov")
    import shutil
    shutil.rmtree(covdir, ignore_errors=True)
    os.makedirs(covdir)
    res = {"runs": 0, "mismatches": [], "viols": [], "aborts": [], "per": {}, "errors": [], "covdir": covdir}
    # shard the scenarios over parallel driver|replayer pipelines
    shards = max(1, min(shards, len(scns)))
    procs = []
    import subprocess
    for k in range(shards):
        part = scns[k::shards]
        inp = os.path.join(workdir, "scn%d.txt" % k)
        outp = os.path.join(workdir, "res%d.txt" % k)
        open(inp, "w").write("".join(s.text() for s in part))
        cmd = "%s < %s | %s > %s" % (driver_exe, inp, replayer_exe, outp)
        procs.append((subprocess.Popen(["bash", "-c", "set -o pipefail; ulimit -v 8000000; ulimit -s 2000000 2>/dev/null; " + cmd], stderr=subprocess.PIPE, text=True,
                                       # GOMAXPROCS differs from the CPU count on purpose: nothing may depend on it
                                       env=dict(os.environ, GOCOVERDIR=covdir, GOMAXPROCS=str((os.cpu_count() or 1) + 1))), outp))
    for p, outp in procs:
        try:
            _, err = p.communicate(timeout=timeout)
        except subprocess.TimeoutExpired:
            p.kill()
            res["errors"].append("timeout running the driver/replayer pipeline")
            continue
        if p.returncode != 0:
            res["errors"].append("driver/replayer pipeline failed (rc=%d): %s" % (p.returncode, (err or "")[-800:]))
        for line in open(outp):
            f = line.split()
            if not f:
                continue
            if f[0] == "RES":
                kv = dict(x.split("=") for x in f[2:] if "=" in x)
                res["per"][f[1]] = (int(kv.get("runs", 0)), int(kv.get("mismatches", 0)), kv.get("exhaustive") == "true")
                res["runs"] += int(kv.get("runs", 0))
            elif f[0] == "MISMATCH":
                parts = [x.strip() for x in line.rstrip("\n").split("|")]
                d = {"scenario": f[1], "run": f[2], "kind": f[3]}
                for x in parts[1:]:
                    if x.startswith("C "): d["choices"] = x[2:]
                    elif x.startswith("S "): d["accesses"] = x[2:]
                    elif x.startswith("impl"): d["impl"] = x[4:].strip()
                    elif x.startswith("model"): d["model"] = x[5:].strip()
                    else: d["detail"] = x
                res["mismatches"].append(d)
            elif f[0] == "VIOL":
                parts = [x.strip() for x in line.rstrip("\n").split("|")]
                d = {"scenario": f[1], "run": f[2], "what": parts[-1]}
                for x in parts[1:-1]:
                    if x.startswith("C "): d["choices"] = x[2:]
                    elif x.startswith("H"): d["history"] = x[1:].strip()
                res["viols"].append(d)
            elif f[0] == "ABORT":
                parts = [x.strip() for x in line.rstrip("\n").split("|")]
                res["aborts"].append({"scenario": f[1], "run": f[2], "choices": parts[1][2:] if len(parts) > 1 else "", "what": parts[-1]})
            elif f[0] == "COV":
                res.setdefault("cov", {}).setdefault(f[1], set()).update(f[2:])
            elif f[0] == "ERROR":
                res["errors"].append(line.strip())
    return res

def make_corr(prop, driver, gen, relevant=None, what_model="", discipline=None, fine_gen=None):
    """gen(tier, rng) -> list[Scn].  relevant: regex selecting the monitor verdicts that are
    violations of THIS property (others are reported as correspondence problems only)."""
    def run(tier, seed):
        res = {"rule": "scenario = client program (threads x ops, prefill) generated from the single seeded PRNG; every explored schedule "
                       "(exhaustive DFS under a preemption bound, seeded random, or solo-from-a-random-state) is executed on the real code under the "
                       "cooperative scheduler and replayed access by access on the extracted Coq model (same history, same number of accesses per call, same KIND of every access - load / store / CAS / add, Lock / RLock / Unlock, send / receive / select / close, wait-group, timer, queue / adder method -, for the striped adders, the lock-free queue and the breaker's own pointers the same OBJECT of every access (two accesses touch one address in the implementation exactly when they touch one location of the model: base, cellsBusy, table pointer, slot i of array a, value of cell c; head, tail, next / item field of node n), same select choices, same final digest); distinct = distinct (scenario, schedule) pairs "
                       "(DFS never repeats a schedule; random schedules are de-duplicated by the driver's choice string); "
                       "non-trivial = schedules with at least one preemption (control moved while the running thread could continue)"}
        ok, rexe, out = build_replayer()
        if not ok:
            res["build_error"] = "extraction / OCaml build of the model failed:\n" + out
            return res
        ok, dexe, out = build_driver(driver)
        if not ok:
            res["build_error"] = "go build of the instrumented copy of /repo failed:\n" + out
            return res
        rng = rng_for(prop, seed)
        corpus = load_corpus(driver)
        scns = corpus + gen(tier, rng)
        byid = {s.sid: s for s in scns}
        wd = os.path.join(C.BUILD, "run", prop + ("" if PRIMARY.get(prop, driver) == driver else "_" + driver))
        r = run_scenarios(dexe, rexe, scns, wd)
        # which blocks of the files this property is anchored in did the validated runs execute?
        from . import cover
        scope = {f for f in cover.anchors(prop) if f.startswith(PKG_OF[driver] + "/")}
        unex, cstats, cerr = cover.unexercised(r["covdir"], INST, scope)
        if cerr:
            r["errors"].append(cerr)
        if fine_gen:
            ok, fexe, out = build_driver(driver, fine=True)
            if not ok:
                res["build_error"] = "go build of the statement-level instrumented copy of /repo failed:\n" + out
                return res
            fscns = fine_gen(tier, rng)
            for s in fscns:
                s.opts = dict(s.opts, fine=1)
                byid[s.sid] = s
            rf = run_scenarios(fexe, rexe, fscns, wd + "_fine")
            r["viols"] += rf["viols"]; r["errors"] += rf["errors"]; r["aborts"] += rf["aborts"]
            res["fine_schedules"] = rf["runs"]
            r["fine_runs"] = rf["runs"]
        if r["errors"]:
            res["build_error"] = "\n".join(r["errors"])
        viols, mism = [], []
        for v in r["viols"]:
            s = byid.get(v["scenario"])
            item = {"what": v["what"], "history": v.get("history", ""), "scenario": s.describe() if s else v["scenario"],
                    "replay_input": s.text("replay " + v.get("choices", "")) if s else "", "driver": driver,
                    "fine": bool(s and s.opts.get("fine"))}
            if relevant is None or re.search(relevant, v["what"]):
                viols.append(item)
            else:
                mism.append(dict(item, kind="monitor verdict outside this property: " + v["what"]))
        for u in unex:
            mism.append({"kind": "code not executed by any model-validated run (the correspondence does not cover it)", "where": "%s: %s (lines %s of the instrumented copy)" % (u["file"], u["func"], u["lines"]),
                         "text": u["text"], "driver": driver})
        for m in r["mismatches"]:
            s = byid.get(m["scenario"])
            mism.append({"kind": "model/implementation " + m["kind"] + " mismatch", "impl": m.get("impl"), "model": m.get("model"), "detail": m.get("detail", ""),
                         "scenario": s.describe() if s else m["scenario"],
                         "replay_input": s.text("replay " + m.get("choices", "")) if s else "", "driver": driver})
        # de-duplicate concrete violations by verdict text + scenario
        seen, uv = set(), []
        for v in viols:
            k = (v["what"][:60], json.dumps(v["scenario"], sort_keys=True))
            if k not in seen:
                seen.add(k); uv.append(v)
        exhaustive = sum(1 for s in scns if r["per"].get(s.sid, (0, 0, False))[2])
        nontriv = count_nontrivial(wd)
        samples = [dict(s.describe(), runs=r["per"].get(s.sid, (0,))[0]) for s in scns[:4]]
        res.update(evaluations=r["runs"], distinct_nontrivial=nontriv, mismatches=mism[:50], violations=uv[:20],
                   samples=samples, traces_validated_against_impl=r["runs"], scenarios=len(scns),
                   schedules=r["runs"],
                   stats={"scenarios": len(scns), "scenarios_enumerated_exhaustively_under_preemption_bound": exhaustive,
                          "schedules_executed": r["runs"], "aborted_runs": len(r["aborts"]),
                          "ops_histogram": op_histogram(scns), "threads_histogram": hist(len(s.threads) for s in scns),
                          "modes": hist(s.mode.split()[0] for s in scns), "kinds": hist(s.kind for s in scns)})
        res["stats"]["model_pc_coverage"] = pc_coverage(r.get("cov"))
        res["stats"]["impl_block_coverage"] = dict(cstats, corpus_scenarios=len(corpus))
        if fine_gen:
            res["stats"]["statement_level_schedules_monitored"] = r.get("fine_runs", 0)
            res["evaluations"] += r.get("fine_runs", 0)
        if discipline:
            dmis = discipline()
            res["stats"]["access_discipline"] = "checked"
            res["mismatches"] = dmis + res["mismatches"]
        return res
    return run

PC_TYPES = {  # scenario kind -> (model file, name of the pc inductive)
    "jdk": ("Queue/JdkModel.v", "pc"), "mutex": ("Queue/MutexModel.v", "mpc"),
    "jdkadd": ("Adder/StripedModel.v", "apc"), "jdkf": ("Adder/StripedModel.v", "apc"),
    "rc": ("Adder/SimpleModel.v", "rpc"), "atomic": ("Adder/SimpleModel.v", "tpc"), "atomicf": ("Adder/SimpleModel.v", "tpc"),
    "mutexadd": ("Adder/SimpleModel.v", "xpc"),
    "breaker": ("Breaker/BreakerModel.v", "bpc"), "window": ("Breaker/BreakerModel.v", "bpc"),
    "pool": ("Pool/PoolModel.v", "ppc"),
}

def pc_names(kind):
    """constructor key (as printed by the replayer) -> name, from the Coq source of the model"""
    if kind not in PC_TYPES:
        return {}
    f, ty = PC_TYPES[kind]
    path = os.path.join(C.COQ, "theories", f)
    if not os.path.exists(path):
        return {}
    src = re.sub(r'\(\*.*?\*\)', '', open(path).read(), flags=re.S)
    m = re.search(r'Inductive\s+%s\s*:=(.*?)\.\s*\n' % re.escape(ty), src, flags=re.S)
    if not m:
        return {}
    names, nc, nb = {}, 0, 0
    for alt in m.group(1).split("|"):
        alt = alt.strip()
        if not alt:
            continue
        parts = alt.split(None, 1)
        if len(parts) == 1:
            names["c%d" % nc] = parts[0]; nc += 1
        else:
            names["b%d" % nb] = parts[0]; nb += 1
    return names

def pc_coverage(cov):
    out = {}
    for kind, keys in (cov or {}).items():
        names = pc_names(kind)
        if not names:
            continue
        # the invocation pc is the start state of every call: visited by construction
        missing = sorted(n for k, n in names.items() if k not in keys and not n.endswith("Inv"))
        out[kind] = {"model_pcs": len(names), "visited": len(names) - len(missing), "not_visited": missing}
    return out

def merge_corr(corrs):
    """one property served by several drivers (C19: queue + adder)"""
    def run(tier, seed):
        out = None
        for c in corrs:
            r = c(tier, seed)
            if out is None:
                out = r
                continue
            for k in ("evaluations", "distinct_nontrivial", "traces_validated_against_impl", "scenarios", "schedules"):
                out[k] = out.get(k, 0) + r.get(k, 0)
            for k in ("mismatches", "violations", "samples"):
                out[k] = out.get(k, []) + r.get(k, [])
            if r.get("build_error"):
                out["build_error"] = (out.get("build_error", "") + "\n" + r["build_error"]).strip()
            st, st2 = out.setdefault("stats", {}), r.get("stats", {})
            for k, v in st2.items():
                if isinstance(v, dict) and isinstance(st.get(k), dict):
                    for kk, vv in v.items():
                        st[k][kk] = (st[k].get(kk, 0) + vv) if isinstance(vv, int) and isinstance(st[k].get(kk, 0), int) else vv
                elif isinstance(v, int) and isinstance(st.get(k), int):
                    st[k] += v
                else:
                    st.setdefault(k, v)
        return out
    return run

def hist(it):
    h = {}
    for x in it:
        h[str(x)] = h.get(str(x), 0) + 1
    return h

def op_histogram(scns):
    h = {}
    for s in scns:
        for th in s.threads:
            for o in th:
                k = re.match(r'[a-zA-Z/]+', o).group(0)
                h[k] = h.get(k, 0) + 1
    return h

def count_nontrivial(wd):
    """schedules with >= 1 preemption: counted by the replayer? cheaper: count distinct C lines with a non-zero choice
    in the driver's output is not kept; use the RES files' run counts minus first DFS run per scenario as an estimate is
    not allowed (must be measured) -> the replayer prints NT lines."""
    n = 0
    for f in os.listdir(wd):
        if f.startswith("res"):
            for line in open(os.path.join(wd, f)):
                if line.startswith("NT "):
                    n += int(line.split()[1])
    return n

def replay(prop, data, driver):
    """re-run the recorded scenario+schedule of a replay file on the current tree"""
    items = data.get("violations") or data.get("mismatches") or []
    ok, dexe, out = build_driver(driver)
    if not ok:
        print(out[-2000:])
        return 2
    bad = 0
    for it in items[:10]:
        inp = it.get("replay_input")
        if not inp:
            continue
        exe = dexe
        if it.get("fine"):
            ok, exe, out = build_driver(driver, fine=True)
            if not ok:
                print(out[-2000:]); return 2
        rc, out = C.sh([exe], input=inp, timeout=300)
        v = [l for l in out.splitlines() if l.startswith(("V ", "A "))]
        h = [l for l in out.splitlines() if l.startswith("H")]
        print("scenario:", json.dumps(it.get("scenario")))
        print("history :", h[0] if h else "")
        print("verdict :", v if v else "no monitor verdict on this tree")
        if v:
            bad += 1
    if bad:
        print("VIOLATION property=%s replay=%s" % (prop, data.get("_path", "")))
        return 1
    return 0
