"""Check specifications of the concurrent properties."""
from . import conc, queue, adder, breaker, pool

T1_TRUST = [
    "cooperative scheduler + import-rewritten scratch copy of /repo (tools/mkinst.py, shim/): sync/atomic and sync calls are the scheduling points; "
    "plain memory accesses between them execute atomically with the preceding sync access in the controlled runs",
    "sync/atomic operations are sequentially consistent and interleaved (Go memory model: DRF-SC); the theorems quantify over all interleavings of the model's steps",
    "property monitors on implementation histories (Go, porcupine v1.3.0) are a search aid: they turn a broken tie into a concrete replay, they are not part of the proof",
]

def spec(prop, title, driver, gen, model_note, relevant=None, partial=(), trusted=(), fine_gen=None):
    return dict(title=title, corr=conc.make_corr(prop, driver, gen, relevant, fine_gen=fine_gen), model_note=model_note,
                trusted=T1_TRUST + list(trusted), partial=list(partial),
                replay=lambda data, d=driver, p=prop: conc.replay(p, data, d),
                replay_how="each entry: scenario (threads x ops, prefill) + scheduler choice list; `./check %s --replay <file>` re-executes it on the current tree" % prop)

AMODEL = "Adder/StripedModel.v (striped64.go+jdkAdder.go and, with the f64 flag, stripedF64.go+jdkF64Adder.go) and Adder/SimpleModel.v (randomCellAdder, atomicAdder, atomicF64Adder, mutexAdder)"
BMODEL = "Breaker/BreakerModel.v (nonBlockingCircuitBreaker.go + slidingWindowCounter.go + eventCount.go; reservoir queue and bucket adders bound to atomic specification objects; trip rule = Pure/Config.v exceeds)"
BTRUST = ["inside package cbreaker every queue / adder call is ONE atomic step on a specification object (wrappers shim/vqueue, shim/vadder around the real implementations): sound by linearizability of those components (C01/C13, C02/C09), an explicit composition step",
          "Ticker readings are a stream chosen by the scenario (theorems: any stream); wall-clock meaning of ticks is outside the model"]
PMODEL = "Pool/PoolModel.v (worker-pool/pool.go: submissions, Start, Stop, fixed and expanded workers; one step per atomic / lock / wait-group / channel / select / context / timer operation)"
PTRUST = ["the channel, select, go, context and timer constructs of pool.go are rewritten syntactically (tools/chanrw) into a cooperative runtime (shim/vchan, vcontext, vtime, vsync.WaitGroup) whose semantics follow the Go specification for buffered channels and Go >= 1.23 timers; that runtime and the rewriter are trusted, validated only by these runs",
          "timers fire only through the scenario's Fire operation; wall-clock durations (ExpandedLifetime) are outside the model",
          "client obligations: each Task is submitted once; results are read only through Result()"]
QMODEL = "Queue/JdkModel.v (hand-written step machine of jdkLinkedQueue.go + node.go, one step per sync/atomic access) and Queue/MutexModel.v (mutexLinkedQueue.go)"

TIE = ("Tie to /repo, checked on every run: the current sources are copied to build/inst with sync/atomic, sync (and for the pool: channels, select, go, context, timers) "
       "redirected to a cooperative scheduler; every explored schedule of the REAL code (exhaustive DFS under a preemption bound, seeded random, solo-from-a-random-state) "
       "is replayed access by access on the extracted Coq model - histories, final-state digests, the number of accesses per call and the kind of every access (load/store/CAS/add, Lock/RLock/Unlock/RUnlock, channel send/receive/select/close, wait-group, timer, context, queue/adder method; Extract/Kinds.v) must coincide - and independent monitors "
       "on the implementation's histories turn a broken tie into a concrete replay. ")

PT = "Model Pool/PoolModel.v (hand-written step machine: one step per shared access - state word, RWMutex, closed flag, queue channel, wait group, expanded counter, timers, result channels; select non-determinism = oracle stream). Channels/RWMutex/WaitGroup/Timer are modelled by their documented semantics (the shim implementations the lockstep run uses are trusted to match the Go runtime). Liveness and timing clauses are not theorems. Axiom-free."
CLAIMS = {
 "C01": ("5.1", "Coq theorems over the hand-written step machines, for every client program and every interleaving: the lock-free queue is linearizable as a FIFO queue at explicit linearization points (Offer/Poll/Peek/IsEmpty) and hence (generic theorem lin_ok_hw) in the Herlihy-Wing sense, its linked-list invariants hold in every reachable state and no step dereferences nil; the mutex queue is linearizable as a FIFO queue with Size/IsEmpty, for interleavings that also split a writer's plain read from its plain write. " + TIE,
         "Models Queue/JdkModel.v, Queue/MutexModel.v (hand-written). _v of a node is assumed immutable and iterator objects thread-owned (checked dynamically by the statement-level hunt build, not proved). Go memory model: DRF-SC assumed. Axiom-free."),
 "C02": ("5.2", "Coq theorems, every program of Add/Inc/Dec calls, every interleaving, every probe stream and table limit: after quiescence Sum is the exact (wrapped) total for JDKAdder and JDKF64Adder (invariant over base, attached cells, spin flag, private cells, table growth by re-slicing and by copy) and for RandomCellAdder; AtomicAdder, AtomicF64Adder and MutexAdder are linearizable single numbers. " + TIE,
         "Models Adder/StripedModel.v, Adder/SimpleModel.v. Float adders modelled on integer-valued floats with exact addition (the property's 'exactly representable partial sums'). fastrand is a stream supplied by a stub. Axiom-free."),
 "C03": ("5.3", "Coq theorems for any number of concurrent callers, any ticker stream, any configuration: a closed circuit admits; admission on a non-closed circuit happens only by the CAS that replaces the inspected state object, only after its deadline was seen expired, installing a fresh half-open state with the trial deadline; every state object is replaced at most once in an execution (pointer monotone, no ABA) so at most one trial per period and exactly one transition for concurrent reports; rejections before the deadline notify every listener once; open/half-open states carry no counter; a closing success installs a brand-new empty window. 'Exactly one of the concurrent callers is admitted' is proved as 'at most one' + sequential exactness (C06); liveness of the winner is not stated. " + TIE,
         "Model Breaker/BreakerModel.v; inside package cbreaker the queue and adders are atomic specification objects (composition by their own linearizability, C01/C13/C02/C09). Deadlines use wrapped int64 arithmetic as the code does (tick+window overflow near 2^63 is outside the property's intent and documented). Axiom-free."),
 "C06": ("5.6", "Coq refinement theorem: for every configuration, listener count, ticker stream and single-threaded sequence of CanRequest/OnSuccess/OnFailure the step machine returns exactly the decisions, listener log and tick consumption of the documented reference machine (Breaker/Ref.v), plus readable corollaries on the reference (trip rule iff, open/half-open behaviour, each listener once, what a roll keeps). " + TIE,
         "Model Breaker/BreakerModel.v vs reference Breaker/Ref.v; float threshold test = SpecFloat binary64. A Go re-implementation of the reference machine is an additional independent oracle in the driver. Axiom-free."),
 "C07": ("5.7", "Coq theorems: no step of any lock-free queue operation is ever disabled, and from EVERY reachable configuration (other threads frozen anywhere, forever) a thread running alone completes its current/next call within 4*nodes+13 own steps - Offer, Poll, Peek, IsEmpty, Size and all iterator operations. " + TIE + "The driver additionally measures solo step counts from random reachable states of the real code.",
         "Model Queue/JdkModel.v. Fairness-based progress under contention (lock-freedom in the technical sense) is not stated; the bound is for solo runs as the property says. Axiom-free."),
 "C09": ("5.9", "Coq theorems. Striped adders (JDKAdder, JDKF64Adder): for programs of non-negative updates and Sums, every interleaving and any table growth, a Sum invoked at position i and returning r at position j satisfies applied(state i) <= r <= applied(state after j) <= total, where applied = base + attached cells is the exact amount of the updates that have taken effect; successive Sums never decrease and never exceed the total. AtomicAdder, AtomicF64Adder and MutexAdder are linearizable counters (which implies the full window statement). The striped machine is proved never to fault (all programs), so the bounds need no side condition; RandomCellAdder has the same bounds theorem. PARTIAL only in this: the exact 'set of whole updates' form for updates of MIXED SIGN is not a theorem (checked per history on the real code by a subset-sum monitor). " + TIE,
         "Models Adder/StripedModel.v, Adder/SimpleModel.v. Axiom-free."),
 "C10": ("5.10", "Coq theorems for any number of concurrent reporters: bucket ids are never shared, the current bucket is never also archived, carried buckets are in no reservoir (so trimAndSum counts nothing twice) and the counters of all buckets together equal the number of executed report-adds modulo 2^64 (nothing invented, nothing lost, CAS losers and back-in-time events included); sequentially the window returns exactly the reference window's counts for every tick stream. The upper bound for counts returned DURING concurrency is not stated as a theorem (monitor + correspondence only). " + TIE,
         "Model Breaker/BreakerModel.v (reservoir = weakly-consistent-iterator specification object, adders = counters). Axiom-free."),
 "C13": ("5.13", "Coq theorems for all programs and interleavings of iterators with Offer/Poll/Remove: a traversal returns only offered values (the value captured for the cursor node), node addresses strictly increase (each element at most once, in queue order), a Next skips only nodes that are dead at that instant, every element still queued when a Next returns is still ahead of the cursor or was returned by this traversal (so an element that stays for the whole traversal is returned), Remove kills exactly the node last returned by Next, every node is taken out by at most one step (the Poll that returns it or the Remove of an iterator that returned it last) and stays dead; iterator operations never fail, never block and terminate within the solo bound of C07. " + TIE,
         "Model Queue/JdkModel.v. Iterator objects are goroutine-owned (checked by the C14 discipline, not here). Axiom-free."),
 "C14": ("5.14", "PARTIAL. What is machine-checked: the table of every struct-field access and every sync-object method call is regenerated from the current Go sources on every run (tools/accesstab, go/types) and Coq decides by computation that each access obeys the protection class declared for its location (atomic / immutable-after-construction / guarded-by-mutex / goroutine-owned; exact list of mutating sync call sites), with a proved soundness lemma for the decision procedure. Data-race freedom itself (discipline => happens-before ordering under the Go memory model) is an informal argument, not a theorem. A -race build of stress workloads over the whole concurrent-safe API runs on every check as the search for a concrete race.",
         "Model Race/Discipline.v + generated build/gen/AccessTable.v. Lock-held regions approximated by enclosing functions; user-supplied callbacks outside the table. Axiom-free."),
 "C15": ("5.15", "Coq theorems: one goroutine using the lock-free queue (Offer incl. nil, Poll, Peek, IsEmpty, Size, Iterator/HasNext/Next/Remove) gets exactly the results of a plain list object; after ANY concurrent execution Size, further FIFO use and a full drain agree with the elements offered and not yet removed; the mutex queue is linearizable over its API. " + TIE,
         "Models Queue/JdkModel.v, Queue/MutexModel.v. Size saturation at MaxInt32 and int32(l.Len()) wrap excluded by hypothesis (fewer than 2^31-1 elements). Axiom-free."),
 "C16": ("5.16", "Coq theorems. JDKAdder / JDKF64Adder: from every state reachable by ANY alternation of single-goroutine phases over the whole API (Sum, Store, Reset, SumAndReset, updates) and concurrent update phases that have finished - however much the table has grown - a single goroutine gets exactly the results of the plain number those phases compute, and the state stays good for the next phase; the proof exhibits that Store breaks the concurrent invariant (old arrays keep old cells: the reason Store is documented unsafe under concurrency) and identifies the weaker predicate that survives. RandomCellAdder: the same alternation-of-phases theorem. MutexAdder whole API linearizable; AtomicAdder/AtomicF64Adder linearizable without SumAndReset and, single-goroutine, exact over the whole API. " + TIE,
         "Models Adder/StripedModel.v, Adder/SimpleModel.v. Stored values in int64 range. Axiom-free."),
 "C04": ("5.4", "Coq theorems for every pool size, expansion limit, autostart flag, select-oracle stream, set of client programs (Do/TryDo/Execute/TryExecute/Start/Stop/cancel/gates/timers) and EVERY interleaving: token accounting - a task is in at most one place (submitter, queue, one worker, Stop's drain), is executed at most once, its result channel holds at most one value, a value is the executor's own and implies exactly one execution, a context error implies no execution (refused => never run; run => no context error); no thread ever faults. That the single result is eventually delivered is liveness (hang detection of the controlled runs), not a theorem. " + TIE,
         PT),
 "C08": ("5.8", "Coq theorems, all configurations/clients/interleavings: once Stop is past wg.Wait() (draining or returned) the wait group is zero, EVERY goroutine the pool ever started has finished, no timer is armed or holds an unreceived expiry, and this is stable under any further schedule (nothing is started afterwards, the queue only shrinks; Start/Stop idempotent); the wait group always equals the number of live pool goroutines; an armed timer always belongs to a live expanded worker; at most nw + #Do goroutines are ever started. 'Stop returns' (termination) is covered by hang detection on the real code, not a theorem. " + TIE,
         PT),
 "C11": ("5.11", "Coq theorems, all configurations/clients/interleavings, under limit + #client threads < 2^31 (int32 counter cannot wrap): the number of threads inside an executor never exceeds NumberWorker + ExpandableLimit; reserve-then-spawn accounting identity for the expanded counter (live + reserved - decremented <= limit); at most NumberWorker fixed workers. 'Reaches the cap' and 'expansion is temporary' are liveness/timing clauses: checked on the real code by gated-task scenarios (high-water mark, counter back to zero), not theorems. " + TIE,
         PT),
 "C12": ("5.12", "Coq theorems, all configurations (DisableAutoStart included)/clients/interleavings of submissions with Start and Stop: no thread ever faults (no send on a closed channel, no double close, no negative wait group), the state word only moves forward, and no task is stranded in the sense of token accounting: each task keeps exactly one token until exactly one result is delivered (executed once with its own value, or a context error without execution). Eventual delivery is liveness (hang detection on the real code). " + TIE,
         PT),
 "C17": ("5.17", "Coq theorems, all configurations/clients/interleavings: no step of TryDo/TryExecute other than taking the read lock is ever disabled; the read lock is refused only while Stop is inside its two-step critical section, whose steps never block; the queue never holds more than one waiting task. 'Do blocks until a worker frees up or ctx is cancelled' is model semantics of select plus the saturation scenarios on the real code; promptness is timing, not a theorem. " + TIE,
         PT),
 "C19": ("5.19", "Coq theorems: MutexLinkedQueue (Offer, Poll, Peek, Size, IsEmpty) and MutexAdder (Add, Inc, Dec, Sum, Store, Reset, SumAndReset) are linearizable at explicit points for every program and interleaving, with writers' critical sections split into a plain read step and a plain write step so that mutual exclusion is what the proof uses. " + TIE,
         "Models Queue/MutexModel.v, Adder/SimpleModel.v mutex_adder. sync.RWMutex modelled without writer preference (only removes behaviours). Axiom-free."),
}

SPECS = {
    "C01": spec("C01", "Queues are linearizable FIFO queues", "queue", queue.gen_c01, QMODEL,
                relevant=r"not linearizable|left the queue|never offered|lost|did not complete", fine_gen=queue.fine_c01),
    "C07": spec("C07", "Lock-free queue operations always terminate", "queue", queue.gen_c07, QMODEL,
                relevant=r"solo|step bound|deadlock|did not complete|did not finish"),
    "C13": spec("C13", "Weakly consistent iterators; Remove removes what Next returned", "queue", queue.gen_c13, QMODEL,
                relevant=r"iterator|removed|lost|left the queue|never offered|did not complete|iteration"),
    "C15": spec("C15", "Plain FIFO list sequentially and at quiescence", "queue", queue.gen_c15, QMODEL,
                relevant=r"sequential script|quiescen|iteration|lost|left the queue|did not complete"),
    "C02": spec("C02", "Adders never lose, duplicate or tear an update", "adder", adder.gen_c02, AMODEL,
                relevant=r"exact total|lost|did not complete"),
    "C09": spec("C09", "A concurrent Sum sees every finished update and only whole updates", "adder", adder.gen_c09, AMODEL,
                relevant=r"not the total of any set|non-integral|exact total|not linearizable|did not complete"),
    "C16": spec("C16", "All adder variants agree with a plain number for Store/Reset/SumAndReset", "adder", adder.gen_c16, AMODEL,
                relevant=r"single number|SumAndReset results|did not complete"),
    "C19": dict(title="The mutex-based queue and adder are linearizable over their whole API",
                corr=conc.merge_corr([conc.make_corr("C19", "queue", queue.gen_c19_queue, r"not linearizable|left the queue|lost|did not complete|quiescent"),
                                      conc.make_corr("C19", "adder", adder.gen_c19_adder, r"not linearizable|SumAndReset results|single number|did not complete")]),
                model_note="Queue/MutexModel.v (mutexLinkedQueue.go) and Adder/SimpleModel.v mutex_adder (mutexAdder.go): lock operations are the logged accesses, the critical-section body is a silent plain step",
                trusted=T1_TRUST + ["sync.RWMutex modelled as {writer flag, reader count} without Go's writer preference (which only removes behaviours)"],
                partial=[], replay=lambda data: conc.replay("C19", data, data.get("violations", data.get("mismatches", [{}]))[0].get("driver", "queue") if (data.get("violations") or data.get("mismatches")) else "queue"),
                replay_how="each entry: scenario + scheduler choice list + driver name; `./check C19 --replay <file>`"),
    "C03": spec("C03", "Breaker fails fast while open and admits exactly one trial at a time", "breaker", breaker.gen_c03, BMODEL, trusted=BTRUST,
                relevant=r"admitted|rejections|transitions|final circuit state|did not complete"),
    "C06": spec("C06", "Breaker follows the documented state machine for every call sequence", "breaker", breaker.gen_c06, BMODEL, trusted=BTRUST,
                relevant=r"state machine|sequential script|did not complete"),
    "C10": spec("C10", "Sliding-window counter neither invents, double-counts nor loses events", "breaker", breaker.gen_c10, BMODEL, trusted=BTRUST,
                relevant=r"window|next roll reported|did not complete"),
    "C04": spec("C04", "Every accepted task runs exactly once and yields exactly one result", "pool", pool.gen_c04, PMODEL, trusted=PTRUST,
                relevant=r"executed \d+ times|delivered|refused|with context|lost|without having been executed|accepted by a running pool|panicked|hangs|did not complete"),
    "C08": spec("C08", "Stop drains accepted work and leaves no goroutine behind", "pool", pool.gen_c08, PMODEL, trusted=PTRUST,
                relevant=r"Stop returned|before Stop|never released|panicked|hangs|did not complete"),
    "C11": spec("C11", "Pool parallelism is capped, reaches its cap, and expansion is temporary", "pool", pool.gen_c11, PMODEL, trusted=PTRUST,
                relevant=r"simultaneously|expand to exactly|expanded-worker counter|requires|hangs|did not complete"),
    "C12": spec("C12", "Submitting around Start/Stop never panics and never strands a task", "pool", pool.gen_c12, PMODEL, trusted=PTRUST,
                relevant=r"panicked|hangs|never released|lost|delivered|executed \d+ times|without having been executed|did not complete"),
    "C17": spec("C17", "TryDo never blocks; Do applies backpressure and yields to cancellation", "pool", pool.gen_c17, PMODEL, trusted=PTRUST,
                relevant=r"requires|waiting|hangs|panicked|did not complete"),
}
