"""Check specifications of the concurrent properties."""
from . import conc, queue, adder, breaker, pool

T1_TRUST = [
    "cooperative scheduler + import-rewritten scratch copy of /repo (tools/mkinst.py, shim/): sync/atomic and sync calls are the scheduling points; "
    "plain memory accesses between them execute atomically with the preceding sync access in the controlled runs",
    "sync/atomic operations are sequentially consistent and interleaved (Go memory model: DRF-SC); the theorems quantify over all interleavings of the model's steps",
    "property monitors on implementation histories (Go, porcupine v1.3.0) are a search aid: they turn a broken tie into a concrete replay, they are not part of the proof",
]

def spec(prop, title, driver, gen, model_note, relevant=None, partial=(), trusted=(), fine_gen=None):
    return dict(title=title, corr=conc.make_corr(prop, driver, gen, relevant, fine_gen=fine_gen), model_note=model_note,
                trusted=T1_TRUST + list(trusted), partial=list(partial),
                replay=lambda data, d=driver, p=prop: conc.replay(p, data, d),
                replay_how="each entry: scenario (threads x ops, prefill) + scheduler choice list; `./check %s --replay <file>` re-executes it on the current tree" % prop)

AMODEL = "Adder/StripedModel.v (striped64.go+jdkAdder.go and, with the f64 flag, stripedF64.go+jdkF64Adder.go) and Adder/SimpleModel.v (randomCellAdder, atomicAdder, atomicF64Adder, mutexAdder)"
BMODEL = "Breaker/BreakerModel.v (nonBlockingCircuitBreaker.go + slidingWindowCounter.go + eventCount.go; reservoir queue and bucket adders bound to atomic specification objects; trip rule = Pure/Config.v exceeds)"
BTRUST = ["inside package cbreaker every queue / adder call is ONE atomic step on a specification object (wrappers shim/vqueue, shim/vadder around the real implementations): sound by linearizability of those components (C01/C13, C02/C09), an explicit composition step",
          "Ticker readings are a stream chosen by the scenario (theorems: any stream); wall-clock meaning of ticks is outside the model"]
PMODEL = "Pool/PoolModel.v (worker-pool/pool.go: submissions, Start, Stop, fixed and expanded workers; one step per atomic / lock / wait-group / channel / select / context / timer operation)"
PTRUST = ["the channel, select, go, context and timer constructs of pool.go are rewritten syntactically (tools/chanrw) into a cooperative runtime (shim/vchan, vcontext, vtime, vsync.WaitGroup) whose semantics follow the Go specification for buffered channels and Go >= 1.23 timers; that runtime and the rewriter are trusted, validated only by these runs",
          "timers fire only through the scenario's Fire operation; wall-clock durations (ExpandedLifetime) are outside the model",
          "client obligations: each Task is submitted once; results are read only through Result()"]
QMODEL = "Queue/JdkModel.v (hand-written step machine of jdkLinkedQueue.go + node.go, one step per sync/atomic access) and Queue/MutexModel.v (mutexLinkedQueue.go)"

SPECS = {
    "C01": spec("C01", "Queues are linearizable FIFO queues", "queue", queue.gen_c01, QMODEL,
                relevant=r"not linearizable|left the queue|never offered|lost|did not complete", fine_gen=queue.fine_c01),
    "C07": spec("C07", "Lock-free queue operations always terminate", "queue", queue.gen_c07, QMODEL,
                relevant=r"solo|step bound|deadlock|did not complete|did not finish"),
    "C13": spec("C13", "Weakly consistent iterators; Remove removes what Next returned", "queue", queue.gen_c13, QMODEL,
                relevant=r"iterator|removed|lost|left the queue|never offered|did not complete|iteration"),
    "C15": spec("C15", "Plain FIFO list sequentially and at quiescence", "queue", queue.gen_c15, QMODEL,
                relevant=r"sequential script|quiescen|iteration|lost|left the queue|did not complete"),
    "C02": spec("C02", "Adders never lose, duplicate or tear an update", "adder", adder.gen_c02, AMODEL,
                relevant=r"exact total|lost|did not complete"),
    "C09": spec("C09", "A concurrent Sum sees every finished update and only whole updates", "adder", adder.gen_c09, AMODEL,
                relevant=r"not the total of any set|non-integral|did not complete"),
    "C16": spec("C16", "All adder variants agree with a plain number for Store/Reset/SumAndReset", "adder", adder.gen_c16, AMODEL,
                relevant=r"single number|did not complete"),
    "C19": dict(title="The mutex-based queue and adder are linearizable over their whole API",
                corr=conc.merge_corr([conc.make_corr("C19", "queue", queue.gen_c19_queue, r"not linearizable|left the queue|lost|did not complete|quiescent"),
                                      conc.make_corr("C19", "adder", adder.gen_c19_adder, r"not linearizable|SumAndReset results|single number|did not complete")]),
                model_note="Queue/MutexModel.v (mutexLinkedQueue.go) and Adder/SimpleModel.v mutex_adder (mutexAdder.go): lock operations are the logged accesses, the critical-section body is a silent plain step",
                trusted=T1_TRUST + ["sync.RWMutex modelled as {writer flag, reader count} without Go's writer preference (which only removes behaviours)"],
                partial=[], replay=lambda data: conc.replay("C19", data, data.get("violations", data.get("mismatches", [{}]))[0].get("driver", "queue") if (data.get("violations") or data.get("mismatches")) else "queue"),
                replay_how="each entry: scenario + scheduler choice list + driver name; `./check C19 --replay <file>`"),
    "C03": spec("C03", "Breaker fails fast while open and admits exactly one trial at a time", "breaker", breaker.gen_c03, BMODEL, trusted=BTRUST,
                relevant=r"admitted|rejections|transitions|final circuit state|did not complete"),
    "C06": spec("C06", "Breaker follows the documented state machine for every call sequence", "breaker", breaker.gen_c06, BMODEL, trusted=BTRUST,
                relevant=r"state machine|did not complete"),
    "C10": spec("C10", "Sliding-window counter neither invents, double-counts nor loses events", "breaker", breaker.gen_c10, BMODEL, trusted=BTRUST,
                relevant=r"window|did not complete"),
    "C04": spec("C04", "Every accepted task runs exactly once and yields exactly one result", "pool", pool.gen_c04, PMODEL, trusted=PTRUST,
                relevant=r"executed \d+ times|delivered|refused|with context|lost|without having been executed|panicked|hangs|did not complete"),
    "C08": spec("C08", "Stop drains accepted work and leaves no goroutine behind", "pool", pool.gen_c08, PMODEL, trusted=PTRUST,
                relevant=r"Stop returned|before Stop|never released|panicked|hangs|did not complete"),
    "C11": spec("C11", "Pool parallelism is capped, reaches its cap, and expansion is temporary", "pool", pool.gen_c11, PMODEL, trusted=PTRUST,
                relevant=r"simultaneously|expand to exactly|expanded-worker counter|hangs|did not complete"),
    "C12": spec("C12", "Submitting around Start/Stop never panics and never strands a task", "pool", pool.gen_c12, PMODEL, trusted=PTRUST,
                relevant=r"panicked|hangs|never released|lost|did not complete"),
    "C17": spec("C17", "TryDo never blocks; Do applies backpressure and yields to cancellation", "pool", pool.gen_c17, PMODEL, trusted=PTRUST,
                relevant=r"requires|waiting|hangs|panicked|did not complete"),
}
