(** Concrete executions: disciplined ones (no race, by the theorem and by
    computation) and broken ones (the discipline predicate is false and a data
    race exists). *)
From Coq Require Import List Arith Bool Lia.
From Garr Require Import Race.HBModel Race.HB Race.HBDecide.
Import ListNotations.

(** ** 1. a counter (location 0) guarded by an RWMutex (mutex 0)

    goroutine 0 starts goroutine 1; both increment under Lock, goroutine 0
    finally reads under RLock while goroutine 1 also reads under RLock. *)
Definition counter_ok : exec := [
  Ev 0 (Spawn 1);
  Ev 0 (Lock 0); Ev 0 (Rd 0); Ev 0 (Wr 0); Ev 0 (Unlock 0);
  Ev 1 (Lock 0); Ev 1 (Rd 0); Ev 1 (Wr 0); Ev 1 (Unlock 0);
  Ev 0 (RLock 0); Ev 1 (RLock 0); Ev 0 (Rd 0); Ev 1 (Rd 0); Ev 1 (RUnlock 0); Ev 0 (RUnlock 0)
].

Example counter_ok_wf : wf counter_ok.
Proof. apply wfb_sound. vm_compute. reflexivity. Qed.

Example counter_ok_guarded : guarded_loc counter_ok 0 0.
Proof. apply guardedb_spec. vm_compute. reflexivity. Qed.

Example counter_ok_disciplined : disciplined counter_ok.
Proof. apply (disciplinedb_sound _ (fun _ => WGuarded 0)). vm_compute. reflexivity. Qed.

(** by the theorem *)
Example counter_ok_no_race : ~ data_race counter_ok.
Proof. apply discipline_implies_drf; [exact counter_ok_wf|exact counter_ok_disciplined]. Qed.

(** and, independently, by exhaustive computation of happens-before *)
Example counter_ok_no_race_computed : data_raceb counter_ok = false.
Proof. vm_compute. reflexivity. Qed.

(** the write of goroutine 0 happens-before the write of goroutine 1 ... *)
Example counter_ok_hb_3_7 : hb counter_ok 3 7.
Proof. apply hbb_spec. vm_compute. reflexivity. Qed.
(** ... while the two concurrent reads under RLock are NOT ordered (and do not conflict) *)
Example counter_ok_readers_unordered : ~ hb counter_ok 11 12 /\ ~ hb counter_ok 12 11.
Proof. split; apply hbb_false; vm_compute; reflexivity. Qed.

(** the same program with goroutine 1 writing the counter OUTSIDE the lock *)
Definition counter_racy : exec := [
  Ev 0 (Spawn 1);
  Ev 0 (Lock 0); Ev 0 (Rd 0); Ev 0 (Wr 0); Ev 0 (Unlock 0);
  Ev 1 (Wr 0);
  Ev 1 (Lock 0); Ev 1 (Rd 0); Ev 1 (Unlock 0)
].

Example counter_racy_wf : wf counter_racy.
Proof. apply wfb_sound. vm_compute. reflexivity. Qed.

Example counter_racy_not_guarded : ~ guarded_loc counter_racy 0 0.
Proof. apply guardedb_false. vm_compute. reflexivity. Qed.

Example counter_racy_race : data_race counter_racy.
Proof. apply data_raceb_spec. vm_compute. reflexivity. Qed.

(** the racing pair: the locked write of goroutine 0 and the unlocked write of goroutine 1 *)
Example counter_racy_pair : race_pair counter_racy 3 5.
Proof. apply race_pairb_spec. vm_compute. reflexivity. Qed.

(** a reader that takes only the read lock while writing is also caught *)
Definition counter_write_under_rlock : exec := [
  Ev 0 (Spawn 1);
  Ev 0 (RLock 0); Ev 1 (RLock 0); Ev 0 (Wr 0); Ev 1 (Rd 0); Ev 0 (RUnlock 0); Ev 1 (RUnlock 0)
].
Example counter_write_under_rlock_bad :
  wf counter_write_under_rlock /\ ~ guarded_loc counter_write_under_rlock 0 0 /\
  data_race counter_write_under_rlock.
Proof.
  split; [apply wfb_sound; vm_compute; reflexivity|].
  split; [apply guardedb_false; vm_compute; reflexivity|apply data_raceb_spec; vm_compute; reflexivity].
Qed.

(** ** 2. publication through an atomic word

    location 0 : an immutable payload (node value), location 1 : the atomic
    pointer through which it is published.  Goroutine 0 initialises both
    (the atomic word with a plain write, in its constructor), starts
    goroutine 1, later stores the pointer atomically; goroutine 1 loads the
    pointer and reads the payload. *)
Definition publish_ok : exec := [
  Ev 0 (Wr 1);                      (* constructor: plain initialisation of the atomic word *)
  Ev 0 (Spawn 1);
  Ev 0 (Wr 0);                      (* payload written while private *)
  Ev 0 (AWr 1);                     (* publication *)
  Ev 1 (ARd 1);                     (* reads from event 3 *)
  Ev 1 (Rd 0);
  Ev 0 (Rd 0)
].

Definition publish_witness (x : loc) : witness :=
  match x with 0 => WImmutable 0 3 | _ => WAtomic 0 1 end.

Example publish_ok_no_race : ~ data_race publish_ok.
Proof.
  apply discipline_implies_drf.
  - apply wfb_sound. vm_compute. reflexivity.
  - apply (disciplinedb_sound _ publish_witness). vm_compute. reflexivity.
Qed.

(** goroutine 1 reads the payload without loading the pointer first: race *)
Definition publish_racy : exec := [
  Ev 0 (Wr 1); Ev 0 (Spawn 1); Ev 0 (Wr 0); Ev 0 (AWr 1); Ev 1 (Rd 0); Ev 0 (Rd 0)
].
Example publish_racy_race : data_race publish_racy /\ race_pair publish_racy 2 4.
Proof. split; [apply data_raceb_spec|apply race_pairb_spec]; vm_compute; reflexivity. Qed.

(** reads-from matters: goroutine 2's load observes goroutine 1's store, not
    goroutine 0's, so it is not ordered after goroutine 0's payload write *)
Definition publish_overwritten : exec := [
  Ev 0 (Spawn 1); Ev 0 (Spawn 2);
  Ev 0 (Wr 0); Ev 0 (AWr 1);
  Ev 1 (AWr 1);
  Ev 2 (ARd 1); Ev 2 (Rd 0)
].
Example publish_overwritten_race : wf publish_overwritten /\ race_pair publish_overwritten 2 6.
Proof. split; [apply wfb_sound|apply race_pairb_spec]; vm_compute; reflexivity. Qed.
(** ... whereas an atomic RMW in between continues the chain *)
Definition publish_rmw_chain : exec := [
  Ev 0 (Spawn 1); Ev 0 (Spawn 2);
  Ev 0 (Wr 0); Ev 0 (AWr 1);
  Ev 1 (ARmw 1);
  Ev 2 (ARd 1); Ev 2 (Rd 0)
].
Example publish_rmw_chain_no_race : data_raceb publish_rmw_chain = false /\ hb publish_rmw_chain 2 6.
Proof. split; [|apply hbb_spec]; vm_compute; reflexivity. Qed.

(** mixed access: a plain read against an atomic store is a race *)
Definition mixed_access : exec := [ Ev 0 (Spawn 1); Ev 0 (AWr 0); Ev 1 (Rd 0) ].
Example mixed_access_race : data_race mixed_access.
Proof. apply data_raceb_spec. vm_compute. reflexivity. Qed.
Example mixed_access_not_atomic_class : atomic_checkb mixed_access 0 0 0 = false.
Proof. vm_compute. reflexivity. Qed.

(** ** 3. an owned object (a task) handed over through a channel

    goroutine 0 fills the task (location 0), sends it on channel 0; goroutine
    1 receives it, works on it, sends it back on channel 1; goroutine 0 reads
    the result. *)
Definition handover_ok : exec := [
  Ev 0 (Spawn 1);
  Ev 0 (Wr 0); Ev 0 (Send 0 0);
  Ev 1 (Recv 0 0); Ev 1 (Rd 0); Ev 1 (Wr 0); Ev 1 (Send 1 0);
  Ev 0 (Recv 1 0); Ev 0 (Rd 0)
].
Definition handover_periods : list period := [ Per 0 1 2; Per 1 3 6; Per 0 7 8 ].

Example handover_ok_no_race : ~ data_race handover_ok.
Proof.
  apply discipline_implies_drf.
  - apply wfb_sound. vm_compute. reflexivity.
  - apply (disciplinedb_sound _ (fun _ => WOwned handover_periods)). vm_compute. reflexivity.
Qed.

(** the sender keeps using the task after sending it: race *)
Definition handover_racy : exec := [
  Ev 0 (Spawn 1);
  Ev 0 (Wr 0); Ev 0 (Send 0 0); Ev 0 (Wr 0);
  Ev 1 (Recv 0 0); Ev 1 (Rd 0)
].
Example handover_racy_race : wf handover_racy /\ race_pair handover_racy 3 5.
Proof. split; [apply wfb_sound|apply race_pairb_spec]; vm_compute; reflexivity. Qed.

(** ** 4. ill-formed executions are rejected *)
Example double_lock_rejected : wfb [Ev 0 (Spawn 1); Ev 0 (Lock 0); Ev 1 (Lock 0)] = false.
Proof. vm_compute. reflexivity. Qed.
Example rlock_while_locked_rejected : wfb [Ev 0 (Spawn 1); Ev 0 (Lock 0); Ev 1 (RLock 0)] = false.
Proof. vm_compute. reflexivity. Qed.
Example unlock_by_other_rejected : wfb [Ev 0 (Spawn 1); Ev 0 (Lock 0); Ev 1 (Unlock 0)] = false.
Proof. vm_compute. reflexivity. Qed.
Example run_before_spawn_rejected : wfb [Ev 1 (Rd 0); Ev 0 (Spawn 1)] = false.
Proof. vm_compute. reflexivity. Qed.
Example recv_before_send_rejected : wfb [Ev 0 (Spawn 1); Ev 1 (Recv 0 0); Ev 0 (Send 0 0)] = false.
Proof. vm_compute. reflexivity. Qed.

(** ** 5. the mutation named in the property text: one atomic load replaced by
    a plain load.  Functionally invisible, but it breaks the atomic class of
    the pointer word, and two races appear (on the word, and on the payload
    that is no longer acquired). *)
Definition publish_plain_load : exec := [
  Ev 0 (Wr 1); Ev 0 (Spawn 1); Ev 0 (Wr 0); Ev 0 (AWr 1);
  Ev 1 (Rd 1);                      (* was: ARd 1 *)
  Ev 1 (Rd 0);
  Ev 0 (Rd 0)
].
Example publish_plain_load_breaks :
  disciplinedb publish_ok publish_witness = true /\
  disciplinedb publish_plain_load publish_witness = false /\
  race_pair publish_plain_load 3 4 /\ race_pair publish_plain_load 2 5.
Proof.
  split; [vm_compute; reflexivity|]. split; [vm_compute; reflexivity|].
  split; apply race_pairb_spec; vm_compute; reflexivity.
Qed.
