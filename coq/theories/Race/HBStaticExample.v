(** [static_to_dynamic] is satisfiable: a fragment of the real table (the
    MutexAdder.value rows) and an execution of NewMutexAdder / Add / Sum that
    stems from it.  The end-to-end theorem [table_ok_implies_drf] applies. *)
From Coq Require Import String List Arith Bool Lia.
From Garr Require Import Race.Discipline Race.HBModel Race.HB Race.HBDecide Race.HBStatic.
Import ListNotations.
Open Scope string_scope.

Definition r_init := Acc "adder" "MutexAdder" "value" "NewMutexAdder" "init".
Definition r_add_rd := Acc "adder" "MutexAdder" "value" "MutexAdder.Add" "read".
Definition r_add_wr := Acc "adder" "MutexAdder" "value" "MutexAdder.Add" "write".
Definition r_sum_rd := Acc "adder" "MutexAdder" "value" "MutexAdder.Sum" "read".

Definition adder_table : list access := [r_init; r_add_rd; r_add_wr; r_sum_rd].

Example adder_table_ok : table_ok adder_table = true.
Proof. vm_compute. reflexivity. Qed.

(** goroutine 0 builds the adder (location 0, mutex 0), starts goroutine 1,
    calls Add; goroutine 1 calls Sum *)
Definition adder_exec : exec := [
  Ev 0 (Wr 0);                                              (* NewMutexAdder: &MutexAdder{value: 0} *)
  Ev 0 (Spawn 1);
  Ev 0 (Lock 0); Ev 0 (Rd 0); Ev 0 (Wr 0); Ev 0 (Unlock 0);  (* Add *)
  Ev 1 (RLock 0); Ev 1 (Rd 0); Ev 1 (RUnlock 0)             (* Sum *)
].

Definition adder_src (i : nat) : access :=
  match i with 0 => r_init | 3 => r_add_rd | 4 => r_add_wr | _ => r_sum_rd end.

Ltac each_event Hat :=
  unfold at_ in Hat;
  repeat (match type of Hat with
          | nth_error _ ?i = _ => destruct i as [|i]; [simpl in Hat; inversion Hat; subst; clear Hat|simpl in Hat]
          end);
  try discriminate.

Example adder_static_to_dynamic :
  static_to_dynamic adder_table adder_exec adder_src
    (fun _ => ("adder", "MutexAdder", "value")) (fun _ => 0) (fun _ => 0) (fun _ => false).
Proof.
  constructor.
  - intros i t k x Hat Hx. each_event Hat; simpl in Hx; try discriminate;
      (split; [simpl; tauto|split; [reflexivity|split; [reflexivity|split; simpl; intros H; try discriminate H; reflexivity]]]).
  - intros i t k x c Hat Hx Hc H. vm_compute in Hc. inversion Hc. subst c. clear Hc.
    each_event Hat; simpl in Hx; try discriminate; simpl in H; destruct H as [H|H]; try discriminate H.
    inversion Hx. subst x. split; [reflexivity|]. exists 1. split.
    + apply pob_spec. vm_compute. reflexivity.
    + apply publishedb_sound. vm_compute. reflexivity.
  - intros i t k x funcs Hat Hx Hc H. vm_compute in Hc. inversion Hc. subst funcs. clear Hc.
    each_event Hat; simpl in Hx; try discriminate; vm_compute in H; try discriminate H;
      apply locked_accessb_spec; vm_compute; reflexivity.
  - intros x _ Hc. vm_compute in Hc. discriminate.
  - intros i t k x _ _ Hc. vm_compute in Hc. discriminate.
Qed.

Example adder_exec_no_race : ~ data_race adder_exec.
Proof.
  eapply table_ok_implies_drf.
  - exact adder_table_ok.
  - exact adder_static_to_dynamic.
  - apply wfb_sound. vm_compute. reflexivity.
Qed.
