(** The access discipline behind property C14 (data-race freedom).

    Every struct field of the library's own types is given a protection class:
      - [CAtomic ctors]: accessed only through sync/atomic (its address flows
        into a sync/atomic function), except in the listed constructor
        functions, where the object is still private;
      - [CAtomicElems]: a slice whose ELEMENTS are accessed atomically; the
        slice header itself is immutable after construction (reads allowed);
      - [CImmutable ctors]: written only by composite-literal initialisation or
        in the listed constructors, read anywhere (publication happens through a
        synchronising operation: an atomic store / CAS, a channel, a [go]);
      - [CGuarded funcs]: accessed only inside the listed functions, each of
        which holds the guarding mutex around the access;
      - [COwned]: the object is confined to one goroutine at a time (iterators,
        builders, a task before it is handed over through the queue channel).
    Package-level variables are classified the same way (type column
    "<pkgvar>"): all of them are immutable after initialisation.
    Method calls on sync / sync/atomic objects reached through fields or slice
    elements are compared with an exact list of the known sites ([sync_sites]):
    a new Store / CompareAndSwap / Lock ... site is not accepted silently.

    The table of accesses is EXTRACTED from the current Go sources on every
    run (tools/accesstab -> Gen/AccessTable.v); [table_ok] is then decided by
    computation.  That "discipline => no data race" is proved over an abstract
    happens-before execution model in Race/HB*.v; the link between this static
    table and executions ([static_to_dynamic_esc], including the confinement of
    the goroutine-owned objects) is an explicit assumption: C14 is partial in
    exactly that. *)
From Coq Require Import String List Bool.
Import ListNotations.
Open Scope string_scope.

Inductive class :=
| CAtomic (ctors : list string)
| CAtomicElems
| CImmutable (ctors : list string)
| CGuarded (funcs : list string)
| COwned.

Record access := Acc { a_pkg : string; a_typ : string; a_field : string; a_fn : string; a_kind : string }.

Definition field_classes : list (string * string * string * class) := [
  ("adder", "AtomicAdder", "value", CAtomic []);
  ("adder", "AtomicF64Adder", "value", CAtomic []);
  ("adder", "JDKAdder", "base", CAtomic []);
  ("adder", "JDKF64Adder", "base", CImmutable []);
  ("adder", "MutexAdder", "value", CGuarded ["MutexAdder.Add"; "MutexAdder.Reset"; "MutexAdder.Store"; "MutexAdder.SumAndReset"; "MutexAdder.Sum"]);
  ("adder", "RandomCellAdder", "cells", CAtomicElems);
  ("adder", "cell", "val", CAtomic []);
  ("adder", "cellf64", "val", CAtomic []);
  ("adder", "striped64", "base", CAtomic []);
  ("adder", "striped64", "cellsBusy", CAtomic []);
  ("adder", "stripedF64", "base", CImmutable []);
  ("adder", "stripedF64", "cellsBusy", CAtomic []);
  ("circuit-breaker", "CircuitBreakerBuilder", "circuitOpenWindow", COwned);
  ("circuit-breaker", "CircuitBreakerBuilder", "counterSlidingWindow", COwned);
  ("circuit-breaker", "CircuitBreakerBuilder", "counterUpdateInterval", COwned);
  ("circuit-breaker", "CircuitBreakerBuilder", "failureRateThreshold", COwned);
  ("circuit-breaker", "CircuitBreakerBuilder", "listeners", COwned);
  ("circuit-breaker", "CircuitBreakerBuilder", "minimumRequestThreshold", COwned);
  ("circuit-breaker", "CircuitBreakerBuilder", "name", COwned);
  ("circuit-breaker", "CircuitBreakerBuilder", "ticker", COwned);
  ("circuit-breaker", "CircuitBreakerBuilder", "trialRequestInterval", COwned);
  ("circuit-breaker", "CircuitBreakerConfig", "circuitOpenWindow", CImmutable []);
  ("circuit-breaker", "CircuitBreakerConfig", "counterSlidingWindow", CImmutable []);
  ("circuit-breaker", "CircuitBreakerConfig", "counterUpdateInterval", CImmutable []);
  ("circuit-breaker", "CircuitBreakerConfig", "failureRateThreshold", CImmutable []);
  ("circuit-breaker", "CircuitBreakerConfig", "listeners", CImmutable []);
  ("circuit-breaker", "CircuitBreakerConfig", "minimumRequestThreshold", CImmutable []);
  ("circuit-breaker", "CircuitBreakerConfig", "name", CImmutable []);
  ("circuit-breaker", "CircuitBreakerConfig", "trialRequestInterval", CImmutable []);
  ("circuit-breaker", "EventCount", "failure", CImmutable []);
  ("circuit-breaker", "EventCount", "success", CImmutable []);
  ("circuit-breaker", "Name", "Name", CImmutable []);
  ("circuit-breaker", "Name", "Namespace", CImmutable []);
  ("circuit-breaker", "Name", "Subsystem", CImmutable []);
  ("circuit-breaker", "NonBlockingCircuitBreaker", "config", CImmutable []);
  ("circuit-breaker", "NonBlockingCircuitBreaker", "name", CImmutable []);
  ("circuit-breaker", "NonBlockingCircuitBreaker", "s", CAtomic ["NewNonBlockingCircuitBreaker"]);
  ("circuit-breaker", "NonBlockingCircuitBreaker", "ticker", CImmutable []);
  ("circuit-breaker", "SlidingWindowCounter", "cur", CAtomic []);
  ("circuit-breaker", "SlidingWindowCounter", "reservoir", CImmutable []);
  ("circuit-breaker", "SlidingWindowCounter", "slidingWindowNanos", CImmutable []);
  ("circuit-breaker", "SlidingWindowCounter", "ticker", CImmutable []);
  ("circuit-breaker", "SlidingWindowCounter", "updateIntervalNanos", CImmutable []);
  ("circuit-breaker", "bucket", "f", CImmutable []);
  ("circuit-breaker", "bucket", "s", CImmutable []);
  ("circuit-breaker", "bucket", "timestamp", CImmutable []);
  ("circuit-breaker", "nonBlockingCircuitBreakerState", "counter", CImmutable []);
  ("circuit-breaker", "nonBlockingCircuitBreakerState", "cs", CImmutable []);
  ("circuit-breaker", "nonBlockingCircuitBreakerState", "ticker", CImmutable []);
  ("circuit-breaker", "nonBlockingCircuitBreakerState", "timedOutTimeNanos", CImmutable []);
  ("circuit-breaker", "nonBlockingCircuitBreakerState", "timeout", CImmutable []);
  ("queue", "JDKLinkedQueue", "h", CAtomic ["NewJDKLinkedQueue"]);
  ("queue", "JDKLinkedQueue", "t", CAtomic ["NewJDKLinkedQueue"]);
  ("queue", "MutexLinkedQueue", "l", CImmutable []);
  ("queue", "jdkLinkedQueueIter", "lastRet", COwned);
  ("queue", "jdkLinkedQueueIter", "nextItem", COwned);
  ("queue", "jdkLinkedQueueIter", "nextNode", COwned);
  ("queue", "jdkLinkedQueueIter", "nextVal", COwned);
  ("queue", "jdkLinkedQueueIter", "q", COwned);
  ("queue", "linkedListNode", "_i", CAtomic []);
  ("queue", "linkedListNode", "_n", CAtomic []);
  ("queue", "linkedListNode", "_v", CImmutable []);
  ("retry", "AttemptLimitingBackoff", "delegate", CImmutable []);
  ("retry", "AttemptLimitingBackoff", "limit", CImmutable []);
  ("retry", "BackoffBuilder", "layer", COwned);
  ("retry", "BackoffBuilder", "spec", COwned);
  ("retry", "ExponentialBackoff", "initialDelayMillis", CImmutable []);
  ("retry", "ExponentialBackoff", "maxDelayMillis", CImmutable []);
  ("retry", "ExponentialBackoff", "multiplier", CImmutable []);
  ("retry", "FixedBackoff", "delayMillis", CImmutable []);
  ("retry", "JitterAddingBackoff", "delegate", CImmutable []);
  ("retry", "JitterAddingBackoff", "maxJitterRate", CImmutable []);
  ("retry", "JitterAddingBackoff", "minJitterRate", CImmutable []);
  ("retry", "RandomBackoff", "bound", CImmutable []);
  ("retry", "RandomBackoff", "maxDelayMillis", CImmutable []);
  ("retry", "RandomBackoff", "minDelayMillis", CImmutable []);
  ("retry", "builtBase", "backoff", CImmutable []);
  ("retry", "builtBase", "parsed", CImmutable []);
  ("retry", "builtBase", "spec", CImmutable []);
  ("retry", "withJitter", "maxJitterRate", CImmutable []);
  ("retry", "withJitter", "minJitterRate", CImmutable []);
  ("retry", "withLimit", "limit", CImmutable []);
  ("worker-pool", "Option", "DisableAutoStart", CImmutable ["Option.normalize"]);
  ("worker-pool", "Option", "ExpandableLimit", CImmutable ["Option.normalize"]);
  ("worker-pool", "Option", "ExpandedLifetime", CImmutable ["Option.normalize"]);
  ("worker-pool", "Option", "NumberWorker", CImmutable ["Option.normalize"]);
  ("worker-pool", "Pool", "cancel", CImmutable ["NewPool"]);
  ("worker-pool", "Pool", "closed", CGuarded ["Pool.Stop"; "Pool.Do"; "Pool.TryDo"]);
  ("worker-pool", "Pool", "ctx", CImmutable ["NewPool"]);
  ("worker-pool", "Pool", "expanded", CAtomic []);
  ("worker-pool", "Pool", "opt", CImmutable []);
  ("worker-pool", "Pool", "state", CAtomic []);
  ("worker-pool", "Pool", "taskQueue", CImmutable []);
  ("worker-pool", "Task", "ctx", COwned);
  ("worker-pool", "Task", "executor", CImmutable []);
  ("worker-pool", "Task", "future", CImmutable []);
  ("worker-pool", "TaskResult", "Err", CImmutable []);
  ("worker-pool", "TaskResult", "Result", CImmutable []);
  (* package-level variables (type column "<pkgvar>"): set by init() / their declaration, read-only afterwards;
     [logger] is configuration installed through SetDefaultLogger before the breakers are used *)
  ("adder", "<pkgvar>", "maxCells", CImmutable ["init"]);
  ("circuit-breaker", "<pkgvar>", "ErrFailFast", CImmutable []);
  ("circuit-breaker", "<pkgvar>", "ErrTickerDurationInvalid", CImmutable []);
  ("circuit-breaker", "<pkgvar>", "EventCountZero", CImmutable []);
  ("circuit-breaker", "<pkgvar>", "SystemTicker", CImmutable []);
  ("circuit-breaker", "<pkgvar>", "logger", CImmutable ["SetDefaultLogger"]);
  ("circuit-breaker", "<pkgvar>", "noOpCounter", CImmutable []);
  ("circuit-breaker", "<pkgvar>", "startTick", CImmutable []);
  ("retry", "<pkgvar>", "ErrInvalidSpecFormat", CImmutable []);
  ("retry", "<pkgvar>", "NoDelayBackoff", CImmutable []);
  ("retry", "<pkgvar>", "NoRetry", CImmutable []);
  ("worker-pool", "<pkgvar>", "numCPU", CImmutable ["init"])
].

Definition sync_sites : list (string * string * string * string) := [
  ("adder", "as[i]", "JDKAdder.Sum", "Load");
  ("adder", "as[i]", "JDKF64Adder.Sum", "Load");
  ("adder", "as[index & n]", "striped64.accumulate", "Load");
  ("adder", "as[probe & n]", "stripedF64.accumulate", "Load");
  ("adder", "as[probe]", "JDKAdder.Add", "Load");
  ("adder", "as[probe]", "JDKF64Adder.Add", "Load");
  ("adder", "cls[i]", "JDKAdder.Store", "Store");
  ("adder", "cls[i]", "JDKF64Adder.Store", "Store");
  ("adder", "f.cells", "JDKF64Adder.Add", "Load");
  ("adder", "f.cells", "JDKF64Adder.Store", "Load");
  ("adder", "f.cells", "JDKF64Adder.Store", "Store");
  ("adder", "f.cells", "JDKF64Adder.Sum", "Load");
  ("adder", "m.lock", "MutexAdder.Add", "Lock");
  ("adder", "m.lock", "MutexAdder.Add", "Unlock");
  ("adder", "m.lock", "MutexAdder.Reset", "Lock");
  ("adder", "m.lock", "MutexAdder.Reset", "Unlock");
  ("adder", "m.lock", "MutexAdder.Store", "Lock");
  ("adder", "m.lock", "MutexAdder.Store", "Unlock");
  ("adder", "m.lock", "MutexAdder.Sum", "RLock");
  ("adder", "m.lock", "MutexAdder.Sum", "RUnlock");
  ("adder", "m.lock", "MutexAdder.SumAndReset", "Lock");
  ("adder", "m.lock", "MutexAdder.SumAndReset", "Unlock");
  ("adder", "rs[index & 1]", "striped64.accumulate", "Store");
  ("adder", "rs[j]", "striped64.accumulate", "Load");
  ("adder", "rs[j]", "striped64.accumulate", "Store");
  ("adder", "rs[j]", "stripedF64.accumulate", "Load");
  ("adder", "rs[j]", "stripedF64.accumulate", "Store");
  ("adder", "rs[probe & 1]", "stripedF64.accumulate", "Store");
  ("adder", "s.cells", "striped64.accumulate", "Load");
  ("adder", "s.cells", "striped64.accumulate", "Store");
  ("adder", "s.cells", "stripedF64.accumulate", "Load");
  ("adder", "s.cells", "stripedF64.accumulate", "Store");
  ("adder", "u.cells", "JDKAdder.Add", "Load");
  ("adder", "u.cells", "JDKAdder.Store", "Load");
  ("adder", "u.cells", "JDKAdder.Store", "Store");
  ("adder", "u.cells", "JDKAdder.Sum", "Load");
  ("circuit-breaker", "s.snapshot", "NewSlidingWindowCounter", "Store");
  ("circuit-breaker", "s.snapshot", "SlidingWindowCounter.Count", "Load");
  ("circuit-breaker", "s.snapshot", "SlidingWindowCounter.onEvent", "Store");
  ("queue", "queue.mutex", "MutexLinkedQueue.Offer", "Lock");
  ("queue", "queue.mutex", "MutexLinkedQueue.Offer", "Unlock");
  ("queue", "queue.mutex", "MutexLinkedQueue.Peek", "RLock");
  ("queue", "queue.mutex", "MutexLinkedQueue.Peek", "RUnlock");
  ("queue", "queue.mutex", "MutexLinkedQueue.Poll", "Lock");
  ("queue", "queue.mutex", "MutexLinkedQueue.Poll", "Unlock");
  ("queue", "queue.mutex", "MutexLinkedQueue.Size", "RLock");
  ("queue", "queue.mutex", "MutexLinkedQueue.Size", "RUnlock");
  ("retry", "b.base", "BackoffBuilder.BaseBackoff", "Store");
  ("retry", "b.base", "BackoffBuilder.Build", "Store");
  ("retry", "b.base", "BackoffBuilder.loadBase", "Load");
  ("worker-pool", "p.mu", "Pool.Do", "RLock");
  ("worker-pool", "p.mu", "Pool.Do", "RUnlock");
  ("worker-pool", "p.mu", "Pool.Start", "RLock");
  ("worker-pool", "p.mu", "Pool.Start", "RUnlock");
  ("worker-pool", "p.mu", "Pool.Stop", "Lock");
  ("worker-pool", "p.mu", "Pool.Stop", "Unlock");
  ("worker-pool", "p.mu", "Pool.TryDo", "RLock");
  ("worker-pool", "p.mu", "Pool.TryDo", "RUnlock");
  ("worker-pool", "p.wg", "Pool.Do", "Add");
  ("worker-pool", "p.wg", "Pool.Start", "Add");
  ("worker-pool", "p.wg", "Pool.Stop", "Wait");
  ("worker-pool", "p.wg", "Pool.expandedWorker", "Done");
  ("worker-pool", "p.wg", "Pool.worker", "Done")
].

Fixpoint mem (x : string) (l : list string) : bool :=
  match l with [] => false | y :: r => String.eqb x y || mem x r end.

Fixpoint class_of (l : list (string * string * string * class)) (p t f : string) : option class :=
  match l with
  | [] => None
  | (p', t', f', c) :: r =>
      if String.eqb p p' && String.eqb t t' && String.eqb f f' then Some c else class_of r p t f
  end.

Fixpoint site_known (l : list (string * string * string * string)) (p recv fn m : string) : bool :=
  match l with
  | [] => false
  | (p', r', f', m') :: r =>
      (String.eqb p p' && String.eqb recv r' && String.eqb fn f' && String.eqb m m') || site_known r p recv fn m
  end.

Definition is_sync_kind (k : string) : option string :=
  if String.prefix "sync:" k then Some (String.substring 5 (String.length k - 5) k) else None.

(** does one access obey the discipline? *)
Definition access_ok (a : access) : bool :=
  match is_sync_kind (a_kind a) with
  | Some m => site_known sync_sites (a_pkg a) (a_field a) (a_fn a) m
  | None =>
      match class_of field_classes (a_pkg a) (a_typ a) (a_field a) with
      | None => false                                   (* a location nobody classified *)
      | Some COwned => true
      | Some (CAtomic ctors) =>
          String.eqb (a_kind a) "atomic" || String.eqb (a_kind a) "init" || mem (a_fn a) ctors
      | Some CAtomicElems =>
          String.eqb (a_kind a) "atomic" || String.eqb (a_kind a) "init" || String.eqb (a_kind a) "read"
      | Some (CImmutable ctors) =>
          String.eqb (a_kind a) "read" || String.eqb (a_kind a) "init" || mem (a_fn a) ctors
      | Some (CGuarded funcs) => String.eqb (a_kind a) "init" || mem (a_fn a) funcs
      end
  end.

Definition table_ok (t : list access) : bool := forallb access_ok t.

(** what [table_ok] means, access by access *)
Definition obeys (a : access) : Prop :=
  match is_sync_kind (a_kind a) with
  | Some m => site_known sync_sites (a_pkg a) (a_field a) (a_fn a) m = true
  | None =>
      exists c, class_of field_classes (a_pkg a) (a_typ a) (a_field a) = Some c /\
      match c with
      | COwned => True
      | CAtomic ctors => a_kind a = "atomic" \/ a_kind a = "init" \/ mem (a_fn a) ctors = true
      | CAtomicElems => a_kind a = "atomic" \/ a_kind a = "init" \/ a_kind a = "read"
      | CImmutable ctors => a_kind a = "read" \/ a_kind a = "init" \/ mem (a_fn a) ctors = true
      | CGuarded funcs => a_kind a = "init" \/ mem (a_fn a) funcs = true
      end
  end.

Lemma access_ok_obeys a : access_ok a = true -> obeys a.
Proof.
  unfold access_ok, obeys. destruct (is_sync_kind (a_kind a)); [auto|].
  destruct (class_of field_classes (a_pkg a) (a_typ a) (a_field a)) as [c|]; [|discriminate].
  intros H. exists c. split; [reflexivity|].
  destruct c; auto;
    repeat (apply orb_true_iff in H; destruct H as [H|H]);
    try (apply String.eqb_eq in H); auto.
Qed.

(** soundness of the decision procedure: if the extracted table passes, every
    access in it obeys the discipline *)
Theorem table_ok_sound t : table_ok t = true -> forall a, In a t -> obeys a.
Proof.
  unfold table_ok. intros H a Ha. apply access_ok_obeys.
  rewrite forallb_forall in H. apply H. exact Ha.
Qed.

(** the atomic locations are exactly what the concurrent models treat as
    atomically accessed shared words; a plain access to one of them outside its
    constructors is rejected *)
Example plain_read_of_atomic_rejected :
  access_ok (Acc "worker-pool" "Pool" "expanded" "Pool.Do" "read") = false.
Proof. vm_compute. reflexivity. Qed.
Example unknown_sync_site_rejected :
  access_ok (Acc "adder" "sync" "as[index & n]" "striped64.accumulate" "sync:CompareAndSwap") = false.
Proof. vm_compute. reflexivity. Qed.
Example atomic_access_accepted :
  access_ok (Acc "queue" "linkedListNode" "_i" "linkedListNode.item" "atomic") = true.
Proof. vm_compute. reflexivity. Qed.
