(** Mutex reasoning over well-formed executions: the key lemma of lockset-style
    soundness.  If event i happens while goroutine t1 holds mutex m, event j > i
    happens while another goroutine t2 holds m, and at least one of them holds
    it in write mode, then t1 released m between the two and t2 acquired it
    after that release:  i -po-> release -sw-> acquire -po-> j. *)
From Coq Require Import List Arith Bool Lia.
From Garr Require Import Race.HBModel.
Import ListNotations.

Lemma firstn_S_nth (E : exec) : forall i e,
  nth_error E i = Some e -> firstn (S i) E = firstn i E ++ [e].
Proof.
  induction E as [|a E IH]; intros [|i] e H; simpl in *; try discriminate.
  - inversion H. reflexivity.
  - f_equal. apply IH. exact H.
Qed.

Lemma firstn_S_none (E : exec) : forall i,
  nth_error E i = None -> firstn (S i) E = firstn i E.
Proof.
  induction E as [|a E IH]; intros [|i] H; simpl in *; try discriminate; auto.
  f_equal. apply IH. exact H.
Qed.

Lemma mstate_at_S m E i e :
  nth_error E i = Some e -> mstate_at m E (S i) = mstep m (mstate_at m E i) e.
Proof.
  intros H. unfold mstate_at. rewrite (firstn_S_nth E i e H), fold_left_app. reflexivity.
Qed.

Lemma mstate_at_S_none m E i :
  nth_error E i = None -> mstate_at m E (S i) = mstate_at m E i.
Proof. intros H. unfold mstate_at. rewrite (firstn_S_none E i H). reflexivity. Qed.

Lemma mstate_at_0 m E : mstate_at m E 0 = ms0.
Proof. reflexivity. Qed.

Lemma ev_eta (e : event) : e = Ev (e_tid e) (e_kind e).
Proof. destruct e; reflexivity. Qed.

Lemma remove1_In t u l : In t (remove1 u l) -> In t l.
Proof.
  induction l as [|a l IH]; simpl; [auto|].
  destruct (a =? u); simpl; intros H; [auto|]. destruct H; auto.
Qed.

Lemma In_remove1 t u l : In t l -> u <> t -> In t (remove1 u l).
Proof.
  induction l as [|a l IH]; simpl; [auto|]. intros [->|H] Hne.
  - destruct (t =? u) eqn:Eq; [apply Nat.eqb_eq in Eq; congruence|left; reflexivity].
  - destruct (a =? u); [exact H|right; auto].
Qed.

Lemma wr_dec (o : option tid) (t : tid) : {o = Some t} + {o <> Some t}.
Proof. decide equality. apply Nat.eq_dec. Qed.

Section Locks.
Variable E : exec.
Hypothesis Hwf : forall i e, nth_error E i = Some e -> lock_ok (fun m => mstate_at m E i) e.

(** the effect of one event on the state of [m], with what well-formedness says *)
Lemma mstate_step_cases m i :
  (nth_error E i = None /\ mstate_at m E (S i) = mstate_at m E i) \/
  exists e, nth_error E i = Some e /\
    mstate_at m E (S i) = mstep m (mstate_at m E i) e /\
    lock_ok (fun m => mstate_at m E i) e.
Proof.
  destruct (nth_error E i) as [e|] eqn:Hn.
  - right. exists e. split; [reflexivity|]. split; [apply mstate_at_S; exact Hn|apply Hwf; exact Hn].
  - left. split; [reflexivity|apply mstate_at_S_none; exact Hn].
Qed.

(** a write-locked mutex has no readers *)
Lemma writer_excludes_readers m i :
  wr (mstate_at m E i) <> None -> rd (mstate_at m E i) = [].
Proof.
  induction i as [|i IH]; [intros H; reflexivity|].
  destruct (mstate_step_cases m i) as [[_ Heq]|(e & Hn & Heq & Hok)]; rewrite Heq; [exact IH|].
  unfold mstep, lock_ok in *. destruct (e_kind e) as [| | | | |m'|m'|m'|m'| | |]; try exact IH;
    (destruct (m' =? m) eqn:Em; [apply Nat.eqb_eq in Em; subst m'|exact IH]); simpl.
  - intros _. apply Hok.
  - intros H. congruence.
  - intros H. congruence.
  - intros H. rewrite (IH H). reflexivity.
Qed.

(** if t holds m in write mode at i and no longer at l >= i, it unlocked in between *)
Lemma unlock_between m t i l :
  i <= l -> wr (mstate_at m E i) = Some t -> wr (mstate_at m E l) <> Some t ->
  exists k, i <= k < l /\ at_ E k t (Unlock m).
Proof.
  intros Hle Hi. induction Hle as [|l Hle IH]; intros Hl; [congruence|].
  destruct (wr_dec (wr (mstate_at m E l)) t) as [Heq|Hne].
  2:{ destruct (IH Hne) as (k & Hk & Hat). exists k. split; [lia|exact Hat]. }
  destruct (mstate_step_cases m l) as [[_ Hs]|(e & Hn & Hs & Hok)]; rewrite Hs in Hl; [congruence|].
  unfold mstep, lock_ok in *. destruct (e_kind e) as [| | | | |m'|m'|m'|m'| | |] eqn:Ek; try congruence;
    (destruct (m' =? m) eqn:Em; [apply Nat.eqb_eq in Em; subst m'|congruence]); simpl in Hl; try congruence.
  - destruct Hok as [Hok _]. congruence.
  - exists l. split; [lia|]. unfold at_. rewrite Hn, (ev_eta e), Ek. simpl.
    rewrite Heq in Hok. inversion Hok. reflexivity.
Qed.

(** if t holds m in read mode at i and no longer at l >= i, it read-unlocked in between *)
Lemma runlock_between m t i l :
  i <= l -> In t (rd (mstate_at m E i)) -> ~ In t (rd (mstate_at m E l)) ->
  exists k, i <= k < l /\ at_ E k t (RUnlock m).
Proof.
  intros Hle Hi. induction Hle as [|l Hle IH]; intros Hl; [tauto|].
  destruct (in_dec Nat.eq_dec t (rd (mstate_at m E l))) as [Hin|Hnin].
  2:{ destruct (IH Hnin) as (k & Hk & Hat). exists k. split; [lia|exact Hat]. }
  destruct (mstate_step_cases m l) as [[_ Hs]|(e & Hn & Hs & Hok)]; rewrite Hs in Hl; [tauto|].
  unfold mstep, lock_ok in *. destruct (e_kind e) as [| | | | |m'|m'|m'|m'| | |] eqn:Ek; try tauto;
    (destruct (m' =? m) eqn:Em; [apply Nat.eqb_eq in Em; subst m'|tauto]); simpl in Hl; try tauto.
  destruct (Nat.eq_dec (e_tid e) t) as [Et|Et].
  - exists l. split; [lia|]. unfold at_. rewrite Hn, (ev_eta e), Ek, Et. reflexivity.
  - exfalso. apply Hl. apply In_remove1; assumption.
Qed.

(** if t holds m in write mode at j, it locked m at some l < j and has held it since *)
Lemma lock_before m t j :
  wr (mstate_at m E j) = Some t ->
  exists l, l < j /\ at_ E l t (Lock m) /\ forall p, l < p <= j -> wr (mstate_at m E p) = Some t.
Proof.
  induction j as [|j IH]; intros Hj; [rewrite mstate_at_0 in Hj; discriminate|].
  assert (Hext : wr (mstate_at m E j) = Some t ->
     exists l, l < S j /\ at_ E l t (Lock m) /\ forall p, l < p <= S j -> wr (mstate_at m E p) = Some t).
  { intros H. destruct (IH H) as (l & Hl & Hat & Hc). exists l. split; [lia|]. split; [exact Hat|].
    intros p Hp. destruct (Nat.eq_dec p (S j)) as [->|Hne]; [exact Hj|apply Hc; lia]. }
  destruct (mstate_step_cases m j) as [[_ Hs]|(e & Hn & Hs & Hok)]; [rewrite Hs in Hj; auto|].
  assert (Hj' := Hj). rewrite Hs in Hj'.
  unfold mstep in Hj'. destruct (e_kind e) as [| | | | |m'|m'|m'|m'| | |] eqn:Ek; auto;
    (destruct (m' =? m) eqn:Em; [apply Nat.eqb_eq in Em; subst m'|auto]); simpl in Hj'; auto; try discriminate.
  exists j. split; [lia|]. split.
  - unfold at_. rewrite Hn, (ev_eta e), Ek. inversion Hj'. reflexivity.
  - intros p Hp. replace p with (S j) by lia. exact Hj.
Qed.

(** if t holds m in read mode at j, it read-locked m at some l < j and has held it since *)
Lemma rlock_before m t j :
  In t (rd (mstate_at m E j)) ->
  exists l, l < j /\ at_ E l t (RLock m) /\ forall p, l < p <= j -> In t (rd (mstate_at m E p)).
Proof.
  induction j as [|j IH]; intros Hj; [rewrite mstate_at_0 in Hj; destruct Hj|].
  assert (Hext : In t (rd (mstate_at m E j)) ->
     exists l, l < S j /\ at_ E l t (RLock m) /\ forall p, l < p <= S j -> In t (rd (mstate_at m E p))).
  { intros H. destruct (IH H) as (l & Hl & Hat & Hc). exists l. split; [lia|]. split; [exact Hat|].
    intros p Hp. destruct (Nat.eq_dec p (S j)) as [->|Hne]; [exact Hj|apply Hc; lia]. }
  destruct (mstate_step_cases m j) as [[_ Hs]|(e & Hn & Hs & Hok)]; [rewrite Hs in Hj; auto|].
  assert (Hj' := Hj). rewrite Hs in Hj'.
  unfold mstep in Hj'. destruct (e_kind e) as [| | | | |m'|m'|m'|m'| | |] eqn:Ek; auto;
    (destruct (m' =? m) eqn:Em; [apply Nat.eqb_eq in Em; subst m'|auto]); simpl in Hj'; auto.
  - destruct Hj' as [Et|Hin]; [|auto].
    exists j. split; [lia|]. split.
    + unfold at_. rewrite Hn, (ev_eta e), Ek, Et. reflexivity.
    + intros p Hp. replace p with (S j) by lia. exact Hj.
  - apply Hext. eapply remove1_In. exact Hj'.
Qed.

(** ** the key lemma, in its three shapes *)

(** writer, then writer or reader *)
Lemma hb_writer_then m i j t1 t2 k1 k2 :
  i < j -> t1 <> t2 -> at_ E i t1 k1 -> at_ E j t2 k2 ->
  holds_w E m t1 i -> holds_w E m t2 j \/ holds_r E m t2 j ->
  exists u a, i <= u /\ u < a /\ a < j /\ at_ E u t1 (Unlock m) /\
              (at_ E a t2 (Lock m) \/ at_ E a t2 (RLock m)) /\ hb E i j.
Proof.
  unfold holds_w, holds_r. intros Hlt Hne H1 H2 Hw1 [Hw2|Hr2].
  - destruct (lock_before m t2 j Hw2) as (l & Hl & Hat & Hc).
    assert (Hil : i <= l).
    { destruct (le_lt_dec i l) as [H|H]; [exact H|]. rewrite (Hc i) in Hw1 by lia. congruence. }
    assert (Hnl : wr (mstate_at m E l) <> Some t1).
    { pose proof (Hwf l _ Hat) as Hok. unfold lock_ok in Hok. simpl in Hok. destruct Hok as [Hok _]. congruence. }
    destruct (unlock_between m t1 i l Hil Hw1 Hnl) as (u & Hu & Hatu).
    exists u, l. repeat split; try lia; auto.
    apply (hbeq_hb_trans E i u j); [eapply (po_hbeq E i u); [lia|exact H1|exact Hatu]|].
    apply (hb_trans E u l j); [apply hb_sw; split; [lia|eapply S_unlock_lock; eauto]|].
    apply hb_po. split; [lia|]. exists t2, (Lock m), k2. auto.
  - destruct (rlock_before m t2 j Hr2) as (l & Hl & Hat & Hc).
    assert (Hil : i <= l).
    { destruct (le_lt_dec i l) as [H|H]; [exact H|]. exfalso.
      assert (Hin : In t2 (rd (mstate_at m E i))) by (apply Hc; lia).
      rewrite writer_excludes_readers in Hin by congruence. destruct Hin. }
    assert (Hnl : wr (mstate_at m E l) <> Some t1).
    { pose proof (Hwf l _ Hat) as Hok. unfold lock_ok in Hok. simpl in Hok. congruence. }
    destruct (unlock_between m t1 i l Hil Hw1 Hnl) as (u & Hu & Hatu).
    exists u, l. repeat split; try lia; auto.
    apply (hbeq_hb_trans E i u j); [eapply (po_hbeq E i u); [lia|exact H1|exact Hatu]|].
    apply (hb_trans E u l j); [apply hb_sw; split; [lia|eapply S_unlock_rlock; eauto]|].
    apply hb_po. split; [lia|]. exists t2, (RLock m), k2. auto.
Qed.

(** reader, then writer *)
Lemma hb_reader_then_writer m i j t1 t2 k1 k2 :
  i < j -> t1 <> t2 -> at_ E i t1 k1 -> at_ E j t2 k2 ->
  holds_r E m t1 i -> holds_w E m t2 j ->
  exists u a, i <= u /\ u < a /\ a < j /\ at_ E u t1 (RUnlock m) /\ at_ E a t2 (Lock m) /\ hb E i j.
Proof.
  unfold holds_w, holds_r. intros Hlt Hne H1 H2 Hr1 Hw2.
  destruct (lock_before m t2 j Hw2) as (l & Hl & Hat & Hc).
  assert (Hil : i <= l).
  { destruct (le_lt_dec i l) as [H|H]; [exact H|]. exfalso.
    rewrite writer_excludes_readers in Hr1; [destruct Hr1|]. rewrite (Hc i) by lia. discriminate. }
  assert (Hnl : ~ In t1 (rd (mstate_at m E l))).
  { pose proof (Hwf l _ Hat) as Hok. unfold lock_ok in Hok. simpl in Hok. destruct Hok as [_ Hok].
    rewrite Hok. intros []. }
  destruct (runlock_between m t1 i l Hil Hr1 Hnl) as (u & Hu & Hatu).
  exists u, l. repeat split; try lia; auto.
  apply (hbeq_hb_trans E i u j); [eapply (po_hbeq E i u); [lia|exact H1|exact Hatu]|].
  apply (hb_trans E u l j); [apply hb_sw; split; [lia|eapply S_runlock_lock; eauto]|].
  apply hb_po. split; [lia|]. exists t2, (Lock m), k2. auto.
Qed.

End Locks.
