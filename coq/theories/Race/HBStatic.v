(** From the static access table of [Race.Discipline] to the trace-level
    discipline of [Race.HB], and so to data-race freedom.

    [table_ok T] is decided by computation on the table T extracted from the
    Go sources: every row (package, type, field, function, kind) obeys the
    protection class of its field.  What has to be ASSUMED to carry this over
    to executions is spelled out in [static_to_dynamic]; nothing else is
    assumed.  An execution comes with
      - [src i]    : the table row event number i stems from (which function
                     performed the access, and how);
      - [fld x]    : the struct field the location x is an instance of;
      - [creator x]: the goroutine that allocated the object x lives in;
      - [guard x]  : for a guarded field, the mutex instance guarding x
                     (the mutex in the same object);
      - [elem x]   : for a slice field with atomic elements, whether x is an
                     element (true) or the slice header (false).
    The assumptions:
      std_stems  every access event stems from a row of the table, of the field
                 of its location, and is as the row says: an "atomic" row is
                 a sync/atomic call, a "read" row is a plain read (other rows:
                 any access);
      std_ctor   composite-literal initialisation ("init" rows) and the
                 functions listed as constructors of the field's class run
                 while the object is private: on the creating goroutine,
                 po-before a publication of the location (every access by
                 another goroutine is hb-after it);
      std_guard  the functions listed for a guarded field hold the guarding
                 mutex around the access - in write mode if it is a write, in
                 read or write mode if it is a read;
      std_owned  owned objects are confined: the trace predicate itself
                 (the table does not constrain owned fields);
      std_elems  for a slice with atomic elements, "read" rows read the slice
                 header and "atomic" rows access elements. *)
From Coq Require Import String List Arith Bool Lia.
From Garr Require Import Race.Discipline Race.HBModel Race.HB.
Import ListNotations.
Open Scope string_scope.

Definition field_id := (string * string * string)%type.

Definition class_of_field (f : field_id) : option class :=
  let '(p, t, fd) := f in class_of field_classes p t fd.

Definition row_field (a : access) : field_id := (a_pkg a, a_typ a, a_field a).

(** the constructors a class lists (functions allowed to touch the field plainly
    because the object is still private) *)
Definition class_ctors (c : class) : list string :=
  match c with CAtomic cs | CImmutable cs => cs | _ => [] end.

(** a dynamic event is as its table row says *)
Definition kind_agrees (row_kind : string) (k : kind) : Prop :=
  (row_kind = "atomic" -> is_atomic k = true) /\
  (row_kind = "read" -> is_write k = false).

Record static_to_dynamic (T : list access) (E : exec)
       (src : nat -> access) (fld : loc -> field_id)
       (creator : loc -> tid) (guard : loc -> mutex) (elem : loc -> bool) : Prop := {
  std_stems : forall i t k x, at_ E i t k -> loc_of k = Some x ->
      In (src i) T /\ row_field (src i) = fld x /\
      is_sync_kind (a_kind (src i)) = None /\ kind_agrees (a_kind (src i)) k;
  std_ctor : forall i t k x c, at_ E i t k -> loc_of k = Some x ->
      class_of_field (fld x) = Some c ->
      a_kind (src i) = "init" \/ mem (a_fn (src i)) (class_ctors c) = true ->
      t = creator x /\ before_publication E x (creator x) i;
  std_guard : forall i t k x funcs, at_ E i t k -> loc_of k = Some x ->
      class_of_field (fld x) = Some (CGuarded funcs) ->
      mem (a_fn (src i)) funcs = true ->
      locked_access E (guard x) i t k;
  std_owned : forall x, accessed E x -> class_of_field (fld x) = Some COwned -> owned_loc E x;
  std_elems : forall i t k x, at_ E i t k -> loc_of k = Some x ->
      class_of_field (fld x) = Some CAtomicElems ->
      (a_kind (src i) = "read" -> elem x = false) /\ (a_kind (src i) = "atomic" -> elem x = true)
}.

Section StaticToDynamic.
Variables (T : list access) (E : exec) (src : nat -> access) (fld : loc -> field_id)
          (creator : loc -> tid) (guard : loc -> mutex) (elem : loc -> bool).
Hypothesis Htab : table_ok T = true.
Hypothesis Hstd : static_to_dynamic T E src fld creator guard elem.

(** what the table says about one access event *)
Lemma row_obeys i t k x :
  at_ E i t k -> loc_of k = Some x ->
  exists c, class_of_field (fld x) = Some c /\
    match c with
    | COwned => True
    | CAtomic ctors => a_kind (src i) = "atomic" \/ a_kind (src i) = "init" \/ mem (a_fn (src i)) ctors = true
    | CAtomicElems => a_kind (src i) = "atomic" \/ a_kind (src i) = "init" \/ a_kind (src i) = "read"
    | CImmutable ctors => a_kind (src i) = "read" \/ a_kind (src i) = "init" \/ mem (a_fn (src i)) ctors = true
    | CGuarded funcs => a_kind (src i) = "init" \/ mem (a_fn (src i)) funcs = true
    end.
Proof.
  intros Hat Hx. destruct (std_stems _ _ _ _ _ _ _ Hstd i t k x Hat Hx) as (Hin & Hf & Hs & _).
  pose proof (table_ok_sound T Htab (src i) Hin) as Ho. unfold obeys in Ho. rewrite Hs in Ho.
  destruct Ho as (c & Hc & Hm). exists c. split; [|exact Hm].
  rewrite <- Hf. unfold class_of_field, row_field. exact Hc.
Qed.

Lemma atomic_row i t k x :
  at_ E i t k -> loc_of k = Some x -> a_kind (src i) = "atomic" -> is_atomic k = true.
Proof.
  intros Hat Hx Hk. destruct (std_stems _ _ _ _ _ _ _ Hstd i t k x Hat Hx) as (_ & _ & _ & [Ha _]). auto.
Qed.

Lemma read_row i t k x :
  at_ E i t k -> loc_of k = Some x -> a_kind (src i) = "read" -> is_write k = false.
Proof.
  intros Hat Hx Hk. destruct (std_stems _ _ _ _ _ _ _ Hstd i t k x Hat Hx) as (_ & _ & _ & [_ Hr]). auto.
Qed.

(** the class of an accessed location, and the trace predicate it obeys *)
Definition dyn_class (x : loc) : option lclass :=
  match class_of_field (fld x) with
  | Some (CAtomic _) => Some LAtomic
  | Some CAtomicElems => Some (if elem x then LAtomic else LImmutable)
  | Some (CImmutable _) => Some LImmutable
  | Some (CGuarded _) => Some (LGuardedInit (guard x))
  | Some COwned => Some LOwned
  | None => None
  end.

Theorem static_class_obeyed x :
  accessed E x -> exists c, dyn_class x = Some c /\ obeys_class E x c.
Proof.
  intros Hacc. assert (Hacc' := Hacc). destruct Hacc' as (i0 & t0 & k0 & Hat0 & Hx0).
  destruct (row_obeys i0 t0 k0 x Hat0 Hx0) as (c & Hc & _).
  unfold dyn_class. rewrite Hc. destruct c as [ctors| |ctors|funcs|].
  - (* CAtomic *)
    eexists. split; [reflexivity|]. simpl. exists (creator x). intros i t k Hat Hx.
    destruct (row_obeys i t k x Hat Hx) as (c' & Hc' & Hm). rewrite Hc in Hc'. inversion Hc'. subst c'.
    destruct Hm as [Hm|Hm].
    + left. eapply atomic_row; eauto.
    + right. eapply (std_ctor _ _ _ _ _ _ _ Hstd); eauto.
  - (* CAtomicElems *)
    eexists. split; [reflexivity|]. destruct (elem x) eqn:Eel; simpl.
    + exists (creator x). intros i t k Hat Hx.
      destruct (row_obeys i t k x Hat Hx) as (c' & Hc' & Hm). rewrite Hc in Hc'. inversion Hc'. subst c'.
      destruct (std_elems _ _ _ _ _ _ _ Hstd i t k x Hat Hx Hc) as [Hrd _].
      destruct Hm as [Hm|[Hm|Hm]].
      * left. eapply atomic_row; eauto.
      * right. eapply (std_ctor _ _ _ _ _ _ _ Hstd); eauto.
      * specialize (Hrd Hm). congruence.
    + exists (creator x). intros i t k Hat Hx Hw.
      destruct (row_obeys i t k x Hat Hx) as (c' & Hc' & Hm). rewrite Hc in Hc'. inversion Hc'. subst c'.
      destruct (std_elems _ _ _ _ _ _ _ Hstd i t k x Hat Hx Hc) as [_ Hat'].
      destruct Hm as [Hm|[Hm|Hm]].
      * specialize (Hat' Hm). congruence.
      * eapply (std_ctor _ _ _ _ _ _ _ Hstd); eauto.
      * pose proof (read_row i t k x Hat Hx Hm). congruence.
  - (* CImmutable *)
    eexists. split; [reflexivity|]. simpl. exists (creator x). intros i t k Hat Hx Hw.
    destruct (row_obeys i t k x Hat Hx) as (c' & Hc' & Hm). rewrite Hc in Hc'. inversion Hc'. subst c'.
    destruct Hm as [Hm|Hm].
    + pose proof (read_row i t k x Hat Hx Hm). congruence.
    + eapply (std_ctor _ _ _ _ _ _ _ Hstd); eauto.
  - (* CGuarded *)
    eexists. split; [reflexivity|]. simpl. exists (creator x). intros i t k Hat Hx.
    destruct (row_obeys i t k x Hat Hx) as (c' & Hc' & Hm). rewrite Hc in Hc'. inversion Hc'. subst c'.
    destruct Hm as [Hm|Hm].
    + right. eapply (std_ctor _ _ _ _ _ _ _ Hstd); eauto.
    + left. eapply (std_guard _ _ _ _ _ _ _ Hstd); eauto.
  - (* COwned *)
    eexists. split; [reflexivity|]. simpl. eapply (std_owned _ _ _ _ _ _ _ Hstd); eauto.
Qed.

Theorem static_discipline_dynamic : disciplined E.
Proof.
  intros x Hacc. destruct (static_class_obeyed x Hacc) as (c & _ & H). exists c. exact H.
Qed.

(** C14 for one execution: the checked table, the stated link between table
    and execution, and well-formedness give data-race freedom *)
Theorem table_ok_implies_drf : wf E -> ~ data_race E.
Proof. intros Hwf. apply discipline_implies_drf; [exact Hwf|exact static_discipline_dynamic]. Qed.

End StaticToDynamic.
