(** The hypotheses of [HBEscape.escape_discipline_implies_drf] are satisfiable:
    the execution [HBExamples.publish_ok] (a node whose payload is published
    through an atomic word of a queue shared with a new goroutine), with its
    reference flow spelled out. *)
From Coq Require Import List Arith Bool Lia.
From Garr Require Import Race.HBModel Race.HB Race.HBDecide Race.HBPublish Race.HBEscape Race.HBExamples.
Import ListNotations.

(** object 0 = the queue (location 1: its atomic head word), object 1 = the node (location 0: its payload) *)
Definition ex_obj_of (x : loc) : obj := match x with 0 => 1 | _ => 0 end.
Definition ex_creator (_ : obj) : tid := 0.
(** the go statement (event 1) hands the queue to goroutine 1; the atomic store (event 3) puts the node
    into the head word; the atomic load (event 4) obtains it *)
Definition ex_gives (i : nat) (o : obj) : Prop := (i = 1 /\ o = 0) \/ (i = 3 /\ o = 1).
Definition ex_gets (i : nat) (o : obj) : Prop := i = 4 /\ o = 1.

Ltac each_event Hat :=
  unfold at_ in Hat;
  repeat (match type of Hat with
          | nth_error _ ?i = _ => destruct i as [|i]; [simpl in Hat; inversion Hat; subst; clear Hat|simpl in Hat]
          end);
  try discriminate.

Example publish_ok_no_race_by_escape : ~ data_race publish_ok.
Proof.
  apply (escape_discipline_implies_drf publish_ok ex_obj_of ex_creator ex_gets ex_gives).
  - apply wfb_sound. vm_compute. reflexivity.
  - (* classes *)
    intros x (i & t & k & Hat & Hx). destruct x as [|x].
    + exists EImmutable. intros j u kj Hj Hxj Hw. each_event Hj; simpl in Hxj, Hw; try discriminate.
      split; [reflexivity|]. intros e (ke & _ & _ & [[_ Ho]|[-> _]]); [discriminate|lia].
    + exists EAtomic. intros j u kj Hj Hxj. each_event Hj; simpl in Hxj; try discriminate; inversion Hxj; subst.
      * right. split; [reflexivity|]. intros e (ke & _ & _ & [[-> _]|[_ Ho]]); [lia|discriminate].
      * left. reflexivity.
      * left. reflexivity.
  - (* accesses need references *)
    intros j t k x Hat Hx. each_event Hat; simpl in Hx; try discriminate; inversion Hx; subst;
      try (apply K_creator).
    + apply (K_spawn _ _ _ _ 1 0 1 4); [lia|reflexivity|left; auto].
    + apply (K_in _ _ _ _ 1 4 5 (ARd 1)); [lia|reflexivity|reflexivity|split; reflexivity].
  - (* only the creator hands out *)
    intros o w t k Hat _ [[-> ->]|[-> ->]]; unfold at_ in Hat; simpl in Hat; inversion Hat; apply K_creator.
  - (* no receives *)
    intros o j t c n Hat _. each_event Hat.
  - (* the load reads from the store *)
    intros o i t k y Hat _ Hy [-> ->]. unfold at_ in Hat; simpl in Hat; inversion Hat; subst. simpl in Hy. inversion Hy. subst y.
    exists 3, 0, (AWr 1). repeat split; auto; try lia. right. auto.
Qed.
