(** Sanity facts about the happens-before relation of [HBModel]: it is not more
    generous than it should be.  An hb edge between two goroutines can only
    come out of a release operation (unlock, read-unlock, atomic store / RMW,
    go statement, send) of the first one, and can only enter the second one
    at an acquire operation (lock, read-lock, atomic load / RMW, receive) or
    because the second goroutine was started after it.  In particular a
    "publication" event p in the sense of [HB.published] is, or is po-followed
    by, a release operation of the publishing goroutine. *)
From Coq Require Import List Arith Bool Lia.
From Garr Require Import Race.HBModel Race.HB.
Import ListNotations.

Definition is_release (k : kind) : bool :=
  match k with Unlock _ | RUnlock _ | AWr _ | ARmw _ | Spawn _ | Send _ _ => true | _ => false end.
Definition is_acquire (k : kind) : bool :=
  match k with Lock _ | RLock _ | ARd _ | ARmw _ | Recv _ _ => true | _ => false end.

Lemma at_fun E i t1 k1 t2 k2 : at_ E i t1 k1 -> at_ E i t2 k2 -> t1 = t2 /\ k1 = k2.
Proof. unfold at_. intros H1 H2. rewrite H1 in H2. inversion H2. auto. Qed.

Lemma syncs_release E i j t k : syncs E i j -> at_ E i t k -> is_release k = true.
Proof.
  intros H Hat.
  destruct H as [t1 t2 m H1 H2|t1 t2 m H1 H2|t1 t2 m H1 H2|t1 t2 k1 k2 x H1 H2 Hw Hr Hno
                |t1 t2 k' H1 H2|t1 t2 c n H1 H2];
    destruct (at_fun _ _ _ _ _ _ Hat H1) as [_ ->]; try reflexivity.
  destruct k1; simpl in Hw; try discriminate; reflexivity.
Qed.

Lemma syncs_acquire E i j t k :
  syncs E i j -> at_ E j t k -> is_acquire k = true \/ exists t', at_ E i t' (Spawn t).
Proof.
  intros H Hat.
  destruct H as [t1 t2 m H1 H2|t1 t2 m H1 H2|t1 t2 m H1 H2|t1 t2 k1 k2 x H1 H2 Hw Hr Hno
                |t1 t2 k' H1 H2|t1 t2 c n H1 H2];
    destruct (at_fun _ _ _ _ _ _ Hat H2) as [-> ->]; try (left; reflexivity).
  - left. destruct k2; simpl in Hr; try discriminate; reflexivity.
  - right. exists t1. exact H1.
Qed.

Lemma hb_first E i j :
  hb E i j -> (po E i j \/ sw E i j) \/ exists k, (po E i k \/ sw E i k) /\ hb E k j.
Proof.
  induction 1 as [i j H|i j H|i j k H1 IH1 H2 IH2].
  - left. left. exact H.
  - left. right. exact H.
  - right. destruct IH1 as [He|(l & He & Hl)].
    + exists j. auto.
    + exists l. split; [exact He|eapply hb_trans; eauto].
Qed.

Lemma hb_last E i j :
  hb E i j -> (po E i j \/ sw E i j) \/ exists k, hb E i k /\ (po E k j \/ sw E k j).
Proof.
  induction 1 as [i j H|i j H|i j k H1 IH1 H2 IH2].
  - left. left. exact H.
  - left. right. exact H.
  - right. destruct IH2 as [He|(l & Hl & He)].
    + exists j. auto.
    + exists l. split; [eapply hb_trans; eauto|exact He].
Qed.

(** happens-before leaves a goroutine only through one of its release operations *)
Theorem hb_leaves_by_release E i j t1 t2 k1 k2 :
  hb E i j -> at_ E i t1 k1 -> at_ E j t2 k2 -> t1 <> t2 ->
  exists r kr, i <= r < j /\ at_ E r t1 kr /\ is_release kr = true.
Proof.
  intros Hhb H1 H2 Hne.
  assert (G : forall n i k1, j - i <= n -> hb E i j -> at_ E i t1 k1 ->
              exists r kr, i <= r < j /\ at_ E r t1 kr /\ is_release kr = true).
  { clear i k1 Hhb H1. induction n as [|n IH]; intros i k1 Hn Hhb H1.
    - apply hb_lt in Hhb. lia.
    - pose proof (hb_lt _ _ _ Hhb) as Hij.
      destruct (hb_first E i j Hhb) as [[Hpo|Hsw]|(k & [Hpo|Hsw] & Hk)].
      + exfalso. destruct Hpo as [_ (t & ka & kb & Ha & Hb)].
        destruct (at_fun _ _ _ _ _ _ Ha H1) as [-> _]. destruct (at_fun _ _ _ _ _ _ Hb H2) as [-> _]. tauto.
      + exists i, k1. split; [lia|]. split; [exact H1|]. destruct Hsw as [_ Hs]. eapply syncs_release; eauto.
      + destruct Hpo as [Hik (t & ka & kb & Ha & Hb)].
        destruct (at_fun _ _ _ _ _ _ Ha H1) as [-> _].
        destruct (IH k kb) as (r & kr & Hr & Hat & Hrel); [lia|exact Hk|exact Hb|].
        exists r, kr. split; [lia|auto].
      + exists i, k1. pose proof (hb_lt _ _ _ Hk). destruct Hsw as [Hik Hs].
        split; [lia|]. split; [exact H1|]. eapply syncs_release; eauto. }
  apply (G (j - i) i k1); auto.
Qed.

(** ... and enters a goroutine only at one of its acquire operations, or at any
    of its events if the goroutine was created after the source *)
Theorem hb_enters_by_acquire E i j t1 t2 k1 k2 :
  hb E i j -> at_ E i t1 k1 -> at_ E j t2 k2 -> t1 <> t2 ->
  exists a ka, i < a <= j /\ at_ E a t2 ka /\
               (is_acquire ka = true \/ exists s t', i <= s < a /\ at_ E s t' (Spawn t2)).
Proof.
  intros Hhb H1 H2 Hne.
  assert (G : forall n j k2, j - i <= n -> hb E i j -> at_ E j t2 k2 ->
              exists a ka, i < a <= j /\ at_ E a t2 ka /\
               (is_acquire ka = true \/ exists s t', i <= s < a /\ at_ E s t' (Spawn t2))).
  { clear j k2 Hhb H2. induction n as [|n IH]; intros j k2 Hn Hhb H2.
    - apply hb_lt in Hhb. lia.
    - pose proof (hb_lt _ _ _ Hhb) as Hij.
      destruct (hb_last E i j Hhb) as [[Hpo|Hsw]|(k & Hk & [Hpo|Hsw])].
      + exfalso. destruct Hpo as [_ (t & ka & kb & Ha & Hb)].
        destruct (at_fun _ _ _ _ _ _ Ha H1) as [-> _]. destruct (at_fun _ _ _ _ _ _ Hb H2) as [-> _]. tauto.
      + exists j, k2. split; [lia|]. split; [exact H2|]. destruct Hsw as [_ Hs].
        destruct (syncs_acquire E i j t2 k2 Hs H2) as [Ha|[t' Hsp]]; [left; exact Ha|].
        right. exists i, t'. split; [lia|exact Hsp].
      + destruct Hpo as [Hkj (t & ka & kb & Ha & Hb)].
        destruct (at_fun _ _ _ _ _ _ Hb H2) as [-> _]. pose proof (hb_lt _ _ _ Hk) as Hik.
        destruct (IH k ka) as (a & kk & Har & Hat & Hacq); [lia|exact Hk|exact Ha|].
        exists a, kk. split; [lia|auto].
      + exists j, k2. pose proof (hb_lt _ _ _ Hk) as Hik. destruct Hsw as [Hkj Hs].
        split; [lia|]. split; [exact H2|].
        destruct (syncs_acquire E k j t2 k2 Hs H2) as [Ha|[t' Hsp]]; [left; exact Ha|].
        right. exists k, t'. split; [lia|exact Hsp]. }
  apply (G (j - i) j k2); auto.
Qed.

(** happens-before between two goroutines always goes through a
    synchronises-with edge: "j is hb-after p" is the same as "j is, or is
    po/hb-after, an acquire a that synchronises with a release r that is, or is
    hb-after, p" - the operational reading of the publication hypothesis *)
Lemma hb_same_or_sw E i j :
  hb E i j ->
  (exists t k1 k2, at_ E i t k1 /\ at_ E j t k2) \/
  (exists r a, hbeq E i r /\ sw E r a /\ hbeq E a j).
Proof.
  induction 1 as [i j H|i j H|i j k H1 IH1 H2 IH2].
  - left. destruct H as [_ H]. exact H.
  - right. exists i, j. split; [left; reflexivity|]. split; [exact H|left; reflexivity].
  - destruct IH1 as [(t & ka & kb & Ha & Hb)|(r & a & Hr & Hs & Ha)].
    + destruct IH2 as [(t' & kb' & kc & Hb' & Hc)|(r & a & Hr & Hs & Ha')].
      * left. destruct (at_fun _ _ _ _ _ _ Hb Hb') as [<- _]. exists t, ka, kc. auto.
      * right. exists r, a. split; [right; eapply hb_hbeq_trans; eauto|auto].
    + right. exists r, a. split; [exact Hr|]. split; [exact Hs|]. right. eapply hbeq_hb_trans; eauto.
Qed.

Theorem hb_cross_goroutine_iff E i j t1 t2 k1 k2 :
  at_ E i t1 k1 -> at_ E j t2 k2 -> t1 <> t2 ->
  (hb E i j <-> exists r a, hbeq E i r /\ sw E r a /\ hbeq E a j).
Proof.
  intros H1 H2 Hne. split.
  - intros H. destruct (hb_same_or_sw E i j H) as [(t & ka & kb & Ha & Hb)|Hr]; [|exact Hr].
    destruct (at_fun _ _ _ _ _ _ Ha H1) as [-> _]. destruct (at_fun _ _ _ _ _ _ Hb H2) as [-> _]. tauto.
  - intros (r & a & Hr & Hs & Ha). eapply hb_after_publish_via_acquire; eauto.
Qed.

(** a publication that somebody relies on is followed (or constituted) by a
    release operation of the publishing goroutine *)
Corollary publication_has_release E x t0 p kp j t k :
  published E x t0 p -> at_ E p t0 kp ->
  at_ E j t k -> loc_of k = Some x -> t <> t0 ->
  exists r kr, p <= r < j /\ at_ E r t0 kr /\ is_release kr = true.
Proof.
  intros Hpub Hp Hj Hx Hne. eapply hb_leaves_by_release; eauto.
Qed.

(** the classic lockset case: one exclusive mutex held at every access *)
Corollary consistent_locking_no_race E x m :
  wf_mutex E ->
  (forall i t k, at_ E i t k -> loc_of k = Some x -> holds_w E m t i) ->
  ~ race_on E x.
Proof.
  intros Hwf H. apply (guarded_no_race E x m Hwf). intros i t k Hat Hx.
  unfold locked_access. specialize (H i t k Hat Hx). destruct (is_write k); auto.
Qed.

(** "at any time one owner": the ownership periods of an owned location are
    disjoint intervals of the execution, in the order of the list *)
Corollary owned_periods_disjoint E (ps : list period) :
  (forall n p, nth_error ps n = Some p ->
      p_acq p <= p_rel p /\
      exists k1 k2, at_ E (p_acq p) (p_owner p) k1 /\ at_ E (p_rel p) (p_owner p) k2) ->
  (forall n p q, nth_error ps n = Some p -> nth_error ps (S n) = Some q -> hb E (p_rel p) (p_acq q)) ->
  forall n1 n2 p1 p2, n1 < n2 -> nth_error ps n1 = Some p1 -> nth_error ps n2 = Some p2 ->
    p_rel p1 < p_acq p2.
Proof.
  intros Hper Hhand n1 n2 p1 p2 Hlt H1 H2.
  eapply hb_lt. eapply periods_chain; eauto.
Qed.
