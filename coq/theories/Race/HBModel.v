(** An abstract model of executions under the Go memory model's happens-before
    relation, and the definition of a data race.

    An execution is a finite list of events; the position of an event in the
    list is the moment it took effect (Go guarantees that synchronisation
    operations - sync/atomic, mutexes, channels - behave as if executed in one
    sequentially consistent order; by the DRF-SC theorem of the Go memory
    model a program has a data race iff one of its sequentially consistent
    executions has one, so only such interleavings need to be looked at).
    Events are referred to by their index.

      po  i j : i is before j and both are events of the same goroutine;
      sw  i j : i is before j and i synchronises with j:
                  Unlock m   -> later Lock m / RLock m
                  RUnlock m  -> later Lock m
                  atomic write / RMW of x -> the atomic read / RMW of x that
                      reads from it (= it is the LAST atomic write of x before
                      the reader in the order)
                  go statement creating goroutine c -> every event of c
                  Send c k -> Recv c k  (the k-th message of channel c; also
                      used for close -> receive-of-zero, WaitGroup Done -> Wait,
                      Once: any "release k / acquire k" pair on an object c)
      hb      : transitive closure of po U sw.

    Well-formedness: mutex semantics are respected (replay of the lock state),
    a goroutine runs only after the unique go statement that creates it, a
    message is sent at most once and received only after it was sent.

    A data race: two events of different goroutines on the same location, at
    least one of them a write (plain or atomic), at least one of them a plain
    access (so: plain/plain with a write, and mixed plain/atomic with a write),
    not ordered by hb. *)
From Coq Require Import List Arith Bool Lia.
Import ListNotations.

Definition tid := nat.
Definition loc := nat.
Definition mutex := nat.
Definition chan := nat.

Inductive kind :=
| Rd (x : loc)                      (* plain read *)
| Wr (x : loc)                      (* plain write *)
| ARd (x : loc)                     (* atomic load *)
| AWr (x : loc)                     (* atomic store *)
| ARmw (x : loc)                    (* atomic read-modify-write: Add, Swap, successful CAS *)
| Lock (m : mutex)
| Unlock (m : mutex)
| RLock (m : mutex)
| RUnlock (m : mutex)
| Spawn (c : tid)                   (* go statement; c is the new goroutine *)
| Send (c : chan) (k : nat)         (* k identifies the message *)
| Recv (c : chan) (k : nat).

Record event := Ev { e_tid : tid; e_kind : kind }.
Definition exec := list event.

(** event number [i] of [E] is an event of goroutine [t] of kind [k] *)
Definition at_ (E : exec) (i : nat) (t : tid) (k : kind) : Prop := nth_error E i = Some (Ev t k).

Definition loc_of (k : kind) : option loc :=
  match k with Rd x | Wr x | ARd x | AWr x | ARmw x => Some x | _ => None end.
Definition is_write (k : kind) : bool :=
  match k with Wr _ | AWr _ | ARmw _ => true | _ => false end.
Definition is_plain (k : kind) : bool :=
  match k with Rd _ | Wr _ => true | _ => false end.
Definition is_atomic (k : kind) : bool :=
  match k with ARd _ | AWr _ | ARmw _ => true | _ => false end.
(** the location an event atomically writes / atomically reads *)
Definition awloc (k : kind) : option loc :=
  match k with AWr x | ARmw x => Some x | _ => None end.
Definition arloc (k : kind) : option loc :=
  match k with ARd x | ARmw x => Some x | _ => None end.

(** * happens-before *)

Definition po (E : exec) (i j : nat) : Prop :=
  i < j /\ exists t k1 k2, at_ E i t k1 /\ at_ E j t k2.

Inductive syncs (E : exec) (i j : nat) : Prop :=
| S_unlock_lock t1 t2 m : at_ E i t1 (Unlock m) -> at_ E j t2 (Lock m) -> syncs E i j
| S_unlock_rlock t1 t2 m : at_ E i t1 (Unlock m) -> at_ E j t2 (RLock m) -> syncs E i j
| S_runlock_lock t1 t2 m : at_ E i t1 (RUnlock m) -> at_ E j t2 (Lock m) -> syncs E i j
| S_reads_from t1 t2 k1 k2 x :
    at_ E i t1 k1 -> at_ E j t2 k2 -> awloc k1 = Some x -> arloc k2 = Some x ->
    (forall l t k, i < l < j -> at_ E l t k -> awloc k <> Some x) ->
    syncs E i j
| S_spawn t1 t2 k : at_ E i t1 (Spawn t2) -> at_ E j t2 k -> syncs E i j
| S_send_recv t1 t2 c n : at_ E i t1 (Send c n) -> at_ E j t2 (Recv c n) -> syncs E i j.

Definition sw (E : exec) (i j : nat) : Prop := i < j /\ syncs E i j.

Inductive hb (E : exec) : nat -> nat -> Prop :=
| hb_po i j : po E i j -> hb E i j
| hb_sw i j : sw E i j -> hb E i j
| hb_trans i j k : hb E i j -> hb E j k -> hb E i k.

(** the execution order is consistent with happens-before *)
Lemma hb_lt E i j : hb E i j -> i < j.
Proof.
  induction 1 as [i j [H _]|i j [H _]|i j k _ H1 _ H2]; lia.
Qed.

Lemma hb_irrefl E i : ~ hb E i i.
Proof. intros H. apply hb_lt in H. lia. Qed.

(** reflexive closure, convenient in chains *)
Definition hbeq (E : exec) (i j : nat) : Prop := i = j \/ hb E i j.

Lemma hbeq_hb_trans E i j k : hbeq E i j -> hb E j k -> hb E i k.
Proof. intros [->|H] H2; [exact H2|eapply hb_trans; eauto]. Qed.
Lemma hb_hbeq_trans E i j k : hb E i j -> hbeq E j k -> hb E i k.
Proof. intros H [<-|H2]; [exact H|eapply hb_trans; eauto]. Qed.
Lemma hbeq_trans E i j k : hbeq E i j -> hbeq E j k -> hbeq E i k.
Proof. intros [->|H] H2; [exact H2|]. right. eapply hb_hbeq_trans; eauto. Qed.

(** two events of the same goroutine, in order *)
Lemma po_hbeq E i j t k1 k2 : i <= j -> at_ E i t k1 -> at_ E j t k2 -> hbeq E i j.
Proof.
  intros Hle H1 H2. destruct (Nat.eq_dec i j) as [->|Hne]; [left; reflexivity|].
  right. apply hb_po. split; [lia|]. exists t, k1, k2. auto.
Qed.

(** * the lock state of a mutex, by replay *)

Record mstate := MS { wr : option tid;      (* the goroutine holding it in write mode *)
                      rd : list tid }.      (* the goroutines holding it in read mode (a multiset) *)
Definition ms0 : mstate := MS None [].

Fixpoint remove1 (t : tid) (l : list tid) : list tid :=
  match l with [] => [] | u :: r => if u =? t then r else u :: remove1 t r end.

Definition mstep (m : mutex) (st : mstate) (e : event) : mstate :=
  match e_kind e with
  | Lock m' => if m' =? m then MS (Some (e_tid e)) (rd st) else st
  | Unlock m' => if m' =? m then MS None (rd st) else st
  | RLock m' => if m' =? m then MS (wr st) (e_tid e :: rd st) else st
  | RUnlock m' => if m' =? m then MS (wr st) (remove1 (e_tid e) (rd st)) else st
  | _ => st
  end.

(** the state of mutex [m] just before event number [i] *)
Definition mstate_at (m : mutex) (E : exec) (i : nat) : mstate :=
  fold_left (mstep m) (firstn i E) ms0.

(** may event [e] happen in lock state [st]?  (Unlock / RUnlock by a goroutine
    that does not hold the mutex is excluded: the discipline speaks about the
    goroutine that HOLDS the mutex.) *)
Definition lock_ok (st : mutex -> mstate) (e : event) : Prop :=
  match e_kind e with
  | Lock m => wr (st m) = None /\ rd (st m) = []
  | Unlock m => wr (st m) = Some (e_tid e)
  | RLock m => wr (st m) = None
  | RUnlock m => In (e_tid e) (rd (st m))
  | _ => True
  end.

Definition holds_w (E : exec) (m : mutex) (t : tid) (i : nat) : Prop :=
  wr (mstate_at m E i) = Some t.
Definition holds_r (E : exec) (m : mutex) (t : tid) (i : nat) : Prop :=
  In t (rd (mstate_at m E i)).

(** * well-formed executions *)

(** every mutex operation is enabled in the lock state it meets *)
Definition wf_mutex (E : exec) : Prop :=
  forall i e, nth_error E i = Some e -> lock_ok (fun m => mstate_at m E i) e.

Record wf (E : exec) : Prop := {
  wf_locks : wf_mutex E;
  (* a goroutine is created by one go statement, of another goroutine, and runs after it *)
  wf_spawn : forall i t c, at_ E i t (Spawn c) ->
      c <> t /\
      (forall j t' k, at_ E j t' k -> t' = c -> i < j) /\
      (forall j t', at_ E j t' (Spawn c) -> j = i);
  (* a message is sent once, and received after it was sent *)
  wf_send : forall i j t t' c n, at_ E i t (Send c n) -> at_ E j t' (Send c n) -> i = j;
  wf_recv : forall j t c n, at_ E j t (Recv c n) -> exists i t', i < j /\ at_ E i t' (Send c n)
}.

(** * data races *)

Definition conflicting (k1 k2 : kind) : Prop :=
  (exists x, loc_of k1 = Some x /\ loc_of k2 = Some x) /\
  (is_write k1 = true \/ is_write k2 = true) /\
  (is_plain k1 = true \/ is_plain k2 = true).

Definition race_pair (E : exec) (i j : nat) : Prop :=
  exists t1 t2 k1 k2, at_ E i t1 k1 /\ at_ E j t2 k2 /\ t1 <> t2 /\ conflicting k1 k2 /\
                      ~ hb E i j /\ ~ hb E j i.

Definition data_race (E : exec) : Prop := exists i j, race_pair E i j.

Lemma conflicting_sym k1 k2 : conflicting k1 k2 -> conflicting k2 k1.
Proof.
  intros [[x [H1 H2]] [H3 H4]]. split; [exists x; auto|]. split; tauto.
Qed.

Lemma race_pair_sym E i j : race_pair E i j -> race_pair E j i.
Proof.
  intros (t1 & t2 & k1 & k2 & H1 & H2 & Hne & Hc & Hn1 & Hn2).
  exists t2, t1, k2, k1. repeat split; auto using conflicting_sym.
  - destruct Hc as [[x [Hx1 Hx2]] _]. exists x. auto.
  - destruct Hc as [_ [Hw _]]. tauto.
  - destruct Hc as [_ [_ Hp]]. tauto.
Qed.

(** it is enough to look at pairs in execution order *)
Lemma data_race_ordered E :
  data_race E <-> exists i j, i < j /\ race_pair E i j.
Proof.
  split.
  - intros (i & j & H).
    destruct (lt_eq_lt_dec i j) as [[Hlt|Heq]|Hgt].
    + exists i, j. auto.
    + subst j. destruct H as (t1 & t2 & k1 & k2 & H1 & H2 & Hne & _).
      unfold at_ in *. rewrite H1 in H2. inversion H2. congruence.
    + exists j, i. split; [exact Hgt|apply race_pair_sym; exact H].
  - intros (i & j & _ & H). exists i, j. exact H.
Qed.

(** the shape in which race freedom is proved: any two conflicting accesses of
    different goroutines, taken in execution order, are ordered by hb *)
Lemma no_race_intro E :
  (forall i j t1 t2 k1 k2, i < j -> at_ E i t1 k1 -> at_ E j t2 k2 -> t1 <> t2 ->
      conflicting k1 k2 -> hb E i j) ->
  ~ data_race E.
Proof.
  intros H Hr. apply data_race_ordered in Hr.
  destruct Hr as (i & j & Hlt & t1 & t2 & k1 & k2 & H1 & H2 & Hne & Hc & Hn & _).
  apply Hn. eapply H; eauto.
Qed.
