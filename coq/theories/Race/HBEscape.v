(** Optional extension: the discipline with an OPERATIONAL notion of
    publication, and data-race freedom from it with no happens-before
    hypothesis on the accesses of other goroutines.

    In [HB] the atomic / immutable / guarded-after-init classes assume that
    every access by another goroutine is hb-after the publication.  Here that
    is a consequence.  Locations belong to objects; an object has a creating
    goroutine; events carry references ([gets i o]: the value event i reads or
    receives contains a reference to o; [gives i o]: the value event i writes,
    sends, or hands to the goroutine it starts contains one).  Assumed of the
    execution (all of it plain semantics of values, no ordering assumption):
      - a goroutine touches a location only if it holds a reference to its
        object, and hands out only references it holds ([knows]: it created
        the object, obtained a reference earlier, or was started with one);
      - a receive obtains what the matching send gave; a read (plain or
        atomic) obtains what the LAST write of that location gave.
    The classes say, per location x of object o created by t0:
      atomic     every access is atomic, or is by t0 and precedes every event
                 at which t0 lets a reference to o escape;
      immutable  every write is by t0 and precedes every escape of o;
      guarded    every access is under the mutex (write mode for writes), or
                 is by t0 and precedes every escape of o;
      owned      as in [HB] (hand-over through synchronisation).
    Theorem [escape_discipline_implies_drf]: no data race.  The proof is by
    induction on the execution: while the prefix is race-free, references
    travel along happens-before (through atomics and channels by definition,
    through plain words because they are race-free), hence any holder of a
    reference is hb-after the creator's first escape, hence the next event
    cannot race either. *)
From Coq Require Import List Arith Bool Lia.
From Garr Require Import Race.HBModel Race.HBLocks Race.HB Race.HBDecide Race.HBPublish.
Import ListNotations.

Definition obj := nat.

Section Escape.
Variable E : exec.
Variable obj_of : loc -> obj.
Variable creator : obj -> tid.
Variables gets gives : nat -> obj -> Prop.

Definition knows_o (o : obj) : tid -> nat -> Prop :=
  knows E (creator o) (fun i => gets i o) (fun i => gives i o).

(** the creator lets a reference to o escape at event e *)
Definition escape (o : obj) (e : nat) : Prop :=
  exists ke, at_ E e (creator o) ke /\ is_out ke = true /\ gives e o.

(** event i precedes every escape of o *)
Definition private_access (o : obj) (i : nat) : Prop := forall e, escape o e -> i < e.

Definition by_creator_private (x : loc) (i : nat) (t : tid) : Prop :=
  t = creator (obj_of x) /\ private_access (obj_of x) i.

Inductive eclass := EAtomic | EImmutable | EGuarded (m : mutex) | EOwned.

Definition obeys_esc (x : loc) (c : eclass) : Prop :=
  match c with
  | EAtomic => forall i t k, at_ E i t k -> loc_of k = Some x ->
      is_atomic k = true \/ by_creator_private x i t
  | EImmutable => forall i t k, at_ E i t k -> loc_of k = Some x -> is_write k = true ->
      by_creator_private x i t
  | EGuarded m => forall i t k, at_ E i t k -> loc_of k = Some x ->
      locked_access E m i t k \/ by_creator_private x i t
  | EOwned => owned_loc E x
  end.

Hypothesis Hwf : wf_mutex E.
Hypothesis Hdisc : forall x, accessed E x -> exists c, obeys_esc x c.
(** touching a location needs a reference to its object *)
Hypothesis Hacc : forall j t k x, at_ E j t k -> loc_of k = Some x -> knows_o (obj_of x) t j.
(** only references one holds can be handed out *)
Hypothesis Hout : forall o, out_known E (creator o) (fun i => gets i o) (fun i => gives i o).
(** a receive obtains what the matching send gave *)
Hypothesis Hrecv : forall o j t c n, at_ E j t (Recv c n) -> gets j o ->
  exists s t', s < j /\ at_ E s t' (Send c n) /\ gives s o.
(** a read obtains what the last write of the location gave *)
Hypothesis Hread : forall o i t k y, at_ E i t k -> is_in k = true -> loc_of k = Some y -> gets i o ->
  exists w t' k', w < i /\ at_ E w t' k' /\ loc_of k' = Some y /\ is_write k' = true /\ gives w o /\
    (forall l tl kl, w < l < i -> at_ E l tl kl -> loc_of kl = Some y -> is_write kl = false).

(** the events before number n are race-free *)
Definition RF (n : nat) : Prop :=
  forall a b t1 t2 k1 k2, a < b -> b < n -> at_ E a t1 k1 -> at_ E b t2 k2 -> t1 <> t2 ->
    conflicting k1 k2 -> hb E a b.

Lemma write_is_out k : is_write k = true -> is_out k = true.
Proof. destruct k; simpl; auto. Qed.

Lemma awloc_write k y : awloc k = Some y -> loc_of k = Some y /\ is_write k = true.
Proof. destruct k; simpl; try discriminate; auto. Qed.

(** in a race-free prefix references are passed in order *)
Lemma passing_below n o : RF n ->
  ordered_passing_below E (fun i => gets i o) (fun i => gives i o) n.
Proof.
  intros Hrf i t k Hin Hat Hi Hg.
  destruct (loc_of k) as [y|] eqn:Hy.
  - destruct (Hread o i t k y Hat Hi Hy Hg) as (w & t' & k' & Hwi & Hw & Hy' & Hwr & Hgw & Hlast).
    exists w, t', k'. split; [exact Hwi|]. split; [exact Hw|]. split; [apply write_is_out; exact Hwr|].
    split; [exact Hgw|]. destruct (Nat.eq_dec t' t) as [Heq|Hne]; [left; exact Heq|right].
    destruct (is_plain k || is_plain k') eqn:Hpl.
    + apply (Hrf w i t' t k' k Hwi Hin Hw Hat Hne). split; [exists y; auto|].
      split; [left; exact Hwr|]. apply orb_true_iff in Hpl. tauto.
    + apply orb_false_iff in Hpl. destruct Hpl as [Hp Hp'].
      apply hb_sw. split; [exact Hwi|]. apply (S_reads_from E w i t' t k' k y Hw Hat).
      * destruct k'; simpl in *; try discriminate; congruence.
      * destruct k; simpl in *; try discriminate; congruence.
      * intros l tl kl Hl Hatl Haw. apply awloc_write in Haw. destruct Haw as [Hyl Hwl].
        rewrite (Hlast l tl kl Hl Hatl Hyl) in Hwl. discriminate.
  - destruct k as [| | | | | | | | | | |c m]; simpl in Hi, Hy; try discriminate.
    destruct (Hrecv o i t c m Hat Hg) as (s & t' & Hsi & Hs & Hgs).
    exists s, t', (Send c m). split; [exact Hsi|]. split; [exact Hs|]. split; [reflexivity|].
    split; [exact Hgs|]. right. eapply source_recv; eauto.
Qed.

(** a private access of the creator happens-before every access of another
    goroutine that holds a reference (in or just after a race-free prefix) *)
Lemma private_hb_below n x p kp q t kq :
  RF n -> q <= n ->
  at_ E p (creator (obj_of x)) kp -> private_access (obj_of x) p ->
  at_ E q t kq -> loc_of kq = Some x -> t <> creator (obj_of x) ->
  hb E p q.
Proof.
  intros Hrf Hq Hp Hpriv Hatq Hx Hne.
  destruct (knows_hb_below E (creator (obj_of x)) _ _ (Hout (obj_of x)) n (passing_below n _ Hrf)
              q t kq Hq Hatq (Hacc q t kq x Hatq Hx) Hne) as (e & ke & He & Hoe & Hge & Hhb).
  assert (Hpe : p < e) by (apply Hpriv; exists ke; auto).
  eapply hb_trans; [|exact Hhb]. apply hb_po. split; [exact Hpe|].
  exists (creator (obj_of x)), kp, ke. auto.
Qed.

(** one creator-private access and one access of another goroutine, a < b <= n *)
Lemma private_pair n x a b t1 t2 k1 k2 :
  RF n -> a < b -> b <= n -> at_ E a t1 k1 -> at_ E b t2 k2 ->
  loc_of k1 = Some x -> loc_of k2 = Some x -> t1 <> t2 ->
  by_creator_private x a t1 \/ by_creator_private x b t2 ->
  hb E a b.
Proof.
  intros Hrf Hab Hbn H1 H2 Hx1 Hx2 Hne [[-> Hp]|[-> Hp]].
  - eapply (private_hb_below n x a k1 b t2 k2); eauto.
  - exfalso. assert (Hba : hb E b a).
    { eapply (private_hb_below n x b k2 a t1 k1); eauto. lia. }
    apply hb_lt in Hba. lia.
Qed.

Lemma RF_step n : RF n -> RF (S n).
Proof.
  intros Hrf a b t1 t2 k1 k2 Hab Hbn H1 H2 Hne Hc.
  destruct (Nat.eq_dec b n) as [->|Hbn']; [|eapply Hrf; eauto; lia].
  destruct Hc as [[x [Hx1 Hx2]] [Hw Hp]].
  destruct (Hdisc x) as [c Hc]; [exists a, t1, k1; auto|].
  destruct c as [| |m|]; simpl in Hc.
  - (* atomic *)
    destruct (Hc a t1 k1 H1 Hx1) as [A1|P1]; [|eapply private_pair; eauto].
    destruct (Hc n t2 k2 H2 Hx2) as [A2|P2]; [|eapply private_pair; eauto].
    exfalso. destruct Hp as [Hp|Hp]; eapply plain_not_atomic; eauto.
  - (* immutable *)
    destruct Hw as [Hw|Hw].
    + eapply private_pair; eauto.
    + eapply private_pair; eauto.
  - (* guarded *)
    destruct (Hc a t1 k1 H1 Hx1) as [L1|P1]; [|eapply private_pair; eauto].
    destruct (Hc n t2 k2 H2 Hx2) as [L2|P2]; [|eapply private_pair; eauto].
    exact (locked_hb E m a n t1 t2 k1 k2 Hwf Hab Hne H1 H2 L1 L2 Hw).
  - (* owned *)
    destruct (hb_dec E a n) as [H|Hn]; [exact H|]. exfalso.
    apply (owned_no_race E x Hc). exists a, n, t1, t2, k1, k2. repeat split; auto.
    intros H'. apply hb_lt in H'. lia.
Qed.

Lemma RF_all n : RF n.
Proof.
  induction n as [|n IH]; [intros a b t1 t2 k1 k2 _ Hb; lia|apply RF_step; exact IH].
Qed.

Theorem escape_discipline_implies_drf : ~ data_race E.
Proof.
  apply no_race_intro. intros i j t1 t2 k1 k2 Hij H1 H2 Hne Hc.
  exact (RF_all (S j) i j t1 t2 k1 k2 Hij ltac:(lia) H1 H2 Hne Hc).
Qed.

(** in particular the publication hypothesis of [HB] holds: the creator's
    first escape event publishes every location of the object *)
Corollary escape_publishes x p kp :
  at_ E p (creator (obj_of x)) kp ->
  (forall e, escape (obj_of x) e -> p <= e) ->
  published E x (creator (obj_of x)) p.
Proof.
  intros Hp Hfirst j t k Hat Hx Hne.
  destruct (knows_hb_below E (creator (obj_of x)) _ _ (Hout (obj_of x)) j (passing_below j _ (RF_all j))
              j t k (le_n j) Hat (Hacc j t k x Hat Hx) Hne) as (e & ke & He & Hoe & Hge & Hhb).
  assert (Hpe : p <= e) by (apply Hfirst; exists ke; auto).
  eapply hbeq_hb_trans; [|exact Hhb]. eapply po_hbeq; eauto.
Qed.

End Escape.

(** * packaged statement *)

Definition esc_disciplined (E : exec) (obj_of : loc -> obj) (creator : obj -> tid)
           (gives : nat -> obj -> Prop) : Prop :=
  forall x, accessed E x -> exists c, obeys_esc E obj_of creator gives x c.

(** the plain semantics of references in an execution *)
Record ref_flow (E : exec) (obj_of : loc -> obj) (creator : obj -> tid)
       (gets gives : nat -> obj -> Prop) : Prop := {
  (* touching a location needs a reference to its object *)
  rf_access : forall j t k x, at_ E j t k -> loc_of k = Some x ->
      knows_o E creator gets gives (obj_of x) t j;
  (* only references one holds can be handed out *)
  rf_out : forall o, out_known E (creator o) (fun i => gets i o) (fun i => gives i o);
  (* a receive obtains what the matching send gave *)
  rf_recv : forall o j t c n, at_ E j t (Recv c n) -> gets j o ->
      exists s t', s < j /\ at_ E s t' (Send c n) /\ gives s o;
  (* a read obtains what the last write of the location gave *)
  rf_read : forall o i t k y, at_ E i t k -> is_in k = true -> loc_of k = Some y -> gets i o ->
      exists w t' k', w < i /\ at_ E w t' k' /\ loc_of k' = Some y /\ is_write k' = true /\ gives w o /\
        (forall l tl kl, w < l < i -> at_ E l tl kl -> loc_of kl = Some y -> is_write kl = false)
}.

Theorem escape_discipline_drf E obj_of creator gets gives :
  wf_mutex E -> esc_disciplined E obj_of creator gives -> ref_flow E obj_of creator gets gives ->
  ~ data_race E.
Proof.
  intros Hwf Hd [Ha Ho Hr Hrd].
  exact (escape_discipline_implies_drf E obj_of creator gets gives Hwf Hd Ha Ho Hr Hrd).
Qed.
