(** "Access discipline => data-race freedom" as a theorem (property C14).

    [HBModel] defines executions, happens-before and data races.  This file
    states the protection classes of [Race.Discipline] as predicates over an
    execution, one location at a time, and proves that a well-formed
    execution in which every accessed location obeys one of the classes has
    no data race ([discipline_implies_drf]).

    Classes (x is a location):
      atomic        every access to x is atomic, except accesses of the
                    creating goroutine that are po-before a publication of x;
      guarded by m  every write of x happens while its goroutine holds m in
                    write mode, every read while it holds m in read or write
                    mode ([guarded_init_loc]: the same after a private
                    initialisation phase, as for atomic);
      immutable     every write of x is by the creating goroutine and
                    po-before a publication of x; reads are free;
      owned         the accesses of x fall into successive ownership periods;
                    within a period only the owner accesses x; the end of a
                    period happens-before the start of the next one (the
                    hand-over goes through synchronisation).
    "p is a publication of x (created by t0)": every access of x by another
    goroutine is hb-after p.  Nothing else is asked of p: an hb edge from p to
    another goroutine can only come from a release (atomic write, unlock,
    send, go) that is p or is po-after p ([HBFacts.publication_has_release]).
    [HBEscape] derives the publication hypothesis from the flow of references
    (p = the event at which the creator first lets a reference escape). *)
From Coq Require Import List Arith Bool Lia.
From Garr Require Export Race.HBModel.
From Garr Require Import Race.HBLocks.
Import ListNotations.

(** * races on one location *)

Definition race_on (E : exec) (x : loc) : Prop :=
  exists i j t1 t2 k1 k2,
    at_ E i t1 k1 /\ at_ E j t2 k2 /\ loc_of k1 = Some x /\ loc_of k2 = Some x /\ t1 <> t2 /\
    (is_write k1 = true \/ is_write k2 = true) /\ (is_plain k1 = true \/ is_plain k2 = true) /\
    ~ hb E i j /\ ~ hb E j i.

Lemma data_race_on E : data_race E <-> exists x, race_on E x.
Proof.
  split.
  - intros (i & j & t1 & t2 & k1 & k2 & H1 & H2 & Hne & [[x [Hx1 Hx2]] [Hw Hp]] & Hn1 & Hn2).
    exists x, i, j, t1, t2, k1, k2. repeat split; auto.
  - intros (x & i & j & t1 & t2 & k1 & k2 & H1 & H2 & Hx1 & Hx2 & Hne & Hw & Hp & Hn1 & Hn2).
    exists i, j, t1, t2, k1, k2. repeat split; auto. exists x. auto.
Qed.

Lemma no_race_on_intro E x :
  (forall i j t1 t2 k1 k2, at_ E i t1 k1 -> at_ E j t2 k2 ->
      loc_of k1 = Some x -> loc_of k2 = Some x -> t1 <> t2 ->
      (is_write k1 = true \/ is_write k2 = true) -> (is_plain k1 = true \/ is_plain k2 = true) ->
      hb E i j \/ hb E j i) ->
  ~ race_on E x.
Proof.
  intros H (i & j & t1 & t2 & k1 & k2 & H1 & H2 & Hx1 & Hx2 & Hne & Hw & Hp & Hn1 & Hn2).
  destruct (H i j t1 t2 k1 k2 H1 H2 Hx1 Hx2 Hne Hw Hp); tauto.
Qed.

(** * publication *)

Definition published (E : exec) (x : loc) (t0 : tid) (p : nat) : Prop :=
  forall j t k, at_ E j t k -> loc_of k = Some x -> t <> t0 -> hb E p j.

(** event i (of the creator t0) is po-before a publication of x *)
Definition before_publication (E : exec) (x : loc) (t0 : tid) (i : nat) : Prop :=
  exists p, po E i p /\ published E x t0 p.

(** every access of another goroutine is hb-after an access made before publication *)
Lemma private_hb E x t0 i j t k :
  before_publication E x t0 i -> at_ E j t k -> loc_of k = Some x -> t <> t0 -> hb E i j.
Proof.
  intros (p & Hpo & Hpub) Hat Hx Hne. eapply hb_trans; [apply hb_po; exact Hpo|]. eapply Hpub; eauto.
Qed.

(** how "hb-after the publication" is obtained in practice: the access is
    po-after (or is) an acquire that synchronises with the publishing event or
    with something hb-after it *)
Lemma hb_after_publish_via_acquire E p r a j :
  hbeq E p r -> sw E r a -> hbeq E a j -> hb E p j.
Proof.
  intros H1 H2 H3. eapply hbeq_hb_trans; [exact H1|]. eapply hb_hbeq_trans; [apply hb_sw; exact H2|exact H3].
Qed.

(** * the classes *)

Definition atomic_loc (E : exec) (x : loc) : Prop :=
  exists t0, forall i t k, at_ E i t k -> loc_of k = Some x ->
    is_atomic k = true \/ (t = t0 /\ before_publication E x t0 i).

Definition immutable_loc (E : exec) (x : loc) : Prop :=
  exists t0, forall i t k, at_ E i t k -> loc_of k = Some x -> is_write k = true ->
    t = t0 /\ before_publication E x t0 i.

(** goroutine t holds m in the mode event kind k needs *)
Definition locked_access (E : exec) (m : mutex) (i : nat) (t : tid) (k : kind) : Prop :=
  if is_write k then holds_w E m t i else holds_w E m t i \/ holds_r E m t i.

Definition guarded_loc (E : exec) (x : loc) (m : mutex) : Prop :=
  forall i t k, at_ E i t k -> loc_of k = Some x -> locked_access E m i t k.

Definition guarded_init_loc (E : exec) (x : loc) (m : mutex) : Prop :=
  exists t0, forall i t k, at_ E i t k -> loc_of k = Some x ->
    locked_access E m i t k \/ (t = t0 /\ before_publication E x t0 i).

(** an ownership period: the owner, and two of its events delimiting the period *)
Record period := Per { p_owner : tid; p_acq : nat; p_rel : nat }.

Definition owned_loc (E : exec) (x : loc) : Prop :=
  exists ps : list period,
    (forall n p, nth_error ps n = Some p ->
        p_acq p <= p_rel p /\
        exists k1 k2, at_ E (p_acq p) (p_owner p) k1 /\ at_ E (p_rel p) (p_owner p) k2) /\
    (* hand-over: the release ending a period happens-before the acquire starting the next *)
    (forall n p q, nth_error ps n = Some p -> nth_error ps (S n) = Some q -> hb E (p_rel p) (p_acq q)) /\
    (* accesses only by the current owner, inside its period *)
    (forall i t k, at_ E i t k -> loc_of k = Some x ->
        exists n p, nth_error ps n = Some p /\ p_owner p = t /\ p_acq p <= i <= p_rel p).

(** * one theorem per class *)

Lemma plain_not_atomic k : is_plain k = true -> is_atomic k = true -> False.
Proof. destruct k; simpl; discriminate. Qed.

Theorem atomic_no_race E x : atomic_loc E x -> ~ race_on E x.
Proof.
  intros [t0 H]. apply no_race_on_intro.
  intros i j t1 t2 k1 k2 H1 H2 Hx1 Hx2 Hne _ Hp.
  destruct (H i t1 k1 H1 Hx1) as [Ha1|[-> Hb1]].
  - destruct (H j t2 k2 H2 Hx2) as [Ha2|[-> Hb2]].
    + exfalso. destruct Hp as [Hp|Hp]; eapply plain_not_atomic; eauto.
    + right. eapply private_hb; eauto.
  - left. eapply private_hb; eauto.
Qed.

Theorem immutable_no_race E x : immutable_loc E x -> ~ race_on E x.
Proof.
  intros [t0 H]. apply no_race_on_intro.
  intros i j t1 t2 k1 k2 H1 H2 Hx1 Hx2 Hne [Hw|Hw] _.
  - destruct (H i t1 k1 H1 Hx1 Hw) as [-> Hb]. left. eapply private_hb; eauto.
  - destruct (H j t2 k2 H2 Hx2 Hw) as [-> Hb]. right. eapply private_hb; eauto.
Qed.

(** the key lemma: two accesses under the mutex, of different goroutines, at
    least one in write mode, are ordered *)
Lemma locked_hb E m i j t1 t2 k1 k2 :
  wf_mutex E -> i < j -> t1 <> t2 -> at_ E i t1 k1 -> at_ E j t2 k2 ->
  locked_access E m i t1 k1 -> locked_access E m j t2 k2 ->
  is_write k1 = true \/ is_write k2 = true -> hb E i j.
Proof.
  intros Hwf Hlt Hne H1 H2 L1 L2 Hw. unfold locked_access in *.
  destruct (is_write k1) eqn:W1.
  - assert (L2' : holds_w E m t2 j \/ holds_r E m t2 j) by (revert L2; destruct (is_write k2); simpl; tauto).
    simpl in L1.
    destruct (hb_writer_then E Hwf m i j t1 t2 k1 k2 Hlt Hne H1 H2 L1 L2')
      as (u & a & _ & _ & _ & _ & _ & Hhb). exact Hhb.
  - destruct Hw as [Hw|Hw]; [discriminate|]. rewrite Hw in L2. simpl in L1, L2. destruct L1 as [L1|L1].
    + destruct (hb_writer_then E Hwf m i j t1 t2 k1 k2 Hlt Hne H1 H2 L1 (or_introl L2))
        as (u & a & _ & _ & _ & _ & _ & Hhb). exact Hhb.
    + destruct (hb_reader_then_writer E Hwf m i j t1 t2 k1 k2 Hlt Hne H1 H2 L1 L2)
        as (u & a & _ & _ & _ & _ & _ & Hhb). exact Hhb.
Qed.

Theorem guarded_init_no_race E x m : wf_mutex E -> guarded_init_loc E x m -> ~ race_on E x.
Proof.
  intros Hwf [t0 H]. apply no_race_on_intro.
  intros i j t1 t2 k1 k2 H1 H2 Hx1 Hx2 Hne Hw _.
  destruct (H i t1 k1 H1 Hx1) as [L1|[-> Hb1]]; [|left; eapply private_hb; eauto].
  destruct (H j t2 k2 H2 Hx2) as [L2|[-> Hb2]]; [|right; eapply private_hb; eauto].
  destruct (lt_eq_lt_dec i j) as [[Hlt|Heq]|Hgt].
  - left. exact (locked_hb E m i j t1 t2 k1 k2 Hwf Hlt Hne H1 H2 L1 L2 Hw).
  - subst j. unfold at_ in *. rewrite H1 in H2. inversion H2. congruence.
  - right. apply (locked_hb E m j i t2 t1 k2 k1 Hwf Hgt); auto. tauto.
Qed.

Lemma guarded_is_guarded_init E x m : guarded_loc E x m -> guarded_init_loc E x m.
Proof. intros H. exists 0. intros i t k Hat Hx. left. eapply H; eauto. Qed.

Theorem guarded_no_race E x m : wf_mutex E -> guarded_loc E x m -> ~ race_on E x.
Proof. intros Hwf H. eapply guarded_init_no_race; [exact Hwf|apply guarded_is_guarded_init; exact H]. Qed.

(** the end of an ownership period happens-before the start of every later one *)
Lemma periods_chain E (ps : list period) :
  (forall n p, nth_error ps n = Some p ->
      p_acq p <= p_rel p /\
      exists k1 k2, at_ E (p_acq p) (p_owner p) k1 /\ at_ E (p_rel p) (p_owner p) k2) ->
  (forall n p q, nth_error ps n = Some p -> nth_error ps (S n) = Some q -> hb E (p_rel p) (p_acq q)) ->
  forall n2 n1 p1 p2, n1 < n2 -> nth_error ps n1 = Some p1 -> nth_error ps n2 = Some p2 ->
    hb E (p_rel p1) (p_acq p2).
Proof.
  intros Hper Hhand. induction n2 as [|n2 IH]; intros n1 p1 p2 Hlt Hn1 Hn2; [lia|].
  destruct (Nat.eq_dec n1 n2) as [->|Hne]; [eapply Hhand; eauto|].
  destruct (nth_error ps n2) as [q|] eqn:Hq.
  2:{ exfalso. apply nth_error_None in Hq. assert (Hs : nth_error ps (S n2) <> None) by congruence.
      apply nth_error_Some in Hs. lia. }
  assert (H1 : hb E (p_rel p1) (p_acq q)) by (eapply IH; eauto; lia).
  destruct (Hper n2 q Hq) as [Hle (k1 & k2 & Ha & Hr)].
  eapply hb_trans; [exact H1|]. eapply hbeq_hb_trans; [eapply po_hbeq; eauto|]. eapply Hhand; eauto.
Qed.

Theorem owned_no_race E x : owned_loc E x -> ~ race_on E x.
Proof.
  intros (ps & Hper & Hhand & Hacc). apply no_race_on_intro.
  intros i j t1 t2 k1 k2 H1 H2 Hx1 Hx2 Hne _ _.
  destruct (Hacc i t1 k1 H1 Hx1) as (n1 & p1 & Hn1 & Ho1 & Hi).
  destruct (Hacc j t2 k2 H2 Hx2) as (n2 & p2 & Hn2 & Ho2 & Hj).
  destruct (Hper n1 p1 Hn1) as [_ (ka1 & kr1 & Ha1 & Hr1)].
  destruct (Hper n2 p2 Hn2) as [_ (ka2 & kr2 & Ha2 & Hr2)].
  rewrite Ho1 in *. rewrite Ho2 in *.
  destruct (lt_eq_lt_dec n1 n2) as [[Hlt|Heq]|Hgt].
  - left. pose proof (periods_chain E ps Hper Hhand n2 n1 p1 p2 Hlt Hn1 Hn2) as Hc.
    eapply hbeq_hb_trans; [eapply (po_hbeq E i (p_rel p1)); [lia|eauto|eauto]|].
    eapply hb_hbeq_trans; [exact Hc|]. eapply (po_hbeq E (p_acq p2) j); [lia|eauto|eauto].
  - subst n2. rewrite Hn1 in Hn2. inversion Hn2. subst p2. congruence.
  - right. pose proof (periods_chain E ps Hper Hhand n1 n2 p2 p1 Hgt Hn2 Hn1) as Hc.
    eapply hbeq_hb_trans; [eapply (po_hbeq E j (p_rel p2)); [lia|eauto|eauto]|].
    eapply hb_hbeq_trans; [exact Hc|]. eapply (po_hbeq E (p_acq p1) i); [lia|eauto|eauto].
Qed.

(** * the combined theorem *)

Inductive lclass :=
| LAtomic
| LGuarded (m : mutex)
| LGuardedInit (m : mutex)
| LImmutable
| LOwned.

Definition obeys_class (E : exec) (x : loc) (c : lclass) : Prop :=
  match c with
  | LAtomic => atomic_loc E x
  | LGuarded m => guarded_loc E x m
  | LGuardedInit m => guarded_init_loc E x m
  | LImmutable => immutable_loc E x
  | LOwned => owned_loc E x
  end.

Definition accessed (E : exec) (x : loc) : Prop := exists i t k, at_ E i t k /\ loc_of k = Some x.

(** every location the execution touches obeys one of the classes *)
Definition disciplined (E : exec) : Prop := forall x, accessed E x -> exists c, obeys_class E x c.

Theorem class_no_race E x c : wf_mutex E -> obeys_class E x c -> ~ race_on E x.
Proof.
  intros Hwf H. destruct c; simpl in H.
  - apply atomic_no_race; exact H.
  - eapply guarded_no_race; eauto.
  - eapply guarded_init_no_race; eauto.
  - apply immutable_no_race; exact H.
  - apply owned_no_race; exact H.
Qed.

(** only the mutex part of well-formedness is needed *)
Theorem discipline_implies_drf_mutex E : wf_mutex E -> disciplined E -> ~ data_race E.
Proof.
  intros Hwf Hd Hr. apply data_race_on in Hr. destruct Hr as [x Hr].
  assert (Hacc : accessed E x).
  { destruct Hr as (i & j & t1 & t2 & k1 & k2 & H1 & _ & Hx1 & _). exists i, t1, k1. auto. }
  destruct (Hd x Hacc) as [c Hc]. exact (class_no_race E x c Hwf Hc Hr).
Qed.

Theorem discipline_implies_drf E : wf E -> disciplined E -> ~ data_race E.
Proof. intros Hwf. apply discipline_implies_drf_mutex. exact (wf_locks E Hwf). Qed.
