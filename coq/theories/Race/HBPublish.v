(** Optional extension: where "every access by another goroutine is hb-after
    the publication" comes from.

    [HB.published E x t0 p] is a hypothesis of the atomic / immutable /
    guarded-after-init classes.  Here it is DERIVED from the way references
    travel: a goroutine can touch an object only if it holds a reference to
    it; it holds one if it created the object, obtained it from a value it
    read / received, or captured it when it was started; and every reference
    obtained was made available by an event of the same goroutine or by one
    that happens-before (ordered reference passing - which is what the
    discipline gives for the words that hold the references: see
    [source_recv], [source_atomic], [source_race_free]).  Then every access of
    another goroutine is hb-after the event at which the creator first let the
    reference escape ([published_at_first_escape]), so "constructors run
    before publication" only has to say: the constructor's accesses are
    po-before that first escape. *)
From Coq Require Import List Arith Bool Lia.
From Garr Require Import Race.HBModel Race.HB Race.HBDecide.
Import ListNotations.

(** events that obtain a value / make a value available to others *)
Definition is_in (k : kind) : bool :=
  match k with Rd _ | ARd _ | ARmw _ | Recv _ _ => true | _ => false end.
Definition is_out (k : kind) : bool :=
  match k with Wr _ | AWr _ | ARmw _ | Send _ _ | Spawn _ => true | _ => false end.

Section References.
Variable E : exec.
(** one object, created by goroutine t0 *)
Variable t0 : tid.
(** [gets i]: the value obtained by event i (read, receive) contains a reference to the object;
    [gives i]: the value stored / sent / captured by the new goroutine at event i contains one *)
Variables gets gives : nat -> Prop.

(** goroutine t holds a reference to the object when it performs event j *)
Inductive knows : tid -> nat -> Prop :=
| K_creator j : knows t0 j
| K_in t i j k : i < j -> at_ E i t k -> is_in k = true -> gets i -> knows t j
| K_spawn t t' s j : s < j -> at_ E s t' (Spawn t) -> gives s -> knows t j.

(** a goroutine can only hand out a reference it holds *)
Definition out_known : Prop :=
  forall w t k, at_ E w t k -> is_out k = true -> gives w -> knows t w.

(** ordered reference passing: a reference obtained at i was made available
    by an earlier event of the same goroutine or by one that happens-before i
    ([ordered_passing_below n]: for the events before number n) *)
Definition ordered_passing_below (n : nat) : Prop :=
  forall i t k, i < n -> at_ E i t k -> is_in k = true -> gets i ->
    exists w t' k', w < i /\ at_ E w t' k' /\ is_out k' = true /\ gives w /\ (t' = t \/ hb E w i).

Definition ordered_passing : Prop := forall n, ordered_passing_below n.

Hypothesis Hout : out_known.

(** whoever holds a reference, other than the creator, is hb-after an event at
    which the creator handed it out *)
Theorem knows_hb_below n : ordered_passing_below n ->
  forall j t k, j <= n -> at_ E j t k -> knows t j -> t <> t0 ->
  exists e ke, at_ E e t0 ke /\ is_out ke = true /\ gives e /\ hb E e j.
Proof.
  intros Hpass j. induction j as [j IH] using lt_wf_ind. intros t k Hjn Hat Hk Hne.
  destruct Hk as [j|t i j k' Hij Hi Hin Hg|t t' s j Hsj Hs Hg]; [congruence| |].
  - destruct (Hpass i t k' ltac:(lia) Hi Hin Hg) as (w & t' & kw & Hwi & Hw & Hoq & Hgw & Hord).
    assert (Hwj : hb E w j).
    { destruct Hord as [->|Hhb].
      - apply hb_po. split; [lia|]. exists t, kw, k. auto.
      - eapply hb_trans; [exact Hhb|]. apply hb_po. split; [exact Hij|]. exists t, k', k. auto. }
    destruct (Nat.eq_dec t' t0) as [->|Hne'].
    + exists w, kw. auto.
    + destruct (IH w ltac:(lia) t' kw ltac:(lia) Hw (Hout w t' kw Hw Hoq Hgw) Hne')
        as (e & ke & He & Hoe & Hge & Hhb).
      exists e, ke. repeat split; auto. eapply hb_trans; eauto.
  - assert (Hsw : hb E s j) by (apply hb_sw; split; [exact Hsj|eapply S_spawn; eauto]).
    destruct (Nat.eq_dec t' t0) as [->|Hne'].
    + exists s, (Spawn t). auto.
    + destruct (IH s Hsj t' (Spawn t) ltac:(lia) Hs (Hout s t' (Spawn t) Hs eq_refl Hg) Hne')
        as (e & ke & He & Hoe & Hge & Hhb).
      exists e, ke. repeat split; auto. eapply hb_trans; eauto.
Qed.

Hypothesis Hpass : ordered_passing.

Theorem knows_hb : forall j t k, at_ E j t k -> knows t j -> t <> t0 ->
  exists e ke, at_ E e t0 ke /\ is_out ke = true /\ gives e /\ hb E e j.
Proof. intros j t k. apply (knows_hb_below j (Hpass j)). lia. Qed.

(** the event at which the creator first lets a reference escape publishes
    every location of the object *)
Theorem published_at_first_escape (x : loc) (p : nat) (kp : kind) :
  (* touching x needs a reference *)
  (forall j t k, at_ E j t k -> loc_of k = Some x -> knows t j) ->
  (* p is the creator's first escape event *)
  at_ E p t0 kp ->
  (forall e ke, at_ E e t0 ke -> is_out ke = true -> gives e -> p <= e) ->
  published E x t0 p.
Proof.
  intros Hneed Hp Hfirst j t k Hat Hx Hne.
  destruct (knows_hb j t k Hat (Hneed j t k Hat Hx) Hne) as (e & ke & He & Hoe & Hge & Hhb).
  eapply hbeq_hb_trans; [|exact Hhb]. eapply po_hbeq; eauto.
Qed.

(** so an access of the creator that precedes the first escape is "before publication" *)
Corollary before_first_escape (x : loc) (p : nat) (kp : kind) (i : nat) (ki : kind) :
  (forall j t k, at_ E j t k -> loc_of k = Some x -> knows t j) ->
  at_ E p t0 kp ->
  (forall e ke, at_ E e t0 ke -> is_out ke = true -> gives e -> p <= e) ->
  at_ E i t0 ki -> i < p ->
  before_publication E x t0 i.
Proof.
  intros Hneed Hp Hfirst Hi Hlt. exists p. split.
  - split; [exact Hlt|]. exists t0, ki, kp. auto.
  - eapply published_at_first_escape; eauto.
Qed.

End References.

(** * why reference passing is ordered: the three mechanisms *)

(** through a channel: the receive is hb-after the matching send *)
Lemma source_recv E i t c n s t' :
  at_ E i t (Recv c n) -> at_ E s t' (Send c n) -> s < i -> hb E s i.
Proof. intros Hi Hs Hlt. apply hb_sw. split; [exact Hlt|eapply S_send_recv; eauto]. Qed.

(** through an atomic word: the load is hb-after the store it reads from *)
Lemma source_atomic E i t k w t' k' y :
  at_ E i t k -> arloc k = Some y -> at_ E w t' k' -> awloc k' = Some y -> w < i ->
  (forall l tl kl, w < l < i -> at_ E l tl kl -> awloc kl <> Some y) ->
  hb E w i.
Proof. intros Hi Hr Hw Hwr Hlt Hno. apply hb_sw. split; [exact Hlt|eapply S_reads_from; eauto]. Qed.

(** through a plain word (or a mixed plain / atomic one) that is free of races *)
Lemma source_race_free E i t k w t' k' y :
  ~ race_on E y ->
  at_ E i t k -> loc_of k = Some y -> at_ E w t' k' -> loc_of k' = Some y -> is_write k' = true ->
  is_plain k = true \/ is_plain k' = true -> w < i ->
  t' = t \/ hb E w i.
Proof.
  intros Hnr Hi Hy Hw Hy' Hwr Hpl Hlt.
  destruct (Nat.eq_dec t' t) as [Heq|Hne]; [left; exact Heq|right].
  destruct (hb_dec E w i) as [H|H]; [exact H|].
  exfalso. apply Hnr. exists w, i, t', t, k', k. repeat split; auto; try tauto.
  intros H'. apply hb_lt in H'. lia.
Qed.
