(** Item 5 again, on top of [HBEscape]: from the static access table to
    data-race freedom with the publication assumption reduced to

      "composite-literal initialisation and the listed constructors run on the
       creating goroutine BEFORE it lets any reference to the object escape"

    (a property of the constructor's own code), plus the plain semantics of
    references [ref_flow].  No happens-before hypothesis about the accesses of
    other goroutines is left, except inside [owned_loc] (hand-over). *)
From Coq Require Import String List Arith Bool Lia.
From Garr Require Import Race.Discipline Race.HBModel Race.HB Race.HBStatic Race.HBPublish Race.HBEscape.
Import ListNotations.
Open Scope string_scope.

Record static_to_dynamic_esc (T : list access) (E : exec)
       (src : nat -> access) (fld : loc -> field_id)
       (obj_of : loc -> obj) (creator : obj -> tid) (gives : nat -> obj -> Prop)
       (guard : loc -> mutex) (elem : loc -> bool) : Prop := {
  ste_stems : forall i t k x, at_ E i t k -> loc_of k = Some x ->
      In (src i) T /\ row_field (src i) = fld x /\
      is_sync_kind (a_kind (src i)) = None /\ kind_agrees (a_kind (src i)) k;
  ste_ctor : forall i t k x c, at_ E i t k -> loc_of k = Some x ->
      class_of_field (fld x) = Some c ->
      a_kind (src i) = "init" \/ mem (a_fn (src i)) (class_ctors c) = true ->
      by_creator_private E obj_of creator gives x i t;
  ste_guard : forall i t k x funcs, at_ E i t k -> loc_of k = Some x ->
      class_of_field (fld x) = Some (CGuarded funcs) ->
      mem (a_fn (src i)) funcs = true ->
      locked_access E (guard x) i t k;
  ste_owned : forall x, accessed E x -> class_of_field (fld x) = Some COwned -> owned_loc E x;
  ste_elems : forall i t k x, at_ E i t k -> loc_of k = Some x ->
      class_of_field (fld x) = Some CAtomicElems ->
      (a_kind (src i) = "read" -> elem x = false) /\ (a_kind (src i) = "atomic" -> elem x = true)
}.

Section StaticToEscape.
Variables (T : list access) (E : exec) (src : nat -> access) (fld : loc -> field_id)
          (obj_of : loc -> obj) (creator : obj -> tid) (gets gives : nat -> obj -> Prop)
          (guard : loc -> mutex) (elem : loc -> bool).
Hypothesis Htab : table_ok T = true.
Hypothesis Hste : static_to_dynamic_esc T E src fld obj_of creator gives guard elem.

Lemma row_obeys_esc i t k x :
  at_ E i t k -> loc_of k = Some x ->
  exists c, class_of_field (fld x) = Some c /\
    match c with
    | COwned => True
    | CAtomic ctors => a_kind (src i) = "atomic" \/ a_kind (src i) = "init" \/ mem (a_fn (src i)) ctors = true
    | CAtomicElems => a_kind (src i) = "atomic" \/ a_kind (src i) = "init" \/ a_kind (src i) = "read"
    | CImmutable ctors => a_kind (src i) = "read" \/ a_kind (src i) = "init" \/ mem (a_fn (src i)) ctors = true
    | CGuarded funcs => a_kind (src i) = "init" \/ mem (a_fn (src i)) funcs = true
    end.
Proof.
  intros Hat Hx. destruct (ste_stems _ _ _ _ _ _ _ _ _ Hste i t k x Hat Hx) as (Hin & Hf & Hs & _).
  pose proof (table_ok_sound T Htab (src i) Hin) as Ho. unfold obeys in Ho. rewrite Hs in Ho.
  destruct Ho as (c & Hc & Hm). exists c. split; [|exact Hm].
  rewrite <- Hf. unfold class_of_field, row_field. exact Hc.
Qed.

Lemma atomic_row_esc i t k x :
  at_ E i t k -> loc_of k = Some x -> a_kind (src i) = "atomic" -> is_atomic k = true.
Proof.
  intros Hat Hx Hk. destruct (ste_stems _ _ _ _ _ _ _ _ _ Hste i t k x Hat Hx) as (_ & _ & _ & [Ha _]). auto.
Qed.

Lemma read_row_esc i t k x :
  at_ E i t k -> loc_of k = Some x -> a_kind (src i) = "read" -> is_write k = false.
Proof.
  intros Hat Hx Hk. destruct (ste_stems _ _ _ _ _ _ _ _ _ Hste i t k x Hat Hx) as (_ & _ & _ & [_ Hr]). auto.
Qed.

Theorem static_esc_disciplined : esc_disciplined E obj_of creator gives.
Proof.
  intros x Hacc. assert (Hacc' := Hacc). destruct Hacc' as (i0 & t0 & k0 & Hat0 & Hx0).
  destruct (row_obeys_esc i0 t0 k0 x Hat0 Hx0) as (c & Hc & _).
  destruct c as [ctors| |ctors|funcs|].
  - exists EAtomic. intros i t k Hat Hx.
    destruct (row_obeys_esc i t k x Hat Hx) as (c' & Hc' & Hm). rewrite Hc in Hc'. inversion Hc'. subst c'.
    destruct Hm as [Hm|Hm].
    + left. eapply atomic_row_esc; eauto.
    + right. eapply (ste_ctor _ _ _ _ _ _ _ _ _ Hste); eauto.
  - destruct (elem x) eqn:Eel.
    + exists EAtomic. intros i t k Hat Hx.
      destruct (row_obeys_esc i t k x Hat Hx) as (c' & Hc' & Hm). rewrite Hc in Hc'. inversion Hc'. subst c'.
      destruct (ste_elems _ _ _ _ _ _ _ _ _ Hste i t k x Hat Hx Hc) as [Hrd _].
      destruct Hm as [Hm|[Hm|Hm]].
      * left. eapply atomic_row_esc; eauto.
      * right. eapply (ste_ctor _ _ _ _ _ _ _ _ _ Hste); eauto.
      * specialize (Hrd Hm). congruence.
    + exists EImmutable. intros i t k Hat Hx Hw.
      destruct (row_obeys_esc i t k x Hat Hx) as (c' & Hc' & Hm). rewrite Hc in Hc'. inversion Hc'. subst c'.
      destruct (ste_elems _ _ _ _ _ _ _ _ _ Hste i t k x Hat Hx Hc) as [_ Hat'].
      destruct Hm as [Hm|[Hm|Hm]].
      * specialize (Hat' Hm). congruence.
      * eapply (ste_ctor _ _ _ _ _ _ _ _ _ Hste); eauto.
      * pose proof (read_row_esc i t k x Hat Hx Hm). congruence.
  - exists EImmutable. intros i t k Hat Hx Hw.
    destruct (row_obeys_esc i t k x Hat Hx) as (c' & Hc' & Hm). rewrite Hc in Hc'. inversion Hc'. subst c'.
    destruct Hm as [Hm|Hm].
    + pose proof (read_row_esc i t k x Hat Hx Hm). congruence.
    + eapply (ste_ctor _ _ _ _ _ _ _ _ _ Hste); eauto.
  - exists (EGuarded (guard x)). intros i t k Hat Hx.
    destruct (row_obeys_esc i t k x Hat Hx) as (c' & Hc' & Hm). rewrite Hc in Hc'. inversion Hc'. subst c'.
    destruct Hm as [Hm|Hm].
    + right. eapply (ste_ctor _ _ _ _ _ _ _ _ _ Hste); eauto.
    + left. eapply (ste_guard _ _ _ _ _ _ _ _ _ Hste); eauto.
  - exists EOwned. simpl. eapply (ste_owned _ _ _ _ _ _ _ _ _ Hste); eauto.
Qed.

Theorem table_ok_implies_drf_esc :
  wf_mutex E -> ref_flow E obj_of creator gets gives -> ~ data_race E.
Proof.
  intros Hwf Hrf. eapply escape_discipline_drf; [exact Hwf|exact static_esc_disciplined|exact Hrf].
Qed.

End StaticToEscape.
