(** Executable versions of the definitions of [HBModel] / [HB], with reflection
    lemmas: happens-before, well-formedness, data races and the discipline
    predicates of a concrete execution are decided by computation. *)
From Coq Require Import List Arith Bool Lia.
From Garr Require Import Race.HBModel Race.HBLocks Race.HB.
Import ListNotations.

(** * quantification over the events of an execution *)

Definition all_events (E : exec) (pb : nat -> event -> bool) : bool :=
  forallb (fun i => match nth_error E i with Some e => pb i e | None => true end) (seq 0 (length E)).

Lemma all_events_spec E pb :
  all_events E pb = true <-> forall i e, nth_error E i = Some e -> pb i e = true.
Proof.
  unfold all_events. rewrite forallb_forall. split.
  - intros H i e Hn. assert (Hi : In i (seq 0 (length E))).
    { apply in_seq. assert (nth_error E i <> None) by congruence. apply nth_error_Some in H0. lia. }
    specialize (H i Hi). rewrite Hn in H. exact H.
  - intros H i _. destruct (nth_error E i) as [e|] eqn:Hn; [eauto|reflexivity].
Qed.

Definition some_event (E : exec) (pb : nat -> event -> bool) : bool :=
  existsb (fun i => match nth_error E i with Some e => pb i e | None => false end) (seq 0 (length E)).

Lemma some_event_spec E pb :
  some_event E pb = true <-> exists i e, nth_error E i = Some e /\ pb i e = true.
Proof.
  unfold some_event. rewrite existsb_exists. split.
  - intros (i & _ & H). destruct (nth_error E i) as [e|] eqn:Hn; [|discriminate]. exists i, e. auto.
  - intros (i & e & Hn & H). exists i. split.
    + apply in_seq. assert (nth_error E i <> None) by congruence. apply nth_error_Some in H0. lia.
    + rewrite Hn. exact H.
Qed.

Lemma at_iff E i t k : at_ E i t k <-> exists e, nth_error E i = Some e /\ e_tid e = t /\ e_kind e = k.
Proof.
  unfold at_. split.
  - intros H. exists (Ev t k). auto.
  - intros (e & Hn & <- & <-). rewrite Hn. destruct e; reflexivity.
Qed.

(** * happens-before *)

Definition pob (E : exec) (i j : nat) : bool :=
  (i <? j) &&
  match nth_error E i, nth_error E j with
  | Some e1, Some e2 => e_tid e1 =? e_tid e2
  | _, _ => false
  end.

Lemma pob_spec E i j : pob E i j = true <-> po E i j.
Proof.
  unfold pob, po. rewrite andb_true_iff, Nat.ltb_lt. split.
  - intros [Hlt H]. split; [exact Hlt|].
    destruct (nth_error E i) as [[t1 k1]|] eqn:H1; [|discriminate].
    destruct (nth_error E j) as [[t2 k2]|] eqn:H2; [|discriminate].
    simpl in H. apply Nat.eqb_eq in H. subst t2. exists t1, k1, k2. auto.
  - intros [Hlt (t & k1 & k2 & H1 & H2)]. split; [exact Hlt|].
    unfold at_ in *. rewrite H1, H2. simpl. apply Nat.eqb_refl.
Qed.

Definition opt_is (o : option loc) (x : loc) : bool :=
  match o with Some y => y =? x | None => false end.

Lemma opt_is_spec o x : opt_is o x = true <-> o = Some x.
Proof.
  destruct o as [y|]; simpl; [|split; discriminate]. rewrite Nat.eqb_eq. split; congruence.
Qed.

Definition no_aw_between (E : exec) (x : loc) (i j : nat) : bool :=
  forallb (fun l => match nth_error E l with
                    | Some e => negb (opt_is (awloc (e_kind e)) x)
                    | None => true
                    end) (seq (S i) (j - S i)).

Lemma no_aw_between_spec E x i j :
  no_aw_between E x i j = true <->
  forall l t k, i < l < j -> at_ E l t k -> awloc k <> Some x.
Proof.
  unfold no_aw_between. rewrite forallb_forall. split.
  - intros H l t k Hl Hat. assert (Hin : In l (seq (S i) (j - S i))) by (apply in_seq; lia).
    specialize (H l Hin). unfold at_ in Hat. rewrite Hat in H. simpl in H.
    intros Heq. apply opt_is_spec in Heq. rewrite Heq in H. discriminate.
  - intros H l Hin. apply in_seq in Hin. destruct (nth_error E l) as [[t k]|] eqn:Hn; [|reflexivity].
    simpl. destruct (opt_is (awloc k) x) eqn:Eo; [|reflexivity].
    apply opt_is_spec in Eo. exfalso. eapply (H l t k); [lia|exact Hn|exact Eo].
Qed.

Definition syncsb (E : exec) (i j : nat) : bool :=
  match nth_error E i, nth_error E j with
  | Some (Ev t1 k1), Some (Ev t2 k2) =>
      match k1 with
      | Unlock m => match k2 with Lock m' | RLock m' => m =? m' | _ => false end
      | RUnlock m => match k2 with Lock m' => m =? m' | _ => false end
      | Spawn c => c =? t2
      | Send c n => match k2 with Recv c' n' => (c =? c') && (n =? n') | _ => false end
      | AWr x | ARmw x => opt_is (arloc k2) x && no_aw_between E x i j
      | _ => false
      end
  | _, _ => false
  end.

Lemma syncsb_sound E i j : syncsb E i j = true -> syncs E i j.
Proof.
  unfold syncsb.
  destruct (nth_error E i) as [[t1 k1]|] eqn:H1; [|discriminate].
  destruct (nth_error E j) as [[t2 k2]|] eqn:H2; [|destruct k1; discriminate].
  destruct k1; try discriminate.
  - (* AWr *) intros H. apply andb_true_iff in H. destruct H as [Ha Hb].
    apply opt_is_spec in Ha. rewrite no_aw_between_spec in Hb.
    eapply S_reads_from; eauto. reflexivity.
  - (* ARmw *) intros H. apply andb_true_iff in H. destruct H as [Ha Hb].
    apply opt_is_spec in Ha. rewrite no_aw_between_spec in Hb.
    eapply S_reads_from; eauto. reflexivity.
  - destruct k2; try discriminate; intros H; apply Nat.eqb_eq in H; subst.
    + eapply S_unlock_lock; eauto.
    + eapply S_unlock_rlock; eauto.
  - destruct k2; try discriminate; intros H; apply Nat.eqb_eq in H; subst.
    eapply S_runlock_lock; eauto.
  - intros H. apply Nat.eqb_eq in H. subst. eapply S_spawn; eauto.
  - destruct k2; try discriminate. intros H. apply andb_true_iff in H. destruct H as [Ha Hb].
    apply Nat.eqb_eq in Ha, Hb. subst. eapply S_send_recv; eauto.
Qed.

Lemma syncsb_complete E i j : syncs E i j -> syncsb E i j = true.
Proof.
  unfold syncsb, at_. intros H.
  destruct H as [t1 t2 m H1 H2|t1 t2 m H1 H2|t1 t2 m H1 H2|t1 t2 k1 k2 x H1 H2 Hw Hr Hno
                |t1 t2 k H1 H2|t1 t2 c n H1 H2]; rewrite H1, H2; simpl;
    try apply Nat.eqb_refl.
  - apply no_aw_between_spec in Hno. apply opt_is_spec in Hr.
    destruct k1; try discriminate; simpl in Hw; inversion Hw; subst; rewrite Hr, Hno; reflexivity.
  - rewrite !Nat.eqb_refl. reflexivity.
Qed.

Definition edgeb (E : exec) (i j : nat) : bool := pob E i j || ((i <? j) && syncsb E i j).

Lemma edgeb_spec E i j : edgeb E i j = true <-> po E i j \/ sw E i j.
Proof.
  unfold edgeb, sw. rewrite orb_true_iff, andb_true_iff, pob_spec, Nat.ltb_lt.
  split; (intros [H|[H1 H2]]; [left; exact H|right; split; [exact H1|]]).
  - apply syncsb_sound; exact H2.
  - apply syncsb_complete; exact H2.
Qed.

Lemma edge_lt E i j : po E i j \/ sw E i j -> i < j.
Proof. intros [[H _]|[H _]]; exact H. Qed.

(** is j reachable from i in at most [fuel] edges?  (edges go forward) *)
Fixpoint reach (E : exec) (fuel i j : nat) : bool :=
  match fuel with
  | 0 => false
  | S f => edgeb E i j || existsb (fun k => edgeb E i k && reach E f k j) (seq (S i) (j - S i))
  end.

Definition hbb (E : exec) (i j : nat) : bool := reach E (j - i) i j.

Lemma edge_hb E i j : po E i j \/ sw E i j -> hb E i j.
Proof. intros [H|H]; [apply hb_po|apply hb_sw]; exact H. Qed.

Lemma reach_sound E fuel : forall i j, reach E fuel i j = true -> hb E i j.
Proof.
  induction fuel as [|f IH]; intros i j H; simpl in H; [discriminate|].
  apply orb_true_iff in H. destruct H as [H|H].
  - apply edge_hb. apply edgeb_spec. exact H.
  - apply existsb_exists in H. destruct H as (k & _ & H). apply andb_true_iff in H. destruct H as [H1 H2].
    eapply hb_trans; [apply edge_hb; apply edgeb_spec; exact H1|apply IH; exact H2].
Qed.

(** a happens-before path starts with an edge *)
Lemma hb_first_edge E i j :
  hb E i j -> (po E i j \/ sw E i j) \/ exists k, (po E i k \/ sw E i k) /\ hb E k j.
Proof.
  induction 1 as [i j H|i j H|i j k H1 IH1 H2 IH2].
  - left. left. exact H.
  - left. right. exact H.
  - right. destruct IH1 as [He|(l & He & Hl)].
    + exists j. auto.
    + exists l. split; [exact He|eapply hb_trans; eauto].
Qed.

Lemma reach_complete E fuel : forall i j, hb E i j -> j - i <= fuel -> reach E fuel i j = true.
Proof.
  induction fuel as [|f IH]; intros i j H Hf.
  - apply hb_lt in H. lia.
  - simpl. apply orb_true_iff. destruct (hb_first_edge E i j H) as [He|(k & He & Hk)].
    + left. apply edgeb_spec. exact He.
    + right. apply existsb_exists. exists k.
      pose proof (edge_lt E i k He) as Hik. pose proof (hb_lt E k j Hk) as Hkj.
      split; [apply in_seq; lia|]. apply andb_true_iff. split; [apply edgeb_spec; exact He|].
      apply IH; [exact Hk|lia].
Qed.

Theorem hbb_spec E i j : hbb E i j = true <-> hb E i j.
Proof.
  unfold hbb. split; [apply reach_sound|]. intros H. apply reach_complete; [exact H|lia].
Qed.

Lemma hbb_false E i j : hbb E i j = false <-> ~ hb E i j.
Proof.
  rewrite <- hbb_spec. destruct (hbb E i j); split; intros H; try reflexivity; try discriminate.
  exfalso. apply H. reflexivity.
Qed.

Lemma hb_dec E i j : {hb E i j} + {~ hb E i j}.
Proof.
  destruct (hbb E i j) eqn:H; [left; apply hbb_spec; exact H|right; apply hbb_false; exact H].
Qed.

(** * data races *)

Definition same_loc (k1 k2 : kind) : bool :=
  match loc_of k1, loc_of k2 with Some x, Some y => x =? y | _, _ => false end.

Definition conflictingb (k1 k2 : kind) : bool :=
  same_loc k1 k2 && (is_write k1 || is_write k2) && (is_plain k1 || is_plain k2).

Lemma conflictingb_spec k1 k2 : conflictingb k1 k2 = true <-> conflicting k1 k2.
Proof.
  unfold conflictingb, conflicting, same_loc. rewrite !andb_true_iff, !orb_true_iff. split.
  - intros [[H1 H2] H3]. split; [|auto].
    destruct (loc_of k1) as [x|]; [|discriminate]. destruct (loc_of k2) as [y|]; [|discriminate].
    apply Nat.eqb_eq in H1. subst y. exists x. auto.
  - intros [[x [H1 H2]] [H3 H4]]. rewrite H1, H2, Nat.eqb_refl. auto.
Qed.

Definition race_pairb (E : exec) (i j : nat) : bool :=
  match nth_error E i, nth_error E j with
  | Some e1, Some e2 =>
      negb (e_tid e1 =? e_tid e2) && conflictingb (e_kind e1) (e_kind e2) &&
      negb (hbb E i j) && negb (hbb E j i)
  | _, _ => false
  end.

Lemma race_pairb_spec E i j : race_pairb E i j = true <-> race_pair E i j.
Proof.
  unfold race_pairb, race_pair. split.
  - destruct (nth_error E i) as [[t1 k1]|] eqn:H1; [|discriminate].
    destruct (nth_error E j) as [[t2 k2]|] eqn:H2; [|discriminate]. simpl.
    rewrite !andb_true_iff, !negb_true_iff, conflictingb_spec, !hbb_false, Nat.eqb_neq.
    intros [[[Hne Hc] Hn1] Hn2]. exists t1, t2, k1, k2. repeat split; auto; apply Hc.
  - intros (t1 & t2 & k1 & k2 & H1 & H2 & Hne & Hc & Hn1 & Hn2). unfold at_ in *. rewrite H1, H2. simpl.
    rewrite !andb_true_iff, !negb_true_iff, conflictingb_spec, !hbb_false, Nat.eqb_neq. auto.
Qed.

Definition data_raceb (E : exec) : bool :=
  existsb (fun i => existsb (fun j => race_pairb E i j) (seq 0 (length E))) (seq 0 (length E)).

Theorem data_raceb_spec E : data_raceb E = true <-> data_race E.
Proof.
  unfold data_raceb, data_race. rewrite existsb_exists. split.
  - intros (i & _ & H). apply existsb_exists in H. destruct H as (j & _ & H).
    exists i, j. apply race_pairb_spec. exact H.
  - intros (i & j & H). assert (Hi : i < length E /\ j < length E).
    { destruct H as (t1 & t2 & k1 & k2 & H1 & H2 & _). unfold at_ in *. split; apply nth_error_Some; congruence. }
    exists i. split; [apply in_seq; lia|]. apply existsb_exists. exists j. split; [apply in_seq; lia|].
    apply race_pairb_spec. exact H.
Qed.

(** * well-formedness *)

Definition lock_okb (st : mutex -> mstate) (e : event) : bool :=
  match e_kind e with
  | Lock m => match wr (st m), rd (st m) with None, [] => true | _, _ => false end
  | Unlock m => match wr (st m) with Some t => t =? e_tid e | None => false end
  | RLock m => match wr (st m) with None => true | Some _ => false end
  | RUnlock m => existsb (Nat.eqb (e_tid e)) (rd (st m))
  | _ => true
  end.

Lemma lock_okb_spec st e : lock_okb st e = true <-> lock_ok st e.
Proof.
  unfold lock_okb, lock_ok. destruct (e_kind e) as [| | | | |m|m|m|m| | |]; try tauto.
  - destruct (wr (st m)); [split; [discriminate|intros [H _]; discriminate]|].
    destruct (rd (st m)); [tauto|split; [discriminate|intros [_ H]; discriminate]].
  - destruct (wr (st m)) as [t|]; [|split; discriminate].
    rewrite Nat.eqb_eq. split; congruence.
  - destruct (wr (st m)); [split; discriminate|tauto].
  - rewrite existsb_exists. split.
    + intros (t & Hin & Heq). apply Nat.eqb_eq in Heq. subst t. exact Hin.
    + intros Hin. exists (e_tid e). split; [exact Hin|apply Nat.eqb_refl].
Qed.

Definition spawn_okb (E : exec) (i : nat) (e : event) : bool :=
  match e_kind e with
  | Spawn c =>
      negb (c =? e_tid e) &&
      all_events E (fun j e' => (negb (e_tid e' =? c) || (i <? j)) &&
                                match e_kind e' with Spawn c' => negb (c' =? c) || (j =? i) | _ => true end)
  | _ => true
  end.

Definition send_okb (E : exec) (i : nat) (e : event) : bool :=
  match e_kind e with
  | Send c n =>
      all_events E (fun j e' => match e_kind e' with
                                | Send c' n' => negb ((c' =? c) && (n' =? n)) || (j =? i)
                                | _ => true end)
  | _ => true
  end.

Definition recv_okb (E : exec) (j : nat) (e : event) : bool :=
  match e_kind e with
  | Recv c n =>
      some_event E (fun i e' => (i <? j) && match e_kind e' with
                                            | Send c' n' => (c' =? c) && (n' =? n)
                                            | _ => false end)
  | _ => true
  end.

Definition wfb (E : exec) : bool :=
  all_events E (fun i e => lock_okb (fun m => mstate_at m E i) e &&
                           spawn_okb E i e && send_okb E i e && recv_okb E i e).

Theorem wfb_sound E : wfb E = true -> wf E.
Proof.
  unfold wfb. rewrite all_events_spec. intros H. constructor.
  - intros i e Hn. specialize (H i e Hn). rewrite !andb_true_iff in H.
    apply lock_okb_spec. tauto.
  - intros i t c Hat. pose proof (H i _ Hat) as Hi. rewrite !andb_true_iff in Hi.
    destruct Hi as [[[_ Hs] _] _]. unfold spawn_okb in Hs. simpl in Hs.
    apply andb_true_iff in Hs. destruct Hs as [Hne Hall]. rewrite all_events_spec in Hall.
    split; [apply negb_true_iff, Nat.eqb_neq in Hne; exact Hne|]. split.
    + intros j t' k Hj ->. specialize (Hall j _ Hj). simpl in Hall.
      rewrite Nat.eqb_refl in Hall. simpl in Hall. apply andb_true_iff in Hall.
      destruct Hall as [Hlt _]. apply Nat.ltb_lt in Hlt. exact Hlt.
    + intros j t' Hj. specialize (Hall j _ Hj). simpl in Hall.
      rewrite Nat.eqb_refl in Hall. simpl in Hall. apply andb_true_iff in Hall.
      destruct Hall as [_ Heq]. apply Nat.eqb_eq in Heq. exact Heq.
  - intros i j t t' c n Hi Hj. pose proof (H i _ Hi) as Hok. rewrite !andb_true_iff in Hok.
    destruct Hok as [[_ Hs] _]. unfold send_okb in Hs. simpl in Hs. rewrite all_events_spec in Hs.
    specialize (Hs j _ Hj). simpl in Hs. rewrite !Nat.eqb_refl in Hs. simpl in Hs.
    apply Nat.eqb_eq in Hs. congruence.
  - intros j t c n Hj. pose proof (H j _ Hj) as Hok. rewrite !andb_true_iff in Hok.
    destruct Hok as [_ Hr]. unfold recv_okb in Hr. simpl in Hr. rewrite some_event_spec in Hr.
    destruct Hr as (i & [t' k'] & Hn & Hr). simpl in Hr. apply andb_true_iff in Hr. destruct Hr as [Hlt Hk].
    destruct k'; try discriminate. apply andb_true_iff in Hk. destruct Hk as [Hc Hn'].
    apply Nat.eqb_eq in Hc, Hn'. subst. apply Nat.ltb_lt in Hlt. exists i, t'. auto.
Qed.

(** * the guarded class, decided *)

Definition holds_wb (E : exec) (m : mutex) (t : tid) (i : nat) : bool :=
  match wr (mstate_at m E i) with Some u => u =? t | None => false end.
Definition holds_rb (E : exec) (m : mutex) (t : tid) (i : nat) : bool :=
  existsb (Nat.eqb t) (rd (mstate_at m E i)).

Lemma holds_wb_spec E m t i : holds_wb E m t i = true <-> holds_w E m t i.
Proof.
  unfold holds_wb, holds_w. destruct (wr (mstate_at m E i)) as [u|]; [|split; discriminate].
  rewrite Nat.eqb_eq. split; congruence.
Qed.

Lemma holds_rb_spec E m t i : holds_rb E m t i = true <-> holds_r E m t i.
Proof.
  unfold holds_rb, holds_r. rewrite existsb_exists. split.
  - intros (u & Hin & Heq). apply Nat.eqb_eq in Heq. subst u. exact Hin.
  - intros Hin. exists t. split; [exact Hin|apply Nat.eqb_refl].
Qed.

Definition locked_accessb (E : exec) (m : mutex) (i : nat) (t : tid) (k : kind) : bool :=
  if is_write k then holds_wb E m t i else holds_wb E m t i || holds_rb E m t i.

Lemma locked_accessb_spec E m i t k : locked_accessb E m i t k = true <-> locked_access E m i t k.
Proof.
  unfold locked_accessb, locked_access. destruct (is_write k).
  - apply holds_wb_spec.
  - rewrite orb_true_iff, holds_wb_spec, holds_rb_spec. tauto.
Qed.

Definition guardedb (E : exec) (x : loc) (m : mutex) : bool :=
  all_events E (fun i e => negb (opt_is (loc_of (e_kind e)) x) || locked_accessb E m i (e_tid e) (e_kind e)).

Theorem guardedb_spec E x m : guardedb E x m = true <-> guarded_loc E x m.
Proof.
  unfold guardedb, guarded_loc. rewrite all_events_spec. split.
  - intros H i t k Hat Hx. specialize (H i _ Hat). simpl in H.
    apply opt_is_spec in Hx. rewrite Hx in H. simpl in H. apply locked_accessb_spec. exact H.
  - intros H i [t k] Hn. simpl. destruct (opt_is (loc_of k) x) eqn:Eo; [|reflexivity]. simpl.
    apply locked_accessb_spec. apply H; [exact Hn|apply opt_is_spec; exact Eo].
Qed.

Lemma guardedb_false E x m : guardedb E x m = false -> ~ guarded_loc E x m.
Proof. intros H Hg. apply guardedb_spec in Hg. congruence. Qed.

(** * the other classes, checked against given witnesses *)

Definition publishedb (E : exec) (x : loc) (t0 : tid) (p : nat) : bool :=
  all_events E (fun j e => negb (opt_is (loc_of (e_kind e)) x) || (e_tid e =? t0) || hbb E p j).

Lemma publishedb_sound E x t0 p : publishedb E x t0 p = true -> published E x t0 p.
Proof.
  unfold publishedb, published. rewrite all_events_spec. intros H j t k Hat Hx Hne.
  specialize (H j _ Hat). simpl in H. apply opt_is_spec in Hx. rewrite Hx in H. simpl in H.
  apply Nat.eqb_neq in Hne. rewrite Hne in H. simpl in H. apply hbb_spec. exact H.
Qed.

(** creator t0, one publication event p *)
Definition atomic_checkb (E : exec) (x : loc) (t0 : tid) (p : nat) : bool :=
  all_events E (fun i e => negb (opt_is (loc_of (e_kind e)) x) || is_atomic (e_kind e) ||
                           ((e_tid e =? t0) && pob E i p && publishedb E x t0 p)).

Lemma atomic_checkb_sound E x t0 p : atomic_checkb E x t0 p = true -> atomic_loc E x.
Proof.
  unfold atomic_checkb. rewrite all_events_spec. intros H. exists t0. intros i t k Hat Hx.
  specialize (H i _ Hat). simpl in H. apply opt_is_spec in Hx. rewrite Hx in H. simpl in H.
  apply orb_true_iff in H. destruct H as [H|H]; [left; exact H|right].
  rewrite !andb_true_iff in H. destruct H as [[Ht Hpo] Hpub]. apply Nat.eqb_eq in Ht.
  split; [exact Ht|]. exists p. split; [apply pob_spec; exact Hpo|apply publishedb_sound; exact Hpub].
Qed.

Definition immutable_checkb (E : exec) (x : loc) (t0 : tid) (p : nat) : bool :=
  all_events E (fun i e => negb (opt_is (loc_of (e_kind e)) x) || negb (is_write (e_kind e)) ||
                           ((e_tid e =? t0) && pob E i p && publishedb E x t0 p)).

Lemma immutable_checkb_sound E x t0 p : immutable_checkb E x t0 p = true -> immutable_loc E x.
Proof.
  unfold immutable_checkb. rewrite all_events_spec. intros H. exists t0. intros i t k Hat Hx Hw.
  specialize (H i _ Hat). simpl in H. apply opt_is_spec in Hx. rewrite Hx, Hw in H. simpl in H.
  rewrite !andb_true_iff in H. destruct H as [[Ht Hpo] Hpub]. apply Nat.eqb_eq in Ht.
  split; [exact Ht|]. exists p. split; [apply pob_spec; exact Hpo|apply publishedb_sound; exact Hpub].
Qed.

Definition period_okb (E : exec) (p : period) : bool :=
  (p_acq p <=? p_rel p) &&
  match nth_error E (p_acq p), nth_error E (p_rel p) with
  | Some e1, Some e2 => (e_tid e1 =? p_owner p) && (e_tid e2 =? p_owner p)
  | _, _ => false
  end.

Fixpoint handoverb (E : exec) (ps : list period) : bool :=
  match ps with
  | p :: ((q :: _) as r) => hbb E (p_rel p) (p_acq q) && handoverb E r
  | _ => true
  end.

Definition owned_checkb (E : exec) (x : loc) (ps : list period) : bool :=
  forallb (period_okb E) ps && handoverb E ps &&
  all_events E (fun i e => negb (opt_is (loc_of (e_kind e)) x) ||
     existsb (fun p => (p_owner p =? e_tid e) && (p_acq p <=? i) && (i <=? p_rel p)) ps).

Lemma handoverb_sound E ps : handoverb E ps = true ->
  forall n p q, nth_error ps n = Some p -> nth_error ps (S n) = Some q -> hb E (p_rel p) (p_acq q).
Proof.
  induction ps as [|a ps IH]; intros H n p q Hp Hq; [destruct n; discriminate|].
  destruct ps as [|b ps]; [destruct n; simpl in Hq; [discriminate|destruct n; discriminate]|].
  simpl in H. apply andb_true_iff in H. destruct H as [H1 H2].
  destruct n as [|n].
  - simpl in Hp, Hq. inversion Hp. inversion Hq. subst. apply hbb_spec. exact H1.
  - apply (IH H2 n p q); assumption.
Qed.

Lemma owned_checkb_sound E x ps : owned_checkb E x ps = true -> owned_loc E x.
Proof.
  unfold owned_checkb. rewrite !andb_true_iff, all_events_spec, forallb_forall.
  intros [[Hper Hhand] Hacc]. exists ps. split; [|split].
  - intros n p Hn. specialize (Hper p (nth_error_In _ _ Hn)). unfold period_okb in Hper.
    apply andb_true_iff in Hper. destruct Hper as [Hle Hev]. apply Nat.leb_le in Hle. split; [exact Hle|].
    destruct (nth_error E (p_acq p)) as [[t1 k1]|] eqn:H1; [|discriminate].
    destruct (nth_error E (p_rel p)) as [[t2 k2]|] eqn:H2; [|discriminate].
    simpl in Hev. apply andb_true_iff in Hev. destruct Hev as [Ha Hb]. apply Nat.eqb_eq in Ha, Hb. subst.
    exists k1, k2. unfold at_. auto.
  - apply handoverb_sound. exact Hhand.
  - intros i t k Hat Hx. specialize (Hacc i _ Hat). simpl in Hacc. apply opt_is_spec in Hx.
    rewrite Hx in Hacc. simpl in Hacc. apply existsb_exists in Hacc. destruct Hacc as (p & Hin & Hp).
    rewrite !andb_true_iff in Hp. destruct Hp as [[Ho Ha] Hr].
    apply Nat.eqb_eq in Ho. apply Nat.leb_le in Ha, Hr.
    apply In_nth_error in Hin. destruct Hin as [n Hn]. exists n, p. auto.
Qed.

(** * the whole discipline, checked against a table of witnesses *)

Inductive witness :=
| WAtomic (t0 : tid) (p : nat)        (* creator and publication event *)
| WGuarded (m : mutex)
| WImmutable (t0 : tid) (p : nat)
| WOwned (ps : list period).

Definition check_loc (E : exec) (x : loc) (w : witness) : bool :=
  match w with
  | WAtomic t0 p => atomic_checkb E x t0 p
  | WGuarded m => guardedb E x m
  | WImmutable t0 p => immutable_checkb E x t0 p
  | WOwned ps => owned_checkb E x ps
  end.

Definition class_of_witness (w : witness) : lclass :=
  match w with
  | WAtomic _ _ => LAtomic
  | WGuarded m => LGuarded m
  | WImmutable _ _ => LImmutable
  | WOwned _ => LOwned
  end.

Lemma check_loc_sound E x w : check_loc E x w = true -> obeys_class E x (class_of_witness w).
Proof.
  destruct w; simpl; intros H.
  - eapply atomic_checkb_sound; eauto.
  - apply guardedb_spec; exact H.
  - eapply immutable_checkb_sound; eauto.
  - eapply owned_checkb_sound; eauto.
Qed.

Definition disciplinedb (E : exec) (f : loc -> witness) : bool :=
  all_events E (fun _ e => match loc_of (e_kind e) with Some x => check_loc E x (f x) | None => true end).

Lemma disciplinedb_sound E f : disciplinedb E f = true -> disciplined E.
Proof.
  unfold disciplinedb. rewrite all_events_spec. intros H x (i & t & k & Hat & Hx).
  specialize (H i _ Hat). simpl in H. rewrite Hx in H.
  exists (class_of_witness (f x)). apply check_loc_sound. exact H.
Qed.

(** the theorem, in executable form *)
Corollary checked_discipline_no_race E f :
  wfb E = true -> disciplinedb E f = true -> data_raceb E = false.
Proof.
  intros Hwf Hd. destruct (data_raceb E) eqn:Hr; [|reflexivity].
  exfalso. apply data_raceb_spec in Hr. revert Hr.
  apply discipline_implies_drf; [apply wfb_sound; exact Hwf|eapply disciplinedb_sound; exact Hd].
Qed.
