(** Non-vacuity audit of the POOL property theorems
    (Properties/C04.v, C08.v, C11.v, C11Expand.v, C12.v, C17.v).

    Every theorem below is instantiated LITERALLY (all arguments explicit) on a concrete run of the
    pool model with at least two client threads + worker goroutines; every premise is discharged
    by computation ([vm_compute], [reflexivity], [lia]).  The examples named [<Theorem>_nonvacuous]
    are the instantiated theorems (their type is the instantiated conclusion; the premises are the
    examples passed as arguments); the examples named [..._values] state what the conclusion / the run
    evaluates to; further suffixes are additional instances (other disjunct / other scenario).

    Runs used (all with nw >= 1 fixed workers except the reused [ex_cfg])
    - R1  (1 fixed worker, no expansion, oracle [0;2]): clients [Do 1; Await 1] [TryDo 2; Await 2] [Stop] [Do 3; Await 3].
          Stop wins the CAS and cancels the pool context while TryDo(2) already holds the read lock; the
          oracle makes TryDo's select take the send branch although the pool context is done: task 2 is
          ACCEPTED after the cancellation, Stop closes the queue, the worker drains the closed queue and
          executes task 2; Do(3) is blocked at RLock while Stop is at XClose, then refused (closed flag).
    - S2  (1 fixed worker, limit 1): [Do 1 gate1; Do 2; Do 3] [Stop] [OpenGate 1]: the pool expands; Stop is
          called while the fixed worker is busy (closed gate) and the expanded worker idle with its timer armed.
    - R3  submissions that start after Stop has returned (Do + TryDo, interleaved).
    - R4  saturation: worker busy at a closed gate, queue slot taken; TryDo returns false, Do(ctx 1) blocks and is
          released by Cancel 1; Await while a gate is open.
    - R5  two racing Stop calls (never-started pool), a Do still in progress.
    - R6  never-started pool: TryDo refused by saturation, Stop's drain loop holds the queued task.
    - R7  DisableAutoStart: a Do before Start, two racing Start calls, then Stop.
    - x1, cap_final 2 2 (Pool/PoolExpandExamples.v), ex_cfg (Pool/PoolExamples.v);
      x3 = scenario x2 of PoolExpandExamples.v ("refused below the cap", exit of an expanded worker on a timer
      fired by the environment) with one fixed worker kept busy by a gated task (x2 itself has nw = 0).

    theorem                                        -> example(s)                                                  [run]
    ------------------------------------------------------------------------------------------------------------------
    C04_exactly_once_one_result                    -> C04_exactly_once_one_result_nonvacuous (+ _values)          [R1, mid-race]
    C04_never_faults                               -> C04_never_faults_nonvacuous (+ _values)                     [R1]
    C04_One_result_per_task                        -> C04_One_result_per_task_nonvacuous, .._canceled             [R1]
    C04_Accepted_task_has_owner                    -> C04_Accepted_task_has_owner_nonvacuous (+ _values; in the queue while
                                                      Stop is closing, R1), .._worker (R4), .._drain (R6)
    C08_draining_is_past_the_wait                  -> C08_draining_is_past_the_wait_nonvacuous [S2], .._drainsend [R6]
    C08_stop_leaves_no_goroutine                   -> C08_stop_leaves_no_goroutine_nonvacuous (+ _values)         [S2]
    C08_wait_group_counts_live_goroutines          -> C08_wait_group_counts_live_goroutines_nonvacuous (+ _values) [S2]
    C08_timer_owned                                -> C08_timer_owned_nonvacuous (+ _values) [S2], .._stoptimer   [ex_cfg]
    C08_Stop_returned_no_work_left                 -> C08_Stop_returned_no_work_left_nonvacuous (+ _accepted, _values) [R1],
                                                      .._s2 [S2], .._r5 [R5]
    C08_Stop_done_when_no_Stop_in_progress         -> C08_Stop_done_when_no_Stop_in_progress_nonvacuous (+ r5_early) [R5]
    C08_Stop_done_single_Stop                      -> C08_Stop_done_single_Stop_nonvacuous [R1], .._s2 [S2], r3_stop_done [R3]
    C08_Stop_done_is_stable                        -> C08_Stop_done_is_stable_nonvacuous                          [R1]
    C08_Submission_after_Stop_refused              -> C08_Submission_after_Stop_refused_nonvacuous (+ _try, _values) [R3]
    C08_Timer_drain_never_reached                  -> C08_Timer_drain_never_reached_nonvacuous (only premise: clients_ok) [S2]
    C11_parallelism_capped                         -> C11_parallelism_capped_nonvacuous (+ _values: count = cap)  [cap_final 2 2]
    C11_capped_threads                             -> C11_capped_threads_nonvacuous                               [cap_final 2 2]
    C11_expanded_accounting                        -> C11_expanded_accounting_nonvacuous (+ _values)              [x3]
    C11_fixed_workers_bounded                      -> C11_fixed_workers_bounded_nonvacuous (+ _values)            [R7]
    C11_addexp_step                                -> C11_addexp_step_nonvacuous (refused) [x3], .._granted [x1]
    C11_wgadd_step                                 -> C11_wgadd_step_nonvacuous                                   [x1]
    C11_subsub_step                                -> C11_subsub_step_nonvacuous                                  [x3]
    C11_cap_not_undershot                          -> C11_cap_not_undershot_nonvacuous (+ _refused_below_cap, _values) [x3],
                                                      .._granted [x1]
    C11_cap_not_undershot_select                   -> C11_cap_not_undershot_select_nonvacuous (+ _values)         [x1]
    C11_grant_iff_room                             -> C11_grant_iff_room_nonvacuous (+ _values)                   [x3]
    C11_exit_dec_step                              -> C11_exit_dec_step_nonvacuous                                [x3]
    C11_exit_done_step                             -> C11_exit_done_step_nonvacuous                               [x3]
    C11_exit_entry                                 -> C11_exit_entry_nonvacuous (timer) [x3], .._closed (queue closed by Stop) [S2]
    C11_exited_timer_stays_stopped                 -> C11_exited_timer_stays_stopped_nonvacuous                   [x3]
    C11_fired_by_environment                       -> C11_fired_by_environment_nonvacuous                         [x3]
    C11_timer_exit_was_fired                       -> C11_timer_exit_was_fired_nonvacuous                         [x3]
    C11_expanded_exit_accounting                   -> C11_expanded_exit_accounting_nonvacuous (+ _values)         [x3]
    C11_reservation_balance                        -> C11_reservation_balance_nonvacuous (+ _values)              [x3]
    C11_reservation_balance_from                   -> C11_reservation_balance_from_nonvacuous (+ _values: granted again) [x3]
    C11_idle_expanded_worker_can_expire            -> C11_idle_expanded_worker_can_expire_nonvacuous (+ _fired, _not_fired, _values) [x3]
    C11_expansion_is_granted                       -> C11_expansion_is_granted_nonvacuous (granted) [x1],
                                                      .._refused (+ _values; 14 steps of other threads in between) [x3]
    C11_push_after_decision                        -> C11_push_after_decision_nonvacuous                          [x1]
    C11_exit_order                                 -> C11_exit_order_nonvacuous                                   [x3]
    C11_cap_reachable                              -> C11_cap_reachable_nonvacuous (nw = 2, lim = 2)
    C11_cap_reached_by                             -> C11_cap_reached_by_nonvacuous (nw = 2, lim = 2)
    C12_never_panics                               -> C12_never_panics_nonvacuous                                 [R1]
    C12_one_token_one_result                       -> C12_one_token_one_result_nonvacuous                         [R1]
    C12_state_monotone                             -> C12_state_monotone_nonvacuous (+ _values: 0, 1, 2)          [R7]
    C12_Accepted_task_has_owner                    -> C12_Accepted_task_has_owner_nonvacuous                      [R1]
    C12_One_result_per_task                        -> C12_One_result_per_task_nonvacuous                          [R1]
    C12_Submission_after_Stop_refused              -> C12_Submission_after_Stop_refused_nonvacuous                [R3]
    C12_Await_not_deadlocked                       -> C12_Await_not_deadlocked_nonvacuous (+ _values) [R4], .._stopping [R1]
    C17_try_never_blocks                           -> C17_try_never_blocks_nonvacuous (+ _values; saturated) [R4], .._race (+ _values) [R1]
    C17_rlock_blocked_only_by_stop                 -> C17_rlock_blocked_only_by_stop_nonvacuous (+ _values)       [R1]
    C17_stop_critical_section_never_blocks         -> unconditional (forall nw lim s0); C17_stop_critical_section_never_blocks_nonvacuous
    C17_single_queue_slot                          -> C17_single_queue_slot_nonvacuous (+ _values: queue full)    [R4]
    C17_Do_select_enabled_when_cancelled           -> C17_Do_select_enabled_when_cancelled_nonvacuous (+ _values; blocked),
                                                      .._released (+ _values; after Cancel)                       [R4]
    C17_Cancelled_submission_delivers              -> C17_Cancelled_submission_delivers_nonvacuous (+ _values)    [R4]

    Audit observations checked by computation: audit_rlock_ignores_pending_writer, audit_accepted_includes_refused_do,
    audit_saturated_trydo (end of file). *)
From Coq Require Import List Arith Bool ZArith Lia.
From Garr Require Import Conc.Conc Pure.F64 Queue.MutexModel Pool.PoolModel Pool.PoolBase Pool.PoolInv1 Pool.PoolTok
  Pool.PoolStop Pool.PoolStopMain Pool.PoolWg Pool.PoolCap Pool.PoolMain Pool.PoolStopDone Pool.PoolAcct Pool.PoolHist
  Pool.PoolAfterStop Pool.PoolStopCount Pool.PoolLateSubmit Pool.PoolSelect Pool.PoolTimers Pool.PoolLive Pool.PoolProgress
  Pool.PoolFacts Pool.PoolExpand Pool.PoolExpandLog Pool.PoolExamples Pool.PoolExpandExamples Pool.PoolCapReach.
From Garr Require Import Properties.C04 Properties.C08 Properties.C11 Properties.C11Expand Properties.C12 Properties.C17.
Import ListNotations.

(** ** Small helpers (reading a concrete configuration / trace) *)
Lemma accepted_at (tr : list pevent) k i o r x :
  nth_error tr k = Some (ERet i o r) -> sub_id o = Some x -> acc_ret r = true -> accepted x tr.
Proof. intros H1 H2 H3. exists i, o, r. split; [eapply nth_error_In; exact H1|auto]. Qed.

Lemma returned_at (tr : list pevent) k i o r x :
  nth_error tr k = Some (ERet i o r) -> sub_id o = Some x -> returned x tr.
Proof. intros H1 H2. exists i, o, r. split; [eapply nth_error_In; exact H1|auto]. Qed.

Lemma stop_returned_at (tr : list pevent) k i r : nth_error tr k = Some (ERet i Stop r) -> stop_returned tr.
Proof. intros H. exists i, r. eapply nth_error_In; exact H. Qed.

Lemma pcs_at_pc c i l : at_pc c i l -> nth_error (pcs c) i = Some (Some l).
Proof. intros (th & o & Hn & Hc). unfold pcs. rewrite nth_error_map, Hn. simpl. rewrite Hc. reflexivity. Qed.

(* no executor waits at a closed gate: read off the list of program counters *)
Definition gate_check (c : pconfig) (o : option ppc) : bool :=
  match o with
  | Some (EGate _ y) => match get_task (c_sh c) y with Some t => gate_open (c_sh c) (tk_gate t) | None => true end
  | _ => true
  end.
Lemma gates_ok_check c : forallb (gate_check c) (pcs c) = true -> gates_ok c.
Proof.
  intros H j tm y t Hat Hg. apply pcs_at_pc in Hat. apply nth_error_In in Hat.
  rewrite forallb_forall in H. specialize (H _ Hat). simpl in H. rewrite Hg in H. exact H.
Qed.

(* no thread is inside a Stop call *)
Definition not_in_stop (th : pthread) : bool :=
  match t_cur th with Some (Stop, _) => false | _ => true end.
Lemma no_stop_in_progress_check (c : pconfig) :
  forallb not_in_stop (c_thr c) = true ->
  forall i th o l, nth_error (c_thr c) i = Some th -> t_cur th = Some (o, l) -> o <> Stop.
Proof.
  intros H i th o l Hn Hc Ho. rewrite forallb_forall in H. specialize (H th (nth_error_In _ _ Hn)).
  unfold not_in_stop in H. rewrite Hc, Ho in H. discriminate H.
Qed.

Local Ltac cok := clients_ok_tac.
Local Ltac vmr := vm_compute; reflexivity.
Local Ltac atpc := apply at_pc_pcs; vm_compute; reflexivity.

(** * R1: Stop races with TryDo(2); Do(3) arrives while Stop holds the write lock *)
Definition r1_clients := [[Do 1 0 0; Await 1]; [TryDo 2 0 0; Await 2]; [Stop]; [Do 3 0 0; Await 3]].
Notation r1_cfg := (pool_cfg 1 true [0;2] r1_clients 3).
Notation fr1 := (final (pool 1 0) r1_cfg).
Notation tr1 := (trace (pool 1 0) r1_cfg).
(* Do(1) returns, the worker (thread 4) executes task 1, Await(1); TryDo(2) takes the read lock and is at its
   select; Stop: CAS 1->2, cancels the pool context, is blocked at mu.Lock() by the reader *)
Definition r1_a := [0;0;0;0; 4;4;4;4; 0;0; 1;1; 2;2;2;2].
(* the select of TryDo(2) takes the SEND branch (oracle), RUnlock: TryDo returns true - after the cancellation *)
Definition r1_b := r1_a ++ [1;1].
(* Stop takes the write lock (now at XClose); Do(3) is invoked and stands in front of RLock *)
Definition r1_c := r1_b ++ [2; 3].
(* Do(3) blocked (no-op); Stop closes, unlocks, is at wg.Wait(); Do(3) gets the read lock, sees p.closed *)
Definition r1_d := r1_c ++ [3; 2;2; 3].
Definition r1_e := r1_d ++ [2; 4;4;4].        (* Wait blocked; the worker takes task 2 from the CLOSED queue, runs it *)
Definition r1_f := r1_e ++ [4;4;4; 2].        (* worker: result, sees closed+empty, wg.Done(); Stop passes the Wait *)
Definition r1_g := r1_f ++ [2; 3;3; 1;1].     (* Stop returns; Do(3) refused; Await(2) = TVal 2 *)
Definition r1_h := r1_g ++ [3;3].             (* Await(3) = TCanceled *)

Example r1_ok : clients_ok r1_clients. Proof. cok. Qed.

Example r1_story :
  pcs (fr1 r1_a) = [None; Some (SubTryDoSel 2); Some XLock; None; Some WRecv; None; None] /\
  p_poolctx (c_sh (fr1 r1_a)) = true /\ p_state (c_sh (fr1 r1_a)) = 2 /\
  pcs (fr1 r1_b) = [None; None; Some XLock; None; Some WRecv; None; None] /\ p_queue (c_sh (fr1 r1_b)) = [2] /\
  pcs (fr1 r1_c) = [None; None; Some XClose; Some (SubRLock false 3); Some WRecv; None; None] /\
  pcs (fr1 r1_d) = [None; None; Some XWait; Some (SubClosedFut false 3); Some WRecv; None; None] /\
  pcs (fr1 r1_e) = [None; None; Some XWait; Some (SubClosedFut false 3); Some (EFut 0 2); None; None] /\
  pcs (fr1 r1_f) = [None; None; Some XDrainRecv; Some (SubClosedFut false 3); None; None; None] /\
  tr1 r1_h =
    [EInv 0 (Do 1 0 0); ERet 0 (Do 1 0 0) PU; EInv 4 (Slot 0); EInv 0 (Await 1); ERet 0 (Await 1) (PRes (TVal 1));
     EInv 1 (TryDo 2 0 0); EInv 2 Stop; ERet 1 (TryDo 2 0 0) (PB true); EInv 3 (Do 3 0 0); ERet 4 (Slot 0) PU;
     ERet 2 Stop PU; ERet 3 (Do 3 0 0) PU; EInv 1 (Await 2); ERet 1 (Await 2) (PRes (TVal 2)); EInv 3 (Await 3);
     ERet 3 (Await 3) (PRes TCanceled)].
Proof. repeat split; vm_compute; reflexivity. Qed.

(** C04 / C12 / C17: the token accounting, in the middle of the race (task 2 accepted and queued, Stop at XClose,
    Do(3) in front of the read lock) *)
Example C04_exactly_once_one_result_nonvacuous :=
  C04_exactly_once_one_result 1 0%Z true [0;2] r1_clients 3 r1_c r1_ok.
Example C12_one_token_one_result_nonvacuous :=
  C12_one_token_one_result 1 0%Z true [0;2] r1_clients 3 r1_c r1_ok.
Example C04_exactly_once_one_result_values :
  let c := fr1 r1_c in
  tokens (c_sh c) (aths c) 1 = 0 /\ tokens (c_sh c) (aths c) 2 = 1 /\ tokens (c_sh c) (aths c) 3 = 1 /\
  cnt (p_queue (c_sh c)) 2 = 1 /\ H0 3 (aths c) = 1 /\
  get_task (c_sh c) 1 = Some (Task 0 0 [] 1) /\ get_task (c_sh c) 2 = Some (Task 0 0 [] 0) /\
  (let c' := fr1 r1_e in H1 2 (aths c') = 1 /\ get_task (c_sh c') 2 = Some (Task 0 0 [] 1)) /\
  (let c' := fr1 r1_f in get_task (c_sh c') 2 = Some (Task 0 0 [TVal 2] 1) /\ tokens (c_sh c') (aths c') 2 = 1).
Proof. vm_compute. repeat split; reflexivity. Qed.

Example C04_never_faults_nonvacuous : forall th, nth_error (c_thr (fr1 r1_c)) 3 = Some th -> t_dead th = false :=
  fun th H => C04_never_faults 1 0%Z true [0;2] r1_clients 3 r1_c r1_ok th (nth_error_In _ 3 H).
Example C12_never_panics_nonvacuous : forall th, nth_error (c_thr (fr1 r1_c)) 2 = Some th -> t_dead th = false :=
  fun th H => C12_never_panics 1 0%Z true [0;2] r1_clients 3 r1_c r1_ok th (nth_error_In _ 2 H).
Example C04_never_faults_values :
  nth_error (c_thr (fr1 r1_c)) 3 = Some (Thread [Await 3] tt (Some (Do 3 0 0, SubRLock false 3)) false) /\
  nth_error (c_thr (fr1 r1_c)) 2 = Some (Thread [] tt (Some (Stop, XClose)) false) /\
  map (fun th : pthread => t_dead th) (c_thr (fr1 r1_h)) = [false; false; false; false; false; false; false].
Proof. vm_compute. repeat split; reflexivity. Qed.

(** one result per task: task 2 (accepted in the race) got TVal 2, received by Await; task 3 got TCanceled *)
Example r1_results :
  results (fr1 r1_h) (tr1 r1_h) 2 = [TVal 2] /\ results (fr1 r1_h) (tr1 r1_h) 3 = [TCanceled] /\
  results (fr1 r1_f) (tr1 r1_f) 2 = [TVal 2] /\ recvd 2 (tr1 r1_f) = [] /\ recvd 2 (tr1 r1_h) = [TVal 2].
Proof. vm_compute. repeat split; reflexivity. Qed.

Example C04_One_result_per_task_nonvacuous :
  exists t, get_task (c_sh (fr1 r1_h)) 2 = Some t /\ res_ok 2 (tk_execs t) (TVal 2) /\ tk_execs t <= 1.
Proof.
  apply (proj2 (C04_One_result_per_task 1 0%Z true [0;2] r1_clients 3 r1_ok r1_h 2) (TVal 2)).
  vm_compute. left; reflexivity.
Qed.
Example C04_One_result_per_task_canceled :
  exists t, get_task (c_sh (fr1 r1_h)) 3 = Some t /\ res_ok 3 (tk_execs t) TCanceled /\ tk_execs t <= 1.
Proof.
  apply (proj2 (C04_One_result_per_task 1 0%Z true [0;2] r1_clients 3 r1_ok r1_h 3) TCanceled).
  vm_compute. left; reflexivity.
Qed.
Example C12_One_result_per_task_nonvacuous :
  exists t, get_task (c_sh (fr1 r1_h)) 2 = Some t /\ res_ok 2 (tk_execs t) (TVal 2) /\ tk_execs t <= 1.
Proof.
  apply (proj2 (C12_One_result_per_task 1 0%Z true [0;2] r1_clients 3 r1_ok r1_h 2) (TVal 2)).
  vm_compute. left; reflexivity.
Qed.

(** an accepted task has an owner: task 2 is accepted (TryDo returned true) and sits in the queue while Stop
    holds the write lock and is about to close the queue *)
Example r1_c_accepted : accepted 2 (tr1 r1_c).
Proof. apply (accepted_at _ 7 1 (TryDo 2 0 0) (PB true)); vm_compute; reflexivity. Qed.
Example C04_Accepted_task_has_owner_nonvacuous :=
  C04_Accepted_task_has_owner 1 0%Z true [0;2] r1_clients 3 r1_ok r1_c 2 r1_c_accepted.
Example C12_Accepted_task_has_owner_nonvacuous :=
  C12_Accepted_task_has_owner 1 0%Z true [0;2] r1_clients 3 r1_ok r1_c 2 r1_c_accepted.
Example C04_Accepted_task_has_owner_values :
  let c := fr1 r1_c in
  cnt (p_queue (c_sh c)) 2 = 1 /\ Hwk 2 (aths c) = 0 /\ Hdr 2 (aths c) = 0 /\ results c (tr1 r1_c) 2 = [] /\
  at_pc c 2 XClose /\
  (* later the worker holds it *)
  (let c' := fr1 r1_e in cnt (p_queue (c_sh c')) 2 = 0 /\ Hwk 2 (aths c') = 1 /\ results c' (tr1 r1_e) 2 = []).
Proof. cbv zeta. repeat split; try atpc; vm_compute; reflexivity. Qed.

(** * C17 on R1: the race *)
(* TryDo(2) at its select while the pool context is already cancelled and Stop waits for the lock: not blocked *)
Example r1_a_at : at_pc (fr1 r1_a) 1 (SubTryDoSel 2). Proof. atpc. Qed.
Example C17_try_never_blocks_race :=
  C17_try_never_blocks 1 0%Z true [0;2] r1_clients 3 r1_a r1_ok 1 (SubTryDoSel 2) r1_a_at eq_refl.
Example C17_try_never_blocks_race_values :
  exists s', pstep 1 0 (SubTryDoSel 2) (c_sh (fr1 r1_a)) = Next (SubRUnlock (KTry true)) s' /\ p_queue s' = [2].
Proof. eexists. split; vm_compute; reflexivity. Qed.

(* Do(3) in front of RLock, refused the lock: Stop is inside its critical section (at XClose) *)
Example r1_c_at : at_pc (fr1 r1_c) 3 (SubRLock false 3). Proof. atpc. Qed.
Example r1_c_blocked : pstep 1 0 (SubRLock false 3) (c_sh (fr1 r1_c)) = Blocked. Proof. vmr. Qed.
Example C17_rlock_blocked_only_by_stop_nonvacuous :=
  C17_rlock_blocked_only_by_stop 1 0%Z true [0;2] r1_clients 3 r1_c r1_ok 3 false 3 r1_c_at r1_c_blocked.
Example C17_rlock_blocked_only_by_stop_values : at_pc (fr1 r1_c) 2 XClose. Proof. atpc. Qed.
Example C17_stop_critical_section_never_blocks_nonvacuous := C17_stop_critical_section_never_blocks 1 0%Z (c_sh (fr1 r1_c)).

(** * C08 on R1: Stop has returned *)
Example r1_g_stop_returned : stop_returned (tr1 r1_g).
Proof. apply (stop_returned_at _ 10 2 PU). vmr. Qed.
Example r1_single_stop : cstop (concat r1_clients) <= 1. Proof. vm_compute. lia. Qed.
Example C08_Stop_done_single_Stop_nonvacuous : stop_done (fr1 r1_g) :=
  C08_Stop_done_single_Stop 1 0%Z true [0;2] r1_clients 3 r1_ok r1_g r1_single_stop r1_g_stop_returned.
Example C08_Stop_returned_no_work_left_nonvacuous :=
  C08_Stop_returned_no_work_left 1 0%Z true [0;2] r1_clients 3 r1_ok r1_g C08_Stop_done_single_Stop_nonvacuous.
(* the last clause of the conclusion, for the task accepted in the race and for the refused one *)
Example r1_g_accepted2 : accepted 2 (tr1 r1_g).
Proof. apply (accepted_at _ 7 1 (TryDo 2 0 0) (PB true)); vmr. Qed.
Example r1_g_accepted3 : accepted 3 (tr1 r1_g).      (* Do returned: "accepted" in the vocabulary, result = TCanceled *)
Proof. apply (accepted_at _ 11 3 (Do 3 0 0) PU); vmr. Qed.
Example C08_Stop_returned_no_work_left_accepted :
  (exists t r, get_task (c_sh (fr1 r1_g)) 2 = Some t /\ results (fr1 r1_g) (tr1 r1_g) 2 = [r] /\ res_ok 2 (tk_execs t) r /\ tk_execs t <= 1) /\
  (exists t r, get_task (c_sh (fr1 r1_g)) 3 = Some t /\ results (fr1 r1_g) (tr1 r1_g) 3 = [r] /\ res_ok 3 (tk_execs t) r /\ tk_execs t <= 1).
Proof.
  pose proof C08_Stop_returned_no_work_left_nonvacuous as H. cbv zeta in H.
  destruct H as (_ & _ & _ & _ & _ & _ & _ & _ & _ & H). split; apply H; [exact r1_g_accepted2|exact r1_g_accepted3].
Qed.
Example C08_Stop_returned_no_work_left_values :
  results (fr1 r1_g) (tr1 r1_g) 2 = [TVal 2] /\ results (fr1 r1_g) (tr1 r1_g) 3 = [TCanceled] /\
  get_task (c_sh (fr1 r1_g)) 2 = Some (Task 0 0 [] 1) /\ get_task (c_sh (fr1 r1_g)) 3 = Some (Task 0 0 [TCanceled] 0).
Proof. vm_compute. repeat split; reflexivity. Qed.
(* stable: the remaining Await steps *)
Example C08_Stop_done_is_stable_nonvacuous : stop_done (final (pool 1 0) (fr1 r1_g) [3;3]) :=
  C08_Stop_done_is_stable 1 0%Z true [0;2] r1_clients 3 r1_ok r1_g [3;3] C08_Stop_done_single_Stop_nonvacuous.

(** * S2: expansion, then Stop while the fixed worker is busy and the expanded worker idle (timer armed) *)
Definition s2_clients := [[Do 1 0 1; Do 2 0 0; Do 3 0 0]; [Stop]; [OpenGate 1]].
Notation s2_cfg := (pool_cfg 1 true [] s2_clients 4).
Notation fs2 := (final (pool 1 1) s2_cfg).
Notation ts2 := (trace (pool 1 1) s2_cfg).
(* Do(1): the fixed worker (thread 3) takes it and waits at gate 1; Do(2) queued; Do(3): queue full, expansion granted,
   the expanded worker (thread 4) runs task 2, Do(3) pushes, thread 4 runs task 3, re-arms its timer, idle *)
Definition s2_a := [0;0;0;0; 3;3; 0;0;0;0; 0;0;0;0;0; 4;4;4;4;4;4;4; 0;0; 4;4;4;4;4;4].
Definition s2_b := s2_a ++ [1;1;1;1;1;1;1].          (* Stop: CAS, cancel, lock, close, unlock, Wait (blocked, wg = 2) *)
Definition s2_c := s2_b ++ [4;4].                     (* expanded worker: select sees "closed", stops its timer: at XExitDec *)
Definition s2_d := s2_c ++ [4;4; 2;2; 3;3;3;3;3].     (* it exits; gate 1 opened; fixed worker ends task 1, sees closed, Done *)
Definition s2_e := s2_d ++ [1].                       (* Stop passes the Wait: at XDrainRecv *)
Definition s2_f := s2_e ++ [1].                       (* Stop returns *)
Example s2_ok : clients_ok s2_clients. Proof. cok. Qed.
Example s2_slots : 1 + cntdo (concat s2_clients) <= 4. Proof. vm_compute. lia. Qed.
Example s2_story :
  pcs (fs2 s2_a) = [None; None; None; Some (EGate 0 1); Some (XSelect 1); None; None] /\
  p_timers (c_sh (fs2 s2_a)) = [Timer true false] /\ p_spawned (c_sh (fs2 s2_a)) = [RWorker; RExpanded] /\
  pcs (fs2 s2_b) = [None; Some XWait; None; Some (EGate 0 1); Some (XSelect 1); None; None] /\ p_wg (c_sh (fs2 s2_b)) = 2 /\
  pcs (fs2 (s2_b ++ [4])) = [None; Some XWait; None; Some (EGate 0 1); Some (XStopTimer 1 None); None; None] /\
  pcs (fs2 s2_c) = [None; Some XWait; None; Some (EGate 0 1); Some XExitDec; None; None] /\
  pcs (fs2 s2_d) = [None; Some XWait; None; None; None; None; None] /\
  pcs (fs2 s2_e) = [None; Some XDrainRecv; None; None; None; None; None] /\
  ts2 s2_f = [EInv 0 (Do 1 0 1); ERet 0 (Do 1 0 1) PU; EInv 3 (Slot 0); EInv 0 (Do 2 0 0); ERet 0 (Do 2 0 0) PU;
              EInv 0 (Do 3 0 0); EInv 4 (Slot 1); ERet 0 (Do 3 0 0) PU; EInv 1 Stop; ERet 4 (Slot 1) PU;
              EInv 2 (OpenGate 1); ERet 2 (OpenGate 1) PU; ERet 3 (Slot 0) PU; ERet 1 Stop PU].
Proof. repeat split; vm_compute; reflexivity. Qed.

(* Stop at XDrainRecv (not yet returned): it is past the Wait *)
Example s2_e_at : at_pc (fs2 s2_e) 1 XDrainRecv. Proof. atpc. Qed.
Example C08_draining_is_past_the_wait_nonvacuous : drained (c_sh (fs2 s2_e)) (aths (fs2 s2_e)) :=
  C08_draining_is_past_the_wait 1 1%Z true [] s2_clients 4 s2_e s2_ok 1 XDrainRecv s2_e_at eq_refl.
Example C08_stop_leaves_no_goroutine_nonvacuous :=
  C08_stop_leaves_no_goroutine 1 1%Z true [] s2_clients 4 s2_e s2_ok C08_draining_is_past_the_wait_nonvacuous.
Example C08_stop_leaves_no_goroutine_values :
  let c := fs2 s2_e in
  p_wg (c_sh c) = 0 /\ p_spawned (c_sh c) = [RWorker; RExpanded] /\ p_timers (c_sh c) = [Timer false false] /\
  nth_error (c_thr c) 3 = Some (Thread [] tt None false) /\ nth_error (c_thr c) 4 = Some (Thread [] tt None false) /\
  (* ... while at s2_b, Stop waiting, the hypothesis [drained] does NOT hold (wg = 2, both goroutines alive) *)
  cntp is_wt (aths (fs2 s2_b)) = 1 /\ p_wg (c_sh (fs2 s2_b)) = 2.
Proof. vm_compute. repeat split; reflexivity. Qed.

(* the wait group counts the live goroutines: while Stop waits, fixed worker busy + expanded worker idle = 2 *)
Example C08_wait_group_counts_live_goroutines_nonvacuous :=
  C08_wait_group_counts_live_goroutines 1 1%Z true [] s2_clients 4 s2_b s2_ok s2_slots.
Example C08_wait_group_counts_live_goroutines_values :
  p_wg (c_sh (fs2 s2_b)) = 2 /\
  length (filter unfinished (firstn (length (p_spawned (c_sh (fs2 s2_b)))) (skipn (length s2_clients) (c_thr (fs2 s2_b))))) = 2 /\
  p_wg (c_sh (fs2 s2_c)) = 2 /\ p_wg (c_sh (fs2 (s2_c ++ [4;4]))) = 1.
Proof. vm_compute. repeat split; reflexivity. Qed.

(* the armed timer of the idle expanded worker (Stop already waiting) is owned by it *)
Example s2_b_timer : nth_error (p_timers (c_sh (fs2 s2_b))) 0 = Some (Timer true false). Proof. vmr. Qed.
Example C08_timer_owned_nonvacuous :=
  C08_timer_owned 1 1%Z true [] s2_clients 4 s2_b s2_ok 0 (Timer true false) s2_b_timer eq_refl.
Example C08_timer_owned_values : at_pc (fs2 s2_b) 4 (XSelect 1). Proof. atpc. Qed.
(* ... and the other disjunct: owner about to call timer.Stop() (the run of PoolExamples) *)
Example ex_ok : clients_ok [[Do 1 0 0]; [Do 2 0 0]]. Proof. cok. Qed.
Example ex_timer : nth_error (p_timers (c_sh (final (pool 0 1) ex_cfg ex_sched))) 0 = Some (Timer true false). Proof. vmr. Qed.
Example C08_timer_owned_stoptimer :=
  C08_timer_owned 0 1%Z true [] [[Do 1 0 0]; [Do 2 0 0]] 1 ex_sched ex_ok 0 (Timer true false) ex_timer eq_refl.

Example C08_Timer_drain_never_reached_nonvacuous :=
  C08_Timer_drain_never_reached 1 1%Z true [] s2_clients 4 (s2_b ++ [4]) s2_ok.

(* Stop has returned in S2 *)
Example s2_f_stop_returned : stop_returned (ts2 s2_f). Proof. apply (stop_returned_at _ 13 1 PU). vmr. Qed.
Example s2_single_stop : cstop (concat s2_clients) <= 1. Proof. vm_compute. lia. Qed.
Example C08_Stop_done_single_Stop_s2 : stop_done (fs2 s2_f) :=
  C08_Stop_done_single_Stop 1 1%Z true [] s2_clients 4 s2_ok s2_f s2_single_stop s2_f_stop_returned.
Example C08_Stop_returned_no_work_left_s2 :=
  C08_Stop_returned_no_work_left 1 1%Z true [] s2_clients 4 s2_ok s2_f C08_Stop_done_single_Stop_s2.
Example s2_f_accepted1 : accepted 1 (ts2 s2_f).
Proof. apply (accepted_at _ 1 0 (Do 1 0 1) PU); vmr. Qed.
Example C08_Stop_returned_no_work_left_s2_values :
  (* task 1 was still running (closed gate) when Stop was called; it has been executed to its end before Stop returned *)
  results (fs2 s2_f) (ts2 s2_f) 1 = [TVal 1] /\ results (fs2 s2_f) (ts2 s2_f) 2 = [TVal 2] /\ results (fs2 s2_f) (ts2 s2_f) 3 = [TVal 3] /\
  get_task (c_sh (fs2 s2_b)) 1 = Some (Task 0 1 [] 1).
Proof. vm_compute. repeat split; reflexivity. Qed.

(** * R6: a never-started pool; TryDo refused by saturation; Stop's drain loop holds the queued task *)
Definition r6_clients := [[Do 1 0 0]; [Stop]; [TryDo 2 0 0]].
Notation r6_cfg := (pool_cfg 1 false [] r6_clients 2).
Notation fr6 := (final (pool 1 0) r6_cfg).
Notation tr6 := (trace (pool 1 0) r6_cfg).
Definition r6_s := [0;0;0;0; 2;2;2;2; 1;1;1;1;1;1;1;1;1].
Example r6_ok : clients_ok r6_clients. Proof. cok. Qed.
Example r6_story :
  pcs (fr6 r6_s) = [None; Some (XDrainSend 1); None; None; None] /\
  tr6 r6_s = [EInv 0 (Do 1 0 0); ERet 0 (Do 1 0 0) PU; EInv 2 (TryDo 2 0 0); ERet 2 (TryDo 2 0 0) (PB false); EInv 1 Stop] /\
  get_task (c_sh (fr6 r6_s)) 2 = Some (Task 0 0 [] 0) /\ get_task (c_sh (fr6 r6_s)) 1 = Some (Task 0 0 [] 0).
Proof. repeat split; vm_compute; reflexivity. Qed.
Example r6_at : at_pc (fr6 r6_s) 1 (XDrainSend 1). Proof. atpc. Qed.
Example C08_draining_is_past_the_wait_drainsend : drained (c_sh (fr6 r6_s)) (aths (fr6 r6_s)) :=
  C08_draining_is_past_the_wait 1 0%Z false [] r6_clients 2 r6_s r6_ok 1 (XDrainSend 1) r6_at eq_refl.
Example r6_accepted : accepted 1 (tr6 r6_s).
Proof. apply (accepted_at _ 1 0 (Do 1 0 0) PU); vmr. Qed.
Example C04_Accepted_task_has_owner_drain :=
  C04_Accepted_task_has_owner 1 0%Z false [] r6_clients 2 r6_ok r6_s 1 r6_accepted.
Example C04_Accepted_task_has_owner_drain_values :
  Hdr 1 (aths (fr6 r6_s)) = 1 /\ cnt (p_queue (c_sh (fr6 r6_s))) 1 = 0 /\ Hwk 1 (aths (fr6 r6_s)) = 0 /\ results (fr6 r6_s) (tr6 r6_s) 1 = [] /\
  (* one more step: the drain delivers the cancellation result; the task was never executed *)
  results (fr6 (r6_s ++ [1])) (tr6 (r6_s ++ [1])) 1 = [TCanceled] /\ get_task (c_sh (fr6 (r6_s ++ [1]))) 1 = Some (Task 0 0 [TCanceled] 0).
Proof. vm_compute. repeat split; reflexivity. Qed.

(** * R5: two racing Stop calls, a Do still in progress *)
Definition r5_clients := [[Do 1 0 0]; [Stop]; [Stop]; [Do 2 0 0]].
Notation r5_cfg := (pool_cfg 1 false [] r5_clients 2).
Notation fr5 := (final (pool 1 0) r5_cfg).
Notation tr5 := (trace (pool 1 0) r5_cfg).
(* thread 1 wins the CAS; thread 2 fails its three CAS and returns at once; thread 1 closes; Do(2) starts;
   thread 1 drains task 1 and returns; Do(2) has delivered its refusal and is about to unlock *)
Definition r5_s := [0;0;0;0; 1;1;1; 2;2;2;2; 1;1;1;1; 3;3; 1;1;1;1; 3].
Example r5_ok : clients_ok r5_clients. Proof. cok. Qed.
Example r5_story :
  pcs (fr5 r5_s) = [None; None; None; Some (SubRUnlock KDo); None; None] /\
  tr5 r5_s = [EInv 0 (Do 1 0 0); ERet 0 (Do 1 0 0) PU; EInv 1 Stop; EInv 2 Stop; ERet 2 Stop PU; EInv 3 (Do 2 0 0); ERet 1 Stop PU] /\
  (* when the second Stop returned (first event ERet 2 Stop), the first one had not even closed the queue *)
  pcs (fr5 [0;0;0;0; 1;1;1; 2;2;2;2]) = [None; Some XCancel; None; None; None; None] /\
  p_queue (c_sh (fr5 [0;0;0;0; 1;1;1; 2;2;2;2])) = [1].
Proof. repeat split; vm_compute; reflexivity. Qed.
Example r5_stop_returned : stop_returned (tr5 r5_s). Proof. apply (stop_returned_at _ 4 2 PU). vmr. Qed.
Example r5_no_stop : forall i th o l, nth_error (c_thr (fr5 r5_s)) i = Some th -> t_cur th = Some (o, l) -> o <> Stop.
Proof. apply no_stop_in_progress_check. vmr. Qed.
Example C08_Stop_done_when_no_Stop_in_progress_nonvacuous : stop_done (fr5 r5_s) :=
  C08_Stop_done_when_no_Stop_in_progress 1 0%Z false [] r5_clients 2 r5_ok r5_s r5_stop_returned r5_no_stop.
(* the hypothesis is needed: at the moment the second Stop has returned, [stop_returned] holds but not [stop_done] *)
Example r5_early : stop_returned (tr5 [0;0;0;0; 1;1;1; 2;2;2;2]) /\ ~ stop_done (fr5 [0;0;0;0; 1;1;1; 2;2;2;2]).
Proof.
  split; [apply (stop_returned_at _ 4 2 PU); vmr|].
  intros [_ H]. specialize (H 1 XCancel ltac:(atpc)). discriminate H.
Qed.

(* ... and what Stop-has-returned gives on this run: task 1, accepted by the never-started pool, was drained by the
   winning Stop: exactly one result, the cancellation, never executed *)
Example C08_Stop_returned_no_work_left_r5 :=
  C08_Stop_returned_no_work_left 1 0%Z false [] r5_clients 2 r5_ok r5_s C08_Stop_done_when_no_Stop_in_progress_nonvacuous.
Example C08_Stop_returned_no_work_left_r5_values :
  results (fr5 r5_s) (tr5 r5_s) 1 = [TCanceled] /\ get_task (c_sh (fr5 r5_s)) 1 = Some (Task 0 0 [TCanceled] 0) /\
  p_spawned (c_sh (fr5 r5_s)) = [].
Proof. vm_compute. repeat split; reflexivity. Qed.

(** * R3: submissions that start after Stop has returned *)
Definition r3_clients := [[Do 1 0 0]; [Stop]; [Do 2 0 0; Await 2]; [TryDo 3 0 0]].
Notation r3_cfg := (pool_cfg 1 true [] r3_clients 3).
Notation fr3 := (final (pool 1 0) r3_cfg).
Definition r3_s1 := [0;0;0;0; 4;4;4;4; 1;1;1;1;1;1; 4;4; 1;1].   (* task 1 executed; Stop returned *)
Definition r3_s2 := [2;3;2;3;2;3;2;3; 2;2].                       (* Do(2) and TryDo(3) interleaved, Await(2) *)
Notation tr3 := (trace (pool 1 0) r3_cfg r3_s1 ++ trace (pool 1 0) (fr3 r3_s1) r3_s2).
Example r3_ok : clients_ok r3_clients. Proof. cok. Qed.
Example r3_story :
  trace (pool 1 0) r3_cfg r3_s1 =
    [EInv 0 (Do 1 0 0); ERet 0 (Do 1 0 0) PU; EInv 4 (Slot 0); EInv 1 Stop; ERet 4 (Slot 0) PU; ERet 1 Stop PU] /\
  trace (pool 1 0) (fr3 r3_s1) r3_s2 =
    [EInv 2 (Do 2 0 0); EInv 3 (TryDo 3 0 0); ERet 2 (Do 2 0 0) PU; ERet 3 (TryDo 3 0 0) (PB false);
     EInv 2 (Await 2); ERet 2 (Await 2) (PRes TCanceled)] /\
  nth_error (c_thr (fr3 r3_s1)) 2 = Some (Thread [Do 2 0 0; Await 2] tt None false) /\
  nth_error (c_thr (fr3 r3_s1)) 3 = Some (Thread [TryDo 3 0 0] tt None false).
Proof. repeat split; vm_compute; reflexivity. Qed.
Example r3_stop_done : stop_done (fr3 r3_s1).
Proof.
  apply (C08_Stop_done_single_Stop 1 0%Z true [] r3_clients 3 r3_ok r3_s1).
  - vm_compute. lia.
  - apply (stop_returned_at _ 5 1 PU). vmr.
Qed.
Example r3_thread2 : nth_error (c_thr (fr3 r3_s1)) 2 = Some (Thread [Do 2 0 0; Await 2] tt None false). Proof. vmr. Qed.
Example r3_thread3 : nth_error (c_thr (fr3 r3_s1)) 3 = Some (Thread [TryDo 3 0 0] tt None false). Proof. vmr. Qed.
Example C08_Submission_after_Stop_refused_nonvacuous :=
  C08_Submission_after_Stop_refused 1 0%Z true [] r3_clients 3 r3_ok r3_s1 r3_s2 2 (Thread [Do 2 0 0; Await 2] tt None false)
    (Do 2 0 0) 2 r3_stop_done r3_thread2 (or_introl eq_refl) eq_refl.
Example C08_Submission_after_Stop_refused_try :=
  C08_Submission_after_Stop_refused 1 0%Z true [] r3_clients 3 r3_ok r3_s1 r3_s2 3 (Thread [TryDo 3 0 0] tt None false)
    (TryDo 3 0 0) 3 r3_stop_done r3_thread3 (or_introl eq_refl) eq_refl.
Example C12_Submission_after_Stop_refused_nonvacuous :=
  C12_Submission_after_Stop_refused 1 0%Z true [] r3_clients 3 r3_ok r3_s1 r3_s2 2 (Thread [Do 2 0 0; Await 2] tt None false)
    (Do 2 0 0) 2 r3_stop_done r3_thread2 (or_introl eq_refl) eq_refl.
(* the inner hypothesis [returned x tr] of the last clause holds too *)
Example r3_returned2 : returned 2 tr3.
Proof. apply (returned_at _ 8 2 (Do 2 0 0) PU); vmr. Qed.
Example C08_Submission_after_Stop_refused_values :
  let c2 := final (pool 1 0) (fr3 r3_s1) r3_s2 in
  results c2 tr3 2 = [TCanceled] /\ results c2 tr3 3 = [TCanceled] /\
  get_task (c_sh c2) 2 = Some (Task 0 0 [] 0) /\ get_task (c_sh c2) 3 = Some (Task 0 0 [TCanceled] 0) /\ recvd 2 tr3 = [TCanceled].
Proof. vm_compute. repeat split; reflexivity. Qed.

(** * R4: saturation, backpressure, cancellation, waiting for a result *)
Definition r4_clients := [[Do 1 0 1; Do 2 0 0]; [Do 3 1 0; Await 3]; [Cancel 1]; [TryDo 4 0 0]; [OpenGate 1; Await 2]].
Notation r4_cfg := (pool_cfg 1 true [] r4_clients 4).
Notation fr4 := (final (pool 1 0) r4_cfg).
Notation tr4 := (trace (pool 1 0) r4_cfg).
(* the only worker (thread 5) runs task 1 and waits at the closed gate 1; task 2 takes the queue slot;
   Do(3) (context 1) is blocked at its select; TryDo(4) holds the read lock and is at its select *)
Definition r4_a := [0;0;0;0; 5;5; 0;0;0;0; 1;1;1; 1; 3;3].
Definition r4_b := r4_a ++ [3;3; 2;2].       (* TryDo(4) returns false; Cancel 1 *)
Definition r4_c := r4_b ++ [1].              (* the select of Do(3) fires on its context: at SubFut *)
Definition r4_d := r4_c ++ [1;1; 1;1; 4;4; 4;4].   (* refusal delivered, Do(3) returns, Await(3); gate 1 opened; Await(2) waits *)
Example r4_ok : clients_ok r4_clients. Proof. cok. Qed.
Example r4_slots : 1 + cntdo (concat r4_clients) <= 4. Proof. vm_compute. lia. Qed.
Example r4_story :
  pcs (fr4 r4_a) = [None; Some (SubPush 3); None; Some (SubTryDoSel 4); None; Some (EGate 0 1); None; None; None] /\
  p_queue (c_sh (fr4 r4_a)) = [2] /\
  pcs (fr4 r4_b) = [None; Some (SubPush 3); None; None; None; Some (EGate 0 1); None; None; None] /\
  pcs (fr4 r4_c) = [None; Some (SubFut KDo 3 false); None; None; None; Some (EGate 0 1); None; None; None] /\
  pcs (fr4 r4_d) = [None; None; None; None; Some (RRecv 2); Some (EGate 0 1); None; None; None] /\
  tr4 r4_d = [EInv 0 (Do 1 0 1); ERet 0 (Do 1 0 1) PU; EInv 5 (Slot 0); EInv 0 (Do 2 0 0); ERet 0 (Do 2 0 0) PU;
              EInv 1 (Do 3 1 0); EInv 3 (TryDo 4 0 0); ERet 3 (TryDo 4 0 0) (PB false); EInv 2 (Cancel 1); ERet 2 (Cancel 1) PU;
              ERet 1 (Do 3 1 0) PU; EInv 1 (Await 3); ERet 1 (Await 3) (PRes TCanceled); EInv 4 (OpenGate 1);
              ERet 4 (OpenGate 1) PU; EInv 4 (Await 2)].
Proof. repeat split; vm_compute; reflexivity. Qed.

(* TryDo at its select, every worker busy, the queue slot taken: not blocked - it takes the default branch *)
Example r4_a_at3 : at_pc (fr4 r4_a) 3 (SubTryDoSel 4). Proof. atpc. Qed.
Example C17_try_never_blocks_nonvacuous :=
  C17_try_never_blocks 1 0%Z true [] r4_clients 4 r4_a r4_ok 3 (SubTryDoSel 4) r4_a_at3 eq_refl.
Example C17_try_never_blocks_values :
  exists s', pstep 1 0 (SubTryDoSel 4) (c_sh (fr4 r4_a)) = Next (SubRUnlock (KTry false)) s' /\ p_queue s' = [2].
Proof. eexists. split; vm_compute; reflexivity. Qed.
Example C17_single_queue_slot_nonvacuous := C17_single_queue_slot 1 0%Z true [] r4_clients 4 r4_a r4_ok.
Example C17_single_queue_slot_values : p_queue (c_sh (fr4 r4_a)) = [2]. Proof. vmr. Qed.

(* Do(3) at its select: blocked exactly because the queue is full and no context is done ... *)
Example r4_a_at1 : at_pc (fr4 r4_a) 1 (SubPush 3). Proof. atpc. Qed.
Example C17_Do_select_enabled_when_cancelled_nonvacuous :=
  C17_Do_select_enabled_when_cancelled 1 0%Z true [] r4_clients 4 r4_ok r4_a 1 3 r4_a_at1.
Example C17_Do_select_enabled_when_cancelled_values :
  pstep 1 0 (SubPush 3) (c_sh (fr4 r4_a)) = Blocked /\ get_task (c_sh (fr4 r4_a)) 3 = Some (Task 1 0 [] 0) /\
  p_poolctx (c_sh (fr4 r4_a)) = false /\ ctx_done (c_sh (fr4 r4_a)) 1 = false /\ length (p_queue (c_sh (fr4 r4_a))) = 1.
Proof. vm_compute. repeat split; reflexivity. Qed.
(* ... and released once its context is cancelled (the queue is still full) *)
Example r4_b_at1 : at_pc (fr4 r4_b) 1 (SubPush 3). Proof. atpc. Qed.
Example C17_Do_select_enabled_when_cancelled_released :=
  C17_Do_select_enabled_when_cancelled 1 0%Z true [] r4_clients 4 r4_ok r4_b 1 3 r4_b_at1.
Example C17_Do_select_enabled_when_cancelled_released_values :
  ctx_done (c_sh (fr4 r4_b)) 1 = true /\ p_queue (c_sh (fr4 r4_b)) = [2] /\
  exists s', pstep 1 0 (SubPush 3) (c_sh (fr4 r4_b)) = Next (SubFut KDo 3 false) s'.
Proof. split; [vmr|]. split; [vmr|]. eexists. vm_compute. reflexivity. Qed.

(* the delivery of the context error *)
Example r4_c_at1 : at_pc (fr4 r4_c) 1 (SubFut KDo 3 false). Proof. atpc. Qed.
Example C17_Cancelled_submission_delivers_nonvacuous :=
  C17_Cancelled_submission_delivers 1 0%Z true [] r4_clients 4 r4_ok r4_c 1 KDo 3 false r4_c_at1.
Example C17_Cancelled_submission_delivers_values :
  get_task (c_sh (fr4 (r4_c ++ [1]))) 3 = Some (Task 1 0 [TCanceled] 0) /\
  results (fr4 r4_d) (tr4 r4_d) 3 = [TCanceled] /\ get_task (c_sh (fr4 r4_d)) 3 = Some (Task 1 0 [] 0).
Proof. vm_compute. repeat split; reflexivity. Qed.

(* an accepted task held by a worker (task 1, executor at the closed gate) *)
Example r4_a_accepted1 : accepted 1 (tr4 r4_a).
Proof. apply (accepted_at _ 1 0 (Do 1 0 1) PU); vmr. Qed.
Example C04_Accepted_task_has_owner_worker :=
  C04_Accepted_task_has_owner 1 0%Z true [] r4_clients 4 r4_ok r4_a 1 r4_a_accepted1.
Example C04_Accepted_task_has_owner_worker_values :
  Hwk 1 (aths (fr4 r4_a)) = 1 /\ cnt (p_queue (c_sh (fr4 r4_a))) 1 = 0 /\ results (fr4 r4_a) (tr4 r4_a) 1 = [] /\
  nth_error (c_thr (fr4 r4_a)) 5 = Some (Thread [] tt (Some (Slot 0, EGate 0 1)) false).
Proof. vm_compute. repeat split; reflexivity. Qed.

(* no deadlock while Await(2) waits: task 2 accepted, in the queue; the worker is at gate 1, which is open now *)
Example r4_d_state : 1 <= p_state (c_sh (fr4 r4_d)). Proof. vm_compute. lia. Qed.
Example r4_d_gates : gates_ok (fr4 r4_d). Proof. apply gates_ok_check. vmr. Qed.
Example r4_d_accepted2 : accepted 2 (tr4 r4_d).
Proof. apply (accepted_at _ 4 0 (Do 2 0 0) PU); vmr. Qed.
Example r4_d_noresult : results (fr4 r4_d) (tr4 r4_d) 2 = []. Proof. vmr. Qed.
Example C12_Await_not_deadlocked_nonvacuous : exists j, enabled 1 0 (fr4 r4_d) j :=
  C12_Await_not_deadlocked 1 0%Z true [] r4_clients 4 r4_ok (le_n 1) r4_slots r4_d 2
    r4_d_state r4_d_gates r4_d_accepted2 r4_d_noresult.
Example C12_Await_not_deadlocked_values :
  at_pc (fr4 r4_d) 4 (RRecv 2) /\ pstep 1 0 (RRecv 2) (c_sh (fr4 r4_d)) = Blocked /\     (* the waiter is blocked *)
  at_pc (fr4 r4_d) 5 (EGate 0 1) /\ gate_open (c_sh (fr4 r4_d)) 1 = true /\               (* a worker really is at a gate *)
  enabled 1 0 (fr4 r4_d) 5 /\
  (* before OpenGate the premise [gates_ok] fails: the worker is at the closed gate 1 *)
  ~ gates_ok (fr4 (r4_c ++ [1;1; 1;1])).
Proof.
  split; [atpc|]. split; [vmr|]. split; [atpc|]. split; [vmr|]. split; [unfold enabled; vm_compute; discriminate|].
  intros H. specialize (H 5 0 1 (Task 0 1 [] 1) ltac:(atpc) ltac:(vmr)). vm_compute in H. discriminate H.
Qed.

(* the same theorem in the middle of the Stop race of R1 (state word = 2, pool context cancelled, Stop holds the write
   lock and is about to close the queue): task 2 accepted, no result yet *)
Example r1_slots : 1 + cntdo (concat r1_clients) <= 3. Proof. vm_compute. lia. Qed.
Example r1_c_state : 1 <= p_state (c_sh (fr1 r1_c)). Proof. vm_compute. lia. Qed.
Example r1_c_gates : gates_ok (fr1 r1_c). Proof. apply gates_ok_check. vmr. Qed.
Example r1_c_noresult : results (fr1 r1_c) (tr1 r1_c) 2 = []. Proof. vmr. Qed.
Example C12_Await_not_deadlocked_stopping : exists j, enabled 1 0 (fr1 r1_c) j :=
  C12_Await_not_deadlocked 1 0%Z true [0;2] r1_clients 3 r1_ok (le_n 1) r1_slots r1_c 2
    r1_c_state r1_c_gates r1_c_accepted r1_c_noresult.

(** * R7: DisableAutoStart, two racing Start calls, a submission before Start, then Stop *)
Definition r7_clients := [[Start]; [Start]; [Do 1 0 0]; [Stop]].
Notation r7_cfg := (pool_cfg 2 false [] r7_clients 3).
Notation fr7 := (final (pool 2 0) r7_cfg).
Definition r7_s := [2;2;2;2; 0;1;0;1;0;1; 0;1].    (* Do(1) queued before Start; both Starts hold the read lock; thread 0 wins the CAS *)
Definition r7_s' := [0;1; 4;4; 3;3;3;3;3;3;3].
Example r7_ok : clients_ok r7_clients. Proof. cok. Qed.
Example C12_state_monotone_nonvacuous := C12_state_monotone 2 0%Z false [] r7_clients 3 r7_s r7_ok r7_s'.
Example C12_state_monotone_values :
  p_state (c_sh (fr7 [2;2;2;2])) = 0 /\ p_queue (c_sh (fr7 [2;2;2;2])) = [1] /\
  p_state (c_sh (fr7 r7_s)) = 1 /\ p_state (c_sh (final (pool 2 0) (fr7 r7_s) r7_s')) = 2 /\
  pcs (final (pool 2 0) (fr7 r7_s) r7_s') = [None; None; None; Some XWait; Some (EEnd 0 1); None; None].
Proof. vm_compute. repeat split; reflexivity. Qed.
Example r7_lim : (0 + Z.of_nat (length r7_clients) < 2 ^ 31)%Z. Proof. vmr. Qed.
Example C11_fixed_workers_bounded_nonvacuous :=
  C11_fixed_workers_bounded 2 0%Z false [] r7_clients 3 r7_s r7_ok (Z.le_refl 0) r7_lim.
Example C11_fixed_workers_bounded_values :
  nRW (c_sh (fr7 r7_s)) = 2 /\ p_spawned (c_sh (fr7 r7_s)) = [RWorker; RWorker] /\
  (* both Start calls were past their RLock; only one spawned *)
  pcs (fr7 [2;2;2;2; 0;1;0;1;0;1]) = [Some StWgAdd; Some StRUnlock; None; None; None; None; None].
Proof. vm_compute. repeat split; reflexivity. Qed.

(** * C11: the cap, on the run that reaches it (2 fixed workers, limit 2, 4 gated tasks, all 4 executors inside a task) *)
Definition cap22_clients := [[Do 1 0 1; Do 2 0 1; Do 3 0 1; Do 4 0 1]].
Example cap22_eq : cap_clients 2 2 = cap22_clients. Proof. reflexivity. Qed.
Example cap22_ok : clients_ok (cap_clients 2 2). Proof. change (clients_ok cap22_clients). cok. Qed.
Example cap22_lim : (2 + Z.of_nat (length (cap_clients 2 2)) < 2 ^ 31)%Z. Proof. vmr. Qed.
Example two_nonneg : (0 <= 2)%Z. Proof. lia. Qed.
Notation fcap := (final (pool 2 2) (pool_cfg 2 true [] (cap_clients 2 2) 6) (cap_sched 2 2)).
Example C11_parallelism_capped_nonvacuous :=
  C11_parallelism_capped 2 2%Z true [] (cap_clients 2 2) 6 (cap_sched 2 2) cap22_ok two_nonneg cap22_lim.
Example C11_parallelism_capped_values :
  cntp is_exec (aths fcap) = 4 /\ 2 + Z.to_nat 2 = 4 /\
  pcs fcap = [None; Some (EGate 0 3); Some (EGate 0 4); Some (EGate 1 1); Some (EGate 2 2); None; None] /\
  p_spawned (c_sh fcap) = [RWorker; RWorker; RExpanded; RExpanded] /\ p_expanded (c_sh fcap) = 2%Z.
Proof. vm_compute. repeat split; reflexivity. Qed.
Example cap22_ids : NoDup [1;2;3;4].
Proof. repeat constructor; simpl; intuition lia. Qed.
Example cap22_exec : forall i, In i [1;2;3;4] -> exists l, at_pc fcap i l /\ is_exec l = true.
Proof.
  intros i [<-|[<-|[<-|[<-|[]]]]].
  - exists (EGate 0 3). split; [atpc|reflexivity].
  - exists (EGate 0 4). split; [atpc|reflexivity].
  - exists (EGate 1 1). split; [atpc|reflexivity].
  - exists (EGate 2 2). split; [atpc|reflexivity].
Qed.
Example C11_capped_threads_nonvacuous : length [1;2;3;4] <= 2 + Z.to_nat 2 :=
  C11_capped_threads 2 2%Z true [] (cap_clients 2 2) 6 (cap_sched 2 2) cap22_ok two_nonneg cap22_lim [1;2;3;4] cap22_ids cap22_exec.

Example two_pos : 1 <= 2. Proof. lia. Qed.
Example two_small : (Z.of_nat 2 + 1 < 2 ^ 31)%Z. Proof. vmr. Qed.
Example C11_cap_reachable_nonvacuous := C11_cap_reachable 2 2 two_pos two_small.
Example C11_cap_reached_by_nonvacuous := C11_cap_reached_by 2 2 two_pos two_small.

(** * C11Expand: runs x1 (Pool/PoolExpandExamples.v) and x3 (all arguments explicit)
    x3 = the scenario x2 of PoolExpandExamples.v ("refused below the cap") with one FIXED worker, kept busy at a
    closed gate by task 9 (nw >= 1 as after the normalisation of the options; x2 itself has nw = 0):
    submitters A (thread 0), B (1), C (2), the environment (3: Fire 0); fixed worker = thread 4, expanded worker E = thread 5.
    A is granted, E runs task 1; B finds the queue full, observes 2 > 1 and stands between its AddInt32 and its undo;
    C finds the queue full and stands in front of its AddInt32; E runs task 2, goes idle, its timer is fired, it takes
    the timer branch, decrements, wg.Done(). *)
Definition x3_clients := [[Do 9 0 1; Do 1 0 0; Do 2 0 0]; [Do 3 0 0]; [Do 4 0 0]; [Fire 0]].
Notation g1 := (final (pool 1 1) (pool_cfg 1 true [] x1_clients 5)).
Notation lg1 := (steps_of (pool 1 1) (pool_cfg 1 true [] x1_clients 5)).
Notation g3 := (final (pool 1 1) (pool_cfg 1 true [] x3_clients 6)).
Notation lg3 := (steps_of (pool 1 1) (pool_cfg 1 true [] x3_clients 6)).
Definition x3_0 := [0;0;0;0; 4;4].                                          (* task 9 on the fixed worker, at gate 1 *)
Definition x3_a := x3_0 ++ [0;0;0;0; 0;0;0;0;0; 5;5;5;5;5;5;5; 0;0].        (* A granted, E ran task 1, task 2 queued *)
Definition x3_b := x3_a ++ [1;1;1;1; 2;2;2].                                (* B over-reserves; C in front of AddInt32 *)
Definition x3_c := x3_b ++ [5;5;5;5;5;5; 3;3].                              (* E ran task 2, idle; timer fired *)
Definition x3_d := x3_c ++ [5;5].                                           (* E took the timer branch and decremented *)
Example x3_ok : clients_ok x3_clients. Proof. cok. Qed.
Example one_nonneg : (0 <= 1)%Z. Proof. lia. Qed.
Example x1_lim : (1 + Z.of_nat (length x1_clients) < 2 ^ 31)%Z. Proof. vmr. Qed.
Example x1_slots : 1 + cntdo (concat x1_clients) <= 5. Proof. vm_compute. lia. Qed.
Example x3_lim : (1 + Z.of_nat (length x3_clients) < 2 ^ 31)%Z. Proof. vmr. Qed.
Example x3_slots : 1 + cntdo (concat x3_clients) <= 6. Proof. vm_compute. lia. Qed.
Example s2_lim : (1 + Z.of_nat (length s2_clients) < 2 ^ 31)%Z. Proof. vmr. Qed.
Example x3_story :
  pcs (g3 x3_a) = [None; None; None; None; Some (EGate 0 9); Some (XSelect 1); None; None; None; None] /\
  pcs (g3 x3_b) = [None; Some (SubSubExp 3); Some (SubAddExp 4); None; Some (EGate 0 9); Some (XSelect 1); None; None; None; None] /\
  pcs (g3 x3_c) = [None; Some (SubSubExp 3); Some (SubAddExp 4); None; Some (EGate 0 9); Some (XSelect 1); None; None; None; None] /\
  p_timers (c_sh (g3 x3_c)) = [Timer false true] /\
  pcs (g3 x3_d) = [None; Some (SubSubExp 3); Some (SubAddExp 4); None; Some (EGate 0 9); Some XExitDone; None; None; None; None] /\
  map (fun e => (snd e, step_pc e)) (skipn 24 (lg3 (x3_d ++ [5; 1]))) =
    [(1, Some (PInv (Do 3 0 0))); (1, Some (SubRLock false 3)); (1, Some (SubTrySel 3)); (1, Some (SubAddExp 3));
     (2, Some (PInv (Do 4 0 0))); (2, Some (SubRLock false 4)); (2, Some (SubTrySel 4));
     (5, Some (XSelect 1)); (5, Some (XStopTimer 1 (Some 2))); (5, Some (EBegin 1 2)); (5, Some (EEnd 1 2));
     (5, Some (EFut 1 2)); (5, Some (XReset 1)); (3, Some (PInv (Fire 0))); (3, Some (FFire 0));
     (5, Some (XSelect 1)); (5, Some XExitDec); (5, Some XExitDone); (1, Some (SubSubExp 3))].
Proof. repeat split; vm_compute; reflexivity. Qed.

(* C11_expanded_accounting (C11.v) where all the terms are non-zero: one started expanded worker that has
   decremented (nD = 1), one submitter over-reserving *)
Example C11_expanded_accounting_nonvacuous :=
  C11_expanded_accounting 1 1%Z true [] x3_clients 6 x3_d x3_ok one_nonneg x3_lim.
Example C11_expanded_accounting_values :
  let c := g3 x3_d in
  p_expanded (c_sh c) = 1%Z /\ nRE (c_sh c) = 1 /\ cntp is_wgadd (aths c) = 0 /\ cntp is_subsub (aths c) = 1 /\
  nD 4 (c_sh c) (aths c) = 1.
Proof. vm_compute. repeat split; reflexivity. Qed.

(* AddInt32, refused below the cap (x3_d: C in front of its AddInt32 while B over-reserves) *)
Example x3_d_at2 : at_pc (g3 x3_d) 2 (SubAddExp 4). Proof. atpc. Qed.
Example x3_d_at1 : at_pc (g3 x3_d) 1 (SubSubExp 3). Proof. atpc. Qed.
Example C11_addexp_step_nonvacuous :=
  C11_addexp_step 1 1%Z true [] x3_clients 6 x3_ok one_nonneg x3_lim x3_slots x3_d 2 4 x3_d_at2.
Example C11_cap_not_undershot_nonvacuous :=
  C11_cap_not_undershot 1 1%Z true [] x3_clients 6 x3_ok one_nonneg x3_lim x3_slots x3_d 2 4 x3_d_at2.
Example C11_cap_not_undershot_refused_below_cap :
  at_pc (step_cfg (pool 1 1) (g3 x3_d) 2) 2 (SubSubExp 4) /\
  (1 - live_or_reserved 4 (c_sh (g3 x3_d)) (aths (g3 x3_d)) <= Z.of_nat (over_reserved (aths (g3 x3_d))))%Z.
Proof.
  apply (proj2 (proj2 C11_cap_not_undershot_nonvacuous)). vm_compute. reflexivity.
Qed.
Example C11_cap_not_undershot_values :
  live_or_reserved 4 (c_sh (g3 x3_d)) (aths (g3 x3_d)) = 0%Z /\ over_reserved (aths (g3 x3_d)) = 1 /\ p_expanded (c_sh (g3 x3_d)) = 1%Z.
Proof. vm_compute. repeat split; reflexivity. Qed.
Example C11_grant_iff_room_nonvacuous :=
  C11_grant_iff_room 1 1%Z true [] x3_clients 6 x3_ok one_nonneg x3_lim x3_slots x3_d 2 4 x3_d_at2.
Example C11_grant_iff_room_values :
  ngranted 1 (lg3 x3_d) = 1 /\ nexited (lg3 x3_d) = 1 /\ over_reserved (aths (g3 x3_d)) = 1.
Proof. vm_compute. repeat split; reflexivity. Qed.
Example C11_subsub_step_nonvacuous :=
  C11_subsub_step 1 1%Z true [] x3_clients 6 x3_ok one_nonneg x3_lim x3_slots x3_d 1 3 x3_d_at1.

(* AddInt32 granted / wg.Add + go (x1) *)
Example x1_add3_at : at_pc (g1 x1_at_add3) 0 (SubAddExp 3). Proof. atpc. Qed.
Example C11_addexp_step_granted :=
  C11_addexp_step 1 1%Z true [] x1_clients 5 x1_clients_ok one_nonneg x1_lim x1_slots x1_at_add3 0 3 x1_add3_at.
Example C11_cap_not_undershot_granted :
  (p_expanded (c_sh (g1 x1_at_add3)) + 1 <= 1)%Z /\ at_pc (step_cfg (pool 1 1) (g1 x1_at_add3) 0) 0 (SubWgAdd 3).
Proof.
  apply (proj1 (proj2 (C11_cap_not_undershot 1 1%Z true [] x1_clients 5 x1_clients_ok one_nonneg x1_lim x1_slots x1_at_add3 0 3 x1_add3_at)));
    vm_compute; reflexivity.
Qed.
Example x1_wgadd_at : at_pc (g1 (x1_at_add3 ++ [0])) 0 (SubWgAdd 3). Proof. atpc. Qed.
Example C11_wgadd_step_nonvacuous :=
  C11_wgadd_step 1 1%Z true [] x1_clients 5 x1_clients_ok one_nonneg x1_lim x1_slots (x1_at_add3 ++ [0]) 0 3 x1_wgadd_at.
(* the non-blocking attempt with a full queue, room below the limit, nobody over-reserving *)
Definition x1_at_sel3 := [0;0;0;0; 1;1; 0;0;0;0; 0;0].
Example x1_sel3_at : at_pc (g1 x1_at_sel3) 0 (SubTrySel 3). Proof. atpc. Qed.
Example x1_sel3_full : queue_send_ready (c_sh (g1 x1_at_sel3)) = false. Proof. vmr. Qed.
Example x1_sel3_room : (live_or_reserved (length x1_clients) (c_sh (g1 x1_at_sel3)) (aths (g1 x1_at_sel3)) < 1)%Z. Proof. vmr. Qed.
Example x1_sel3_noover : over_reserved (aths (g1 x1_at_sel3)) = 0. Proof. vmr. Qed.
Example C11_cap_not_undershot_select_nonvacuous :=
  C11_cap_not_undershot_select 1 1%Z true [] x1_clients 5 x1_clients_ok one_nonneg x1_lim x1_slots x1_at_sel3 0 3
    x1_sel3_at x1_sel3_full x1_sel3_room x1_sel3_noover.
Example C11_cap_not_undershot_select_values :
  p_queue (c_sh (g1 x1_at_sel3)) = [2] /\
  pcs (final (pool 1 1) (g1 x1_at_sel3) [0;0]) = [Some (SubWgAdd 3); Some (EGate 0 1); None; None; None; None] /\
  p_expanded (c_sh (final (pool 1 1) (g1 x1_at_sel3) [0;0])) = 1%Z.
Proof. vm_compute. repeat split; reflexivity. Qed.

(* the exit path of an expanded worker (x3: idle, timer fired by the environment) *)
Example x3_c_at5 : at_pc (g3 x3_c) 5 (XSelect 1). Proof. atpc. Qed.
Example x3_c_next : at_pc (step_cfg (pool 1 1) (g3 x3_c) 5) 5 XExitDec. Proof. atpc. Qed.
Example x3_c_timer : nth_error (p_timers (c_sh (g3 x3_c))) 0 = Some (Timer false true). Proof. vmr. Qed.
Example C11_exit_entry_nonvacuous :=
  C11_exit_entry 1 1%Z true [] x3_clients 6 x3_ok one_nonneg x3_lim x3_slots x3_c 5 (XSelect 1) x3_c_at5 x3_c_next.
Example C11_exited_timer_stays_stopped_nonvacuous :=
  C11_exited_timer_stays_stopped 1 1%Z true [] x3_clients 6 x3_ok one_nonneg x3_lim x3_slots x3_c 5 (XSelect 1)
    [5; 1; 2; 2; 5] x3_c_at5 x3_c_next.
Example C11_fired_by_environment_nonvacuous : fired_since (lg3 x3_c) 5 0 :=
  C11_fired_by_environment 1 1%Z true [] x3_clients 6 x3_ok one_nonneg x3_lim x3_slots x3_c 5 0 (Timer false true)
    x3_c_at5 x3_c_timer eq_refl.
Example C11_timer_exit_was_fired_nonvacuous : exists j, XSelect 1 = XSelect (S j) /\ fired_since (lg3 x3_c) 5 j :=
  C11_timer_exit_was_fired 1 1%Z true [] x3_clients 6 x3_ok one_nonneg x3_lim x3_slots x3_c 5 (XSelect 1)
    x3_c_at5 (fun tm H => ltac:(discriminate H)) x3_c_next.
Example C11_idle_expanded_worker_can_expire_nonvacuous :=
  C11_idle_expanded_worker_can_expire 1 1%Z true [] x3_clients 6 x3_ok one_nonneg x3_lim x3_slots x3_c 5 1 x3_c_at5.
(* its inner hypotheses: the timer holds an expiry, the queue is empty and open: the timer branch is taken *)
Example C11_idle_expanded_worker_can_expire_fired : at_pc (step_cfg (pool 1 1) (g3 x3_c) 5) 5 XExitDec.
Proof.
  destruct C11_idle_expanded_worker_can_expire_nonvacuous as (j & x & Ej & Hj & Hfired & _).
  injection Ej as <-. assert (Ex : x = Timer false true) by (vm_compute in Hj; congruence). subst x.
  destruct (Hfired eq_refl) as (_ & _ & Honly). apply Honly; vm_compute; reflexivity.
Qed.
(* ... and without an expiry (before the Fire step) the same worker cannot take the exit *)
Definition x3_idle := x3_b ++ [5;5;5;5;5;5].
Example x3_idle_at5 : at_pc (g3 x3_idle) 5 (XSelect 1). Proof. atpc. Qed.
Example C11_idle_expanded_worker_can_expire_not_fired : ~ at_pc (step_cfg (pool 1 1) (g3 x3_idle) 5) 5 XExitDec.
Proof.
  destruct (C11_idle_expanded_worker_can_expire 1 1%Z true [] x3_clients 6 x3_ok one_nonneg x3_lim x3_slots x3_idle 5 1 x3_idle_at5)
    as (j & x & Ej & Hj & _ & Hnot).
  injection Ej as <-. assert (Ex : x = Timer true false) by (vm_compute in Hj; congruence). subst x.
  apply Hnot. reflexivity.
Qed.
Example C11_idle_expanded_worker_can_expire_values :
  p_timers (c_sh (g3 x3_c)) = [Timer false true] /\ p_queue (c_sh (g3 x3_c)) = [] /\ p_qclosed (c_sh (g3 x3_c)) = false /\
  p_timers (c_sh (g3 x3_idle)) = [Timer true false] /\ step_thread (pool 1 1) (g3 x3_idle) 5 = None.
Proof. vm_compute. repeat split; reflexivity. Qed.
(* ... and the other entry of the exit path: the queue has been closed by Stop (run S2) *)
Example s2_closed_at : at_pc (fs2 (s2_b ++ [4])) 4 (XStopTimer 1 None). Proof. atpc. Qed.
Example s2_closed_next : at_pc (step_cfg (pool 1 1) (fs2 (s2_b ++ [4])) 4) 4 XExitDec. Proof. atpc. Qed.
Example C11_exit_entry_closed :=
  C11_exit_entry 1 1%Z true [] s2_clients 4 s2_ok one_nonneg s2_lim s2_slots (s2_b ++ [4]) 4 (XStopTimer 1 None) s2_closed_at s2_closed_next.

Example x3_dec_at : at_pc (g3 (x3_c ++ [5])) 5 XExitDec. Proof. atpc. Qed.
Example C11_exit_dec_step_nonvacuous :=
  C11_exit_dec_step 1 1%Z true [] x3_clients 6 x3_ok one_nonneg x3_lim x3_slots (x3_c ++ [5]) 5 x3_dec_at.
Example x3_done_at : at_pc (g3 x3_d) 5 XExitDone. Proof. atpc. Qed.
Example C11_exit_done_step_nonvacuous :=
  C11_exit_done_step 1 1%Z true [] x3_clients 6 x3_ok one_nonneg x3_lim x3_slots x3_d 5 x3_done_at.

Example C11_expanded_exit_accounting_nonvacuous :=
  C11_expanded_exit_accounting 1 1%Z true [] x3_clients 6 x3_ok one_nonneg x3_lim x3_slots (x3_d ++ [5]) 5.
Example C11_expanded_exit_accounting_values :
  nsteps_of 5 is_xdec (lg3 (x3_d ++ [5])) = 1 /\ nsteps_of 5 is_xdone (lg3 (x3_d ++ [5])) = 1 /\
  finished_thr (g3 (x3_d ++ [5])) 5 /\ nth_error (p_spawned (c_sh (g3 (x3_d ++ [5])))) (5 - 4) = Some RExpanded /\
  nsteps_of 5 is_xdec (lg3 x3_d) = 1 /\ nsteps_of 5 is_xdone (lg3 x3_d) = 0.
Proof. repeat split; try (vm_compute; reflexivity). vm_compute. eexists. repeat split; reflexivity. Qed.

Example C11_reservation_balance_nonvacuous :=
  C11_reservation_balance 1 1%Z true [] x3_clients 6 x3_ok one_nonneg x3_lim x3_slots (x3_d ++ [5]).
Example C11_reservation_balance_values :
  ngranted 1 (lg3 (x3_d ++ [5])) = 1 /\ nexited (lg3 (x3_d ++ [5])) = 1 /\
  live_or_reserved 4 (c_sh (g3 (x3_d ++ [5]))) (aths (g3 (x3_d ++ [5]))) = 0%Z /\
  p_expanded (c_sh (g3 (x3_d ++ [5]))) = 1%Z /\ over_reserved (aths (g3 (x3_d ++ [5]))) = 1 /\
  (* before the exit: live_or_reserved = 1 = limit *)
  live_or_reserved 4 (c_sh (g3 x3_c)) (aths (g3 x3_c)) = 1%Z.
Proof. vm_compute. repeat split; reflexivity. Qed.
(* from x3_c on: the exit, B's undo, then C is GRANTED (the capacity is available again) *)
Example C11_reservation_balance_from_nonvacuous :=
  C11_reservation_balance_from 1 1%Z true [] x3_clients 6 x3_ok one_nonneg x3_lim x3_slots x3_c [5;5;5; 1; 2;2].
Example C11_reservation_balance_from_values :
  let c' := final (pool 1 1) (g3 x3_c) [5;5;5; 1; 2;2] in
  let lgb := steps_of (pool 1 1) (g3 x3_c) [5;5;5; 1; 2;2] in
  ngranted 1 lgb = 1 /\ nexited lgb = 1 /\ live_or_reserved 4 (c_sh c') (aths c') = 1%Z /\
  pcs c' = [None; Some (SubPush 3); Some (SubPush 4); None; Some (EGate 0 9); None; None; None; None; None] /\
  p_spawned (c_sh c') = [RWorker; RExpanded; RExpanded].
Proof. vm_compute. repeat split; reflexivity. Qed.

(* the log: Do(3) of x1: AddInt32 at step 13 (granted), next step of the thread 14 = wg.Add + go, push at 19 *)
Definition x1_full := x1_at_add4 ++ [0; 0].
Example x1_log13 : nth_error (lg1 x1_full) 13 = Some (g1 x1_at_add3, 0). Proof. vmr. Qed.
Example x1_log14 : nth_error (lg1 x1_full) 14 = Some (g1 (x1_at_add3 ++ [0]), 0). Proof. vmr. Qed.
Example x1_next : next_of (lg1 x1_full) 13 0 14.
Proof. split; [lia|]. split; [exists (g1 (x1_at_add3 ++ [0])); exact x1_log14|intros; lia]. Qed.
Example C11_expansion_is_granted_nonvacuous :=
  C11_expansion_is_granted 1 1%Z true [] x1_clients 5 x1_clients_ok one_nonneg x1_lim x1_slots x1_full 13 (g1 x1_at_add3) 0 3
    x1_log13 x1_add3_at 14 (g1 (x1_at_add3 ++ [0])) x1_next x1_log14.
Example x1_log19 : nth_error (lg1 x1_full) 19 = Some (g1 (x1_at_add3 ++ [0;0; 2;2;2;2]), 0). Proof. vmr. Qed.
Example x1_push_at : at_pc (g1 (x1_at_add3 ++ [0;0; 2;2;2;2])) 0 (SubPush 3). Proof. atpc. Qed.
Example one_ne0 : 1%Z <> 0%Z. Proof. discriminate. Qed.
Example C11_push_after_decision_nonvacuous :=
  C11_push_after_decision 1 1%Z true [] x1_clients 5 x1_clients_ok one_nonneg x1_lim x1_slots x1_full 19
    (g1 (x1_at_add3 ++ [0;0; 2;2;2;2])) 0 3 one_ne0 x1_log19 x1_push_at.

(* the log of x3, refused: B's AddInt32 is step 27; 14 steps of OTHER threads (C starts; the expanded worker runs a
   task, goes idle, is fired, exits) come before B's next step, step 42 = the undo *)
Definition x3_full := x3_d ++ [5; 1].
Example x3_log27 : nth_error (lg3 x3_full) 27 = Some (g3 (x3_a ++ [1;1;1]), 1). Proof. vmr. Qed.
Example x3_log42 : nth_error (lg3 x3_full) 42 = Some (g3 (x3_d ++ [5]), 1). Proof. vmr. Qed.
Example x3_b_add_at : at_pc (g3 (x3_a ++ [1;1;1])) 1 (SubAddExp 3). Proof. atpc. Qed.
Example x3_next : next_of (lg3 x3_full) 27 1 42.
Proof.
  split; [lia|]. split; [exists (g3 (x3_d ++ [5])); exact x3_log42|].
  intros k ck tk Hk Hn. apply (f_equal (option_map snd)) in Hn.
  do 42 (destruct k as [|k]; [try lia; vm_compute in Hn; intros E; congruence|]). lia.
Qed.
Example C11_expansion_is_granted_refused :=
  C11_expansion_is_granted 1 1%Z true [] x3_clients 6 x3_ok one_nonneg x3_lim x3_slots x3_full 27 (g3 (x3_a ++ [1;1;1])) 1 3
    x3_log27 x3_b_add_at 42 (g3 (x3_d ++ [5])) x3_next x3_log42.
Example C11_expansion_is_granted_refused_values :
  p_expanded (c_sh (g3 (x3_a ++ [1;1;1]))) = 1%Z /\                       (* observed 2 > limit 1 *)
  map snd (firstn 14 (skipn 28 (lg3 x3_full))) = [2;2;2; 5;5;5;5;5;5; 3;3; 5;5;5].
Proof. vm_compute. repeat split; reflexivity. Qed.

Example x3_log41 : nth_error (lg3 (x3_d ++ [5])) 41 = Some (g3 x3_d, 5). Proof. vmr. Qed.
Example x3_step41 : step_pc (g3 x3_d, 5) = Some XExitDone. Proof. vmr. Qed.
Example C11_exit_order_nonvacuous :=
  C11_exit_order 1 1%Z true [] x3_clients 6 x3_ok one_nonneg x3_lim x3_slots (x3_d ++ [5]) 41 (g3 x3_d) 5 x3_log41 x3_step41.

(** * Audit observations backed by computation (not instances of a theorem) *)
(* (1) The model's RWMutex has no writer preference: while Stop is BLOCKED at mu.Lock() (a reader, TryDo(2), holds the
   lock), a NEW reader - Do(3) - still gets the read lock.  With Go's sync.RWMutex a pending Lock() blocks new
   RLock() calls, so [C17_rlock_blocked_only_by_stop] ("refused only while Stop is at XClose / XUnlock") is a
   statement about the model's lock; in Go the read lock is also refused while Stop WAITS for the lock. *)
Example audit_rlock_ignores_pending_writer :
  at_pc (fr1 r1_a) 2 XLock /\ pstep 1 0 XLock (c_sh (fr1 r1_a)) = Blocked /\
  at_pc (fr1 (r1_a ++ [3])) 3 (SubRLock false 3) /\ pstep 1 0 (SubRLock false 3) (c_sh (fr1 (r1_a ++ [3]))) <> Blocked /\
  pcs (fr1 (r1_a ++ [3;3])) = [None; Some (SubTryDoSel 2); Some XLock; Some (SubPush 3); Some WRecv; None; None] /\
  rw_readers (p_lock (c_sh (fr1 (r1_a ++ [3;3])))) = 2.
Proof.
  split; [atpc|]. split; [vmr|]. split; [atpc|]. split; [vm_compute; discriminate|]. split; vmr.
Qed.
(* (2) "accepted" (Do / Execute returned) includes a Do that was refused on a cancelled context: task 3 of R4 is
   "accepted" in the vocabulary of the theorems, its single result is the cancellation, it is never executed *)
Example audit_accepted_includes_refused_do :
  accepted 3 (tr4 r4_d) /\ results (fr4 r4_d) (tr4 r4_d) 3 = [TCanceled] /\ get_task (c_sh (fr4 r4_d)) 3 = Some (Task 1 0 [] 0).
Proof. split; [apply (accepted_at _ 10 1 (Do 3 1 0) PU); vmr|]. split; vmr. Qed.
(* (3) a TryDo refused by saturation leaves no trace in the accounting: no result, no token, execs = 0; no theorem of
   C04 / C17 states that such a task is never executed later (true on this run) *)
Example audit_saturated_trydo :
  ~ accepted 4 (tr4 r4_d) /\ returned 4 (tr4 r4_d) /\ results (fr4 r4_d) (tr4 r4_d) 4 = [] /\
  tokens (c_sh (fr4 r4_d)) (aths (fr4 r4_d)) 4 = 0 /\ get_task (c_sh (fr4 r4_d)) 4 = Some (Task 0 0 [] 0).
Proof.
  split.
  - intros (i & o & r & Hin & Hs & Ha). vm_compute in Hin.
    repeat (destruct Hin as [Hin|Hin]; [try discriminate Hin; injection Hin as <- <- <-; try discriminate Hs; try discriminate Ha|]). exact Hin.
  - split; [apply (returned_at _ 7 3 (TryDo 4 0 0) (PB false)); vmr|]. vm_compute. repeat split; reflexivity.
Qed.
