(** C20 — Constructors accept exactly their documented parameter domain.
    Only statements, each closed by [exact], and their assumptions. *)
From Coq Require Import ZArith Reals.
From Flocq Require Import Core IEEE754.BinarySingleNaN.
From Garr Require Import Pure.F64 Pure.Retry Pure.Config Pure.ConfigProofs.
Local Open Scope Z_scope.

(** A breaker configuration is accepted iff the threshold is a real number in
    (0,1] (so not NaN, not infinite), every duration is positive and the
    sliding window is longer than the update interval. *)
Theorem C20_breaker : forall (x : b64) (mr tr ow w iv : Z),
  validate {| thr := B2SF x; minreq := mr; trial := tr; openw := ow; window := w; interval := iv |} = true
  <-> (real x /\ (0 < B2R x <= 1)%R) /\ 0 < tr /\ 0 < ow /\ 0 < w /\ 0 < iv /\ iv < w.
Proof. exact breaker_config_iff. Qed.

(** multiplier > 1 (NaN rejected; +Inf is "a number above 1"), 0 <= initial <= max *)
Theorem C20_exponential : forall (i mx : Z) (m : b64),
  new_expo i mx (B2SF m) <> None
  <-> ((real m /\ (1 < B2R m)%R) \/ m = B754_infinity false) /\ 0 <= i <= mx.
Proof. exact expo_ctor_iff. Qed.

Theorem C20_fixed : forall d : Z, new_fixed d <> None <-> 0 <= d.
Proof. exact fixed_ctor_iff. Qed.

Theorem C20_random : forall mn mx : Z, new_random mn mx <> None <-> 0 <= mn <= mx.
Proof. exact random_ctor_iff. Qed.

Theorem C20_limit : forall (b : backoff) (l : Z), new_limit b l <> None <-> 0 < l.
Proof. exact limit_ctor_iff. Qed.

(** jitter rates: real numbers with -1 <= min <= max <= 1 *)
Theorem C20_jitter : forall (b : backoff) (lo hi : b64),
  new_jitter b (B2SF lo) (B2SF hi) <> None
  <-> real lo /\ real hi /\ (-1 <= B2R lo <= B2R hi)%R /\ (B2R hi <= 1)%R.
Proof. exact jitter_ctor_iff. Qed.

Print Assumptions C20_breaker.
Print Assumptions C20_exponential.
Print Assumptions C20_fixed.
Print Assumptions C20_random.
Print Assumptions C20_limit.
Print Assumptions C20_jitter.
