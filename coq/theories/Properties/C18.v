(** C18 — Backoff specifications parse totally, exactly and with the documented defaults.
    Statements over the executable model Pure/Spec.v; [pf] is the strconv.ParseFloat oracle. *)
From Coq Require Import ZArith List.
From Garr Require Import Pure.F64 Pure.Retry Pure.Spec Pure.RetryProofs Pure.SpecProofs Pure.Builder Pure.BuilderProofs.
Import ListNotations.
Local Open Scope Z_scope.

(** never a panic: no byte string makes the parser (or the builder) slice or index out of range *)
Theorem C18_total : forall pf s, parse_spec pf s <> Panic.
Proof. exact parse_spec_total. Qed.

Theorem C18_builder_total : forall pf s ls, build_spec pf s ls <> Panic.
Proof. exact build_spec_total. Qed.

(** accepted exactly for key=values with the documented keys, each field empty
    (default 200 / 0 / 10000 / 2.0) or a valid number, and the result is exactly
    the value the direct constructor returns for those numbers ([spec_ok]) *)
Theorem C18_accept_iff : forall pf s b, parse_spec pf s = Ok b <-> spec_ok pf s b.
Proof. exact parse_spec_accept_iff. Qed.

(** everything else is an error *)
Theorem C18_reject : forall pf s, (forall b, ~ spec_ok pf s b) -> parse_spec pf s = Err.
Proof. exact parse_spec_reject. Qed.

(** integer fields: optional sign, decimal digits only, inside int64 *)
Theorem C18_int_fields : forall s z, parse_int s = Some z <-> int_syntax s z /\ in_int64 z = true.
Proof. exact parse_int_iff. Qed.

(** layers are applied in the order they were added (a left fold), failing at the first invalid one *)
Theorem C18_layers_in_order : forall b ls l,
  build b (ls ++ [l]) = match build b ls with Some b' => apply_layer b' l | None => None end.
Proof. exact build_snoc. Qed.

Print Assumptions C18_total.
Print Assumptions C18_builder_total.
Print Assumptions C18_accept_iff.
Print Assumptions C18_reject.
Print Assumptions C18_int_fields.
Print Assumptions C18_layers_in_order.

(** ---- all builder call sequences (Pure/Builder.v: the BackoffBuilder as a state machine) ----
    After ANY sequence of BaseBackoffSpec / BaseBackoff (also nil) / WithLimit / WithJitter /
    WithJitterBound / Build calls, a Build returns exactly what the calls made so far determine:
    the last explicitly given base if there is one, else the LAST specification, with the layers
    in the order they were added - the remembered (cached) base never shows. *)
Theorem C18_builder_call_sequences : forall pf ops,
  snd (bstep pf (fst (brun pf binit ops)) DoBuild) = Some (build_of_calls pf ops).
Proof. exact builder_build_of_calls. Qed.

(** building again gives the same backoff *)
Theorem C18_builder_rebuild_same : forall pf ops,
  snd (bstep pf (fst (brun pf binit (ops ++ [DoBuild]))) DoBuild) =
  snd (bstep pf (fst (brun pf binit ops)) DoBuild).
Proof. exact builder_rebuild_same. Qed.

(** a specification given later - also after a Build - is the one that counts (an invalid one is refused) *)
Theorem C18_builder_last_spec_wins : forall pf ops s,
  last_base ops None = None ->
  snd (bstep pf (fst (brun pf binit (ops ++ [SetSpec s]))) DoBuild) = Some (build_spec pf s (layers_of ops)).
Proof. exact builder_last_spec_wins. Qed.

(** no call sequence makes Build panic *)
Theorem C18_builder_sequences_total : forall pf ops,
  snd (bstep pf (fst (brun pf binit ops)) DoBuild) <> Some Panic.
Proof. intros pf ops. apply builder_total. intros s ls. apply C18_builder_total. Qed.
Print Assumptions C18_builder_call_sequences.
Print Assumptions C18_builder_sequences_total.
