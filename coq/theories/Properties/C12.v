(** Property C12 of the worker pool - theorems only. *)
From Coq Require Import List Arith Bool ZArith.
From Garr Require Import Conc.Conc Pool.PoolModel Pool.PoolBase Pool.PoolInv1 Pool.PoolTok Pool.PoolStop Pool.PoolStopMain Pool.PoolWg Pool.PoolCap Pool.PoolMain.
Import ListNotations.

(** Setting of all pool theorems: [pool_cfg nw autostart choices clients nslots] is a
    pool with [nw] fixed workers (auto-started or not), any select-oracle
    stream [choices], any client programs [clients] (threads calling Do,
    TryDo, Execute, TryExecute, Start, Stop, cancelling contexts, opening
    gates, firing timers, awaiting results) and [nslots] goroutine slots;
    [clients_ok]: clients only use client operations and every task is
    submitted once.  [c] ranges over ALL configurations reachable under ANY
    schedule. *)

(** C12 - submitting around Start / Stop never panics.  In no reachable
    configuration has any thread faulted: no send on the closed task queue, no
    double close, no negative wait group, no nil task - for every interleaving
    of submissions with Stop and Start, DisableAutoStart included, any
    expansion limit. *)
Theorem C12_never_panics : forall nw lim autostart choices clients nslots sched,
  clients_ok clients ->
  let c := final (pool nw lim) (pool_cfg nw autostart choices clients nslots) sched in
  forall th, In th (c_thr c) -> t_dead th = false.
Proof. exact pool_never_panics. Qed.

(** ... and never strands a task: every task has at most one token (held by its
    submitter, sitting in the queue, held by a worker, or held by Stop's
    drain) plus results in its channel; the token is consumed by exactly one
    delivery - the executor's own value after one execution, or a context
    error without any execution - so a waiter is released by exactly one
    result. (That the token is eventually consumed is the liveness half:
    covered on the real code by the hang detection of the controlled runs,
    not stated here.) *)
Theorem C12_one_token_one_result : forall nw lim autostart choices clients nslots sched,
  clients_ok clients ->
  let c := final (pool nw lim) (pool_cfg nw autostart choices clients nslots) sched in
  (forall x, tokens (c_sh c) (aths c) x <= 1) /\
  (forall x t, get_task (c_sh c) x = Some t ->
     tk_execs t <= 1 /\ length (tk_future t) <= 1 /\
     (1 <= H0 x (aths c) + cnt (p_queue (c_sh c)) x -> tk_execs t = 0) /\
     (1 <= H1 x (aths c) -> tk_execs t = 1) /\
     (forall i, In (TVal i) (tk_future t) -> i = x /\ tk_execs t = 1) /\
     (In TCanceled (tk_future t) -> tk_execs t = 0)) /\
  length (p_queue (c_sh c)) <= 1 /\ NoDup (p_queue (c_sh c)).
Proof. exact pool_exactly_once. Qed.

(** the state word only moves forward (Start / Stop idempotent) *)
Theorem C12_state_monotone : forall nw lim autostart choices clients nslots sched,
  clients_ok clients -> forall sched',
  p_state (c_sh (final (pool nw lim) (pool_cfg nw autostart choices clients nslots) sched)) <=
  p_state (c_sh (final (pool nw lim) (final (pool nw lim) (pool_cfg nw autostart choices clients nslots) sched) sched')) <= 2.
Proof. exact state_monotone. Qed.
Print Assumptions C12_never_panics.
Print Assumptions C12_one_token_one_result.
Print Assumptions C12_state_monotone.
