(** Property C12 of the worker pool - theorems only. *)
From Coq Require Import List Arith Bool ZArith.
From Garr Require Import Conc.Conc Pool.PoolModel Pool.PoolBase Pool.PoolInv1 Pool.PoolTok Pool.PoolStop Pool.PoolStopMain Pool.PoolWg Pool.PoolCap Pool.PoolMain.
Import ListNotations.

(** Setting of all pool theorems: [pool_cfg nw autostart choices clients nslots] is a
    pool with [nw] fixed workers (auto-started or not), any select-oracle
    stream [choices], any client programs [clients] (threads calling Do,
    TryDo, Execute, TryExecute, Start, Stop, cancelling contexts, opening
    gates, firing timers, awaiting results) and [nslots] goroutine slots;
    [clients_ok]: clients only use client operations and every task is
    submitted once.  [c] ranges over ALL configurations reachable under ANY
    schedule. *)

(** C12 - submitting around Start / Stop never panics.  In no reachable
    configuration has any thread faulted: no send on the closed task queue, no
    double close, no negative wait group, no nil task - for every interleaving
    of submissions with Stop and Start, DisableAutoStart included, any
    expansion limit. *)
Theorem C12_never_panics : forall nw lim autostart choices clients nslots sched,
  clients_ok clients ->
  let c := final (pool nw lim) (pool_cfg nw autostart choices clients nslots) sched in
  forall th, In th (c_thr c) -> t_dead th = false.
Proof. exact pool_never_panics. Qed.

(** ... and never strands a task: every task has at most one token (held by its
    submitter, sitting in the queue, held by a worker, or held by Stop's
    drain) plus results in its channel; the token is consumed by exactly one
    delivery - the executor's own value after one execution, or a context
    error without any execution - so a waiter is released by exactly one
    result. (That the token is eventually consumed is the liveness half:
    covered on the real code by the hang detection of the controlled runs,
    not stated here.) *)
Theorem C12_one_token_one_result : forall nw lim autostart choices clients nslots sched,
  clients_ok clients ->
  let c := final (pool nw lim) (pool_cfg nw autostart choices clients nslots) sched in
  (forall x, tokens (c_sh c) (aths c) x <= 1) /\
  (forall x t, get_task (c_sh c) x = Some t ->
     tk_execs t <= 1 /\ length (tk_future t) <= 1 /\
     (1 <= H0 x (aths c) + cnt (p_queue (c_sh c)) x -> tk_execs t = 0) /\
     (1 <= H1 x (aths c) -> tk_execs t = 1) /\
     (forall i, In (TVal i) (tk_future t) -> i = x /\ tk_execs t = 1) /\
     (In TCanceled (tk_future t) -> tk_execs t = 0)) /\
  length (p_queue (c_sh c)) <= 1 /\ NoDup (p_queue (c_sh c)).
Proof. exact pool_exactly_once. Qed.

(** the state word only moves forward (Start / Stop idempotent) *)
Theorem C12_state_monotone : forall nw lim autostart choices clients nslots sched,
  clients_ok clients -> forall sched',
  p_state (c_sh (final (pool nw lim) (pool_cfg nw autostart choices clients nslots) sched)) <=
  p_state (c_sh (final (pool nw lim) (final (pool nw lim) (pool_cfg nw autostart choices clients nslots) sched) sched')) <= 2.
Proof. exact state_monotone. Qed.
Print Assumptions C12_never_panics.
Print Assumptions C12_one_token_one_result.
Print Assumptions C12_state_monotone.

(** ---- trace-level statements (what holds once Stop has RETURNED, where an accepted task is,
    backpressure and cancellation).
    Vocabulary.
    - [accepted x tr]: the trace contains the return of the submission of task x
      with "accepted": Do / Execute returned, TryDo / TryExecute returned true.
    - [returned x tr]: the submission of x has returned (any value).
    - [results c tr x]: the results delivered to x's result channel so far:
      those still in the channel, followed by those already received (the trace
      records them: Await / PollRes returned a value).
    - [res_ok x n r]: r is x's own value and n = 1, or r is the cancellation
      result and n = 0 (n = number of executions of x).
    - [stop_done c]: the state word is 2 and no thread is between Stop's CAS
      and the end of its drain loop, i.e. the Stop call that won the CAS has
      returned.  A second Stop call racing with the first returns at once
      ([PoolSafeExamples.second_stop_returns_early]), so "some Stop call has
      returned" alone is NOT enough; it is enough when no thread is inside a
      Stop call any more, or when the programs contain at most one Stop.
    - [Hwk x], [Hdr x], [H1 x]: number of worker goroutines holding x (taken
      from the queue, not yet answered) / of drain loops holding x / of
      workers executing x. *)
From Garr Require Import Pool.PoolStopDone Pool.PoolAcct Pool.PoolHist Pool.PoolAfterStop Pool.PoolStopCount
  Pool.PoolLateSubmit Pool.PoolSelect Pool.PoolTimers Pool.PoolLive Pool.PoolProgress Pool.PoolFacts.

(** (C) C12 - no stranding, safety form: an accepted task that has not got its result is in exactly
    one of: the queue, a live worker goroutine, Stop's drain loop *)
Theorem C12_Accepted_task_has_owner : forall nw lim autostart choices clients nslots,
  clients_ok clients -> forall sched x,
  let c := final (pool nw lim) (pool_cfg nw autostart choices clients nslots) sched in
  let tr := trace (pool nw lim) (pool_cfg nw autostart choices clients nslots) sched in
  accepted x tr ->
  has_task (c_sh c) x /\
  cnt (p_queue (c_sh c)) x + Hwk x (aths c) + Hdr x (aths c) + length (results c tr x) = 1 /\
  (1 <= cnt (p_queue (c_sh c)) x <-> In x (p_queue (c_sh c))) /\
  (1 <= Hwk x (aths c) <->
     exists i th o l, length clients <= i /\ i - length clients < length (p_spawned (c_sh c)) /\
       nth_error (c_thr c) i = Some th /\ t_cur th = Some (o, l) /\ worker_pc l = true /\ tokw l = Some x) /\
  (1 <= Hdr x (aths c) <-> exists i, at_pc c i (XDrainSend x)).
Proof. exact accepted_task_has_owner. Qed.

(** C04 / C12 - in EVERY reachable configuration a task has at most one result, and it is the right one *)
Theorem C12_One_result_per_task : forall nw lim autostart choices clients nslots,
  clients_ok clients -> forall sched x,
  let c := final (pool nw lim) (pool_cfg nw autostart choices clients nslots) sched in
  let tr := trace (pool nw lim) (pool_cfg nw autostart choices clients nslots) sched in
  length (results c tr x) <= 1 /\
  forall r, In r (results c tr x) ->
    exists t, get_task (c_sh c) x = Some t /\ res_ok x (tk_execs t) r /\ tk_execs t <= 1.
Proof. exact one_result_per_task. Qed.

(** (A, end) a submission that starts after the effective Stop has returned is refused: never
    queued, never held by a worker, never executed, never answered "true"; once it has returned
    the task has exactly one result, the cancellation result *)
Theorem C12_Submission_after_Stop_refused : forall nw lim autostart choices clients nslots,
  clients_ok clients -> forall sched1 sched2 j th o x,
  let c1 := final (pool nw lim) (pool_cfg nw autostart choices clients nslots) sched1 in
  let c2 := final (pool nw lim) c1 sched2 in
  let tr := trace (pool nw lim) (pool_cfg nw autostart choices clients nslots) sched1 ++ trace (pool nw lim) c1 sched2 in
  stop_done c1 -> nth_error (c_thr c1) j = Some th -> In o (t_prog th) -> sub_id o = Some x ->
  stop_done c2 /\
  p_queue (c_sh c2) = [] /\ Hwk x (aths c2) = 0 /\ Hdr x (aths c2) = 0 /\ H1 x (aths c2) = 0 /\
  (forall t, get_task (c_sh c2) x = Some t -> tk_execs t = 0) /\
  (forall i o' r, In (ERet i o' r) tr -> sub_id o' = Some x -> r = PU \/ r = PB false) /\
  (returned x tr ->
     exists t, get_task (c_sh c2) x = Some t /\ results c2 tr x = [TCanceled] /\ tk_execs t = 0).
Proof. exact submission_after_stop_refused. Qed.

(** (D) no deadlock while an accepted task waits for its result: started pool, at least one fixed
    worker, enough goroutine slots, no executor waiting at a closed gate *)
Theorem C12_Await_not_deadlocked : forall nw lim autostart choices clients nslots,
  clients_ok clients -> 1 <= nw -> nw + cntdo (concat clients) <= nslots -> forall sched x,
  let c := final (pool nw lim) (pool_cfg nw autostart choices clients nslots) sched in
  let tr := trace (pool nw lim) (pool_cfg nw autostart choices clients nslots) sched in
  1 <= p_state (c_sh c) -> gates_ok c -> accepted x tr -> results c tr x = [] ->
  exists j, enabled nw lim c j.
Proof. exact accepted_undelivered_some_thread_enabled. Qed.

Print Assumptions C12_Accepted_task_has_owner.
Print Assumptions C12_One_result_per_task.
Print Assumptions C12_Submission_after_Stop_refused.
Print Assumptions C12_Await_not_deadlocked.
