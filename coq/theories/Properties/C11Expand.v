(** Property C11 of the worker pool, clauses "reaches its cap" and "expansion
    is temporary": their safety cores - theorems only.

    Setting as in [C11.v]: [c] is ANY configuration reachable from
    [pool_cfg nw autostart choices clients nslots] under ANY schedule, for any
    select-oracle stream; [clients_ok clients]; 0 <= limit; the int32 counter
    cannot wrap (limit + number of client threads < 2^31); enough goroutine
    slots (nw + number of Do/Execute calls <= nslots).
    [live_or_reserved] = started expanded goroutines + reservations (submitters
    about to start one) - expanded goroutines that have decremented on their
    way out; [over_reserved] = submitters between an AddInt32 that overshot
    the limit and its undo.  The log of an execution ([steps_of]) lists every
    step taken as (configuration before the step, thread). *)
From Coq Require Import List Arith Bool ZArith.
From Garr Require Import Conc.Conc Pool.PoolModel Pool.PoolBase Pool.PoolInv1 Pool.PoolTok Pool.PoolStop Pool.PoolCap
  Pool.PoolTimers Pool.PoolExpand Pool.PoolExpandLog Pool.PoolExpandExamples Pool.PoolCapReach.
Import ListNotations.

Local Open Scope Z_scope.

Section C11.
Variable nw : nat.
Variable lim : Z.
Variables (autostart : bool) (choices : list nat) (clients : list (list pop)) (nslots : nat).
Hypothesis Hok : clients_ok clients.
Hypothesis Hlim0 : 0 <= lim.
Hypothesis Hlim : lim + Z.of_nat (length clients) < 2 ^ 31.
Hypothesis Hslots : (nw + cntdo (concat clients) <= nslots)%nat.
Notation M := (pool nw lim).
Notation nc := (length clients).
Notation cfg0 := (pool_cfg nw autostart choices clients nslots).

Section Reachable.
Variable sched : list nat.
Let c := final M cfg0 sched.
Let s := c_sh c.
Let ps := aths c.
Let lg := steps_of M cfg0 sched.

Let HG : GoodE nw lim clients nslots c := GoodE_reach nw lim autostart choices clients nslots Hok Hlim0 Hlim sched.

(** (A) [atomic.AddInt32(&p.expanded, 1) <= limit]: never blocked; the value observed is the new
    counter, 1 + live_or_reserved + over_reserved; it decides where the submitter goes. *)
Theorem C11_addexp_step : forall i id, at_pc c i (SubAddExp id) ->
  let v := p_expanded s + 1 in
  let c' := step_cfg M c i in
  v = live_or_reserved nc s ps + Z.of_nat (over_reserved ps) + 1 /\
  step_thread M c i <> None /\
  c_sh c' = upd_expanded s v /\
  (v <= lim -> at_pc c' i (SubWgAdd id)) /\
  (lim < v -> at_pc c' i (SubSubExp id)).
Proof. eapply addexp_step; first [eassumption | exact HG]. Qed.

(** (A) granted: [p.wg.Add(1); go p.expandedWorker()] - never blocked; a new entry of [p_spawned] with the
    expanded role, a goroutine slot thread that has not run yet and can run (its first step creates its
    idle timer, armed, and enters the select) - all this while the task is still with the submitter. *)
Theorem C11_wgadd_step : forall i id, at_pc c i (SubWgAdd id) ->
  let c' := step_cfg M c i in
  let k := length (p_spawned s) in
  step_thread M c i <> None /\
  at_pc c' i (SubPush id) /\
  c_sh c' = upd_spawned (upd_wg s (S (p_wg s))) (p_spawned s ++ [RExpanded]) /\
  nth_error (p_spawned (c_sh c')) k = Some RExpanded /\
  unstarted_slot c' (nc + k) k /\
  step_thread M c' (nc + k) <> None /\
  (let c'' := step_cfg M c' (nc + k) in
   at_pc c'' (nc + k) (XSelect (S (length (p_timers s)))) /\
   p_timers (c_sh c'') = p_timers s ++ [Timer true false]) /\
  cnt (p_queue (c_sh c')) id = 0%nat.
Proof. eapply wgadd_step; first [eassumption | exact HG]. Qed.

(** (A) refused: [atomic.AddInt32(&p.expanded, -1)] - never blocked; nothing is started. *)
Theorem C11_subsub_step : forall i id, at_pc c i (SubSubExp id) ->
  let c' := step_cfg M c i in
  step_thread M c i <> None /\
  at_pc c' i (SubPush id) /\
  c_sh c' = upd_expanded s (p_expanded s - 1) /\
  (forall j, j <> i -> nth_error (c_thr c') j = nth_error (c_thr c) j) /\
  live_or_reserved nc (c_sh c') (aths c') = live_or_reserved nc s ps /\
  (over_reserved (aths c') + 1 = over_reserved ps)%nat.
Proof. eapply subsub_step; first [eassumption | exact HG]. Qed.

(** (B) [cap_not_undershot]: with room and nobody between AddInt32 and undo the expansion is granted; an
    expansion refused while there is room is refused because at least (limit - live_or_reserved)
    submitters are transiently over-reserving (their next step is the undo, never blocked). *)
Theorem C11_cap_not_undershot : forall i id, at_pc c i (SubAddExp id) ->
  let v := p_expanded s + 1 in
  v = live_or_reserved nc s ps + Z.of_nat (over_reserved ps) + 1 /\
  (live_or_reserved nc s ps < lim -> over_reserved ps = 0%nat ->
     v <= lim /\ at_pc (step_cfg M c i) i (SubWgAdd id)) /\
  (lim < v -> at_pc (step_cfg M c i) i (SubSubExp id) /\
              lim - live_or_reserved nc s ps <= Z.of_nat (over_reserved ps)).
Proof. intros i id. eapply cap_not_undershot; first [eassumption | exact HG]. Qed.

Theorem C11_cap_not_undershot_select : forall i id, at_pc c i (SubTrySel id) ->
  queue_send_ready s = false ->                      (* queue full: the default branch *)
  live_or_reserved nc s ps < lim -> over_reserved ps = 0%nat ->
  let c2 := final M c [i; i] in
  at_pc c2 i (SubWgAdd id) /\ p_expanded (c_sh c2) = live_or_reserved nc s ps + 1.
Proof. intros i id. eapply cap_not_undershot_select; first [eassumption | exact HG]. Qed.

(** (B)+(C) the pool grants exactly when granted - exited + over_reserved < limit. *)
Theorem C11_grant_iff_room : forall i id, at_pc c i (SubAddExp id) ->
  let used := Z.of_nat (ngranted lim lg) - Z.of_nat (nexited lg) + Z.of_nat (over_reserved ps) in
  p_expanded s + 1 = used + 1 /\
  (used < lim <-> at_pc (step_cfg M c i) i (SubWgAdd id)) /\
  (lim <= used <-> at_pc (step_cfg M c i) i (SubSubExp id)).
Proof. eapply grant_iff_room; first [eassumption | exact HG]. Qed.

(** (C) the deferred function of an expanded worker: one decrement (no wrap, wg untouched), then one
    wg.Done() (counter untouched), then the goroutine is finished. *)
Theorem C11_exit_dec_step : forall i, at_pc c i XExitDec ->
  let c' := step_cfg M c i in
  step_thread M c i <> None /\
  at_pc c' i XExitDone /\
  c_sh c' = upd_expanded s (p_expanded s - 1) /\
  (nD nc (c_sh c') (aths c') = nD nc s ps + 1)%nat /\
  live_or_reserved nc (c_sh c') (aths c') = live_or_reserved nc s ps - 1 /\
  over_reserved (aths c') = over_reserved ps.
Proof. eapply exit_dec_step; first [eassumption | exact HG]. Qed.

Theorem C11_exit_done_step : forall i, at_pc c i XExitDone ->
  let c' := step_cfg M c i in
  step_thread M c i <> None /\
  finished_thr c' i /\
  (exists n, p_wg s = S n /\ c_sh c' = upd_wg s n) /\
  nD nc (c_sh c') (aths c') = nD nc s ps /\
  live_or_reserved nc (c_sh c') (aths c') = live_or_reserved nc s ps /\
  over_reserved (aths c') = over_reserved ps.
Proof. eapply exit_done_step; first [eassumption | exact HG]. Qed.

(** (C) the exit path is entered only by the timer branch, the timer holding an expiry, or after the
    receive branch has reported the queue closed; the timer is left stopped and owned by nobody. *)
Theorem C11_exit_entry : forall i l, at_pc c i l -> at_pc (step_cfg M c i) i XExitDec ->
  exists j x, nth_error (p_timers s) j = Some x /\
    ((l = XSelect (S j) /\ tm_fired x = true /\ tm_armed x = false) \/
     (l = XStopTimer (S j) None /\ p_qclosed s = true)) /\
    nth_error (p_timers (c_sh (step_cfg M c i))) j = Some (Timer false false) /\
    cntp (owns (S j)) (aths (step_cfg M c i)) = 0%nat.
Proof. eapply exit_entry; first [eassumption | exact HG]. Qed.

(** ... and stays so for ever *)
Theorem C11_exited_timer_stays_stopped : forall i l sched2, at_pc c i l -> at_pc (step_cfg M c i) i XExitDec ->
  exists j, (l = XSelect (S j) \/ l = XStopTimer (S j) None) /\
    let c2 := final M (step_cfg M c i) sched2 in
    nth_error (p_timers (c_sh c2)) j = Some (Timer false false) /\ cntp (owns (S j)) (aths c2) = 0%nat.
Proof. intros i l sched2. eapply exited_timer_stays_stopped; first [eassumption | exact HG]. Qed.

(** (C) never spontaneously: the expiry seen by a worker waiting in its select was put into its timer
    by a Fire step of the environment taken while the worker was waiting in this select. *)
Theorem C11_fired_by_environment : forall i j x,
  at_pc c i (XSelect (S j)) -> nth_error (p_timers s) j = Some x -> tm_fired x = true ->
  fired_since lg i j.
Proof. eapply fired_by_environment; first [eassumption | exact HG]. Qed.

Theorem C11_timer_exit_was_fired : forall i l,
  at_pc c i l -> (forall tm, l <> XStopTimer tm None) -> at_pc (step_cfg M c i) i XExitDec ->
  exists j, l = XSelect (S j) /\ fired_since lg i j.
Proof. eapply timer_exit_was_fired; first [eassumption | exact HG]. Qed.

(** (C) per goroutine: decrements [d] and wg.Done()s [w] of the exit path executed so far. *)
Theorem C11_expanded_exit_accounting : forall i,
  let d := nsteps_of i is_xdec lg in let w := nsteps_of i is_xdone lg in
  (w <= d)%nat /\ (d <= 1)%nat /\
  (at_pc c i XExitDone -> d = 1%nat /\ w = 0%nat) /\
  (forall l, at_pc c i l -> l <> XExitDone -> d = 0%nat /\ w = 0%nat) /\
  (forall k, unstarted_slot c i k -> d = 0%nat /\ w = 0%nat) /\
  (finished_thr c i -> (nc <= i)%nat -> nth_error (p_spawned s) (i - nc) = Some RExpanded -> d = 1%nat /\ w = 1%nat) /\
  (finished_thr c i -> (nc <= i)%nat -> nth_error (p_spawned s) (i - nc) = Some RWorker -> d = 0%nat /\ w = 0%nat) /\
  (w = 1%nat -> finished_thr c i /\ (nc <= i)%nat /\ nth_error (p_spawned s) (i - nc) = Some RExpanded).
Proof. eapply expanded_exit_accounting; first [eassumption | exact HG]. Qed.

(** (C) live_or_reserved = granted - exited: every exit gives one unit of capacity back. *)
Theorem C11_reservation_balance :
  live_or_reserved nc s ps = Z.of_nat (ngranted lim lg) - Z.of_nat (nexited lg) /\
  nD nc s ps = nexited lg /\
  p_expanded s = Z.of_nat (ngranted lim lg) - Z.of_nat (nexited lg) + Z.of_nat (over_reserved ps) /\
  Z.of_nat (ngranted lim lg) - Z.of_nat (nexited lg) <= lim.
Proof. eapply reservation_balance; first [eassumption | exact HG]. Qed.

(* from c onwards: after k more exits and no new grant, live_or_reserved is down by k *)
Theorem C11_reservation_balance_from : forall sched2,
  let c' := final M c sched2 in let lg2 := steps_of M c sched2 in
  live_or_reserved nc (c_sh c') (aths c') =
    live_or_reserved nc s ps + Z.of_nat (ngranted lim lg2) - Z.of_nat (nexited lg2) /\
  nD nc (c_sh c') (aths c') = (nD nc s ps + nexited lg2)%nat.
Proof. intros sched2. eapply reservation_balance_from; first [eassumption | exact HG]. Qed.

(** (D) an idle expanded worker whose timer holds an expiry can always expire. *)
Theorem C11_idle_expanded_worker_can_expire : forall i tm, at_pc c i (XSelect tm) ->
  exists j x, tm = S j /\ nth_error (p_timers s) j = Some x /\
    (tm_fired x = true ->
       step_thread M c i <> None /\
       ((hd 0%nat (p_choices s)) mod 2 = 1 -> at_pc (step_cfg M c i) i XExitDec)%nat /\
       (p_queue s = [] -> p_qclosed s = false -> at_pc (step_cfg M c i) i XExitDec)) /\
    (tm_fired x = false -> ~ at_pc (step_cfg M c i) i XExitDec).
Proof. eapply idle_expanded_worker_can_expire; first [eassumption | exact HG]. Qed.

End Reachable.

(** (A) over the log: the step of a submitter that follows its AddInt32 is wg.Add(1)+go (observed <=
    limit) or the undo (observed > limit); any step in which it pushes comes strictly later. *)
Theorem C11_expansion_is_granted : forall sched j cj i id,
  let lg := steps_of M cfg0 sched in
  nth_error lg j = Some (cj, i) -> at_pc cj i (SubAddExp id) ->
  let v := p_expanded (c_sh cj) + 1 in
  forall j1 c1, next_of lg j i j1 -> nth_error lg j1 = Some (c1, i) ->
  let c1' := step_cfg M c1 i in
  GoodE nw lim clients nslots c1 /\
  (v <= lim ->
     at_pc c1 i (SubWgAdd id) /\ at_pc c1' i (SubPush id) /\
     let k := length (p_spawned (c_sh c1)) in
     p_spawned (c_sh c1') = p_spawned (c_sh c1) ++ [RExpanded] /\ p_wg (c_sh c1') = S (p_wg (c_sh c1)) /\
     unstarted_slot c1' (nc + k) k /\ step_thread M c1' (nc + k) <> None /\
     p_queue (c_sh c1') = p_queue (c_sh c1) /\ cnt (p_queue (c_sh c1')) id = 0%nat) /\
  (lim < v ->
     at_pc c1 i (SubSubExp id) /\ at_pc c1' i (SubPush id) /\
     c_sh c1' = upd_expanded (c_sh c1) (p_expanded (c_sh c1) - 1) /\
     (forall t, t <> i -> nth_error (c_thr c1') t = nth_error (c_thr c1) t)) /\
  (forall j2 c2, (j < j2)%nat -> nth_error lg j2 = Some (c2, i) -> at_pc c2 i (SubPush id) -> (j1 < j2)%nat).
Proof. eapply expansion_is_granted; first [eassumption | exact HG]. Qed.

(** (A) conversely: with expansion on, a submitter waiting in the blocking select of push has come there
    from its wg.Add(1)+go step or from its undo step, and that was its last step. *)
Theorem C11_push_after_decision : forall sched j2 c2 i id,
  let lg := steps_of M cfg0 sched in
  lim <> 0 -> nth_error lg j2 = Some (c2, i) -> at_pc c2 i (SubPush id) ->
  exists j1 c1, (j1 < j2)%nat /\ nth_error lg j1 = Some (c1, i) /\
    (at_pc c1 i (SubWgAdd id) \/ at_pc c1 i (SubSubExp id)) /\
    (forall k ck tk, (j1 < k < j2)%nat -> nth_error lg k = Some (ck, tk) -> tk <> i).
Proof. eapply push_after_decision; eassumption. Qed.

(** (C) ... in that order, and then never again *)
Theorem C11_exit_order : forall sched j cj i,
  let lg := steps_of M cfg0 sched in
  nth_error lg j = Some (cj, i) -> step_pc (cj, i) = Some XExitDone ->
  (exists j0 cj0, (j0 < j)%nat /\ nth_error lg j0 = Some (cj0, i) /\ step_pc (cj0, i) = Some XExitDec) /\
  (forall k ck, (j < k)%nat -> nth_error lg k <> Some (ck, i)).
Proof. eapply exit_order; first [eassumption | exact HG]. Qed.

End C11.

(** (E) the cap is reached: for every nw >= 1 and every limit there are a client program (nw + limit gated
    tasks submitted by one client with Do) and a schedule under which exactly nw + limit threads are
    inside an executor at the same time; by [C11_parallelism_capped] no run exceeds that. *)
Theorem C11_cap_reachable : forall nw lim : nat, (1 <= nw)%nat -> Z.of_nat lim + 1 < 2 ^ 31 ->
  exists clients nslots sched,
    clients_ok clients /\ (nw + cntdo (concat clients) <= nslots)%nat /\
    cntp is_exec (aths (final (pool nw (Z.of_nat lim)) (pool_cfg nw true [] clients nslots) sched)) = (nw + lim)%nat.
Proof. exact cap_reachable. Qed.

(* the witnesses, explicitly *)
Theorem C11_cap_reached_by : forall nw lim : nat, (1 <= nw)%nat -> Z.of_nat lim + 1 < 2 ^ 31 ->
  cntp is_exec (aths (final (pool nw (Z.of_nat lim)) (pool_cfg nw true [] (cap_clients nw lim) (nw + (nw + lim))) (cap_sched nw lim)))
  = (nw + lim)%nat.
Proof. exact cap_reached. Qed.

Print Assumptions C11_cap_reachable.
Print Assumptions C11_expansion_is_granted.
Print Assumptions C11_cap_not_undershot.
Print Assumptions C11_grant_iff_room.
Print Assumptions C11_expanded_exit_accounting.
Print Assumptions C11_reservation_balance.
Print Assumptions C11_idle_expanded_worker_can_expire.
