(** Non-vacuity audit of the pure property theorems (Properties/C05.v, C05Float.v, C18.v, C20.v).

    theorem                          -> example(s)                                   (u = unconditional)
    ------------------------------------------------------------------------------------------------
    C05_fixed                        -> u   (evaluated: C05_fixed_instance)
    C05_exponential_value            -> u   (evaluated: C05_exponential_value_instance)
    C05_exponential_le_max           -> C05_exponential_le_max_nonvacuous          (clamp really active: 6400 -> 5000)
    C05_random_range                 -> C05_random_range_nonvacuous                (Random 5 9), ..._extreme (Random 0 MaxInt64)
    C05_limit                        -> u   (evaluated: C05_limit_instance)
    C05_jitter_passthrough           -> C05_jitter_passthrough_nonvacuous          (stop -1 from a limit layer), ..._zero (delay 0)
    C05_jitter_band_partial          -> C05_jitter_band_partial_nonvacuous         (Fixed 1000, rates -0.5 / +0.5)
    C05_jitter_keeps_stop            -> C05_jitter_keeps_stop_nonvacuous
    C05_limit_keeps_stop             -> C05_limit_keeps_stop_nonvacuous
    C05_random_helper                -> C05_random_helper_nonvacuous (bound 10), ..._extreme (bound MaxInt64)
    C05_sat_mul_jitter_ordered       -> C05_sat_mul_jitter_ordered_nonvacuous      (tmp 1000, -0.5/+0.5), ..._extreme (MaxInt64, -1/+1)
    C05_jitter_band                  -> C05_jitter_band_nonvacuous                 (jitter over exponential, attempt 3), ..._extreme
    C05_jitter_ctor_rates            -> C05_jitter_ctor_rates_nonvacuous
    C05_sat_mul_one_below_arg        -> u   (closed statement)
    C05_sat_mul_ge_initial           -> C05_sat_mul_ge_initial_nonvacuous          (i = 2^53+1, p = 1+2^-52), ..._nan
    C05_sat_mul_ge_initial_exact     -> C05_sat_mul_ge_initial_exact_nonvacuous    (i = 2^53, p = 1.0)
    C05_sat_mul_mono_pow             -> C05_sat_mul_mono_pow_nonvacuous            (i = 2^62+512, p = 1.5, q = 2.0: q saturates)
    C05_exponential_ge_initial       -> C05_exponential_ge_initial_nonvacuous      (attempt 4, p = 8.0)
    C05_exponential_monotone         -> C05_exponential_monotone_nonvacuous        (attempts 3 -> 4), ..._first (attempts 1 -> 2)
    C05_of_bits_valid                -> u
    C18_total                        -> u
    C18_builder_total                -> u
    C18_accept_iff                   -> C18_accept_iff_nonvacuous_fwd / _bwd       ("exponential=100:5000:1.5")
    C18_reject                       -> C18_reject_nonvacuous                      ("exponential=100:50:1.5": max < initial)
    C18_int_fields                   -> C18_int_fields_nonvacuous_fwd / _bwd       ("-9223372036854775808")
    C18_layers_in_order              -> u   (evaluated: C18_layers_in_order_instance)
    C18_builder_call_sequences       -> u   (evaluated: C18_builder_call_sequences_instance)
    C18_builder_rebuild_same         -> u
    C18_builder_last_spec_wins       -> C18_builder_last_spec_wins_nonvacuous      (5 calls incl. a Build and a nil base, then a new spec)
    C18_builder_sequences_total      -> u
    C20_breaker                      -> C20_breaker_nonvacuous_fwd / _bwd          (threshold 0.5; reals proved directly), _rejects
    C20_exponential                  -> C20_exponential_nonvacuous_fwd / _bwd      (multiplier 2.0), _inf
    C20_fixed                        -> C20_fixed_nonvacuous_fwd / _bwd
    C20_random                       -> C20_random_nonvacuous_fwd / _bwd
    C20_limit                        -> C20_limit_nonvacuous_fwd / _bwd
    C20_jitter                       -> C20_jitter_nonvacuous_fwd / _bwd           (rates -0.5 / +0.5)

    Audit illustrations ([audit_*]) are at the end. *)
From Coq Require Import ZArith Bool List Lia Reals Lra Floats.SpecFloat.
From Flocq Require Import Core IEEE754.BinarySingleNaN.
From Garr Require Import Pure.F64 Pure.Retry Pure.Config Pure.ConfigProofs Pure.RetryProofs Pure.RetryFloat
     Pure.Spec Pure.SpecProofs Pure.Builder Pure.BuilderProofs.
From Garr Require Import Properties.C05 Properties.C05Float Properties.C18 Properties.C20.
Import ListNotations.
Local Open Scope Z_scope.

(* ------------------------------------------------------------------------------------------ *)
(** * helpers *)

Definition wordsb (l : list Z) : bool := forallb (fun w => (0 <=? w) && (w <? 2 ^ 32)) l.
Lemma wordsb_ok l : wordsb l = true -> words l.
Proof.
  unfold wordsb, words. rewrite forallb_forall, Forall_forall. intros H w Hw.
  specialize (H w Hw). apply andb_true_iff in H. destruct H as [H1 H2].
  apply Z.leb_le in H1. apply Z.ltb_lt in H2. unfold word. lia.
Qed.

(** binary64 constants, by their IEEE bit patterns *)
Definition f_1    : f64 := of_bits 4607182418800017408.   (* 1.0 *)
Definition f_1eps : f64 := of_bits 4607182418800017409.   (* 1 + 2^-52 *)
Definition f_1_5  : f64 := of_bits 4609434218613702656.   (* 1.5 *)
Definition f_2    : f64 := of_bits 4611686018427387904.   (* 2.0 *)
Definition f_4    : f64 := of_bits 4616189618054758400.   (* 4.0 *)
Definition f_8    : f64 := of_bits 4620693217682128896.   (* 8.0 *)
Definition f_64   : f64 := of_bits 4634204016564240384.   (* 64.0 *)
Definition f_half : f64 := of_bits 4602678819172646912.   (* 0.5 *)
Definition f_mhalf : f64 := of_bits 13826050856027422720. (* -0.5 *)
Definition f_m1   : f64 := of_bits 13830554455654793216.  (* -1.0 *)

Example consts_ok : f_1 = fone /\ f_m1 = fmone /\ f_2 = of_Z 2 /\ f_64 = of_Z 64.
Proof. vm_compute. repeat split. Qed.

(* ------------------------------------------------------------------------------------------ *)
(** * C05 *)

Example C05_fixed_instance : next_delay f_4 (Fixed 250) 3 [7] = Some (250, [7]) := C05_fixed f_4 250 3 [7].
Example C05_exponential_value_instance :
  next_delay f_8 (Expo 100 5000 f_2) 4 [] = Some (800, []).
Proof. rewrite C05_exponential_value. vm_compute. reflexivity. Qed.
Example C05_limit_instance :
  next_delay f_4 (Limit 3 (Fixed 10)) 2 [] = Some (10, []) /\ next_delay f_4 (Limit 3 (Fixed 10)) 3 [] = Some (-1, []).
Proof. rewrite !C05_limit. split; reflexivity. Qed.

(** exponential, attempt 7 of initial 100 / max 5000 / multiplier 2: 100 * 64 = 6400 is clamped *)
Example expo7 : next_delay f_64 (Expo 100 5000 f_2) 7 [] = Some (5000, []).
Proof. vm_compute. reflexivity. Qed.
Example C05_exponential_le_max_nonvacuous : 5000 <= 5000 :=
  C05_exponential_le_max f_64 100 5000 f_2 7 [] 5000 [] ltac:(lia) expo7.
Example expo7_unclamped : sat_mul 100 f_64 = 6400.
Proof. vm_compute. reflexivity. Qed.

(** random *)
Example words_r1 : words [7; 123456]. Proof. apply wordsb_ok. reflexivity. Qed.
Example wf_r1 : wf (Random 5 9 4). Proof. cbn. unfold max_int64. lia. Qed.
Example C05_random_range_nonvacuous :
  exists d rnd', next_delay fzero (Random 5 9 4) 1 [7; 123456] = Some (d, rnd') /\ 5 <= d <= 9 /\ words rnd' :=
  C05_random_range fzero 5 9 4 1 [7; 123456] words_r1 wf_r1.
Example C05_random_range_value : next_delay fzero (Random 5 9 4) 1 [7; 123456] = Some (8, []).
Proof. vm_compute. reflexivity. Qed.

Example words_r2 : words [4000000000; 123456; 77]. Proof. apply wordsb_ok. reflexivity. Qed.
Example wf_r2 : wf (Random 0 max_int64 max_int64). Proof. cbn. unfold max_int64. lia. Qed.
Example C05_random_range_nonvacuous_extreme :
  exists d rnd', next_delay fzero (Random 0 max_int64 max_int64) 3 [4000000000; 123456; 77] = Some (d, rnd') /\
                 0 <= d <= max_int64 /\ words rnd' :=
  C05_random_range fzero 0 max_int64 max_int64 3 [4000000000; 123456; 77] words_r2 wf_r2.
Example C05_random_range_value_extreme :
  next_delay fzero (Random 0 max_int64 max_int64) 3 [4000000000; 123456; 77] = Some (3978248573572673825, [77]).
Proof. vm_compute. reflexivity. Qed.

(** jitter over a limit layer that has fired: the stop goes through *)
Example stop3 : next_delay f_4 (Limit 3 (Fixed 10)) 3 [1; 2] = Some (-1, [1; 2]).
Proof. reflexivity. Qed.
Example C05_jitter_passthrough_nonvacuous :
  next_delay f_4 (Jitter f_mhalf f_half (Limit 3 (Fixed 10))) 3 [1; 2] = Some (-1, [1; 2]) :=
  C05_jitter_passthrough f_4 f_mhalf f_half (Limit 3 (Fixed 10)) 3 [1; 2] (-1) [1; 2] stop3 ltac:(lia).
(** ... and the boundary case tmp = 0 of "non-positive" *)
Example C05_jitter_passthrough_nonvacuous_zero :
  next_delay f_4 (Jitter f_mhalf f_half (Fixed 0)) 2 [1; 2] = Some (0, [1; 2]) :=
  C05_jitter_passthrough f_4 f_mhalf f_half (Fixed 0) 2 [1; 2] 0 [1; 2] eq_refl ltac:(lia).
Example C05_jitter_keeps_stop_nonvacuous :
  next_delay f_4 (Jitter f_mhalf f_half (Limit 3 (Fixed 10))) 3 [1; 2] = Some (-1, [1; 2]) :=
  C05_jitter_keeps_stop f_4 f_mhalf f_half (Limit 3 (Fixed 10)) 3 [1; 2] (-1) [1; 2] stop3 ltac:(lia).

(** a limit on top of (a jitter on top of) a limit that has fired *)
Example stop5 : next_delay f_4 (Jitter f_mhalf f_half (Limit 2 (Fixed 10))) 5 [1; 2] = Some (-1, [1; 2]).
Proof. vm_compute. reflexivity. Qed.
Example C05_limit_keeps_stop_nonvacuous :
  exists d rnd2, next_delay f_4 (Limit 10 (Jitter f_mhalf f_half (Limit 2 (Fixed 10)))) 5 [1; 2] = Some (d, rnd2) /\ d < 0 :=
  C05_limit_keeps_stop f_4 10 (Jitter f_mhalf f_half (Limit 2 (Fixed 10))) 5 [1; 2] (-1) [1; 2] stop5 ltac:(lia).
Example C05_limit_keeps_stop_value :
  next_delay f_4 (Limit 10 (Jitter f_mhalf f_half (Limit 2 (Fixed 10)))) 5 [1; 2] = Some (-1, [1; 2]).
Proof. vm_compute. reflexivity. Qed.

(** jitter band with the ordering of the two products as a hypothesis *)
Example words_12 : words [1; 2]. Proof. apply wordsb_ok. reflexivity. Qed.
Example fixed1000 : next_delay fzero (Fixed 1000) 1 [1; 2] = Some (1000, [1; 2]). Proof. reflexivity. Qed.
Example band1000 : sat_mul 1000 (fadd fone f_mhalf) = 500 /\ sat_mul 1000 (fadd fone f_half) = 1500.
Proof. vm_compute. split; reflexivity. Qed.
Example band1000_ord : 0 <= sat_mul 1000 (fadd fone f_mhalf) <= sat_mul 1000 (fadd fone f_half).
Proof. destruct band1000 as [-> ->]. lia. Qed.
Example band1000_max : sat_mul 1000 (fadd fone f_half) <= max_int64.
Proof. destruct band1000 as [_ ->]. unfold max_int64. lia. Qed.
Example C05_jitter_band_partial_nonvacuous :
  exists d rnd2, next_delay fzero (Jitter f_mhalf f_half (Fixed 1000)) 1 [1; 2] = Some (d, rnd2) /\
                 sat_mul 1000 (fadd fone f_mhalf) <= d <= sat_mul 1000 (fadd fone f_half) /\ words rnd2 :=
  C05_jitter_band_partial fzero f_mhalf f_half (Fixed 1000) 1 [1; 2] 1000 [1; 2]
    words_12 fixed1000 ltac:(lia) band1000_ord band1000_max.
Example C05_jitter_band_partial_value :
  next_delay fzero (Jitter f_mhalf f_half (Fixed 1000)) 1 [1; 2] = Some (811, []).
Proof. vm_compute. reflexivity. Qed.

(** the random helper *)
Example words_h1 : words [12345; 678; 9]. Proof. apply wordsb_ok. reflexivity. Qed.
Example C05_random_helper_nonvacuous :
  exists r rnd', next_incl_zero 10 [12345; 678; 9] = Some (r, rnd') /\ 0 <= r < 10 /\ words rnd' :=
  C05_random_helper 10 [12345; 678; 9] words_h1 ltac:(unfold max_int64; lia).
Example C05_random_helper_value : next_incl_zero 10 [12345; 678; 9] = Some (9, [9]).
Proof. vm_compute. reflexivity. Qed.
Example words_h2 : words [4294967295; 4294967295; 9]. Proof. apply wordsb_ok. reflexivity. Qed.
Example C05_random_helper_nonvacuous_extreme :
  exists r rnd', next_incl_zero max_int64 [4294967295; 4294967295; 9] = Some (r, rnd') /\
                 0 <= r < max_int64 /\ words rnd' :=
  C05_random_helper max_int64 [4294967295; 4294967295; 9] words_h2 ltac:(unfold max_int64; lia).
Example C05_random_helper_value_extreme :
  next_incl_zero max_int64 [4294967295; 4294967295; 9] = Some (4611686018427387903, [9]).
Proof. vm_compute. reflexivity. Qed.

(* ------------------------------------------------------------------------------------------ *)
(** * C05Float *)

Example v_half : valid64 f_half. Proof. reflexivity. Qed.
Example v_mhalf : valid64 f_mhalf. Proof. reflexivity. Qed.
Example v_1 : valid64 f_1. Proof. reflexivity. Qed.
Example v_m1 : valid64 f_m1. Proof. reflexivity. Qed.
Example r_half : rate_ok f_half. Proof. split; reflexivity. Qed.
Example r_mhalf : rate_ok f_mhalf. Proof. split; reflexivity. Qed.
Example r_1 : rate_ok f_1. Proof. split; reflexivity. Qed.
Example r_m1 : rate_ok f_m1. Proof. split; reflexivity. Qed.

Example C05_sat_mul_jitter_ordered_nonvacuous :
  0 <= sat_mul 1000 (fadd fone f_mhalf) <= sat_mul 1000 (fadd fone f_half) /\
  sat_mul 1000 (fadd fone f_half) <= max_int64 :=
  C05_sat_mul_jitter_ordered 1000 f_mhalf f_half ltac:(unfold max_int64; lia) v_mhalf v_half r_mhalf r_half eq_refl.
(** the extreme corner: the largest delay, rates at both interval ends; the upper product saturates *)
Example C05_sat_mul_jitter_ordered_nonvacuous_extreme :
  0 <= sat_mul max_int64 (fadd fone f_m1) <= sat_mul max_int64 (fadd fone f_1) /\
  sat_mul max_int64 (fadd fone f_1) <= max_int64 :=
  C05_sat_mul_jitter_ordered max_int64 f_m1 f_1 ltac:(unfold max_int64; lia) v_m1 v_1 r_m1 r_1 eq_refl.
Example C05_sat_mul_jitter_ordered_value_extreme :
  sat_mul max_int64 (fadd fone f_m1) = 0 /\ sat_mul max_int64 (fadd fone f_1) = max_int64.
Proof. vm_compute. split; reflexivity. Qed.

(** jitter over an exponential policy at attempt 3 (100 * 2^2 = 400, band [200, 600]) *)
Definition rnd3 : list Z := [305419896; 2271560481; 5].
Example words_rnd3 : words rnd3. Proof. apply wordsb_ok. reflexivity. Qed.
Example expo3 : next_delay f_4 (Expo 100 5000 f_2) 3 rnd3 = Some (400, rnd3).
Proof. vm_compute. reflexivity. Qed.
Example C05_jitter_band_nonvacuous :
  exists d rnd2, next_delay f_4 (Jitter f_mhalf f_half (Expo 100 5000 f_2)) 3 rnd3 = Some (d, rnd2) /\
    sat_mul 400 (fadd fone f_mhalf) <= d <= sat_mul 400 (fadd fone f_half) /\
    0 <= sat_mul 400 (fadd fone f_mhalf) /\ sat_mul 400 (fadd fone f_half) <= max_int64 /\ words rnd2 :=
  C05_jitter_band f_4 f_mhalf f_half (Expo 100 5000 f_2) 3 rnd3 400 rnd3
    words_rnd3 v_mhalf v_half r_mhalf r_half eq_refl expo3 ltac:(unfold max_int64; lia).
Example C05_jitter_band_value :
  next_delay f_4 (Jitter f_mhalf f_half (Expo 100 5000 f_2)) 3 rnd3 = Some (594, [5]) /\
  sat_mul 400 (fadd fone f_mhalf) = 200 /\ sat_mul 400 (fadd fone f_half) = 600.
Proof. vm_compute. repeat split; reflexivity. Qed.
(** the widest band: delay MaxInt64, rates -1 / +1 (the [width = MaxInt64] branch of the code) *)
Example fixedmax : next_delay f_4 (Fixed max_int64) 3 rnd3 = Some (max_int64, rnd3). Proof. reflexivity. Qed.
Example C05_jitter_band_nonvacuous_extreme :
  exists d rnd2, next_delay f_4 (Jitter f_m1 f_1 (Fixed max_int64)) 3 rnd3 = Some (d, rnd2) /\
    sat_mul max_int64 (fadd fone f_m1) <= d <= sat_mul max_int64 (fadd fone f_1) /\
    0 <= sat_mul max_int64 (fadd fone f_m1) /\ sat_mul max_int64 (fadd fone f_1) <= max_int64 /\ words rnd2 :=
  C05_jitter_band f_4 f_m1 f_1 (Fixed max_int64) 3 rnd3 max_int64 rnd3
    words_rnd3 v_m1 v_1 r_m1 r_1 eq_refl fixedmax ltac:(unfold max_int64; lia).
Example C05_jitter_band_value_extreme :
  next_delay f_4 (Jitter f_m1 f_1 (Fixed max_int64)) 3 rnd3 = Some (1311768467139281697, [5]).
Proof. vm_compute. reflexivity. Qed.

Example C05_jitter_ctor_rates_nonvacuous :
  Jitter f_mhalf f_half (Expo 100 5000 f_2) = Jitter f_mhalf f_half (Expo 100 5000 f_2) /\
  rate_ok f_mhalf /\ rate_ok f_half /\ fleb f_mhalf f_half = true :=
  C05_jitter_ctor_rates (Expo 100 5000 f_2) f_mhalf f_half (Jitter f_mhalf f_half (Expo 100 5000 f_2))
    v_mhalf v_half eq_refl.

(** never below initial: the integer of the FINDING (2^53+1, which float64 rounds down) with the
    smallest factor above 1 *)
Example v_1eps : valid64 f_1eps. Proof. reflexivity. Qed.
Example C05_sat_mul_ge_initial_nonvacuous : 2 ^ 53 + 1 <= sat_mul (2 ^ 53 + 1) f_1eps :=
  C05_sat_mul_ge_initial (2 ^ 53 + 1) f_1eps ltac:(unfold max_int64; lia) v_1eps (or_introl eq_refl).
Example C05_sat_mul_ge_initial_value : sat_mul (2 ^ 53 + 1) f_1eps = 2 ^ 53 + 2.
Proof. vm_compute. reflexivity. Qed.
Example C05_sat_mul_ge_initial_nonvacuous_nan : max_int64 <= sat_mul max_int64 S754_nan :=
  C05_sat_mul_ge_initial max_int64 S754_nan ltac:(unfold max_int64; lia) eq_refl (or_intror eq_refl).

Example C05_sat_mul_ge_initial_exact_nonvacuous : 2 ^ 53 <= sat_mul (2 ^ 53) f_1 :=
  C05_sat_mul_ge_initial_exact (2 ^ 53) f_1 ltac:(lia) v_1 (or_introl eq_refl).

Example v_1_5 : valid64 f_1_5. Proof. reflexivity. Qed.
Example v_2 : valid64 f_2. Proof. reflexivity. Qed.
Example v_4 : valid64 f_4. Proof. reflexivity. Qed.
Example v_8 : valid64 f_8. Proof. reflexivity. Qed.
Example C05_sat_mul_mono_pow_nonvacuous : sat_mul (2 ^ 62 + 512) f_1_5 <= sat_mul (2 ^ 62 + 512) f_2 :=
  C05_sat_mul_mono_pow (2 ^ 62 + 512) f_1_5 f_2 ltac:(unfold max_int64; lia) v_1_5 v_2 eq_refl eq_refl.
Example C05_sat_mul_mono_pow_value :
  sat_mul (2 ^ 62 + 512) f_1_5 = 6917529027641081856 /\ sat_mul (2 ^ 62 + 512) f_2 = max_int64.
Proof. vm_compute. split; reflexivity. Qed.

Example expo4 : next_delay f_8 (Expo 100 5000 f_2) 4 rnd3 = Some (800, rnd3).
Proof. vm_compute. reflexivity. Qed.
Example C05_exponential_ge_initial_nonvacuous : 100 <= 800 <= 5000 :=
  C05_exponential_ge_initial f_8 100 5000 f_2 4 rnd3 800 rnd3
    ltac:(lia) ltac:(unfold max_int64; lia) v_8 (or_introl eq_refl) expo4.

Example C05_exponential_monotone_nonvacuous : 400 <= 800 :=
  C05_exponential_monotone f_4 f_8 100 5000 f_2 3 rnd3 400 800 rnd3 rnd3
    ltac:(lia) ltac:(unfold max_int64; lia) v_4 v_8 eq_refl eq_refl ltac:(lia) expo3 expo4.
(** attempts 1 -> 2: see audit remark A-C05-3; the oracle value for attempt 1 is pow(m,0) = 1.0,
    which the hypothesis [fltb fone p = true] excludes; since attempt 1 ignores [p], the theorem is
    still usable there with any other value, e.g. q itself *)
Example expo1 : next_delay f_2 (Expo 100 5000 f_2) 1 rnd3 = Some (100, rnd3). Proof. reflexivity. Qed.
Example expo2 : next_delay f_2 (Expo 100 5000 f_2) (1 + 1) rnd3 = Some (200, rnd3).
Proof. vm_compute. reflexivity. Qed.
Example C05_exponential_monotone_nonvacuous_first : 100 <= 200 :=
  C05_exponential_monotone f_2 f_2 100 5000 f_2 1 rnd3 100 200 rnd3 rnd3
    ltac:(lia) ltac:(unfold max_int64; lia) v_2 v_2 eq_refl eq_refl ltac:(lia) expo1 expo2.

(* ------------------------------------------------------------------------------------------ *)
(** * C18 *)

(** the ParseFloat oracle: knows "1.5" *)
Definition nv_pf (s : list Z) : option f64 := if bytes_eqb s [49; 46; 53] then Some f_1_5 else None.

(** "100:5000:1.5" and "exponential=100:5000:1.5" *)
Definition v_expo : list Z := [49;48;48; 58; 53;48;48;48; 58; 49;46;53].
Definition s_expo : list Z := key_exponential ++ 61 :: v_expo.

Example parse_expo : parse_spec nv_pf s_expo = Ok (Expo 100 5000 f_1_5).
Proof. vm_compute. reflexivity. Qed.
Example C18_accept_iff_nonvacuous_fwd : spec_ok nv_pf s_expo (Expo 100 5000 f_1_5) :=
  proj1 (C18_accept_iff nv_pf s_expo (Expo 100 5000 f_1_5)) parse_expo.
(** the right-hand side built independently of the parser, then the parser's answer from it *)
Example spec_ok_expo : spec_ok nv_pf s_expo (Expo 100 5000 f_1_5).
Proof.
  apply (SO_expo nv_pf v_expo [49;48;48] [53;48;48;48] [49;46;53] 100 5000 f_1_5 (Expo 100 5000 f_1_5));
    vm_compute; reflexivity.
Qed.
Example C18_accept_iff_nonvacuous_bwd : parse_spec nv_pf s_expo = Ok (Expo 100 5000 f_1_5) :=
  proj2 (C18_accept_iff nv_pf s_expo (Expo 100 5000 f_1_5)) spec_ok_expo.

(** "exponential=100:50:1.5": well-formed syntax, but max < initial; no [spec_ok] (proved by
    inversion, not through the parser) *)
Definition s_bad : list Z := key_exponential ++ 61 :: [49;48;48; 58; 53;48; 58; 49;46;53].
Example s_bad_not_ok : forall b, ~ spec_ok nv_pf s_bad b.
Proof.
  intros b H. remember s_bad as s eqn:Es.
  destruct H as [v d b' H1 H2|v f0 f1 mn mx b' H1 H2 H3 H4|v f0 f1 f2 i mx m b' H1 H2 H3 H4 H5];
    vm_compute in Es; try discriminate Es.
  inversion Es. subst v. clear Es.
  vm_compute in H1. inversion H1. subst f0 f1 f2. clear H1.
  vm_compute in H2. inversion H2. subst i. vm_compute in H3. inversion H3. subst mx.
  vm_compute in H4. inversion H4. subst m. vm_compute in H5. discriminate H5.
Qed.
Example C18_reject_nonvacuous : parse_spec nv_pf s_bad = Err := C18_reject nv_pf s_bad s_bad_not_ok.

(** "-9223372036854775808" *)
Definition d_min : list Z := [57;50;50;51;51;55;50;48;51;54;56;53;52;55;55;53;56;48;56].
Example parse_min : parse_int (45 :: d_min) = Some min_int64. Proof. vm_compute. reflexivity. Qed.
Example C18_int_fields_nonvacuous_fwd : int_syntax (45 :: d_min) min_int64 /\ in_int64 min_int64 = true :=
  proj1 (C18_int_fields (45 :: d_min) min_int64) parse_min.
Example syntax_min : int_syntax (45 :: d_min) min_int64.
Proof.
  change min_int64 with (- dec_value d_min). apply IS_minus; [discriminate|reflexivity].
Qed.
Example C18_int_fields_nonvacuous_bwd : parse_int (45 :: d_min) = Some min_int64 :=
  proj2 (C18_int_fields (45 :: d_min) min_int64) (conj syntax_min eq_refl).
(** one more digit is out of range: both sides of the equivalence are false *)
Example C18_int_fields_out_of_range : parse_int (45 :: d_min ++ [48]) = None. Proof. vm_compute. reflexivity. Qed.

Example C18_layers_in_order_instance :
  build (Fixed 10) ([LLimit 3; with_jitter f_half] ++ [LLimit 7]) =
  Some (Limit 7 (Jitter f_mhalf f_half (Limit 3 (Fixed 10)))).
Proof. rewrite C18_layers_in_order. vm_compute. reflexivity. Qed.

(** builder call sequences *)
Definition s_fixed1 : list Z := key_fixed ++ [61; 49].              (* "fixed=1" *)
Definition nv_ops : list bop :=
  [SetSpec s_fixed1; AddLayer (LLimit 3); DoBuild; SetBase None; AddLayer (with_jitter f_half)].

Example C18_builder_last_spec_wins_nonvacuous :
  snd (bstep nv_pf (fst (brun nv_pf binit (nv_ops ++ [SetSpec s_expo]))) DoBuild) =
  Some (build_spec nv_pf s_expo (layers_of nv_ops)) :=
  C18_builder_last_spec_wins nv_pf nv_ops s_expo eq_refl.
Example C18_builder_last_spec_wins_value :
  snd (bstep nv_pf (fst (brun nv_pf binit (nv_ops ++ [SetSpec s_expo]))) DoBuild) =
  Some (Ok (Jitter f_mhalf f_half (Limit 3 (Expo 100 5000 f_1_5)))) /\
  snd (brun nv_pf binit nv_ops) = [Ok (Limit 3 (Fixed 1))].
Proof. vm_compute. split; reflexivity. Qed.
(** the hypothesis [last_base ops None = None] excludes exactly the sequences with an explicit base;
    there the explicit base wins over a later specification *)
Example C18_builder_last_spec_wins_hypothesis_bites :
  last_base (nv_ops ++ [SetBase (Some (Fixed 7))]) None <> None /\
  snd (bstep nv_pf (fst (brun nv_pf binit ((nv_ops ++ [SetBase (Some (Fixed 7))]) ++ [SetSpec s_expo]))) DoBuild) =
  Some (Ok (Jitter f_mhalf f_half (Limit 3 (Fixed 7)))).
Proof. split; [discriminate|vm_compute; reflexivity]. Qed.

Example C18_builder_call_sequences_instance :
  snd (bstep nv_pf (fst (brun nv_pf binit nv_ops)) DoBuild) = Some (Ok (Jitter f_mhalf f_half (Limit 3 (Fixed 1)))).
Proof. rewrite C18_builder_call_sequences. vm_compute. reflexivity. Qed.

(* ------------------------------------------------------------------------------------------ *)
(** * C20 *)

(** binary64 values as Flocq floats *)
Definition b_half : b64 := @B754_finite 53 1024 false 4503599627370496 (-53) eq_refl.    (* 0.5 *)
Definition b_mhalf : b64 := @B754_finite 53 1024 true 4503599627370496 (-53) eq_refl.    (* -0.5 *)
Definition b_two : b64 := @B754_finite 53 1024 false 4503599627370496 (-51) eq_refl.     (* 2.0 *)

Example b_consts : B2SF b_half = f_half /\ B2SF b_mhalf = f_mhalf /\ B2SF b_two = f_2.
Proof. vm_compute. repeat split. Qed.

Lemma b_half_R : B2R b_half = (/ 2)%R.
Proof. unfold b_half, B2R, F2R. simpl. lra. Qed.
Lemma b_mhalf_R : B2R b_mhalf = (- / 2)%R.
Proof. unfold b_mhalf, B2R, F2R. simpl. lra. Qed.
Lemma b_two_R : B2R b_two = 2%R.
Proof. unfold b_two, B2R, F2R. simpl. lra. Qed.

(** threshold 0.5, minimum 10 requests, 3 s trial interval, 10 s open, 20 s window, 1 s update *)
Example breaker_ok :
  validate {| thr := B2SF b_half; minreq := 10; trial := 3000000000; openw := 10000000000;
              window := 20000000000; interval := 1000000000 |} = true.
Proof. vm_compute. reflexivity. Qed.
Example C20_breaker_nonvacuous_fwd :
  (real b_half /\ (0 < B2R b_half <= 1)%R) /\ 0 < 3000000000 /\ 0 < 10000000000 /\ 0 < 20000000000 /\
  0 < 1000000000 /\ 1000000000 < 20000000000 :=
  proj1 (C20_breaker b_half 10 3000000000 10000000000 20000000000 1000000000) breaker_ok.
(** the right-hand side proved directly over the reals *)
Example breaker_rhs :
  (real b_half /\ (0 < B2R b_half <= 1)%R) /\ 0 < 3000000000 /\ 0 < 10000000000 /\ 0 < 20000000000 /\
  0 < 1000000000 /\ 1000000000 < 20000000000.
Proof. split; [split; [reflexivity|rewrite b_half_R; lra]|lia]. Qed.
Example C20_breaker_nonvacuous_bwd :
  validate {| thr := B2SF b_half; minreq := 10; trial := 3000000000; openw := 10000000000;
              window := 20000000000; interval := 1000000000 |} = true :=
  proj2 (C20_breaker b_half 10 3000000000 10000000000 20000000000 1000000000) breaker_rhs.
(** NaN, and window = interval: rejected (both sides false) *)
Example C20_breaker_rejects :
  validate {| thr := B2SF (B754_nan : b64); minreq := 10; trial := 1; openw := 1; window := 2; interval := 1 |} = false /\
  validate {| thr := B2SF b_half; minreq := 10; trial := 1; openw := 1; window := 5; interval := 5 |} = false.
Proof. split; vm_compute; reflexivity. Qed.

Example expo_ok : new_expo 100 5000 (B2SF b_two) <> None. Proof. vm_compute. discriminate. Qed.
Example C20_exponential_nonvacuous_fwd :
  ((real b_two /\ (1 < B2R b_two)%R) \/ b_two = B754_infinity false) /\ 0 <= 100 <= 5000 :=
  proj1 (C20_exponential 100 5000 b_two) expo_ok.
Example expo_rhs : ((real b_two /\ (1 < B2R b_two)%R) \/ b_two = B754_infinity false) /\ 0 <= 100 <= 5000.
Proof. split; [left; split; [reflexivity|rewrite b_two_R; lra]|lia]. Qed.
Example C20_exponential_nonvacuous_bwd : new_expo 100 5000 (B2SF b_two) <> None :=
  proj2 (C20_exponential 100 5000 b_two) expo_rhs.
Example C20_exponential_nonvacuous_inf : new_expo 100 5000 (B2SF (B754_infinity false : b64)) <> None.
Proof. apply (proj2 (C20_exponential 100 5000 (B754_infinity false : b64))). split; [right; reflexivity|lia]. Qed.

Example C20_fixed_nonvacuous_fwd : 0 <= 250 := proj1 (C20_fixed 250) ltac:(vm_compute; discriminate).
Example C20_fixed_nonvacuous_bwd : new_fixed 250 <> None := proj2 (C20_fixed 250) ltac:(lia).
Example C20_fixed_rejects : new_fixed (-1) = None. Proof. reflexivity. Qed.

Example C20_random_nonvacuous_fwd : 0 <= 5 <= 9 := proj1 (C20_random 5 9) ltac:(vm_compute; discriminate).
Example C20_random_nonvacuous_bwd : new_random 5 9 <> None := proj2 (C20_random 5 9) ltac:(lia).
Example C20_random_rejects : new_random 9 5 = None. Proof. reflexivity. Qed.

Example C20_limit_nonvacuous_fwd : 0 < 3 := proj1 (C20_limit (Fixed 10) 3) ltac:(vm_compute; discriminate).
Example C20_limit_nonvacuous_bwd : new_limit (Fixed 10) 3 <> None := proj2 (C20_limit (Fixed 10) 3) ltac:(lia).
Example C20_limit_rejects : new_limit (Fixed 10) 0 = None. Proof. reflexivity. Qed.

Example jitter_ok : new_jitter (Fixed 1000) (B2SF b_mhalf) (B2SF b_half) <> None.
Proof. vm_compute. discriminate. Qed.
Example C20_jitter_nonvacuous_fwd :
  real b_mhalf /\ real b_half /\ (-1 <= B2R b_mhalf <= B2R b_half)%R /\ (B2R b_half <= 1)%R :=
  proj1 (C20_jitter (Fixed 1000) b_mhalf b_half) jitter_ok.
Example jitter_rhs : real b_mhalf /\ real b_half /\ (-1 <= B2R b_mhalf <= B2R b_half)%R /\ (B2R b_half <= 1)%R.
Proof. rewrite b_half_R, b_mhalf_R. repeat split; try reflexivity; lra. Qed.
Example C20_jitter_nonvacuous_bwd : new_jitter (Fixed 1000) (B2SF b_mhalf) (B2SF b_half) <> None :=
  proj2 (C20_jitter (Fixed 1000) b_mhalf b_half) jitter_rhs.
Example C20_jitter_rejects : new_jitter (Fixed 1000) (B2SF b_half) (B2SF b_mhalf) = None.
Proof. vm_compute. reflexivity. Qed.

(* ------------------------------------------------------------------------------------------ *)
(** * Audit remarks, with machine-checked illustrations

    A-C05-1  [C05_fixed], [C05_limit] (proved by [reflexivity]) and [C05_exponential_value] are
             unfoldings of the definition of [next_delay]: they restate the model.  Their value
             is exactly the fidelity of Pure/Retry.v to the Go code (checked by the differential
             run, not by these theorems).
    A-C05-2  The exponential policy ignores its multiplier in the model ([Expo i mx _]); [p] is a
             free oracle.  All exponential theorems are statements about an ARBITRARY float p
             ([audit_expo_oracle_unlinked]); "never below initial" and "monotone" are conditional
             on [fltb fone p] / [fleb p q], i.e. on unproved facts about math.Pow
             (pow(m,k) > 1 for m > 1, k >= 1; pow monotone in k).  Satisfiable (examples above),
             but that link is outside Coq.
    A-C05-3  [C05_exponential_monotone] with n = 1: the true oracle value pow(m,0) = 1.0 does not
             satisfy [fltb fone p = true] ([audit_monotone_first_step_oracle]); the theorem is
             still applicable there because attempt 1 ignores p
             ([C05_exponential_monotone_nonvacuous_first] passes p := q).
    A-C05-4  [C05_random_range]'s envelope [mn, mx] is not tight: the model (faithfully to
             utils.go) never returns mn, and returns mx only when mx = mn + 1
             ([audit_random_never_min]).  Not a vacuity problem; the documented "[1, bound]" of
             nextRandomInt64 is not what the code does.
    A-C05-5  [C05_random_helper] ("never loops"): true because the rejection test
             [u < result - mask] is dead for u >= 0 (RetryProofs.incl_zero_loop_first); the fuel
             default [None] and the zero-padding of [take2] are never what makes a statement
             true (every conclusion exhibits [Some]), and [words rnd] does not need a minimum
             length: an exhausted stream reads as zeros, which are legitimate words.
    A-C05-6  No hypothesis excludes the overflow corner: tmp = MaxInt64 with rates -1 / +1, the
             2^53+1 rounding case, Random 0 MaxInt64 are all instantiated above.
    A-C18-1  [spec_ok] is built from the parser's own helpers ([split_on], [int_field], [new_*],
             the [pf] oracle): [C18_accept_iff] says that [parse_spec] is the key dispatch over
             these helpers, no more.  The independent content is [C18_int_fields] and C20.
    A-C18-2  [C18_reject] is the contrapositive of [C18_accept_iff] plus [C18_total]; by
             [C18_accept_iff] its hypothesis is literally "parse_spec is not Ok".
    A-C18-3  [C18_layers_in_order] is the snoc law of a left fold ([build] IS a left fold): it
             restates the definition.  The content about the real builder is
             [C18_builder_call_sequences].
    A-C18-4  [C18_builder_last_spec_wins]: the hypothesis [last_base ops None = None] removes every
             sequence that ever set an explicit base; there a later specification is silently
             ignored ([C18_builder_last_spec_wins_hypothesis_bites]) - consistent with
             [build_of_calls], but "a specification given later is the one that counts" holds only
             in that sub-case.
    A-C20-1  [C20_fixed] / [C20_random] / [C20_limit] restate the [if]s of the model
             constructors (trivial by design).  The delegate == nil error of the Go constructors
             (jitter, limit) is not in the model ([b : backoff] is never nil).
    A-C20-2  Nothing vacuous: each equivalence has an accepted and a rejected instance above; the
             real-number sides are proved directly (not through the theorem) for breaker,
             exponential and jitter. *)

Example audit_expo_oracle_unlinked :
  (* attempt 2 of multiplier 2.0 with the oracle claiming pow = 64: accepted by every theorem *)
  next_delay f_64 (Expo 100 5000 f_2) 2 [] = Some (5000, []) /\
  (* and the multiplier field is dead *)
  next_delay f_4 (Expo 100 5000 f_2) 3 [] = next_delay f_4 (Expo 100 5000 f_8) 3 [].
Proof. split; vm_compute; reflexivity. Qed.

Example audit_monotone_first_step_oracle : fltb fone f_1 = false /\ fleb fone f_1 = true.
Proof. split; reflexivity. Qed.

(** Random 5 9: every outcome is in [6, 8]; Random 5 6: always 6 *)
Example audit_random_never_min : forall p n rnd, words rnd ->
  (exists d rnd', next_delay p (Random 5 9 4) n rnd = Some (d, rnd') /\ 6 <= d <= 8) /\
  (exists rnd', next_delay p (Random 5 6 1) n rnd = Some (6, rnd')).
Proof.
  intros p n rnd Hw. split.
  - destruct (next_random_range 4 rnd Hw ltac:(unfold max_int64; lia)) as (r & rnd' & E & Hr & _).
    cbn [next_delay]. change (negb (5 =? 9)) with true. cbv iota. rewrite E.
    exists (wrap64 (r + 5)), rnd'. split; [reflexivity|].
    rewrite wrap64_id by (unfold min_int64, max_int64; lia). lia.
  - destruct (next_random_range 1 rnd Hw ltac:(unfold max_int64; lia)) as (r & rnd' & E & Hr & _).
    cbn [next_delay]. change (negb (5 =? 6)) with true. cbv iota. rewrite E.
    exists rnd'. assert (r = 1) by lia. subst r. reflexivity.
Qed.
