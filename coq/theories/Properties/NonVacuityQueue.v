(** Non-vacuity audit of the QUEUE property theorems
    (Properties/C01.v, C07.v, C07Fair.v, C13.v, C15.v, C19.v).

    Every conditional theorem is instantiated with explicit client programs
    (three threads), an explicit schedule and explicit log positions; all
    hypotheses are closed by [vm_compute].

    theorem                                   -> example
    ------------------------------------------------------------------------
    C01_jdk_linearizable                      -> C01_jdk_linearizable_nonvacuous       (progsF, schedF; + trace shown)
    C01_jdk_structure                         -> unconditional
    C01_mutex_linearizable                    -> unconditional
    C01_jdk_herlihy_wing                      -> C01_jdk_herlihy_wing_nonvacuous
    C01_mutex_herlihy_wing                    -> unconditional
    C07_never_blocks                          -> unconditional
    C07_solo_termination_bound                -> C07_solo_termination_bound_nonvacuous (thread frozen mid-Offer, lagging tail)
                                                 C07_solo_termination_bound_nonvacuous_idle (another thread, idle, runs its next call)
    C07_total_termination                     -> unconditional
    C07_bound_formula                         -> unconditional (arithmetical restatement of [bound])
    C07_scheduled_thread_finishes             -> C07_scheduled_thread_finishes_nonvacuous
    C07_scheduled_thread_returns_all          -> C07_scheduled_thread_returns_all_nonvacuous
    C07_fair_all_return                       -> C07_fair_all_return_nonvacuous
    C07_fair_infinite                         -> C07_fair_infinite_nonvacuous          (sigma n = n mod 3)
    C07_frozen_goroutine                      -> C07_frozen_goroutine_nonvacuous       (thread 0 frozen between link CAS and tail CAS)
    C13_only_offered_values                   -> unconditional
    C13_next_skips_only_dead                  -> C13_next_skips_only_dead_nonvacuous   (+ _values: evaluated)
    C13_at_most_once_in_order                 -> C13_at_most_once_in_order_nonvacuous  (Next at log 27 and 41, a Remove and a concurrent Offer in between)
    C13_returns_every_stable_element          -> C13_returns_every_stable_element_nonvacuous (a = 2: returned earlier),
                                                 C13_returns_every_stable_element_nonvacuous_ahead (a = 5: offered during the traversal, still ahead)
    C13_remove_kills_last_returned            -> C13_remove_kills_last_returned_nonvacuous (lst = 3 <> 0)
    C13_exactly_one_fate                      -> C13_exactly_one_fate_nonvacuous_polled / _removed / _queued
    C15_jdk_sequential                        -> C15_jdk_sequential_nonvacuous         (+ _values: evaluated)
    C15_jdk_quiescent_size                    -> C15_jdk_quiescent_size_nonvacuous     (a Poll still suspended inside the queue)
    C15_jdk_quiescent_fifo                    -> C15_jdk_quiescent_fifo_nonvacuous
    C15_jdk_quiescent_drain                   -> unconditional
    C15_mutex                                 -> unconditional (same lemma as C01_mutex_linearizable, C19_mutex_queue)
    C19_mutex_queue, C19_mutex_adder,
    C19_mutex_queue_herlihy_wing,
    C19_mutex_adder_herlihy_wing              -> unconditional *)
From Coq Require Import List Arith Bool NArith Lia.
From Garr Require Import Conc.Conc Conc.Lin Conc.LinHW Queue.JdkModel Queue.MutexModel.
From Garr Require Queue.MutexProofs.
From Garr Require Import Queue.JdkInv Queue.JdkLin Queue.JdkProgress Queue.JdkSeq Queue.JdkIter
  Queue.JdkTermination Queue.JdkTerminationMain Queue.JdkTerminationFair Queue.JdkTerminationExamples.
From Garr Require Import Properties.C01 Properties.C07 Properties.C07Fair Properties.C13 Properties.C15.
Import ListNotations.

(* ------------------------------------------------------------------ *)
(** * C01 *)

(** three threads racing on Offer / Poll / Peek / IsEmpty *)
Definition progsF : list (list qop) :=
  [ [Offer 1; Offer 2; Poll; Peek];
    [Offer 3; IsEmpty; Poll; Poll];
    [Peek; Offer 5; Poll; IsEmpty; Offer 6; Poll] ].

Lemma progsF_fifo : fifo_only progsF.
Proof.
  intros p o Hp Ho. simpl in Hp.
  destruct Hp as [<-|[<-|[<-|[]]]]; simpl in Ho;
    repeat (destruct Ho as [<-|Ho]; [reflexivity|]); destruct Ho.
Qed.

(** lock-step round robin: every CAS collides *)
Definition schedF : list nat := rounds 3 60.

Example C01_jdk_linearizable_nonvacuous :
  lin_ok jdk MutexProofs.qret_eqb MutexProofs.fifo_spec jdk_lp qinit qiter0 [] progsF schedF = true
  := C01_jdk_linearizable progsF schedF progsF_fifo.

(** the run is a real one: all 14 calls return, with these values *)
Example C01_run_is_nontrivial :
  rets (trace jdk (jdk_init progsF) schedF) =
  [RUnit; RVal 1; RUnit; RUnit; RBool false; RVal 1; RUnit; RVal 3; RVal 2; RVal 2; RVal 5;
   RBool true; RUnit; RVal 6]
  /\ all_finished (final jdk (jdk_init progsF) schedF) = true.
Proof. vm_compute. split; reflexivity. Qed.

Example C01_jdk_herlihy_wing_nonvacuous :
  hw_linearizable MutexProofs.fifo_spec [] (trace jdk (init qlocal qinit qiter0 progsF) schedF)
  := C01_jdk_herlihy_wing progsF schedF progsF_fifo.

(* ------------------------------------------------------------------ *)
(** * C07 *)

(** [progs3] and [freeze_prefix] are those of Queue/JdkTerminationExamples.v:
    after [freeze_prefix] thread 0 is inside its second Offer, between the
    successful link CAS and the tail CAS (tail lags); threads 1 and 2 idle. *)
Definition cFrozen : qcfg := final jdk (jdk_init progs3) freeze_prefix.
Definition thFrozen0 : qthread :=
  Thread [Poll; Size] qiter0 (Some (Offer 2, QL (OCasTail 1 3) qiter0)) false.
Definition thFrozen1 : qthread :=
  Thread [Poll; Peek; IterNew; HasNext; ItNext; Remove; Offer 3] qiter0 None false.

Lemma cFrozen_thr0 : nth_error (c_thr cFrozen) 0 = Some thFrozen0.
Proof. vm_compute. reflexivity. Qed.
Lemma cFrozen_thr1 : nth_error (c_thr cFrozen) 1 = Some thFrozen1.
Proof. vm_compute. reflexivity. Qed.
Lemma thFrozen0_work : 0 < work_left thFrozen0.
Proof. vm_compute. lia. Qed.
Lemma thFrozen1_work : 0 < work_left thFrozen1.
Proof. vm_compute. lia. Qed.

Example C07_solo_termination_bound_nonvacuous :
  exists n th', n <= 4 * length (q_nodes (c_sh (final jdk (jdk_init progs3) freeze_prefix))) + 13 /\
     nth_error (c_thr (solo (final jdk (jdk_init progs3) freeze_prefix) 0 n)) 0 = Some th' /\
     work_left th' < work_left thFrozen0
  := C07_solo_termination_bound progs3 freeze_prefix 0 thFrozen0 cFrozen_thr0 thFrozen0_work.

(** thread 1 (idle) runs alone while thread 0 stays suspended inside the queue *)
Example C07_solo_termination_bound_nonvacuous_idle :
  exists n th', n <= 4 * length (q_nodes (c_sh (final jdk (jdk_init progs3) freeze_prefix))) + 13 /\
     nth_error (c_thr (solo (final jdk (jdk_init progs3) freeze_prefix) 1 n)) 1 = Some th' /\
     work_left th' < work_left thFrozen1
  := C07_solo_termination_bound progs3 freeze_prefix 1 thFrozen1 cFrozen_thr1 thFrozen1_work.

(** evaluated: 3 nodes, bound 25; thread 1's Poll returns after 9 solo steps *)
Example C07_solo_values :
  4 * length (q_nodes (c_sh cFrozen)) + 13 = 25 /\
  match nth_error (c_thr (solo cFrozen 1 9)) 1 with
  | Some th' => work_left th' = 6 /\ t_cur th' = None
  | None => False
  end /\ work_left thFrozen1 = 7.
Proof. vm_compute. repeat split; reflexivity. Qed.

(* ------------------------------------------------------------------ *)
(** * C07Fair *)

Lemma long_sched_occ : forall t, t < length progs3 -> bound progs3 <= count_occ Nat.eq_dec long_sched t.
Proof.
  intros t Ht. simpl in Ht.
  destruct t as [|[|[|t]]]; [| | |lia]; apply Nat.leb_le; vm_compute; reflexivity.
Qed.

Definition thDone1 : qthread := Thread [] (Iter 0 false 0 0) None false.
Lemma long_sched_thr1 : nth_error (c_thr (final jdk (jdk_init progs3) long_sched)) 1 = Some thDone1.
Proof. vm_compute. reflexivity. Qed.

Example C07_scheduled_thread_finishes_nonvacuous :
  t_prog thDone1 = [] /\ t_cur thDone1 = None /\ t_dead thDone1 = false
  := C07_scheduled_thread_finishes progs3 long_sched 1 thDone1
       (long_sched_occ 1 ltac:(simpl; lia)) long_sched_thr1.

Lemma progs3_thr1 :
  nth_error progs3 1 = Some [Poll; Peek; IterNew; HasNext; ItNext; Remove; Offer 3].
Proof. reflexivity. Qed.

Example C07_scheduled_thread_returns_all_nonvacuous :
  ret_ops 1 (trace jdk (jdk_init progs3) long_sched) = [Poll; Peek; IterNew; HasNext; ItNext; Remove; Offer 3]
  := C07_scheduled_thread_returns_all progs3 long_sched 1 _ progs3_thr1 (long_sched_occ 1 ltac:(simpl; lia)).

Example C07_fair_all_return_nonvacuous :
  forall t th, nth_error (c_thr (final jdk (jdk_init progs3) long_sched)) t = Some th ->
    t_prog th = [] /\ t_cur th = None /\ t_dead th = false
  := C07_fair_all_return progs3 long_sched long_sched_occ.

(** infinite round robin *)
Definition sigma3 (n : nat) : nat := n mod 3.
Lemma sigma3_fair : forall t, t < length progs3 -> inf_often sigma3 t.
Proof.
  intros t Ht n. simpl in Ht. exists (t + n * 3). split; [lia|].
  unfold sigma3. rewrite Nat.mod_add by lia. apply Nat.mod_small. exact Ht.
Qed.

Example C07_fair_infinite_nonvacuous :
  exists n, forall n' t th, n <= n' ->
    nth_error (c_thr (final jdk (jdk_init progs3) (prefix sigma3 n'))) t = Some th ->
    t_prog th = [] /\ t_cur th = None /\ t_dead th = false
  := C07_fair_infinite progs3 sigma3 sigma3_fair.

(** frozen goroutine: thread 0 frozen for ever after [freeze_prefix] *)
Definition others_long : list nat := concat (repeat [1; 2] (bound progs3)).

Lemma others_no0 : forall k, ~ In 0 (concat (repeat [1; 2] k)).
Proof.
  induction k as [|k IH]; simpl; [tauto|].
  intros [H|[H|H]]; [discriminate|discriminate|exact (IH H)].
Qed.

Lemma others_long_occ :
  forall t, t < length progs3 -> t <> 0 -> bound progs3 <= count_occ Nat.eq_dec others_long t.
Proof.
  intros t Ht Hne. simpl in Ht.
  destruct t as [|[|[|t]]]; [congruence| | |lia]; apply Nat.leb_le; vm_compute; reflexivity.
Qed.

Example C07_frozen_goroutine_nonvacuous :
  nth_error (c_thr (final jdk (jdk_init progs3) (freeze_prefix ++ others_long))) 0 =
    nth_error (c_thr (final jdk (jdk_init progs3) freeze_prefix)) 0 /\
  forall t th, t <> 0 ->
    nth_error (c_thr (final jdk (jdk_init progs3) (freeze_prefix ++ others_long))) t = Some th ->
    t_prog th = [] /\ t_cur th = None /\ t_dead th = false
  := C07_frozen_goroutine progs3 0 freeze_prefix others_long (others_no0 _) others_long_occ.

(* ------------------------------------------------------------------ *)
(** * C13 *)

(** a producer, an iterating thread (with a Remove) and a consumer *)
Definition progsI : list (list qop) :=
  [ [Offer 1; Offer 2; Offer 3; Offer 4];
    [IterNew; ItNext; ItNext; Remove; ItNext];
    [Poll; Poll] ].

(** thread 0 offers 1,2,3; thread 1 starts the iterator constructor; thread 2
    starts a Poll and is preempted; the constructor ends (log 24); Next (27)
    returns 1, Next (30) returns 2; thread 0 offers 4 meanwhile; Remove (38)
    deletes the node of 2; Next (41) returns 3; the Poll resumes and takes 1
    (43); the second Poll is left suspended inside the queue. *)
Definition schedI : list nat :=
  repeat 0 14 ++ repeat 1 5 ++ repeat 2 4 ++ repeat 1 8 ++ repeat 0 6 ++ repeat 1 6 ++ repeat 2 8.

Notation logI := (steps_of jdk (jdk_init progsI) schedI).
Definition cfgI (k : nat) : qcfg := final jdk (jdk_init progsI) (firstn k schedI).
Definition thrI (k t : nat) : qthread :=
  nth t (c_thr (cfgI k)) (Thread [] qiter0 None false).

(** no step is a no-op up to position 41, so log position k = schedule position k *)
Lemma logI_at : forall k, k < 42 ->
  nth_error logI k = Some (cfgI k, nth k schedI 0).
Proof.
  intros k Hk.
  do 42 (destruct k as [|k]; [vm_compute; reflexivity|]). lia.
Qed.

(** the three completed Next calls, the constructor and the Remove *)
Definition itA : qiter := Iter 2 true 1 0.      (* cursor before the Next at 27 *)
Definition itB : qiter := Iter 3 true 2 2.      (* before the Next at 30 *)
Definition itC : qiter := Iter 4 true 3 0.      (* before the Next at 41 (Remove cleared it_last) *)

(** ** C13_next_skips_only_dead: the Next completing at log position 30 *)
Definition lN30 : qlocal := QL (NItem 3 4) (Iter 3 true 2 3).
Definition tsN30 : qiter := Iter 4 true 3 3.

Lemma N30_thr : nth_error (c_thr (final jdk (jdk_init progsI) (firstn 30 schedI))) 1 = Some (thrI 30 1).
Proof. vm_compute. reflexivity. Qed.
Lemma N30_view : view jdk (thrI 30 1) = Some (ItNext, lN30, false).
Proof. vm_compute. reflexivity. Qed.
Lemma N30_step :
  qstep lN30 (c_sh (final jdk (jdk_init progsI) (firstn 30 schedI))) =
  Done (RVal 2) tsN30 (c_sh (final jdk (jdk_init progsI) (firstn 30 schedI))).
Proof. vm_compute. reflexivity. Qed.
Lemma N30_cur : it_node (t_ts (thrI 30 1)) <> 0.
Proof. vm_compute. discriminate. Qed.

Example C13_next_skips_only_dead_nonvacuous :=
  C13_next_skips_only_dead progsI (firstn 30 schedI) 1 (thrI 30 1) lN30 false (RVal 2) tsN30 _
    N30_thr N30_view N30_step N30_cur.

(** what it says here: returns 2 = the value of node 3, the cursor moves to the live node 4 *)
Example C13_next_skips_only_dead_values :
  let s := c_sh (cfgI 30) in
  it_node (t_ts (thrI 30 1)) = 3 /\ val s 3 = 2 /\ len s = 4 /\
  it_node tsN30 = 4 /\ live s 4 = true /\ it_val tsN30 = val s 4 /\ it_last tsN30 = 3.
Proof. vm_compute. repeat split; reflexivity. Qed.

(** ** C13_at_most_once_in_order: the Next calls completing at 27 and at 41 *)
Definition lN27 : qlocal := QL (NItem 2 3) (Iter 2 true 1 2).
Definition lN41 : qlocal := QL (NItem 4 5) (Iter 4 true 3 4).

Lemma no_iternew_between : forall i j t,
  forallb (fun k => match nth_error logI k with
                    | Some (ck, t') =>
                        if Nat.eqb t' t
                        then match op_of ck t with Some IterNew => false | _ => true end
                        else true
                    | None => true
                    end) (seq (S i) (j - S i)) = true ->
  forall k ck, i < k -> k < j -> nth_error logI k = Some (ck, t) -> op_of ck t <> Some IterNew.
Proof.
  intros i j t H k ck Hik Hkj Hn.
  rewrite forallb_forall in H.
  assert (Hin : In k (seq (S i) (j - S i))) by (apply in_seq; lia).
  specialize (H k Hin). rewrite Hn, Nat.eqb_refl in H.
  intros E. rewrite E in H. discriminate.
Qed.

Lemma I27_log : nth_error logI 27 = Some (cfgI 27, 1).
Proof. exact (logI_at 27 ltac:(lia)). Qed.
Lemma I30_log : nth_error logI 30 = Some (cfgI 30, 1).
Proof. exact (logI_at 30 ltac:(lia)). Qed.
Lemma I41_log : nth_error logI 41 = Some (cfgI 41, 1).
Proof. exact (logI_at 41 ltac:(lia)). Qed.
Lemma I24_log : nth_error logI 24 = Some (cfgI 24, 1).
Proof. exact (logI_at 24 ltac:(lia)). Qed.

Lemma I27_thr : nth_error (c_thr (cfgI 27)) 1 = Some (thrI 27 1).
Proof. vm_compute. reflexivity. Qed.
Lemma I27_view : view jdk (thrI 27 1) = Some (ItNext, lN27, false).
Proof. vm_compute. reflexivity. Qed.
Lemma I27_step : qstep lN27 (c_sh (cfgI 27)) = Done (RVal 1) (Iter 3 true 2 2) (c_sh (cfgI 27)).
Proof. vm_compute. reflexivity. Qed.
Lemma I27_cur : it_node (t_ts (thrI 27 1)) <> 0.
Proof. vm_compute. discriminate. Qed.
Lemma I41_thr : nth_error (c_thr (cfgI 41)) 1 = Some (thrI 41 1).
Proof. vm_compute. reflexivity. Qed.
Lemma I41_view : view jdk (thrI 41 1) = Some (ItNext, lN41, false).
Proof. vm_compute. reflexivity. Qed.
Lemma I41_step : qstep lN41 (c_sh (cfgI 41)) = Done (RVal 3) (Iter 5 true 4 4) (c_sh (cfgI 41)).
Proof. vm_compute. reflexivity. Qed.
Lemma I41_cur : it_node (t_ts (thrI 41 1)) <> 0.
Proof. vm_compute. discriminate. Qed.
Lemma I27_41_no_iternew :
  forall k ck, 27 < k -> k < 41 -> nth_error logI k = Some (ck, 1) -> op_of ck 1 <> Some IterNew.
Proof. apply no_iternew_between. vm_compute. reflexivity. Qed.

Example C13_at_most_once_in_order_nonvacuous :=
  C13_at_most_once_in_order progsI schedI 1 27 41 (cfgI 27) (cfgI 41) (thrI 27 1) (thrI 41 1)
    lN27 lN41 false false (RVal 1) (RVal 3) _ _ _ _
    I27_log I41_log ltac:(lia) I27_thr I27_view I27_step I27_cur I41_thr I41_view I41_step I41_cur
    I27_41_no_iternew.

(** what it says here: node 2 < node 4, values 1 and 3; the run has a Remove of node 3,
    a further Next and the link of a new node by thread 0 between the two *)
Example C13_at_most_once_in_order_values :
  it_node (t_ts (thrI 27 1)) = 2 /\ it_node (t_ts (thrI 41 1)) = 4 /\
  val (c_sh (cfgI 27)) 2 = 1 /\ val (c_sh (cfgI 41)) 4 = 3 /\
  len (c_sh (cfgI 27)) = 4 /\ len (c_sh (cfgI 41)) = 5 /\
  live (c_sh (cfgI 27)) 3 = true /\ live (c_sh (cfgI 41)) 3 = false.
Proof. vm_compute. repeat split; reflexivity. Qed.

(** ** C13_returns_every_stable_element: constructor completing at 24, Next completing at 41 *)
Definition lC24 : qlocal := QL (USetNext 1 (KRet RUnit)) (Iter 2 true 1 0).

Lemma I24_thr : nth_error (c_thr (cfgI 24)) 1 = Some (thrI 24 1).
Proof. vm_compute. reflexivity. Qed.
Lemma I24_view : view jdk (thrI 24 1) = Some (IterNew, lC24, false).
Proof. vm_compute. reflexivity. Qed.
Definition sC24' : qshared := Eval vm_compute in
  match qstep lC24 (c_sh (cfgI 24)) with Done _ _ s' => s' | _ => qinit end.
Lemma I24_step : qstep lC24 (c_sh (cfgI 24)) = Done RUnit (Iter 2 true 1 0) sC24'.
Proof. vm_compute. reflexivity. Qed.
Lemma I24_41_no_iternew :
  forall k ck, 24 < k -> k < 41 -> nth_error logI k = Some (ck, 1) -> op_of ck 1 <> Some IterNew.
Proof. apply no_iternew_between. vm_compute. reflexivity. Qed.
Lemma I41_inr2 : inr (c_sh (cfgI 41)) 2.
Proof. vm_compute. lia. Qed.
Lemma I41_live2 : live (c_sh (cfgI 41)) 2 = true.
Proof. vm_compute. reflexivity. Qed.
Lemma I41_inr5 : inr (c_sh (cfgI 41)) 5.
Proof. vm_compute. lia. Qed.
Lemma I41_live5 : live (c_sh (cfgI 41)) 5 = true.
Proof. vm_compute. reflexivity. Qed.

(** a = 2 (value 1): queued during the whole traversal so far - it is polled only at
    log position 43 - and the new cursor 5 is beyond it: so some Next returned it *)
Example C13_returns_every_stable_element_nonvacuous :=
  C13_returns_every_stable_element progsI schedI 1 24 41 (cfgI 24) (cfgI 41) (thrI 24 1) (thrI 41 1)
    lC24 lN41 false false RUnit (RVal 3) (Iter 2 true 1 0) (Iter 5 true 4 4) sC24' _ 2
    I24_log I41_log ltac:(lia) I24_thr I24_view I24_step I41_thr I41_view I41_step I41_cur
    I24_41_no_iternew I41_inr2 I41_live2.

(** a = 5 (value 4, offered during the traversal): still ahead, at the new cursor *)
Example C13_returns_every_stable_element_nonvacuous_ahead :=
  C13_returns_every_stable_element progsI schedI 1 24 41 (cfgI 24) (cfgI 41) (thrI 24 1) (thrI 41 1)
    lC24 lN41 false false RUnit (RVal 3) (Iter 2 true 1 0) (Iter 5 true 4 4) sC24' _ 5
    I24_log I41_log ltac:(lia) I24_thr I24_view I24_step I41_thr I41_view I41_step I41_cur
    I24_41_no_iternew I41_inr5 I41_live5.

(** for a = 2 the left disjunct is false here, so the conclusion really yields a Next that
    returned node 2; it is the one at log position 27 *)
Example C13_returns_every_stable_element_values :
  ~ (it_node (Iter 5 true 4 4) <> 0 /\ it_node (Iter 5 true 4 4) <= 2) /\ next_returns (cfgI 27) 1 2.
Proof.
  split; [simpl; lia|].
  exists (thrI 27 1), lN27, false, (RVal 1), (Iter 3 true 2 2), (c_sh (cfgI 27)).
  split; [exact I27_thr|]. split; [exact I27_view|]. split; [exact I27_step|].
  split; [vm_compute; reflexivity|discriminate].
Qed.

(** ** C13_remove_kills_last_returned: the Remove completing at log position 38 *)
Definition lR38 : qlocal := QL (RSet 3) (Iter 4 true 3 3).
Definition sR38' : qshared := Eval vm_compute in
  match qstep lR38 (c_sh (cfgI 38)) with Done _ _ s' => s' | _ => qinit end.

Lemma R38_thr : nth_error (c_thr (final jdk (jdk_init progsI) (firstn 38 schedI))) 1 = Some (thrI 38 1).
Proof. vm_compute. reflexivity. Qed.
Lemma R38_view : view jdk (thrI 38 1) = Some (Remove, lR38, false).
Proof. vm_compute. reflexivity. Qed.
Lemma R38_step :
  qstep lR38 (c_sh (final jdk (jdk_init progsI) (firstn 38 schedI))) = Done RUnit (Iter 4 true 3 0) sR38'.
Proof. vm_compute. reflexivity. Qed.

Example C13_remove_kills_last_returned_nonvacuous :=
  C13_remove_kills_last_returned progsI (firstn 38 schedI) 1 (thrI 38 1) lR38 false RUnit (Iter 4 true 3 0) sR38'
    R38_thr R38_view R38_step.

Example C13_remove_values :
  it_last (t_ts (thrI 38 1)) = 3 /\ live (c_sh (cfgI 38)) 3 = true /\ live sR38' 3 = false /\
  live sR38' 2 = true /\ live sR38' 4 = true /\ live sR38' 5 = true.
Proof. vm_compute. repeat split; reflexivity. Qed.

(** ** C13_exactly_one_fate: after the whole run node 2 was polled, node 3 removed, nodes 4, 5 queued *)
Lemma lenI : len (c_sh (final jdk (jdk_init progsI) schedI)) = 5.
Proof. vm_compute. reflexivity. Qed.

Example C13_exactly_one_fate_nonvacuous_polled :=
  C13_exactly_one_fate progsI schedI 2 ltac:(lia) ltac:(rewrite lenI; lia).
Example C13_exactly_one_fate_nonvacuous_removed :=
  C13_exactly_one_fate progsI schedI 3 ltac:(lia) ltac:(rewrite lenI; lia).
Example C13_exactly_one_fate_nonvacuous_queued :=
  C13_exactly_one_fate progsI schedI 4 ltac:(lia) ltac:(rewrite lenI; lia).

Example C13_exactly_one_fate_values :
  let s := c_sh (final jdk (jdk_init progsI) schedI) in
  live s 2 = false /\ live s 3 = false /\ live s 4 = true /\ live s 5 = true /\
  rets (trace jdk (jdk_init progsI) schedI) =
    [RUnit; RUnit; RUnit; RUnit; RVal 1; RVal 2; RUnit; RUnit; RVal 3; RVal 1].
Proof. vm_compute. repeat split; reflexivity. Qed.

(* ------------------------------------------------------------------ *)
(** * C15 *)

Definition opsS : list qop :=
  [Offer 1; Offer 0; Offer 2; Peek; Size; IterNew; HasNext; ItNext; Poll; Remove; ItNext; HasNext;
   IsEmpty; Offer 7; Size; Poll; Poll; IsEmpty; Poll].

Lemma opsS_len : (N.of_nat (length opsS) < max_int32)%N.
Proof. vm_compute. reflexivity. Qed.

Example C15_jdk_sequential_nonvacuous :
  exists n, forall m, n <= m ->
    rets (trace jdk (jdk_init [opsS]) (repeat 0 m)) = snd (sq_run (SQ [] None 0 None) opsS)
  := C15_jdk_sequential opsS opsS_len.

Example C15_jdk_sequential_values :
  rets (trace jdk (jdk_init [opsS]) (repeat 0 200)) = snd (sq_run (SQ [] None 0 None) opsS) /\
  snd (sq_run (SQ [] None 0 None) opsS) =
  [RUnit; RUnit; RUnit; RVal 1; RSize 2; RUnit; RBool true; RVal 1; RVal 1; RUnit; RVal 2; RBool false;
   RBool false; RUnit; RSize 2; RVal 2; RVal 7; RBool true; RVal 0].
Proof. vm_compute. split; reflexivity. Qed.

(** the state after the concurrent run [schedI]: elements 3 and 4 queued, a dead prefix of
    three nodes, lagging head, and thread 2 suspended inside its second Poll *)
Lemma absqI : absq (c_sh (final jdk (jdk_init progsI) schedI)) = [3; 4].
Proof. vm_compute. reflexivity. Qed.

Lemma absqI_len : (N.of_nat (length (absq (c_sh (final jdk (jdk_init progsI) schedI)))) < max_int32)%N.
Proof. vm_compute. reflexivity. Qed.

Example C15_jdk_quiescent_size_nonvacuous :=
  C15_jdk_quiescent_size progsI schedI absqI_len.

Example C15_jdk_quiescent_size_values :
  In (ERet 0 Size (RSize 2))
     (trace jdk (Config (c_sh (final jdk (jdk_init progsI) schedI)) [mk_thread qlocal qiter0 [Size]]) (repeat 0 30)).
Proof. vm_compute. repeat (first [left; reflexivity | right]). Qed.

Definition opsQ : list qop := [Peek; Offer 9; IsEmpty; Poll; Poll; Peek; Poll; Poll; IsEmpty].
Lemma opsQ_fifo : forall o, In o opsQ -> fifo_op o = true.
Proof. intros o Ho. simpl in Ho. repeat (destruct Ho as [<-|Ho]; [reflexivity|]). destruct Ho. Qed.

Example C15_jdk_quiescent_fifo_nonvacuous :=
  C15_jdk_quiescent_fifo progsI schedI opsQ opsQ_fifo.

Example C15_jdk_quiescent_fifo_values :
  rets (trace jdk (cfg1 (c_sh (final jdk (jdk_init progsI) schedI)) (mk_thread qlocal qiter0 opsQ)) (repeat 0 150)) =
  [RVal 3; RUnit; RBool false; RVal 3; RVal 4; RVal 9; RVal 9; RVal 0; RBool true].
Proof. vm_compute. reflexivity. Qed.

(** the instantiated statements (types of the terms above) *)
Check C13_next_skips_only_dead_nonvacuous.
Check C13_at_most_once_in_order_nonvacuous.
Check C13_returns_every_stable_element_nonvacuous.
Check C13_remove_kills_last_returned_nonvacuous.
Check C13_exactly_one_fate_nonvacuous_polled.
Check C15_jdk_quiescent_size_nonvacuous.
Check C15_jdk_quiescent_fifo_nonvacuous.

Print Assumptions C01_jdk_linearizable_nonvacuous.
Print Assumptions C07_frozen_goroutine_nonvacuous.
Print Assumptions C13_at_most_once_in_order_nonvacuous.
Print Assumptions C13_returns_every_stable_element_nonvacuous.
Print Assumptions C15_jdk_quiescent_fifo_nonvacuous.
