(** C19 - the mutex-based queue and adder are linearizable over their whole API.
    This file contains the property theorems only. *)
From Coq Require Import List ZArith.
From Garr Require Import Conc.Conc Conc.Lin Queue.JdkModel Queue.MutexModel Queue.MutexProofs.
From Garr Require Import Conc.LinHW Queue.MutexHW.
From Garr Require Import Pure.F64 Adder.StripedModel Adder.SimpleModel Adder.AdderSpec Adder.SimpleMutex.
Import ListNotations.

(** Every client program (any number of threads, any operations among Offer,
    Poll, Peek, Size, IsEmpty, in any order) and every interleaving of the
    model's steps - including those that separate a writer's plain read of
    the list from its plain write - yields a history in which each call takes
    effect atomically at one of its own steps and returns exactly what the
    sequential FIFO queue returns in that order. *)
Theorem C19_mutex_queue :
  forall (progs : list (list qop)) (sched : list nat),
    lin_ok mutexq qret_eqb fifo_spec mutex_lp minit tt [] progs sched = true.
Proof. exact mutex_queue_linearizable. Qed.
Print Assumptions C19_mutex_queue.

(** The mutex adder: Add, Inc, Dec, Sum, Reset, SumAndReset and Store are all
    atomic with respect to each other - every history is that of a single
    int64 number (wrap-around addition), each call taking effect at its plain
    read (Sum) or plain write (all others) inside the critical section. *)
Theorem C19_mutex_adder :
  forall (progs : list (list aop)) (sched : list nat),
    lin_ok mutex_adder aret_eqb (counter_spec wadd) xlp xinit tt 0%Z progs sched = true.
Proof. exact mutex_adder_linearizable. Qed.
Print Assumptions C19_mutex_adder.

(** Herlihy-Wing form (see C01): both objects' histories are equivalent to legal
    sequential histories extending the real-time order. *)
Lemma aret_eqb_eq a b : aret_eqb a b = true -> a = b.
Proof.
  destruct a, b; simpl; intros H; try discriminate; [reflexivity|].
  apply Z.eqb_eq in H. congruence.
Qed.
Theorem C19_mutex_queue_herlihy_wing : forall progs sched,
  hw_linearizable MutexProofs.fifo_spec [] (trace mutexq (init _ minit tt progs) sched).
Proof. exact mutex_queue_hw_linearizable. Qed.
Theorem C19_mutex_adder_herlihy_wing : forall progs sched,
  hw_linearizable (counter_spec wadd) 0%Z (trace mutex_adder (init xpc xinit tt progs) sched).
Proof.
  intros progs sched. eapply lin_ok_hw; [exact aret_eqb_eq|]. apply mutex_adder_linearizable.
Qed.
Print Assumptions C19_mutex_adder_herlihy_wing.
