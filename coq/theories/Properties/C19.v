(** C19 - the mutex-based queue and adder are linearizable over their whole API.
    This file contains the property theorems only. *)
From Coq Require Import List ZArith.
From Garr Require Import Conc.Conc Conc.Lin Queue.JdkModel Queue.MutexModel Queue.MutexProofs.
Import ListNotations.

(** Every client program (any number of threads, any operations among Offer,
    Poll, Peek, Size, IsEmpty, in any order) and every interleaving of the
    model's steps - including those that separate a writer's plain read of
    the list from its plain write - yields a history in which each call takes
    effect atomically at one of its own steps and returns exactly what the
    sequential FIFO queue returns in that order. *)
Theorem C19_mutex_queue :
  forall (progs : list (list qop)) (sched : list nat),
    lin_ok mutexq qret_eqb fifo_spec mutex_lp minit tt [] progs sched = true.
Proof. exact mutex_queue_linearizable. Qed.
Print Assumptions C19_mutex_queue.
