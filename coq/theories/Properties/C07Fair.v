(** C07, second half - "under every fair schedule every operation returns";
    and the first half again for whole programs rather than one call.
    Property theorems only (proofs in Queue/JdkTermination*.v). *)
From Coq Require Import List Arith.
From Garr Require Import Conc.Conc Queue.JdkModel Queue.JdkInv Queue.JdkProgress
  Breaker.ConcBase Queue.JdkTermination Queue.JdkTerminationMain Queue.JdkTerminationFair.
Import ListNotations.

(** The lock-free queue has no infinite execution: whatever the client
    programs (finite lists of Offer, Poll, Peek, IsEmpty, Size, iterator
    construction, HasNext, Next, Remove) and whatever the schedule, at most
    [bound progs] steps are ever taken, where, with T threads and n operations,
    k of them Offers,
      bound progs = (T*(4k+17)+1) * 3k + n*(4k+17).
    A thread can be made to retry only by another thread's successful link,
    head or tail CAS, and there are at most 3k of those. *)
Theorem C07_total_termination : forall (progs : list (list qop)) (sched : list nat),
  length (steps_of jdk (jdk_init progs) sched) <= bound progs.
Proof. exact jdk_total_termination. Qed.
Print Assumptions C07_total_termination.

Theorem C07_bound_formula : forall progs,
  let T := length progs in let k := n_off progs in let n := n_ops progs in
  bound progs = (T * (4 * k + 17) + 1) * (3 * k) + n * (4 * k + 17).
Proof. exact bound_formula. Qed.

(** A thread that gets [bound progs] turns has returned from every call of
    its program - regardless of what the other threads do: they may be
    suspended for ever at any atomic step inside the queue, or starved. *)
Theorem C07_scheduled_thread_finishes : forall (progs : list (list qop)) (sched : list nat) t th,
  bound progs <= count_occ Nat.eq_dec sched t ->
  nth_error (c_thr (final jdk (jdk_init progs) sched)) t = Some th ->
  t_prog th = [] /\ t_cur th = None /\ t_dead th = false.
Proof. exact jdk_thread_finishes. Qed.
Print Assumptions C07_scheduled_thread_finishes.

(** ... and the calls it has returned from are exactly its program, in order. *)
Theorem C07_scheduled_thread_returns_all : forall (progs : list (list qop)) (sched : list nat) t p,
  nth_error progs t = Some p ->
  bound progs <= count_occ Nat.eq_dec sched t ->
  ret_ops t (trace jdk (jdk_init progs) sched) = p.
Proof. exact jdk_finished_all_returned. Qed.
Print Assumptions C07_scheduled_thread_returns_all.

(** Fair schedules, finite formulation. *)
Theorem C07_fair_all_return : forall (progs : list (list qop)) (sched : list nat),
  (forall t, t < length progs -> bound progs <= count_occ Nat.eq_dec sched t) ->
  forall t th, nth_error (c_thr (final jdk (jdk_init progs) sched)) t = Some th ->
    t_prog th = [] /\ t_cur th = None /\ t_dead th = false.
Proof. exact jdk_fair_all_return. Qed.
Print Assumptions C07_fair_all_return.

(** Fair schedules, infinite formulation: in every infinite schedule in which
    every thread occurs infinitely often there is a point after which every
    thread has finished. *)
Theorem C07_fair_infinite : forall (progs : list (list qop)) (sigma : nat -> nat),
  (forall t, t < length progs -> inf_often sigma t) ->
  exists n, forall n' t th, n <= n' ->
    nth_error (c_thr (final jdk (jdk_init progs) (prefix sigma n'))) t = Some th ->
    t_prog th = [] /\ t_cur th = None /\ t_dead th = false.
Proof. exact jdk_fair_infinite. Qed.
Print Assumptions C07_fair_infinite.

(** One goroutine frozen for ever after an arbitrary prefix [s1] (at any of
    its atomic steps): it stays where it is and all the others still finish
    their whole programs. *)
Theorem C07_frozen_goroutine : forall (progs : list (list qop)) (f : nat) (s1 s2 : list nat),
  ~ In f s2 ->
  (forall t, t < length progs -> t <> f -> bound progs <= count_occ Nat.eq_dec s2 t) ->
  let c := final jdk (jdk_init progs) (s1 ++ s2) in
  nth_error (c_thr c) f = nth_error (c_thr (final jdk (jdk_init progs) s1)) f /\
  forall t th, t <> f -> nth_error (c_thr c) t = Some th ->
    t_prog th = [] /\ t_cur th = None /\ t_dead th = false.
Proof. exact jdk_frozen_midway. Qed.
Print Assumptions C07_frozen_goroutine.
