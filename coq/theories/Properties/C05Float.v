(** C05, float part — the hypothesis of [C05_jitter_band_partial] discharged, and
    the exponential policy never below its initial delay / never decreasing.
    Floats are binary64 data ([valid64]: canonical [spec_float]; every
    [of_bits b] is one).  [p], [q] are oracle values of math.Pow(multiplier, n-1).
    Proofs go through Flocq's real-number semantics, hence the four
    standard-library axioms of the classical reals in [Print Assumptions]. *)
From Coq Require Import ZArith List Floats.SpecFloat.
From Garr Require Import Pure.F64 Pure.Retry Pure.RetryProofs Pure.RetryFloat Pure.RetryStack.
Import ListNotations.
Local Open Scope Z_scope.

Theorem C05_sat_mul_jitter_ordered : forall (tmp : Z) (lo hi : f64),
  0 < tmp <= max_int64 -> valid64 lo -> valid64 hi ->
  rate_ok lo -> rate_ok hi -> fleb lo hi = true ->
  0 <= sat_mul tmp (fadd fone lo) <= sat_mul tmp (fadd fone hi) /\
  sat_mul tmp (fadd fone hi) <= max_int64.
Proof. exact sat_mul_jitter_ordered. Qed.

Theorem C05_jitter_band : forall p lo hi b n rnd tmp rnd1,
  words rnd1 -> valid64 lo -> valid64 hi -> rate_ok lo -> rate_ok hi -> fleb lo hi = true ->
  next_delay p b n rnd = Some (tmp, rnd1) -> 0 < tmp <= max_int64 ->
  let minj := sat_mul tmp (fadd fone lo) in
  let maxj := sat_mul tmp (fadd fone hi) in
  exists d rnd2, next_delay p (Jitter lo hi b) n rnd = Some (d, rnd2) /\
    minj <= d <= maxj /\ 0 <= minj /\ maxj <= max_int64 /\ words rnd2.
Proof. exact jitter_band_full. Qed.

Theorem C05_jitter_ctor_rates : forall b lo hi j, valid64 lo -> valid64 hi ->
  new_jitter b lo hi = Some j ->
  j = Jitter lo hi b /\ rate_ok lo /\ rate_ok hi /\ fleb lo hi = true.
Proof. exact new_jitter_rates. Qed.

(** FINDING: with a factor of exactly 1.0 the saturated product can be below
    its integer argument (float64(i) rounds down above 2^53) *)
Theorem C05_sat_mul_one_below_arg :
  fleb fone fone = true /\ sat_mul (2 ^ 53 + 1) fone = 2 ^ 53.
Proof. exact sat_mul_one_below_arg. Qed.

Theorem C05_sat_mul_ge_initial : forall (i : Z) (p : f64),
  0 <= i <= max_int64 -> valid64 p ->
  (fltb fone p = true \/ is_nan p = true) -> i <= sat_mul i p.
Proof. exact sat_mul_ge_initial. Qed.

Theorem C05_sat_mul_ge_initial_exact : forall (i : Z) (p : f64),
  0 <= i <= 2 ^ 53 -> valid64 p ->
  (fleb fone p = true \/ is_nan p = true) -> i <= sat_mul i p.
Proof. exact sat_mul_ge_initial_exact. Qed.

Theorem C05_sat_mul_mono_pow : forall (i : Z) (p q : f64),
  0 <= i <= max_int64 -> valid64 p -> valid64 q ->
  fleb fone p = true -> fleb p q = true -> sat_mul i p <= sat_mul i q.
Proof. exact sat_mul_mono_pow. Qed.

Theorem C05_exponential_ge_initial : forall p i mx m n rnd d rnd1,
  0 <= i <= mx -> mx <= max_int64 -> valid64 p ->
  (fltb fone p = true \/ is_nan p = true) ->
  next_delay p (Expo i mx m) n rnd = Some (d, rnd1) -> i <= d <= mx.
Proof. exact expo_ge_initial. Qed.

Theorem C05_exponential_monotone : forall p q i mx m n rnd d1 d2 r1 r2,
  0 <= i <= mx -> mx <= max_int64 -> valid64 p -> valid64 q ->
  fltb fone p = true -> fleb p q = true -> 1 <= n ->
  next_delay p (Expo i mx m) n rnd = Some (d1, r1) ->
  next_delay q (Expo i mx m) (n + 1) rnd = Some (d2, r2) -> d1 <= d2.
Proof. exact expo_monotone. Qed.

Theorem C05_of_bits_valid : forall b, valid64 (of_bits b).
Proof. exact of_bits_valid. Qed.

(** WHOLE STACKS: for every nesting of jitter and limit layers over a base the
    constructors accept, every attempt number, every outcome of the random
    source: the call returns, the result is the stop value -1 exactly when a
    limit layer of the stack has been reached, and otherwise lies in
    [0, MaxInt64] (no overflow, no stop turned into a retry or vice versa).
    [p] is the oracle value of math.Pow(multiplier, n-1) of the base. *)
Theorem C05_stack_envelope : forall p b n rnd,
  wf b -> rates_ok b -> words rnd -> valid64 p ->
  (fltb fone p = true \/ is_nan p = true) ->
  exists d rnd', next_delay p b n rnd = Some (d, rnd') /\ words rnd' /\
    (if limit_hit b n then d = -1 else 0 <= d <= max_int64).
Proof. exact stack_envelope. Qed.

Theorem C05_stack_stop_iff : forall p b n rnd d rnd',
  wf b -> rates_ok b -> words rnd -> valid64 p ->
  (fltb fone p = true \/ is_nan p = true) ->
  next_delay p b n rnd = Some (d, rnd') ->
  (d < 0 <-> limit_hit b n = true) /\ -1 <= d <= max_int64.
Proof. exact stack_stop_iff. Qed.

(** the hypotheses hold for everything the builder builds *)
Theorem C05_built_stack_wf : forall b ls b', wf b -> build b ls = Some b' -> wf b'.
Proof. exact build_wf. Qed.

Theorem C05_built_stack_rates_ok : forall b ls b',
  rates_ok b -> Forall layer_valid ls -> build b ls = Some b' -> rates_ok b'.
Proof. exact build_rates_ok. Qed.

(** end to end: base accepted by a base constructor (int64 arguments), layers
    accepted by the builder *)
Theorem C05_built_envelope : forall b ls b' p n rnd,
  ctor_base b -> Forall layer_valid ls -> build b ls = Some b' ->
  words rnd -> valid64 p -> (fltb fone p = true \/ is_nan p = true) ->
  exists d rnd', next_delay p b' n rnd = Some (d, rnd') /\ words rnd' /\
    (if limit_hit b' n then d = -1 else 0 <= d <= max_int64).
Proof. exact built_envelope. Qed.

Print Assumptions C05_sat_mul_jitter_ordered.
Print Assumptions C05_jitter_band.
Print Assumptions C05_jitter_ctor_rates.
Print Assumptions C05_sat_mul_one_below_arg.
Print Assumptions C05_sat_mul_ge_initial.
Print Assumptions C05_sat_mul_ge_initial_exact.
Print Assumptions C05_sat_mul_mono_pow.
Print Assumptions C05_exponential_ge_initial.
Print Assumptions C05_exponential_monotone.
Print Assumptions C05_of_bits_valid.
Print Assumptions C05_stack_envelope.
Print Assumptions C05_stack_stop_iff.
Print Assumptions C05_built_stack_wf.
Print Assumptions C05_built_stack_rates_ok.
Print Assumptions C05_built_envelope.
