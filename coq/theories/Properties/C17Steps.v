(** Property C17 of the worker pool, own-step bounds - theorems only.

    Setting as in [C17.v].  [L := steps_of M cfg0 sched] is the LOG of the
    execution under schedule [sched]: every step actually taken, as
    (configuration before the step, thread that stepped).  A thread whose
    next step is disabled (Blocked) does not step, so a refused lock attempt or
    a wait is NOT in the log.  [own_steps L t a b]: number of positions in
    [a, b] taken by thread [t].  [invoked_at M cfg0 sched a t o]: position [a]
    is the invocation step of a call of [o] by thread [t].  [ret_of M c t]:
    the value thread [t] returns with the step it takes from [c] (None: that
    step does not return).  The hypothesis "no return at a position k of t
    with a <= k < b" makes [a, b] a segment of ONE call, its return step
    included when it returns at [b]; so each bound covers the returned call
    (b = its return position) and the pending one (b = any later position,
    e.g. the end of the log). *)
From Coq Require Import List Arith Bool ZArith.
From Garr Require Import Conc.Conc Queue.MutexModel Pool.PoolModel Pool.PoolBase Pool.PoolInv1 Pool.PoolTok
  Pool.PoolStepsGen Pool.PoolStepsGenW Pool.PoolSteps Pool.PoolStepsStop Pool.PoolStepsDrain Pool.PoolStepsExamples.
Import ListNotations.

(** (A) [trydo_own_step_bound] - every TryDo / TryExecute call takes at most 5 own steps
    (invocation, RLock, closed check / select, delivery of a context error, RUnlock), returned or
    not, under every schedule.  Attained: [PoolStepsExamples.trydo_bound_attained]. *)
Theorem C17_trydo_own_step_bound : forall nw lim autostart choices clients nslots sched,
  let M := pool nw lim in let cfg0 := pool_cfg nw autostart choices clients nslots in
  let L := steps_of M cfg0 sched in
  forall a b t o, is_try o = true -> invoked_at M cfg0 sched a t o -> a <= b -> b < length L ->
  (forall k ck, a <= k < b -> nth_error L k = Some (ck, t) -> ret_of M ck t = None) ->
  own_steps L t a b <= 5.
Proof. intros nw lim autostart choices clients nslots sched M cfg0 L. apply trydo_own_step_bound. Qed.

(* ... so by its 6th own step after the invocation the call has returned *)
Theorem C17_trydo_returns : forall nw lim autostart choices clients nslots sched,
  let M := pool nw lim in let cfg0 := pool_cfg nw autostart choices clients nslots in
  let L := steps_of M cfg0 sched in
  forall a b t o, is_try o = true -> invoked_at M cfg0 sched a t o -> a <= b -> b < length L ->
  5 < own_steps L t a b ->
  exists k ck r, a <= k < b /\ nth_error L k = Some (ck, t) /\ ret_of M ck t = Some r.
Proof. intros nw lim autostart choices clients nslots sched M cfg0 L. apply trydo_returns. Qed.

(** (B) [trydo_waits_only_for_stop_section] - in every reachable configuration, a TryDo /
    TryExecute caller [i] whose next step is disabled is at its RLock, and some other thread [j] is
    inside Stop's critical section (XClose / XUnlock); [j] is enabled, and in every continuation in
    which [j] has taken two own steps the write lock is free - for good - and no RLock is refused. *)
Theorem C17_trydo_waits_only_for_stop_section : forall nw lim autostart choices clients nslots,
  clients_ok clients -> forall sched i o l fresh,
  let M := pool nw lim in
  let c := final M (pool_cfg nw autostart choices clients nslots) sched in
  stepper M c i = Some (o, l, fresh) -> is_try o = true -> pstep nw lim l (c_sh c) = Blocked ->
  fresh = false /\ (exists id, l = SubRLock true id) /\
  exists j, j <> i /\ (at_pc c j XClose \/ at_pc c j XUnlock) /\ step_thread M c j <> None /\
    forall sched', let c' := final M c sched' in
      2 <= steps_by (steps_of M c sched') j ->
      rw_writer (p_lock (c_sh c')) = false /\ forall try id, pstep nw lim (SubRLock try id) (c_sh c') <> Blocked.
Proof. exact trydo_waits_only_for_stop_section. Qed.

(* the thread inside the section stays enabled until it has left it, whatever the others do *)
Theorem C17_stop_section_two_steps : forall nw lim autostart choices clients nslots,
  clients_ok clients -> forall sched j,
  let M := pool nw lim in
  let c := final M (pool_cfg nw autostart choices clients nslots) sched in
  at_pc c j XClose \/ at_pc c j XUnlock ->
  forall sched', let c' := final M c sched' in let n := steps_by (steps_of M c sched') j in
    (at_pc c' j XClose /\ n = 0 /\ step_thread M c' j <> None) \/
    (at_pc c' j XUnlock /\ n <= 1 /\ step_thread M c' j <> None) \/
    (p_closedflag (c_sh c') = true /\ rw_writer (p_lock (c_sh c')) = false).
Proof. exact stop_section_two_steps. Qed.

(** (C) Do / Execute: at most [push_rank lim + 3] own steps in all - 8 with expansion, 5 with
    limit 0 -, waiting included (waiting costs no own step); a call standing at its blocking select
    has taken at most [push_rank lim] (5, resp. 2) own steps; and it is disabled only at its RLock
    (Stop's section, as above) or at that select with the slot taken and no context done. *)
Theorem C17_do_own_step_bound : forall nw lim autostart choices clients nslots sched,
  let M := pool nw lim in let cfg0 := pool_cfg nw autostart choices clients nslots in
  let L := steps_of M cfg0 sched in
  forall a b t o, is_do o = true -> invoked_at M cfg0 sched a t o -> a <= b -> b < length L ->
  (forall k ck, a <= k < b -> nth_error L k = Some (ck, t) -> ret_of M ck t = None) ->
  own_steps L t a b <= (if (lim =? 0)%Z then 5 else 8).
Proof.
  intros nw lim autostart choices clients nslots sched M cfg0 L a b t o H1 H2 H3 H4 H5.
  destruct (do_own_step_bound nw lim _ sched a b t o H1 H2 H3 H4 H5) as [H _].
  unfold push_rank in H. destruct (lim =? 0)%Z; exact H.
Qed.

Theorem C17_do_at_push_steps : forall nw lim autostart choices clients nslots sched,
  let M := pool nw lim in let cfg0 := pool_cfg nw autostart choices clients nslots in
  let L := steps_of M cfg0 sched in
  forall a b t o, is_do o = true -> a <= b -> invoked_at M cfg0 sched a t o -> no_return M cfg0 sched t a b ->
  forall cb tb, nth_error L b = Some (cb, tb) ->
  forall id, at_pc (step_cfg M cb tb) t (SubPush id) ->
  own_steps L t a b <= (if (lim =? 0)%Z then 2 else 5).
Proof.
  intros nw lim autostart choices clients nslots sched M cfg0 L a b t o H1 H2 H3 H4 cb tb H5 id H6.
  destruct (do_at_push_steps nw lim _ sched a b t o H1 H2 H3 H4 cb tb H5 id H6) as [H _].
  unfold push_rank in H. destruct (lim =? 0)%Z; exact H.
Qed.

Theorem C17_do_waits_only_at_rlock_or_push : forall nw lim autostart choices clients nslots,
  clients_ok clients -> forall sched i o l fresh,
  let M := pool nw lim in
  let c := final M (pool_cfg nw autostart choices clients nslots) sched in
  stepper M c i = Some (o, l, fresh) -> is_do o = true -> pstep nw lim l (c_sh c) = Blocked ->
  fresh = false /\
  (((exists id, l = SubRLock false id) /\ waits_for_stop_section nw lim c i) \/
   (exists id t, l = SubPush id /\ get_task (c_sh c) id = Some t /\
      p_poolctx (c_sh c) = false /\ ctx_done (c_sh c) (tk_ctx t) = false /\ length (p_queue (c_sh c)) = 1)).
Proof. exact do_waits_only_at_rlock_or_push. Qed.

(** (D) [start_stop_own_step_bounds] - Start takes at most 5 own steps (invocation, RLock, CAS,
    wg.Add(n) followed by the n [go] statements - ONE step of the model, which has a single shared
    access there: in source terms 4 + 1 + nw statements -, RUnlock).  Stop takes at most
    12 = 10 + 2 * 1 own steps: invocation, <= 3 CAS, cancel, Lock, close, Unlock, wg.Wait, the
    final receive from the closed queue, plus 2 (receive, send) for the at most one task it
    drains; the pc it stands at bounds the steps taken so far (5 at Lock, 8 at wg.Wait); and it is
    disabled only at Lock and at wg.Wait. *)
Theorem C17_start_own_step_bound : forall nw lim autostart choices clients nslots sched,
  let M := pool nw lim in let cfg0 := pool_cfg nw autostart choices clients nslots in
  let L := steps_of M cfg0 sched in
  forall a b t, invoked_at M cfg0 sched a t Start -> a <= b -> b < length L ->
  (forall k ck, a <= k < b -> nth_error L k = Some (ck, t) -> ret_of M ck t = None) ->
  own_steps L t a b <= 5.
Proof. intros nw lim autostart choices clients nslots sched M cfg0 L. apply start_own_step_bound. Qed.

Theorem C17_stop_own_step_bound : forall nw lim autostart choices clients nslots,
  clients_ok clients -> forall sched,
  let M := pool nw lim in let cfg0 := pool_cfg nw autostart choices clients nslots in
  let L := steps_of M cfg0 sched in
  forall a b t, invoked_at M cfg0 sched a t Stop -> a <= b -> b < length L ->
  (forall k ck, a <= k < b -> nth_error L k = Some (ck, t) -> ret_of M ck t = None) ->
  own_steps L t a b <= 12.
Proof. exact stop_own_step_bound. Qed.

(* [drains nw lim L t a b]: number of positions in [a, b] at which thread t executes the send of the
   drain loop, i.e. the number of tasks it has drained *)
Theorem C17_stop_own_steps_drains : forall nw lim autostart choices clients nslots,
  clients_ok clients -> forall sched,
  let M := pool nw lim in let cfg0 := pool_cfg nw autostart choices clients nslots in
  let L := steps_of M cfg0 sched in
  forall a b t, invoked_at M cfg0 sched a t Stop -> a <= b -> b < length L ->
  (forall k ck, a <= k < b -> nth_error L k = Some (ck, t) -> ret_of M ck t = None) ->
  own_steps L t a b <= 10 + 2 * drains nw lim L t a b /\ drains nw lim L t a b <= 1.
Proof. exact stop_own_steps_drains. Qed.

Theorem C17_start_stop_own_step_bounds : forall nw lim autostart choices clients nslots,
  clients_ok clients -> forall sched,
  let M := pool nw lim in let cfg0 := pool_cfg nw autostart choices clients nslots in
  let L := steps_of M cfg0 sched in
  forall a b t o, invoked_at M cfg0 sched a t o -> a <= b -> b < length L ->
  (forall k ck, a <= k < b -> nth_error L k = Some (ck, t) -> ret_of M ck t = None) ->
  (o = Start -> own_steps L t a b <= 5) /\
  (o = Stop -> own_steps L t a b <= 10 + 2 * drains nw lim L t a b /\ drains nw lim L t a b <= 1 /\
               own_steps L t a b <= 12).
Proof. exact start_stop_own_step_bounds. Qed.

Theorem C17_stop_call_at_pc : forall nw lim autostart choices clients nslots,
  clients_ok clients -> forall sched,
  let M := pool nw lim in let cfg0 := pool_cfg nw autostart choices clients nslots in
  let L := steps_of M cfg0 sched in
  forall a b t, a <= b -> invoked_at M cfg0 sched a t Stop -> no_return M cfg0 sched t a b ->
  forall cb tb, nth_error L b = Some (cb, tb) ->
  forall l, at_pc (step_cfg M cb tb) t l ->
  exists n, srank (c_sh (step_cfg M cb tb)) l = Some n /\ own_steps L t a b <= n /\ n <= 11.
Proof. exact stop_call_at_pc. Qed.

Theorem C17_stop_waits_only_at_lock_or_wait : forall nw lim autostart choices clients nslots,
  clients_ok clients -> forall sched i l fresh,
  let M := pool nw lim in
  let c := final M (pool_cfg nw autostart choices clients nslots) sched in
  stepper M c i = Some (Stop, l, fresh) -> pstep nw lim l (c_sh c) = Blocked ->
  fresh = false /\
  ((l = XLock /\ (rw_writer (p_lock (c_sh c)) = true \/ rw_readers (p_lock (c_sh c)) <> 0)) \/
   (l = XWait /\ p_wg (c_sh c) <> 0)).
Proof. exact stop_waits_only_at_lock_or_wait. Qed.

(** every other client operation (Cancel, OpenGate, Fire, Await, PollRes, the harness waits):
    2 own steps; [cbound]: the table of all bounds *)
Theorem C17_client_call_bound : forall nw lim autostart choices clients nslots sched,
  let M := pool nw lim in let cfg0 := pool_cfg nw autostart choices clients nslots in
  let L := steps_of M cfg0 sched in
  forall a b t o, loop_free o = true -> invoked_at M cfg0 sched a t o -> a <= b -> b < length L ->
  (forall k ck, a <= k < b -> nth_error L k = Some (ck, t) -> ret_of M ck t = None) ->
  own_steps L t a b <= cbound lim o.
Proof. intros nw lim autostart choices clients nslots sched M cfg0 L. apply client_call_bound. Qed.

Print Assumptions C17_trydo_own_step_bound.
Print Assumptions C17_trydo_returns.
Print Assumptions C17_trydo_waits_only_for_stop_section.
Print Assumptions C17_stop_section_two_steps.
Print Assumptions C17_do_own_step_bound.
Print Assumptions C17_do_at_push_steps.
Print Assumptions C17_do_waits_only_at_rlock_or_push.
Print Assumptions C17_start_own_step_bound.
Print Assumptions C17_stop_own_step_bound.
Print Assumptions C17_stop_own_steps_drains.
Print Assumptions C17_start_stop_own_step_bounds.
Print Assumptions C17_stop_call_at_pc.
Print Assumptions C17_stop_waits_only_at_lock_or_wait.
Print Assumptions C17_client_call_bound.
Print Assumptions trydo_bound_attained.
Print Assumptions do_bound_attained.
Print Assumptions stop_bound_attained.
