(** C16 - all adder variants agree with a plain number for Store / Reset /
    SumAndReset.  Property theorems only.  (The striped adders' part of this
    property - sequential use and use between finished concurrent phases with
    a grown table - is in Adder/StripedSeq.v when present; see DESIGN.md.) *)
From Coq Require Import List ZArith.
From Garr Require Import Conc.Conc Conc.Lin Pure.F64 Adder.StripedModel Adder.SimpleModel Adder.AdderSpec.
From Garr Require Import Adder.SimpleMutex Adder.SimpleAtomic.
Import ListNotations.
Local Open Scope Z_scope.

(** MutexAdder: every history over the whole API - concurrent or not - is that
    of one number: Sum returns it, Store v makes it v, Reset makes it zero,
    SumAndReset returns it and leaves zero, later updates accumulate on top. *)
Theorem C16_mutex_adder : forall (progs : list (list aop)) (sched : list nat),
  lin_ok mutex_adder aret_eqb (counter_spec wadd) xlp xinit tt 0 progs sched = true.
Proof. exact mutex_adder_linearizable. Qed.
Print Assumptions C16_mutex_adder.

(** AtomicAdder / AtomicF64Adder: the same for Add, Inc, Dec, Sum, Store and
    Reset under any concurrency (SumAndReset is a load followed by a store and
    is covered by the single-threaded / between-phases reading only). *)
Theorem C16_atomic_adder : forall progs sched, no_sar progs ->
  lin_ok atomic_adder aret_eqb (counter_spec wadd) tlp 0 tt 0 progs sched = true.
Proof. exact atomic_adder_linearizable. Qed.
Theorem C16_atomic_f64_adder : forall progs sched, no_sar progs ->
  lin_ok atomic_f64_adder aret_eqb (counter_spec Z.add) tlp 0 tt 0 progs sched = true.
Proof. exact atomic_f64_adder_linearizable. Qed.
Print Assumptions C16_atomic_adder.
