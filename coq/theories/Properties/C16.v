(** C16 - all adder variants agree with a plain number for Store / Reset /
    SumAndReset.  Property theorems only. *)
From Coq Require Import List ZArith.
From Garr Require Import Conc.Conc Conc.Lin Pure.F64 Adder.StripedModel Adder.SimpleModel Adder.AdderSpec.
From Garr Require Import Adder.SimpleMutex Adder.SimpleAtomic.
From Garr Require Import Adder.StripedInv Adder.StripedPhase Adder.StripedSeq Adder.StripedC16.
From Garr Require Import Adder.SimpleSeqLib Adder.SimpleRCSeq Adder.SimpleRCPhase Adder.SimpleRCC16 Adder.SimpleAtomicSeq.
Import ListNotations.
Local Open Scope Z_scope.

(** MutexAdder: every history over the whole API - concurrent or not - is that
    of one number: Sum returns it, Store v makes it v, Reset makes it zero,
    SumAndReset returns it and leaves zero, later updates accumulate on top. *)
Theorem C16_mutex_adder : forall (progs : list (list aop)) (sched : list nat),
  lin_ok mutex_adder aret_eqb (counter_spec wadd) xlp xinit tt 0 progs sched = true.
Proof. exact mutex_adder_linearizable. Qed.
Print Assumptions C16_mutex_adder.

(** AtomicAdder / AtomicF64Adder: the same for Add, Inc, Dec, Sum, Store and
    Reset under any concurrency (SumAndReset is a load followed by a store and
    is covered by the single-threaded / between-phases reading only). *)
Theorem C16_atomic_adder : forall progs sched, no_sar progs ->
  lin_ok atomic_adder aret_eqb (counter_spec wadd) tlp 0 tt 0 progs sched = true.
Proof. exact atomic_adder_linearizable. Qed.
Theorem C16_atomic_f64_adder : forall progs sched, no_sar progs ->
  lin_ok atomic_f64_adder aret_eqb (counter_spec Z.add) tlp 0 tt 0 progs sched = true.
Proof. exact atomic_f64_adder_linearizable. Qed.
Print Assumptions C16_atomic_adder.

(** JDKAdder / JDKF64Adder.  [reach16] = the states reachable by ANY alternation
    of (a) single-goroutine phases over the whole API and (b) concurrent
    phases of Add/Inc/Dec calls that have all returned - however much the
    table has grown; [v] is the plain number those phases compute.  From
    every such state a single goroutine using any operations (Sum, Store,
    Reset, SumAndReset, updates) gets exactly the results of the plain number
    [v].  (Store does NOT preserve the full concurrent invariant: the old
    arrays keep their old cells - [store_breaks_Glob] in Adder/StripedC16.v is
    the concrete witness, which is exactly why Store/Reset are documented as
    unsafe under concurrency; the weaker predicate [Good] that forgets
    unreachable arrays is preserved and suffices for the next concurrent
    phase.) *)
Theorem C16_jdk_adder : forall f64 maxcells s v ops m c e,
  reach16 wrap64 wadd f64 maxcells s v -> Forall (StripedSeq.op_ok wrap64) ops ->
  run (striped wadd f64 maxcells) (Config s [mk_thread apc tt ops]) (repeat 0%nat m) = (c, e) ->
  all_done c ->
  rets e = snd (spec_run wadd v ops).
Proof. exact striped_C16_wadd. Qed.
Theorem C16_jdk_f64_adder : forall f64 maxcells s v ops m c e,
  reach16 (fun z => z) Z.add f64 maxcells s v ->
  run (striped Z.add f64 maxcells) (Config s [mk_thread apc tt ops]) (repeat 0%nat m) = (c, e) ->
  all_done c ->
  rets e = snd (spec_run Z.add v ops).
Proof. exact striped_C16_exact. Qed.

(** and every such call sequence terminates with the number in place *)
Theorem C16_jdk_adder_sequential : forall f64 maxcells ops s,
  Good wrap64 s -> a_busy s = 0 -> Forall (StripedSeq.op_ok wrap64) ops ->
  exists n, forall m, (n <= m)%nat ->
    let '(c, e) := run (striped wadd f64 maxcells) (Config s [mk_thread apc tt ops]) (repeat 0%nat m) in
    rets e = snd (spec_run wadd (value wrap64 s) ops) /\
    Good wrap64 (c_sh c) /\ a_busy (c_sh c) = 0 /\
    value wrap64 (c_sh c) = fst (spec_run wadd (value wrap64 s) ops).
Proof. exact striped_sequential_number_wadd. Qed.
Print Assumptions C16_jdk_adder.
Print Assumptions C16_jdk_f64_adder.
Print Assumptions C16_jdk_adder_sequential.

(** RandomCellAdder (any number n > 0 of cells): the same alternation-of-phases
    statement - single-goroutine phases over the whole API and finished
    concurrent update phases - agrees with the plain int64 number. *)
Theorem C16_random_cell_adder : forall n s v ops m c e,
  (0 < n)%nat -> rc_reach16 n s v -> Forall SimpleRCSeq.op_ok ops ->
  run rc_adder (Config s [mk_thread rpc tt ops]) (repeat 0%nat m) = (c, e) -> all_done c ->
  rets e = snd (spec_run wadd v ops).
Proof. exact rc_C16. Qed.

(** AtomicAdder / AtomicF64Adder, one goroutine, the WHOLE API including
    SumAndReset: exactly the plain number. *)
Theorem C16_atomic_adder_sequential : forall (v : Z) (ops : list aop) m c e,
  run atomic_adder (Config v [mk_thread tpc tt ops]) (repeat 0%nat m) = (c, e) -> all_done c ->
  rets e = snd (spec_run wadd v ops) /\ c_sh c = fst (spec_run wadd v ops).
Proof. exact atomic_adder_seq_done. Qed.
Print Assumptions C16_random_cell_adder.
Print Assumptions C16_atomic_adder_sequential.
