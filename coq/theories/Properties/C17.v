(** Property C17 of the worker pool - theorems only. *)
From Coq Require Import List Arith Bool ZArith.
From Garr Require Import Conc.Conc Pool.PoolModel Pool.PoolBase Pool.PoolInv1 Pool.PoolTok Pool.PoolStop Pool.PoolStopMain Pool.PoolWg Pool.PoolCap Pool.PoolMain.
Import ListNotations.

(** Setting of all pool theorems: [pool_cfg nw autostart choices clients nslots] is a
    pool with [nw] fixed workers (auto-started or not), any select-oracle
    stream [choices], any client programs [clients] (threads calling Do,
    TryDo, Execute, TryExecute, Start, Stop, cancelling contexts, opening
    gates, firing timers, awaiting results) and [nslots] goroutine slots;
    [clients_ok]: clients only use client operations and every task is
    submitted once.  [c] ranges over ALL configurations reachable under ANY
    schedule. *)

(** C17 - TryDo never blocks; Do applies backpressure.  In every reachable
    configuration no step of a TryDo / TryExecute call other than taking the
    read lock is ever disabled ([try_pc]: the closed-pool refusal, the select
    with default, the delivery of a context error, the unlock); the read lock
    is refused only while Stop is inside its two-step critical section (close,
    unlock), whose steps never block.  The queue never holds more than one
    waiting task.  (That a blocked Do is released "as soon as" a context is
    cancelled is timing; that it IS released with exactly one context-error
    result is checked on the real code by the saturation scenarios and follows
    for the model from the select semantics + C04's one-result theorem.) *)
Theorem C17_try_never_blocks : forall nw lim autostart choices clients nslots sched,
  clients_ok clients -> forall i l,
  at_pc (final (pool nw lim) (pool_cfg nw autostart choices clients nslots) sched) i l -> try_pc l = true ->
  pstep nw lim l (c_sh (final (pool nw lim) (pool_cfg nw autostart choices clients nslots) sched)) <> Blocked.
Proof. exact try_never_blocks. Qed.

Theorem C17_rlock_blocked_only_by_stop : forall nw lim autostart choices clients nslots sched,
  clients_ok clients -> forall i try id,
  let c := final (pool nw lim) (pool_cfg nw autostart choices clients nslots) sched in
  at_pc c i (SubRLock try id) -> pstep nw lim (SubRLock try id) (c_sh c) = Blocked ->
  exists j, at_pc c j XClose \/ at_pc c j XUnlock.
Proof. exact rlock_blocked_only_by_stop. Qed.

Theorem C17_stop_critical_section_never_blocks : forall nw lim s0,
  pstep nw lim XClose s0 <> Blocked /\ pstep nw lim XUnlock s0 <> Blocked.
Proof. exact stop_unlock_never_blocks. Qed.

Theorem C17_single_queue_slot : forall nw lim autostart choices clients nslots sched,
  clients_ok clients ->
  let c := final (pool nw lim) (pool_cfg nw autostart choices clients nslots) sched in
  length (p_queue (c_sh c)) <= 1 /\ NoDup (p_queue (c_sh c)).
Proof.
  intros nw lim autostart choices clients nslots sched H c.
  destruct (pool_exactly_once nw lim autostart choices clients nslots sched H) as (_ & _ & Hq). exact Hq.
Qed.
Print Assumptions C17_try_never_blocks.
Print Assumptions C17_rlock_blocked_only_by_stop.
Print Assumptions C17_single_queue_slot.

(** ---- trace-level statements (what holds once Stop has RETURNED, where an accepted task is,
    backpressure and cancellation).
    Vocabulary.
    - [accepted x tr]: the trace contains the return of the submission of task x
      with "accepted": Do / Execute returned, TryDo / TryExecute returned true.
    - [returned x tr]: the submission of x has returned (any value).
    - [results c tr x]: the results delivered to x's result channel so far:
      those still in the channel, followed by those already received (the trace
      records them: Await / PollRes returned a value).
    - [res_ok x n r]: r is x's own value and n = 1, or r is the cancellation
      result and n = 0 (n = number of executions of x).
    - [stop_done c]: the state word is 2 and no thread is between Stop's CAS
      and the end of its drain loop, i.e. the Stop call that won the CAS has
      returned.  A second Stop call racing with the first returns at once
      ([PoolSafeExamples.second_stop_returns_early]), so "some Stop call has
      returned" alone is NOT enough; it is enough when no thread is inside a
      Stop call any more, or when the programs contain at most one Stop.
    - [Hwk x], [Hdr x], [H1 x]: number of worker goroutines holding x (taken
      from the queue, not yet answered) / of drain loops holding x / of
      workers executing x. *)
From Garr Require Import Pool.PoolStopDone Pool.PoolAcct Pool.PoolHist Pool.PoolAfterStop Pool.PoolStopCount
  Pool.PoolLateSubmit Pool.PoolSelect Pool.PoolTimers Pool.PoolLive Pool.PoolProgress Pool.PoolFacts.

(** (B) C17 - a Do / Execute waiting at its select is blocked exactly while the queue is full and
    neither the pool's nor the task's context is done; when it fires, it fires on a context that
    is cancelled or into the free queue slot *)
Theorem C17_Do_select_enabled_when_cancelled : forall nw lim autostart choices clients nslots,
  clients_ok clients -> forall sched i id,
  let c := final (pool nw lim) (pool_cfg nw autostart choices clients nslots) sched in
  at_pc c i (SubPush id) ->
  exists t, get_task (c_sh c) id = Some t /\
    p_closedflag (c_sh c) = false /\ p_qclosed (c_sh c) = false /\
    (pstep nw lim (SubPush id) (c_sh c) = Blocked <->
       p_poolctx (c_sh c) = false /\ ctx_done (c_sh c) (tk_ctx t) = false /\ length (p_queue (c_sh c)) = 1) /\
    pstep nw lim (SubPush id) (c_sh c) <> Fault /\
    (forall l' s', pstep nw lim (SubPush id) (c_sh c) = Next l' s' ->
       (l' = SubFut KDo id true /\ p_poolctx (c_sh c) = true /\ p_queue s' = p_queue (c_sh c)) \/
       (l' = SubFut KDo id false /\ ctx_done (c_sh c) (tk_ctx t) = true /\ p_queue s' = p_queue (c_sh c)) \/
       (l' = SubRUnlock KDo /\ p_queue (c_sh c) = [] /\ p_queue s' = [id])).
Proof. exact do_select_enabled_when_cancelled. Qed.

(** ... and the delivery of the context error is never blocked: the task has no result yet, has not
    been executed, and gets the cancellation result now (by [One_result_per_task] it stays its only
    result and the task is never executed) *)
Theorem C17_Cancelled_submission_delivers : forall nw lim autostart choices clients nslots,
  clients_ok clients -> forall sched i k id b,
  let c := final (pool nw lim) (pool_cfg nw autostart choices clients nslots) sched in
  let tr := trace (pool nw lim) (pool_cfg nw autostart choices clients nslots) sched in
  at_pc c i (SubFut k id b) ->
  exists t, get_task (c_sh c) id = Some t /\ tk_future t = [] /\ tk_execs t = 0 /\ recvd id tr = [] /\
    pstep nw lim (SubFut k id b) (c_sh c) =
      Next (SubRUnlock k) (set_task (c_sh c) id (Task (tk_ctx t) (tk_gate t) [TCanceled] 0)).
Proof. exact cancelled_submission_delivers. Qed.

Print Assumptions C17_Do_select_enabled_when_cancelled.
Print Assumptions C17_Cancelled_submission_delivers.
