(** Property C17 of the worker pool - theorems only. *)
From Coq Require Import List Arith Bool ZArith.
From Garr Require Import Conc.Conc Pool.PoolModel Pool.PoolBase Pool.PoolInv1 Pool.PoolTok Pool.PoolStop Pool.PoolStopMain Pool.PoolWg Pool.PoolCap Pool.PoolMain.
Import ListNotations.

(** Setting of all pool theorems: [pool_cfg nw autostart choices clients nslots] is a
    pool with [nw] fixed workers (auto-started or not), any select-oracle
    stream [choices], any client programs [clients] (threads calling Do,
    TryDo, Execute, TryExecute, Start, Stop, cancelling contexts, opening
    gates, firing timers, awaiting results) and [nslots] goroutine slots;
    [clients_ok]: clients only use client operations and every task is
    submitted once.  [c] ranges over ALL configurations reachable under ANY
    schedule. *)

(** C17 - TryDo never blocks; Do applies backpressure.  In every reachable
    configuration no step of a TryDo / TryExecute call other than taking the
    read lock is ever disabled ([try_pc]: the closed-pool refusal, the select
    with default, the delivery of a context error, the unlock); the read lock
    is refused only while Stop is inside its two-step critical section (close,
    unlock), whose steps never block.  The queue never holds more than one
    waiting task.  (That a blocked Do is released "as soon as" a context is
    cancelled is timing; that it IS released with exactly one context-error
    result is checked on the real code by the saturation scenarios and follows
    for the model from the select semantics + C04's one-result theorem.) *)
Theorem C17_try_never_blocks : forall nw lim autostart choices clients nslots sched,
  clients_ok clients -> forall i l,
  at_pc (final (pool nw lim) (pool_cfg nw autostart choices clients nslots) sched) i l -> try_pc l = true ->
  pstep nw lim l (c_sh (final (pool nw lim) (pool_cfg nw autostart choices clients nslots) sched)) <> Blocked.
Proof. exact try_never_blocks. Qed.

Theorem C17_rlock_blocked_only_by_stop : forall nw lim autostart choices clients nslots sched,
  clients_ok clients -> forall i try id,
  let c := final (pool nw lim) (pool_cfg nw autostart choices clients nslots) sched in
  at_pc c i (SubRLock try id) -> pstep nw lim (SubRLock try id) (c_sh c) = Blocked ->
  exists j, at_pc c j XClose \/ at_pc c j XUnlock.
Proof. exact rlock_blocked_only_by_stop. Qed.

Theorem C17_stop_critical_section_never_blocks : forall nw lim s0,
  pstep nw lim XClose s0 <> Blocked /\ pstep nw lim XUnlock s0 <> Blocked.
Proof. exact stop_unlock_never_blocks. Qed.

Theorem C17_single_queue_slot : forall nw lim autostart choices clients nslots sched,
  clients_ok clients ->
  let c := final (pool nw lim) (pool_cfg nw autostart choices clients nslots) sched in
  length (p_queue (c_sh c)) <= 1 /\ NoDup (p_queue (c_sh c)).
Proof.
  intros nw lim autostart choices clients nslots sched H c.
  destruct (pool_exactly_once nw lim autostart choices clients nslots sched H) as (_ & _ & Hq). exact Hq.
Qed.
Print Assumptions C17_try_never_blocks.
Print Assumptions C17_rlock_blocked_only_by_stop.
Print Assumptions C17_single_queue_slot.
