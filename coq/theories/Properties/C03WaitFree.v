(** C03 / C06 / C10 - "the breaker is non-blocking": every call RETURNS, within
    an explicit bound on the caller's OWN steps, whatever the other threads do.
    Property theorems only (proofs in Breaker/ConcWaitFree*.v).

    Model: Breaker/BreakerModel.v, one step per access to shared memory (atomic
    loads / CAS of the state pointer and of the current bucket, snapshot,
    ticker readings, one step per call into the reservoir queue or a bucket's
    adders).  All client programs (finite lists of CanRequest, OnSuccess,
    OnFailure and the bare window operations), any number of threads, all
    ticker streams, all configurations, all listener counts, ALL schedules. *)
From Coq Require Import List Arith Bool ZArith Lia.
From Garr Require Import Conc.Conc Pure.F64 Pure.Config Breaker.BreakerModel
  Breaker.ConcBase Breaker.ConcInv Breaker.ConcHist Breaker.ConcOne
  Breaker.ConcWaitFreeInv Breaker.ConcWaitFreeRank Breaker.ConcWaitFreeMain
  Breaker.ConcWaitFreeFair.
Import ListNotations.

(** ** (A) no step ever waits, no step ever faults *)

(** No program counter of the breaker can be disabled: there is no lock, no
    wait and no retry in the model of the code - in ANY shared state. *)
Theorem C03_never_blocks : forall cfg nl (l : bpc) (s : bshared), bstep cfg nl l s <> Blocked.
Proof. exact breaker_never_blocks. Qed.
Print Assumptions C03_never_blocks.

(** No reachable step faults (every state / window / bucket register a thread
    dereferences is allocated): no thread is ever dead ... *)
Theorem C03_no_fault : forall cfg nl ticks progs sched th,
  In th (c_thr (final (breaker cfg nl) (bcfg0 nl ticks progs) sched)) -> t_dead th = false.
Proof. exact breaker_no_fault. Qed.
Print Assumptions C03_no_fault.

(** ... every step a thread of a reachable configuration can take continues or
    completes its call ... *)
Theorem C03_step_ok : forall cfg nl ticks progs sched t th o l fresh,
  let c := final (breaker cfg nl) (bcfg0 nl ticks progs) sched in
  nth_error (c_thr c) t = Some th -> view (breaker cfg nl) th = Some (o, l, fresh) ->
  (exists l' s', bstep cfg nl l (c_sh c) = Next l' s') \/
  (exists r s', bstep cfg nl l (c_sh c) = Done r tt s').
Proof. exact breaker_step_ok. Qed.

(** ... and no trace contains a fault event. *)
Theorem C03_trace_no_fault : forall cfg nl ticks progs sched t o,
  ~ In (EFault t o) (trace (breaker cfg nl) (bcfg0 nl ticks progs) sched).
Proof. exact breaker_trace_no_fault. Qed.
Print Assumptions C03_trace_no_fault.

(** ** (B) every call returns within [cbound progs] of its own steps *)

(** [cbound progs = 12 + 4 * (number of OnSuccess/OnFailure/WSuccess/WFailure
    operations in progs)]; per operation [obound o n] with [n] that number:
    CanRequest 5, OnSuccess 10+4n, OnFailure 12+4n, WSuccess/WFailure 9+4n,
    WCount 2.  (The only loop is trimAndSum's traversal of the reservoir, 4
    steps per cell, and the reservoirs never hold more than [n] cells.) *)
Theorem C03_cbound_formula : forall progs,
  cbound progs = 12 + 4 * n_rep progs /\
  (forall o, obound o (n_rep progs) <= cbound progs) /\
  obound CanRequest (n_rep progs) = 5 /\ obound OnSuccess (n_rep progs) = 10 + 4 * n_rep progs /\
  obound OnFailure (n_rep progs) = 12 + 4 * n_rep progs /\
  obound WSuccess (n_rep progs) = 9 + 4 * n_rep progs /\ obound WFailure (n_rep progs) = 9 + 4 * n_rep progs /\
  obound WCount (n_rep progs) = 2.
Proof.
  intros progs. split; [reflexivity|]. split; [intros o; apply obound_le|]. repeat split; reflexivity.
Qed.

Theorem C03_reservoir_bounded : forall cfg nl ticks progs sched,
  tc (c_sh (final (breaker cfg nl) (bcfg0 nl ticks progs) sched)) <= n_rep progs.
Proof. exact reservoir_cells_bounded. Qed.

Section Log.
Variables (cfg : cb_config) (nl : nat) (ticks : list Z) (progs : list (list bop)) (sched : list nat).
Notation M := (breaker cfg nl).
Notation L := (steps_of M (bcfg0 nl ticks progs) sched).

(** On the log of any execution: the call of [o] that thread [t] invokes at
    position [a] has taken, up to ANY later position [b] before which it has
    not returned, at most [obound o _ <= cbound progs] steps of its own -
    however many steps the other threads take in between.  With [b] the
    position of the call's return: the call returns within the bound; with [b]
    the end of the log: a call that has not returned yet has not run longer
    than the bound either, so no call runs for ever. *)
Theorem C03_call_bound : forall a b t o,
  invoked_at cfg nl ticks progs sched a t o -> a <= b -> b < length L ->
  (forall k ck, a <= k < b -> nth_error L k = Some (ck, t) -> ret_at cfg nl ck t = None) ->
  own_steps L t a b <= obound o (n_rep progs) /\ own_steps L t a b <= cbound progs.
Proof.
  intros a b t o Hi Hab Hb Hnr. split.
  - exact (breaker_call_bound_op cfg nl ticks progs sched a b t o Hi Hab Hb Hnr).
  - exact (breaker_call_bound cfg nl ticks progs sched a b t o Hi Hab Hb Hnr).
Qed.

Theorem C03_returned_call_bound : forall a b t o cb r,
  invoked_at cfg nl ticks progs sched a t o -> a <= b ->
  nth_error L b = Some (cb, t) -> ret_at cfg nl cb t = Some r ->
  (forall k ck, a <= k < b -> nth_error L k = Some (ck, t) -> ret_at cfg nl ck t = None) ->
  own_steps L t a b <= obound o (n_rep progs) /\ obound o (n_rep progs) <= cbound progs.
Proof. exact (breaker_returned_call_bound cfg nl ticks progs sched). Qed.

Theorem C03_pending_call_bound : forall a t o,
  invoked_at cfg nl ticks progs sched a t o ->
  (forall k ck, a <= k -> nth_error L k = Some (ck, t) -> ret_at cfg nl ck t = None) ->
  own_steps L t a (length L - 1) <= obound o (n_rep progs) /\ obound o (n_rep progs) <= cbound progs.
Proof. exact (breaker_pending_call_bound cfg nl ticks progs sched). Qed.

(** Positively: once thread [t] has taken more than [obound o _] steps since
    it invoked [o], that call HAS returned, at an identified log position. *)
Theorem C03_call_returns : forall a b t o,
  invoked_at cfg nl ticks progs sched a t o -> a <= b -> b < length L ->
  obound o (n_rep progs) < own_steps L t a b ->
  exists k ck r, a <= k < b /\ nth_error L k = Some (ck, t) /\ ret_at cfg nl ck t = Some r.
Proof. exact (breaker_call_returns cfg nl ticks progs sched). Qed.

(** ** (D) C03: concurrent CanRequest callers each return within 5 own steps *)

(** A CanRequest call takes at most 5 steps of its own (invocation, load of
    the state pointer, two ticker readings, CAS) - in every execution ... *)
Theorem C03_can_request_5_steps : forall a b t,
  invoked_at cfg nl ticks progs sched a t CanRequest -> a <= b -> b < length L ->
  (forall k ck, a <= k < b -> nth_error L k = Some (ck, t) -> ret_at cfg nl ck t = None) ->
  own_steps L t a b <= 5.
Proof.
  intros a b t Hi Hab Hb Hnr.
  exact (breaker_call_bound_op cfg nl ticks progs sched a b t CanRequest Hi Hab Hb Hnr).
Qed.

(** ... in particular in a region of concurrent CanRequest calls ([cr_region],
    the setting of the "exactly one trial" theorems of C03One.v): every call
    invoked in the region is a CanRequest call and returns within 5 steps of
    its caller, however the racing callers are interleaved - the losers of the
    race for the trial are not delayed by the winner, nor the winner by them. *)
Theorem C03_region_callers_return_within_5 : forall p a b t o,
  cr_region cfg nl ticks progs sched p -> p <= a ->
  invoked_at cfg nl ticks progs sched a t o -> a <= b -> b < length L ->
  (forall k ck, a <= k < b -> nth_error L k = Some (ck, t) -> ret_at cfg nl ck t = None) ->
  o = CanRequest /\ own_steps L t a b <= 5.
Proof.
  intros p a b t o Hreg Hpa Hi Hab Hb Hnr.
  assert (Ho : o = CanRequest).
  { destruct Hi as (ca & Ha & Hst). destruct (Hreg a ca t Hpa Ha) as [l Hat].
    assert (Hat' : at_pc cfg nl ca t o (BInv o)) by (exists true; exact Hst).
    destruct (at_pc_fun _ _ _ _ _ _ _ _ Hat Hat') as [E _]. exact E. }
  split; [exact Ho|]. subst o. apply C03_can_request_5_steps; assumption.
Qed.

End Log.
Print Assumptions C03_call_bound.
Print Assumptions C03_region_callers_return_within_5.

(** ** (C) total termination and wait-freedom in the scheduling sense *)

(** No schedule takes more than [n_ops progs * cbound progs] steps ... *)
Theorem C03_total_termination : forall cfg nl ticks progs sched,
  length (steps_of (breaker cfg nl) (bcfg0 nl ticks progs) sched) <= n_ops progs * cbound progs.
Proof. exact breaker_total_termination. Qed.
Print Assumptions C03_total_termination.

(** ... thread [t] with program [p] takes at most [length p * cbound progs] of them. *)
Theorem C03_thread_steps : forall cfg nl ticks progs sched t p,
  nth_error progs t = Some p ->
  steps_by (steps_of (breaker cfg nl) (bcfg0 nl ticks progs) sched) t <= length p * cbound progs.
Proof. exact breaker_thread_steps. Qed.

(** A thread that gets [length p * cbound progs] turns has returned from every
    call of its program - whatever the other threads do: they may be suspended
    for ever at any atomic step inside the breaker, or starved. *)
Theorem C03_scheduled_thread_finishes : forall cfg nl ticks (progs : list (list bop)) (sched : list nat) t p th,
  nth_error progs t = Some p ->
  length p * cbound progs <= count_occ Nat.eq_dec sched t ->
  nth_error (c_thr (final (breaker cfg nl) (bcfg0 nl ticks progs) sched)) t = Some th ->
  t_prog th = [] /\ t_cur th = None /\ t_dead th = false.
Proof. exact breaker_thread_finishes. Qed.
Print Assumptions C03_scheduled_thread_finishes.

(** ... and the calls it has returned from are exactly its program, in order. *)
Theorem C03_scheduled_thread_returns_all : forall cfg nl ticks (progs : list (list bop)) (sched : list nat) t p,
  nth_error progs t = Some p ->
  length p * cbound progs <= count_occ Nat.eq_dec sched t ->
  ret_ops t (trace (breaker cfg nl) (bcfg0 nl ticks progs) sched) = p.
Proof. exact breaker_finished_all_returned. Qed.
Print Assumptions C03_scheduled_thread_returns_all.

(** Any set of threads frozen for ever after an arbitrary prefix [s1], at any
    atomic step of any call: they stay where they were, everybody else finishes. *)
Theorem C03_frozen_midway : forall cfg nl ticks (progs : list (list bop)) (frozen : nat -> Prop) (s1 s2 : list nat),
  (forall f, frozen f -> ~ In f s2) ->
  (forall t p, nth_error progs t = Some p -> ~ frozen t ->
     length p * cbound progs <= count_occ Nat.eq_dec s2 t) ->
  let c := final (breaker cfg nl) (bcfg0 nl ticks progs) (s1 ++ s2) in
  (forall f, frozen f ->
     nth_error (c_thr c) f = nth_error (c_thr (final (breaker cfg nl) (bcfg0 nl ticks progs) s1)) f) /\
  forall t th, ~ frozen t -> nth_error (c_thr c) t = Some th ->
    t_prog th = [] /\ t_cur th = None /\ t_dead th = false.
Proof. exact breaker_frozen_midway. Qed.
Print Assumptions C03_frozen_midway.

(** Fair schedules, finite formulation ... *)
Theorem C03_fair_all_return : forall cfg nl ticks (progs : list (list bop)) (sched : list nat),
  (forall t p, nth_error progs t = Some p -> length p * cbound progs <= count_occ Nat.eq_dec sched t) ->
  forall t th, nth_error (c_thr (final (breaker cfg nl) (bcfg0 nl ticks progs) sched)) t = Some th ->
    t_prog th = [] /\ t_cur th = None /\ t_dead th = false.
Proof. exact breaker_fair_all_return. Qed.
Print Assumptions C03_fair_all_return.

(** ... every schedule can be completed by round-robin rounds ... *)
Theorem C03_round_robin_finishes : forall cfg nl ticks (progs : list (list bop)) (sched : list nat),
  let c := final (breaker cfg nl) (bcfg0 nl ticks progs)
             (sched ++ rounds (length progs) (n_ops progs * cbound progs)) in
  forall t th, nth_error (c_thr c) t = Some th ->
    t_prog th = [] /\ t_cur th = None /\ t_dead th = false.
Proof. exact breaker_round_robin_finishes. Qed.

(** ... infinite formulation: a thread scheduled infinitely often finishes
    after finitely many entries, whatever happens to the others; under a fair
    infinite schedule there is a point after which everybody has finished. *)
Theorem C03_inf_often_finishes : forall cfg nl ticks (progs : list (list bop)) (sigma : nat -> nat) t,
  inf_often sigma t ->
  exists n, forall n' th, n <= n' ->
    nth_error (c_thr (final (breaker cfg nl) (bcfg0 nl ticks progs) (prefix sigma n'))) t = Some th ->
    t_prog th = [] /\ t_cur th = None /\ t_dead th = false.
Proof. exact breaker_inf_often_finishes. Qed.
Print Assumptions C03_inf_often_finishes.

Theorem C03_fair_infinite : forall cfg nl ticks (progs : list (list bop)) (sigma : nat -> nat),
  (forall t, t < length progs -> inf_often sigma t) ->
  exists n, forall n' t th, n <= n' ->
    nth_error (c_thr (final (breaker cfg nl) (bcfg0 nl ticks progs) (prefix sigma n'))) t = Some th ->
    t_prog th = [] /\ t_cur th = None /\ t_dead th = false.
Proof. exact breaker_fair_infinite. Qed.
Print Assumptions C03_fair_infinite.
