(** Property C04 of the worker pool - theorems only. *)
From Coq Require Import List Arith Bool ZArith.
From Garr Require Import Conc.Conc Pool.PoolModel Pool.PoolBase Pool.PoolInv1 Pool.PoolTok Pool.PoolStop Pool.PoolStopMain Pool.PoolWg Pool.PoolCap Pool.PoolMain.
Import ListNotations.

(** Setting of all pool theorems: [pool_cfg nw autostart choices clients nslots] is a
    pool with [nw] fixed workers (auto-started or not), any select-oracle
    stream [choices], any client programs [clients] (threads calling Do,
    TryDo, Execute, TryExecute, Start, Stop, cancelling contexts, opening
    gates, firing timers, awaiting results) and [nslots] goroutine slots;
    [clients_ok]: clients only use client operations and every task is
    submitted once.  [c] ranges over ALL configurations reachable under ANY
    schedule. *)

(** C04 - every accepted task runs exactly once and yields exactly one result.
    Token accounting in every reachable configuration: a task is in at most one
    place (with its submitter before the decision, in the queue, with one
    worker, with Stop's drain); it is executed at most once ([tk_execs <= 1]),
    by the worker holding it; its result channel never holds more than one
    value; a value [TVal i] in it is the executor's own (i = the task) and the
    task was executed exactly once; a context error [TCanceled] in it means the
    task was never executed (a refused task is never executed, an executed one
    never gets a context error); a task still with its submitter or in the
    queue has not been executed.  The queue never holds two tasks. *)
Theorem C04_exactly_once_one_result : forall nw lim autostart choices clients nslots sched,
  clients_ok clients ->
  let c := final (pool nw lim) (pool_cfg nw autostart choices clients nslots) sched in
  (forall x, tokens (c_sh c) (aths c) x <= 1) /\
  (forall x t, get_task (c_sh c) x = Some t ->
     tk_execs t <= 1 /\ length (tk_future t) <= 1 /\
     (1 <= H0 x (aths c) + cnt (p_queue (c_sh c)) x -> tk_execs t = 0) /\
     (1 <= H1 x (aths c) -> tk_execs t = 1) /\
     (forall i, In (TVal i) (tk_future t) -> i = x /\ tk_execs t = 1) /\
     (In TCanceled (tk_future t) -> tk_execs t = 0)) /\
  length (p_queue (c_sh c)) <= 1 /\ NoDup (p_queue (c_sh c)).
Proof. exact pool_exactly_once. Qed.
Theorem C04_never_faults : forall nw lim autostart choices clients nslots sched,
  clients_ok clients ->
  let c := final (pool nw lim) (pool_cfg nw autostart choices clients nslots) sched in
  forall th, In th (c_thr c) -> t_dead th = false.
Proof. exact pool_never_panics. Qed.
Print Assumptions C04_exactly_once_one_result.
