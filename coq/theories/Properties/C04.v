(** Property C04 of the worker pool - theorems only. *)
From Coq Require Import List Arith Bool ZArith.
From Garr Require Import Conc.Conc Pool.PoolModel Pool.PoolBase Pool.PoolInv1 Pool.PoolTok Pool.PoolStop Pool.PoolStopMain Pool.PoolWg Pool.PoolCap Pool.PoolMain.
Import ListNotations.

(** Setting of all pool theorems: [pool_cfg nw autostart choices clients nslots] is a
    pool with [nw] fixed workers (auto-started or not), any select-oracle
    stream [choices], any client programs [clients] (threads calling Do,
    TryDo, Execute, TryExecute, Start, Stop, cancelling contexts, opening
    gates, firing timers, awaiting results) and [nslots] goroutine slots;
    [clients_ok]: clients only use client operations and every task is
    submitted once.  [c] ranges over ALL configurations reachable under ANY
    schedule. *)

(** C04 - every accepted task runs exactly once and yields exactly one result.
    Token accounting in every reachable configuration: a task is in at most one
    place (with its submitter before the decision, in the queue, with one
    worker, with Stop's drain); it is executed at most once ([tk_execs <= 1]),
    by the worker holding it; its result channel never holds more than one
    value; a value [TVal i] in it is the executor's own (i = the task) and the
    task was executed exactly once; a context error [TCanceled] in it means the
    task was never executed (a refused task is never executed, an executed one
    never gets a context error); a task still with its submitter or in the
    queue has not been executed.  The queue never holds two tasks. *)
Theorem C04_exactly_once_one_result : forall nw lim autostart choices clients nslots sched,
  clients_ok clients ->
  let c := final (pool nw lim) (pool_cfg nw autostart choices clients nslots) sched in
  (forall x, tokens (c_sh c) (aths c) x <= 1) /\
  (forall x t, get_task (c_sh c) x = Some t ->
     tk_execs t <= 1 /\ length (tk_future t) <= 1 /\
     (1 <= H0 x (aths c) + cnt (p_queue (c_sh c)) x -> tk_execs t = 0) /\
     (1 <= H1 x (aths c) -> tk_execs t = 1) /\
     (forall i, In (TVal i) (tk_future t) -> i = x /\ tk_execs t = 1) /\
     (In TCanceled (tk_future t) -> tk_execs t = 0)) /\
  length (p_queue (c_sh c)) <= 1 /\ NoDup (p_queue (c_sh c)).
Proof. exact pool_exactly_once. Qed.
Theorem C04_never_faults : forall nw lim autostart choices clients nslots sched,
  clients_ok clients ->
  let c := final (pool nw lim) (pool_cfg nw autostart choices clients nslots) sched in
  forall th, In th (c_thr c) -> t_dead th = false.
Proof. exact pool_never_panics. Qed.
Print Assumptions C04_exactly_once_one_result.

(** ---- trace-level statements (what holds once Stop has RETURNED, where an accepted task is,
    backpressure and cancellation).
    Vocabulary.
    - [accepted x tr]: the trace contains the return of the submission of task x
      with "accepted": Do / Execute returned, TryDo / TryExecute returned true.
    - [returned x tr]: the submission of x has returned (any value).
    - [results c tr x]: the results delivered to x's result channel so far:
      those still in the channel, followed by those already received (the trace
      records them: Await / PollRes returned a value).
    - [res_ok x n r]: r is x's own value and n = 1, or r is the cancellation
      result and n = 0 (n = number of executions of x).
    - [stop_done c]: the state word is 2 and no thread is between Stop's CAS
      and the end of its drain loop, i.e. the Stop call that won the CAS has
      returned.  A second Stop call racing with the first returns at once
      ([PoolSafeExamples.second_stop_returns_early]), so "some Stop call has
      returned" alone is NOT enough; it is enough when no thread is inside a
      Stop call any more, or when the programs contain at most one Stop.
    - [Hwk x], [Hdr x], [H1 x]: number of worker goroutines holding x (taken
      from the queue, not yet answered) / of drain loops holding x / of
      workers executing x. *)
From Garr Require Import Pool.PoolStopDone Pool.PoolAcct Pool.PoolHist Pool.PoolAfterStop Pool.PoolStopCount
  Pool.PoolLateSubmit Pool.PoolSelect Pool.PoolTimers Pool.PoolLive Pool.PoolProgress Pool.PoolFacts.

(** C04 / C12 - in EVERY reachable configuration a task has at most one result, and it is the right one *)
Theorem C04_One_result_per_task : forall nw lim autostart choices clients nslots,
  clients_ok clients -> forall sched x,
  let c := final (pool nw lim) (pool_cfg nw autostart choices clients nslots) sched in
  let tr := trace (pool nw lim) (pool_cfg nw autostart choices clients nslots) sched in
  length (results c tr x) <= 1 /\
  forall r, In r (results c tr x) ->
    exists t, get_task (c_sh c) x = Some t /\ res_ok x (tk_execs t) r /\ tk_execs t <= 1.
Proof. exact one_result_per_task. Qed.

(** (C) C12 - no stranding, safety form: an accepted task that has not got its result is in exactly
    one of: the queue, a live worker goroutine, Stop's drain loop *)
Theorem C04_Accepted_task_has_owner : forall nw lim autostart choices clients nslots,
  clients_ok clients -> forall sched x,
  let c := final (pool nw lim) (pool_cfg nw autostart choices clients nslots) sched in
  let tr := trace (pool nw lim) (pool_cfg nw autostart choices clients nslots) sched in
  accepted x tr ->
  has_task (c_sh c) x /\
  cnt (p_queue (c_sh c)) x + Hwk x (aths c) + Hdr x (aths c) + length (results c tr x) = 1 /\
  (1 <= cnt (p_queue (c_sh c)) x <-> In x (p_queue (c_sh c))) /\
  (1 <= Hwk x (aths c) <->
     exists i th o l, length clients <= i /\ i - length clients < length (p_spawned (c_sh c)) /\
       nth_error (c_thr c) i = Some th /\ t_cur th = Some (o, l) /\ worker_pc l = true /\ tokw l = Some x) /\
  (1 <= Hdr x (aths c) <-> exists i, at_pc c i (XDrainSend x)).
Proof. exact accepted_task_has_owner. Qed.

Print Assumptions C04_One_result_per_task.
Print Assumptions C04_Accepted_task_has_owner.
