(** C02 - adders never lose, duplicate or tear an update.  Property theorems only. *)
From Coq Require Import List ZArith.
From Garr Require Import Conc.Conc Conc.Lin Pure.F64 Adder.StripedModel Adder.SimpleModel Adder.AdderSpec.
From Garr Require Import Adder.StripedProofs Adder.SimpleMutex Adder.SimpleAtomic Adder.SimpleRC.
Import ListNotations.
Local Open Scope Z_scope.

(** JDKAdder (striped64.go + jdkAdder.go): for every table limit, every stream
    of probe values, every client program consisting of Add/Inc/Dec calls (any
    number of goroutines) and every interleaving - however the cell table was
    created, probed or grown meanwhile - once all calls have returned, Sum
    returns the exact total of everything added, wrapped to int64. *)
Theorem C02_jdk_adder : forall maxcells rnd (progs : list (list aop)) (sched : list nat),
  updates_only progs ->
  let c := final (jdk_adder maxcells) (init apc (ainit rnd) tt progs) sched in
  all_done c ->
  solo_returns (jdk_adder maxcells) tt (c_sh c) Sum (RZ (wrap64 (total progs))).
Proof. exact jdk_adder_no_lost_update. Qed.
Print Assumptions C02_jdk_adder.

(** JDKF64Adder, on values whose partial sums are exact (modelled as integers
    with exact addition): Sum returns the exact total. *)
Theorem C02_jdk_f64_adder : forall maxcells rnd (progs : list (list aop)) (sched : list nat),
  updates_only progs ->
  let c := final (jdk_f64_adder maxcells) (init apc (ainit rnd) tt progs) sched in
  all_done c ->
  solo_returns (jdk_f64_adder maxcells) tt (c_sh c) Sum (RZ (total progs)).
Proof. exact jdk_f64_adder_no_lost_update. Qed.
Print Assumptions C02_jdk_f64_adder.

(** RandomCellAdder (any number n > 0 of cells; the code uses 128) *)
Theorem C02_random_cell_adder : forall (n : nat) (rnd : list Z) progs sched,
  (0 < n)%nat -> updates_only progs ->
  let c := final rc_adder (init rpc (rinit n rnd) tt progs) sched in
  all_done c -> cells_sum (rc_cells (c_sh c)) = wrap64 (total progs).
Proof. exact rc_no_lost_update. Qed.
Theorem C02_random_cell_sum : forall (s : rshared), (0 < length (rc_cells s))%nat ->
  solo_returns rc_adder tt s Sum (RZ (cells_sum (rc_cells s))).
Proof. exact rc_sum_solo. Qed.
Print Assumptions C02_random_cell_adder.

(** AtomicAdder / AtomicF64Adder / MutexAdder: every history of updates, Sums,
    Stores and Resets is that of a single number (linearizable), so in
    particular no update is lost and Sum after quiescence is the total. *)
Theorem C02_atomic_adder : forall progs sched, no_sar progs ->
  lin_ok atomic_adder aret_eqb (counter_spec wadd) tlp 0 tt 0 progs sched = true.
Proof. exact atomic_adder_linearizable. Qed.
Theorem C02_atomic_f64_adder : forall progs sched, no_sar progs ->
  lin_ok atomic_f64_adder aret_eqb (counter_spec Z.add) tlp 0 tt 0 progs sched = true.
Proof. exact atomic_f64_adder_linearizable. Qed.
Theorem C02_mutex_adder : forall (progs : list (list aop)) (sched : list nat),
  lin_ok mutex_adder aret_eqb (counter_spec wadd) xlp xinit tt 0 progs sched = true.
Proof. exact mutex_adder_linearizable. Qed.
Print Assumptions C02_atomic_adder.
Print Assumptions C02_mutex_adder.
