(** Non-vacuity audit of the BREAKER property files: Properties/C03.v, C03One.v, C06.v, C10.v.

    Every conditional property theorem is instantiated, with ALL arguments explicit, on a concrete run;
    every hypothesis is discharged by vm_compute / reflexivity / lia (or by a small boolean checker whose
    soundness lemma is proved here).  No axioms, no admits.

    Runs used
      x-run  (Breaker/ConcExamples.v)      trip, two callers race for the trial, success report closes;
      o-run  (= y-run of ConcOneExamples.v) trip (OPEN, deadline 18), ticker frozen at 20, THREE callers load
             state object 2, see it expired, allocate successors 3/4/5 and race for the CAS (thread 3 wins at
             log position 33, threads 1, 2 lose at 34, 35); thread 4 is rejected at tick 20 (position 38) and
             admitted as the next trial at tick 30 (CAS at position 43);
      t-run  the o-run cut after thread 4's rejection (the trial is still running at the end);
      z-run  (ConcOneExamples.v) OnSuccess / OnFailure race on the HALF_OPEN state object 3 (success wins);
      w-run  two OnFailure reports race on the HALF_OPEN state object 3 (one re-opens, the other does nothing);
      s-seq  one thread, 15 calls: trip, reject, trial, reject, close, count, back-in-time report, second
             trip, trial, trial failure re-opens, reports ignored while OPEN, exhausted ticker;
      q-seq  one reporter on a bare window: rolls at 7, 50, 120, 230 (the window slides to empty);
      c-run  (ConcC10Examples.v) two reporters race to roll, a third reports back in time;
      d-run  the c-run continued: thread 2 rolls at tick 105 (trims the buckets stamped 0 and 3), everybody
             has returned, its next report reads 120 (cut-off 20).

    theorem                                         -> example
    ---- C03.v
    C03_closed_admits                               -> C03_closed_admits_nonvacuous                    (x-run end state)
    C03_admission_sources                           -> C03_admission_sources_nonvacuous (CAS source, o-run 33),
                                                       C03_admission_sources_nonvacuous_closed
    C03_trial_cas                                   -> C03_trial_cas_nonvacuous (+ _three_racers, _values)
    C03_one_transition_per_state                    -> C03_one_transition_per_state_nonvacuous (i = j = 33, forced),
                                                       C03_one_transition_per_state_used (the two losers cannot succeed)
    C03_fail_fast                                   -> C03_fail_fast_nonvacuous                        (o-run 38)
    C03_nonclosed_no_counter                        -> C03_nonclosed_no_counter_nonvacuous
    C03_open_ignores_reports                        -> C03_open_ignores_reports_nonvacuous             (o-run 21)
    ---- C03One.v
    C03_cr_call_of_cas                              -> C03_cr_call_of_cas_nonvacuous                   (o-run 33)
    C03_rejected_after_expiry_implies_replaced      -> C03_rejected_after_expiry_implies_replaced_nonvacuous (o-run 34)
    C03_admitted                                    -> C03_admitted_nonvacuous                         (o-run 33)
    C03_exactly_one_trial                           -> C03_exactly_one_trial_nonvacuous                (o-run, p = 21, k = 35)
    C03_exactly_one_trial_count                     -> C03_exactly_one_trial_count_nonvacuous (+ _values)
    C03_not_expired_rejected                        -> C03_not_expired_rejected_nonvacuous             (o-run 38)
    C03_loser_logs_rejection                        -> C03_loser_logs_rejection_nonvacuous             (o-run 34)
    C03_winner_installs_half_open                   -> C03_winner_installs_half_open_nonvacuous        (explicit cr_call o_call3)
    C03_successor_rejects_before_deadline           -> C03_successor_rejects_before_deadline_nonvacuous (winner 33, caller 38)
    C03_admitted_only_after_deadline                -> C03_admitted_only_after_deadline_nonvacuous     (o-run 43)
    C03_others_rejected_until_trial_elapses         -> C03_others_rejected_until_trial_elapses_nonvacuous (winner 33, next 43)
    C03_all_rejected_while_trial_running            -> C03_all_rejected_while_trial_running_nonvacuous (t-run; + _returns, _instance)
    C03_cas_attempt_replaced                        -> C03_cas_attempt_replaced_nonvacuous             (o-run 34)
    C03_uncontended_cas_succeeds                    -> C03_uncontended_cas_succeeds_nonvacuous         (o-run 33)
    C03_reports_exactly_one_transition              -> C03_reports_exactly_one_transition_nonvacuous (z-run 35),
                                                       _nonvacuous_os (z-run 34), _nonvacuous_two_failures (w-run 33)
    C03_os_call_of_cas                              -> C03_os_call_of_cas_nonvacuous                   (z-run 34)
    C03_of_call_of_cas                              -> C03_of_call_of_cas_nonvacuous                   (z-run 35)
    C03_success_closes                              -> C03_success_closes_nonvacuous (+ _values)       (z-run 34)
    C03_failure_reopens                             -> C03_failure_reopens_nonvacuous (w-run 32, trial failure; + _values),
                                                       C03_failure_reopens_nonvacuous_trip (o-run 20, CLOSED -> OPEN)
    C03_ret_in_trace                                -> C03_ret_in_trace_nonvacuous
    ---- C06.v
    C06_refines_documented_machine                  -> C06_refines_documented_machine_nonvacuous (+ _values)  (s-seq)
    ---- C10.v
    C10_no_double_count                             -> unconditional
    C10_conservation                                -> unconditional
    C10_sequential_exact                            -> C10_sequential_exact_nonvacuous (+ _values)     (q-seq)
    C10_count_upper_bound                           -> C10_count_upper_bound_nonvacuous (d-run 54; + _values),
                                                       C10_count_upper_bound_nonvacuous_race (c-run 26)
    C10_count_upper_bound_pc                        -> C10_count_upper_bound_pc_nonvacuous
    C10_count_upper_bound_window                    -> C10_count_upper_bound_window_nonvacuous, _nonvacuous_race
    C10_snapshot_upper_bound                        -> C10_snapshot_upper_bound_nonvacuous (+ _values)
    C10_bucket_ts_immutable                         -> C10_bucket_ts_immutable_nonvacuous
    C10_quiescent_roll_exact                        -> C10_quiescent_roll_exact_nonvacuous (+ _values)  (d-run, reading 120)
    C10_quiescent_adds_archived                     -> C10_quiescent_adds_archived_nonvacuous
    C10_quiescent_roll_exact_untrimmed              -> C10_quiescent_roll_exact_untrimmed_nonvacuous (+ _values)

    Audit remarks with a proof: audit_closed_admits_is_unfolding, audit_open_ignores_reports_is_unfolding,
    audit_fail_fast_is_unfolding, audit_trial_cas_t2_unconstrained (end of file). *)
From Coq Require Import List Arith Bool ZArith Lia.
From Garr Require Import Conc.Conc Pure.F64 Pure.Config Breaker.BreakerModel Breaker.Ref
  Breaker.SeqRefine Breaker.WindowSeq
  Breaker.ConcBase Breaker.ConcInv Breaker.ConcWin Breaker.ConcCount Breaker.ConcFreshStep Breaker.ConcFresh
  Breaker.ConcHist Breaker.ConcOne Breaker.ConcReport
  Breaker.ConcGhost Breaker.ConcUpper Breaker.ConcOwn Breaker.ConcQuiescent
  Breaker.ConcExamples Breaker.ConcC10Examples Breaker.ConcOneExamples.
From Garr Require Properties.C03 Properties.C03One Properties.C06 Properties.C10.
Import ListNotations.
Local Open Scope Z_scope.

(** * Helpers *)
Definition cfg_at (L : list (bconfig * nat)) (k : nat) : bconfig :=
  match nth_error L k with Some (c, _) => c | None => Config (BS [] 0 [] [] [] []) [] end.

Lemma pos_ok (L : list (bconfig * nat)) k t :
  option_map snd (nth_error L k) = Some t -> nth_error L k = Some (cfg_at L k, t).
Proof. unfold cfg_at. destruct (nth_error L k) as [[c t']|]; simpl; congruence. Qed.

Lemma cas_b_complete c t cs : cas_succeeds c t cs -> cas_b (c, t) = Some cs.
Proof.
  intros (th & o & l & Hn & Hd & Hc & Hl & Hcur). unfold cas_b; simpl.
  rewrite Hn, Hd, Hc. destruct l; try contradiction; simpl; subst; rewrite Nat.eqb_refl; reflexivity.
Qed.

Lemma nth_error_firstn_lt {A} (l : list A) n k : (k < n)%nat -> nth_error (firstn n l) k = nth_error l k.
Proof.
  revert l k; induction n as [|n IH]; intros l k Hk; [lia|].
  destruct l as [|a l]; [destruct k; reflexivity|].
  destruct k as [|k]; [reflexivity|]. simpl. apply IH. lia.
Qed.

(* between positions lo and hi (exclusive) thread t takes no step *)
Lemma others_check (L : list (bconfig * nat)) t lo hi :
  forallb (fun x => negb (Nat.eqb (snd x) t)) (firstn (hi - S lo) (skipn (S lo) L)) = true ->
  forall m cm tm, (lo < m < hi)%nat -> nth_error L m = Some (cm, tm) -> tm <> t.
Proof.
  intros H m cm tm Hm Hn. rewrite forallb_forall in H.
  assert (Hin : In (cm, tm) (firstn (hi - S lo) (skipn (S lo) L))).
  { apply nth_error_In with (n := (m - S lo)%nat).
    rewrite nth_error_firstn_lt by lia.
    rewrite ConcBase.nth_error_skipn. replace (S lo + (m - S lo))%nat with m by lia. exact Hn. }
  specialize (H _ Hin). simpl in H. intros ->. rewrite Nat.eqb_refl in H. discriminate.
Qed.

(** * C03.v *)
Import Properties.C03.

(* the runs of Breaker/ConcOneExamples.v *)
Notation oticks := ConcOneExamples.yticks.
Notation oprogs := ConcOneExamples.yprogs.
Notation osched := ConcOneExamples.ysched.
Notation M2 := (breaker xcfg 2).
Notation oc0 := (bcfg0 2 oticks oprogs).
Notation oL := (steps_of M2 oc0 osched).
Notation oat := (cfg_at oL).

Ltac pos := apply pos_ok; vm_compute; reflexivity.
Ltac atpc := exists false; vm_compute; reflexivity.
Ltac casok := apply cas_b_spec; vm_compute; reflexivity.

(* C03_closed_admits: the shared state at the end of the x-run of ConcExamples.v
   (tripped, trial admitted, closed again by a success report: current state object 5, CLOSED, window 2) *)
Definition xs_end : bshared := c_sh (final xM xc0 xsched).
Example C03_closed_admits_nonvacuous :
  bstep xcfg 2 CRLoad xs_end = Done (BB true) tt xs_end.
Proof.
  apply (C03_closed_admits xcfg 2 xs_end (BState KClosed 2 25 0)); vm_compute; reflexivity.
Qed.

(* C03_admission_sources: the winner's CAS step of the y-run (position 33, thread 3, CRCas 2 5) *)
Definition os33 : bshared := c_sh (oat 33).
Definition os33' : bshared := c_sh (step_cfg M2 (oat 33) 3).
Example C03_admission_sources_hyp : bstep xcfg 2 (CRCas 2 5) os33 = Done (BB true) tt os33'.
Proof. vm_compute. reflexivity. Qed.
Example C03_admission_sources_nonvacuous :
  (CRCas 2 5 = CRLoad /\ exists st, nth1 (b_states os33) (b_cur os33) = Some st /\ st_kind st = KClosed /\ os33' = os33) \/
  (exists cs n, CRCas 2 5 = CRCas cs n /\ b_cur os33 = cs /\ b_cur os33' = n).
Proof. exact (C03_admission_sources xcfg 2 (CRCas 2 5) os33 os33' C03_admission_sources_hyp). Qed.
(* ... and the CLOSED source *)
Example C03_admission_sources_nonvacuous_closed :
  (CRLoad = CRLoad /\ exists st, nth1 (b_states xs_end) (b_cur xs_end) = Some st /\ st_kind st = KClosed /\ xs_end = xs_end) \/
  (exists cs n, CRLoad = CRCas cs n /\ b_cur xs_end = cs /\ b_cur xs_end = n).
Proof. exact (C03_admission_sources xcfg 2 CRLoad xs_end xs_end C03_closed_admits_nonvacuous). Qed.

(* C03_trial_cas: the y-run stopped when threads 1, 2, 3 all sit at their CAS on state object 2
   (circuit opened by thread 0's failures, deadline 18, ticker at 20) *)
Definition osched_mid : list nat := (repeat 0 40 ++ [1; 2; 3] ++ [1; 2; 3] ++ [1; 2; 3] ++ [1; 2; 3])%nat.
Definition oth1 : bthread := Thread [] tt (Some (CanRequest, CRCas 2 3)) false.
Example C03_trial_cas_hyp1 : In oth1 (c_thr (final M2 oc0 osched_mid)).
Proof. apply (nth_error_In _ 1). vm_compute. reflexivity. Qed.
Example C03_trial_cas_three_racers :
  map (fun th => t_cur th) (c_thr (final M2 oc0 osched_mid)) =
  [None; Some (CanRequest, CRCas 2 3); Some (CanRequest, CRCas 2 4); Some (CanRequest, CRCas 2 5); None]%nat.
Proof. vm_compute. reflexivity. Qed.
Example C03_trial_cas_nonvacuous :
  (exists st, nth1 (b_states (c_sh (final M2 oc0 osched_mid))) 2 = Some st /\ st_kind st <> KClosed /\ (0 < st_dur st)%Z) /\
  (exists t2, nth1 (b_states (c_sh (final M2 oc0 osched_mid))) 3 =
              Some (BState KHalfOpen 0 (wrap64 (t2 + trial xcfg)) (trial xcfg))).
Proof. exact (C03_trial_cas xcfg 2 oticks oprogs osched_mid oth1 CanRequest 2%nat 3%nat C03_trial_cas_hyp1 eq_refl). Qed.
Example C03_trial_cas_values :
  (nth1 (b_states (c_sh (final M2 oc0 osched_mid))) 2, nth1 (b_states (c_sh (final M2 oc0 osched_mid))) 3) =
  (Some (BState KOpen 0 18 10), Some (BState KHalfOpen 0 (wrap64 (20 + trial xcfg)) (trial xcfg))).
Proof. vm_compute. reflexivity. Qed.

(* C03_one_transition_per_state: the hypotheses are jointly satisfiable only with i = j (that is the
   conclusion); instance: the winner's CAS at position 33.  Its content is the contrapositive: the two
   other CAS attempts on state object 2 (positions 34, 35) cannot succeed. *)
Example o_pos33 : nth_error oL 33 = Some (oat 33, 3%nat). Proof. pos. Qed.
Example o_pos34 : nth_error oL 34 = Some (oat 34, 1%nat). Proof. pos. Qed.
Example o_pos35 : nth_error oL 35 = Some (oat 35, 2%nat). Proof. pos. Qed.
Example o_cas33 : cas_succeeds (oat 33) 3 2. Proof. casok. Qed.
Example C03_one_transition_per_state_nonvacuous : 33%nat = 33%nat.
Proof.
  exact (C03_one_transition_per_state xcfg 2 oticks oprogs osched 33 33 (oat 33) 3%nat (oat 33) 3%nat 2%nat
           o_pos33 o_pos33 o_cas33 o_cas33).
Qed.
Example C03_one_transition_per_state_used : ~ cas_succeeds (oat 34) 1 2 /\ ~ cas_succeeds (oat 35) 2 2.
Proof.
  split; intros H.
  - pose proof (C03_one_transition_per_state xcfg 2 oticks oprogs osched 33 34 (oat 33) 3%nat (oat 34) 1%nat 2%nat
                  o_pos33 o_pos34 o_cas33 H) as E. discriminate E.
  - pose proof (C03_one_transition_per_state xcfg 2 oticks oprogs osched 33 35 (oat 33) 3%nat (oat 35) 2%nat 2%nat
                  o_pos33 o_pos35 o_cas33 H) as E. discriminate E.
Qed.

(* C03_fail_fast: thread 4's first call (position 38) inspects the winner's HALF_OPEN successor 5
   (deadline 30) and reads tick 20 *)
Definition os38 : bshared := c_sh (oat 38).
Example C03_fail_fast_nonvacuous :
  exists s', bstep xcfg 2 (CRTick 5) os38 = Done (BB false) tt s' /\
             b_log s' = b_log os38 ++ map (fun i => (i, LRejected)) (seq 0 2) /\
             b_states s' = b_states os38 /\ b_cur s' = b_cur os38.
Proof.
  apply (C03_fail_fast xcfg 2 5%nat os38 (BState KHalfOpen 0 30 10) 20 [30; 31]); vm_compute; reflexivity.
Qed.

(* C03_nonclosed_no_counter: final state of the y-run, the OPEN state object 2 and the HALF_OPEN 5 *)
Example C03_nonclosed_no_counter_nonvacuous : st_win (BState KOpen 0 18 10) = 0%nat.
Proof.
  apply (C03_nonclosed_no_counter xcfg 2 oticks oprogs osched 2%nat (BState KOpen 0 18 10)).
  - vm_compute. reflexivity.
  - discriminate.
Qed.

(* C03_open_ignores_reports: the state after the trip (position 21: current = 2, OPEN) *)
Definition os21 : bshared := c_sh (oat 21).
Example C03_open_ignores_reports_nonvacuous :
  bstep xcfg 2 OSLoad os21 = Done BU tt os21 /\ bstep xcfg 2 OFLoad os21 = Done BU tt os21.
Proof.
  apply (C03_open_ignores_reports xcfg 2 os21 (BState KOpen 0 18 10)); vm_compute; reflexivity.
Qed.

(** * C03One.v *)
Import Properties.C03One.

(* explicit construction of a [cr_call] from computable checks *)
Lemma cr_call_intro cfg nl ticks progs sched t cs n i0 i i1 i2 k st tk t2 :
  let L := steps_of (breaker cfg nl) (bcfg0 nl ticks progs) sched in
  (i0 < i /\ i < i1 /\ i1 < i2 /\ i2 < k /\ cs < n)%nat ->
  option_map snd (nth_error L i0) = Some t ->
  stepper (breaker cfg nl) (cfg_at L i0) t = Some (CanRequest, BInv CanRequest, true) ->
  forallb (fun x => negb (Nat.eqb (snd x) t)) (firstn (i - S i0) (skipn (S i0) L)) = true ->
  option_map snd (nth_error L i) = Some t ->
  stepper (breaker cfg nl) (cfg_at L i) t = Some (CanRequest, CRLoad, false) ->
  b_cur (c_sh (cfg_at L i)) = cs -> nth1 (b_states (c_sh (cfg_at L i))) cs = Some st ->
  st_kind st <> KClosed -> 0 < st_dur st ->
  option_map snd (nth_error L i1) = Some t ->
  stepper (breaker cfg nl) (cfg_at L i1) t = Some (CanRequest, CRTick cs, false) ->
  tick_of (c_sh (cfg_at L i1)) = tk -> st_timeout st <= tk ->
  option_map snd (nth_error L i2) = Some t ->
  stepper (breaker cfg nl) (cfg_at L i2) t = Some (CanRequest, CRTick2 cs, false) ->
  tick_of (c_sh (cfg_at L i2)) = t2 ->
  option_map snd (nth_error L k) = Some t ->
  stepper (breaker cfg nl) (cfg_at L k) t = Some (CanRequest, CRCas cs n, false) ->
  nth1 (b_states (c_sh (cfg_at L k))) cs = Some st ->
  nth1 (b_states (c_sh (cfg_at L k))) n = Some (BState KHalfOpen 0 (wrap64 (t2 + trial cfg)) (trial cfg)) ->
  forallb (fun x => negb (Nat.eqb (snd x) t)) (firstn (i1 - S i) (skipn (S i) L)) = true ->
  forallb (fun x => negb (Nat.eqb (snd x) t)) (firstn (i2 - S i1) (skipn (S i1) L)) = true ->
  forallb (fun x => negb (Nat.eqb (snd x) t)) (firstn (k - S i2) (skipn (S i2) L)) = true ->
  cr_call cfg nl ticks progs sched t cs n i i1 i2 k st tk t2.
Proof.
  intros L Hord P0 S0 O0 Pi Si Ci Ni Kst Dst P1 S1 T1 D1 P2 S2 T2 Pk Sk Nk Nn O1 O2 O3.
  constructor.
  - lia.
  - exists i0, (cfg_at L i0). split; [lia|]. split; [apply pos_ok; exact P0|]. split; [exact S0|].
    exact (others_check L t i0 i O0).
  - exists (cfg_at L i). split; [apply pos_ok; exact Pi|]. split; [exists false; exact Si|]. auto.
  - exists (cfg_at L i1). split; [apply pos_ok; exact P1|]. split; [exists false; exact S1|]. auto.
  - exists (cfg_at L i2). split; [apply pos_ok; exact P2|]. split; [exists false; exact S2|]. auto.
  - exists (cfg_at L k). split; [apply pos_ok; exact Pk|]. split; [exists false; exact Sk|].
    split; [exact Nk|]. split; [exact Nn|lia].
  - intros m cm tm Hm Hm1 Hm2 Hn.
    destruct (Nat.lt_ge_cases m i1) as [A|A]; [exact (others_check L t i i1 O1 m cm tm ltac:(lia) Hn)|].
    destruct (Nat.lt_ge_cases m i2) as [B|B]; [exact (others_check L t i1 i2 O2 m cm tm ltac:(lia) Hn)|].
    exact (others_check L t i2 k O3 m cm tm ltac:(lia) Hn).
Qed.

(* thread 3's winning call in the y-run: invocation 23, load 26, deadline check 29 (reads 20 >= 18),
   allocation 32 (reads 20, deadline 30), CAS 33 *)
Example o_call3 : cr_call xcfg 2 oticks oprogs osched 3 2 5 26 29 32 33 (BState KOpen 0 18 10) 20 20.
Proof.
  apply (cr_call_intro xcfg 2 oticks oprogs osched 3 2 5 23 26 29 32 33 (BState KOpen 0 18 10) 20 20).
  all: try (vm_compute; reflexivity). - lia. - discriminate. - vm_compute; discriminate.
Qed.

Example o_at33 : at_pc xcfg 2 (oat 33) 3 CanRequest (CRCas 2 5). Proof. atpc. Qed.
Example o_at34 : at_pc xcfg 2 (oat 34) 1 CanRequest (CRCas 2 3). Proof. atpc. Qed.
Example o_at35 : at_pc xcfg 2 (oat 35) 2 CanRequest (CRCas 2 4). Proof. atpc. Qed.
Example o_pos21 : nth_error oL 21 = Some (oat 21, 1%nat). Proof. pos. Qed.
Example o_pos38 : nth_error oL 38 = Some (oat 38, 4%nat). Proof. pos. Qed.
Example o_pos43 : nth_error oL 43 = Some (oat 43, 4%nat). Proof. pos. Qed.
Example o_at38 : at_pc xcfg 2 (oat 38) 4 CanRequest (CRTick 5). Proof. atpc. Qed.
Example o_region : cr_region xcfg 2 oticks oprogs osched 21. Proof. exact y_region. Qed.

Example C03_cr_call_of_cas_nonvacuous :
  CanRequest = CanRequest /\
  exists i i1 i2 st tk t2, cr_call xcfg 2 oticks oprogs osched 3 2 5 i i1 i2 33 st tk t2.
Proof. exact (C03_cr_call_of_cas xcfg 2 oticks oprogs osched 33 (oat 33) 3%nat CanRequest 2%nat 5%nat o_pos33 o_at33). Qed.

(* thread 1 (position 34) saw the deadline expired, is rejected: thread 3 replaced state object 2 *)
Example o_ret34 : ret_at xcfg 2 (oat 34) 1 = Some (BB false). Proof. vm_compute. reflexivity. Qed.
Example C03_rejected_after_expiry_implies_replaced_nonvacuous :
  exists i i1 i2 st tk t2, cr_call xcfg 2 oticks oprogs osched 1 2 3 i i1 i2 34 st tk t2 /\
  exists j cj t', (i < j < 34)%nat /\ nth_error oL j = Some (cj, t') /\ t' <> 1%nat /\
    cas_succeeds cj t' 2 /\ (2 < b_cur (c_sh (oat 34)))%nat.
Proof.
  exact (C03_rejected_after_expiry_implies_replaced xcfg 2 oticks oprogs osched 34 (oat 34) 1%nat CanRequest 2%nat 3%nat
           o_pos34 o_at34 o_ret34).
Qed.

Example C03_admitted_nonvacuous : ret_at xcfg 2 (oat 33) 3 = Some (BB true).
Proof. exact (C03_admitted xcfg 2 oticks oprogs osched 33 (oat 33) 3%nat CanRequest 2%nat 5%nat o_pos33 o_at33 o_cas33). Qed.

(* three callers race for the CAS on state object 2 (positions 33, 34, 35): exactly one trial *)
Example C03_exactly_one_trial_nonvacuous :
  exists kw cw tw nw,
    (21 <= kw <= 35)%nat /\ nth_error oL kw = Some (cw, tw) /\
    at_pc xcfg 2 cw tw CanRequest (CRCas 2 nw) /\
    cas_succeeds cw tw 2 /\ ret_at xcfg 2 cw tw = Some (BB true) /\
    forall k' ck' t' o' n',
      nth_error oL k' = Some (ck', t') -> at_pc xcfg 2 ck' t' o' (CRCas 2 n') -> k' <> kw ->
      (kw < k')%nat /\ ret_at xcfg 2 ck' t' = Some (BB false).
Proof.
  exact (C03_exactly_one_trial xcfg 2 oticks oprogs osched 21 (oat 21) 1%nat 2%nat o_pos21 eq_refl o_region
           35 (oat 35) 2%nat CanRequest 4%nat o_pos35 o_at35).
Qed.

Example C03_exactly_one_trial_count_nonvacuous :
  length (filter (admitted_on xcfg 2 2) oL) = 1%nat /\
  (forall c t, admitted_on xcfg 2 2 (c, t) = true <->
     exists o n, at_pc xcfg 2 c t o (CRCas 2 n) /\ ret_at xcfg 2 c t = Some (BB true)).
Proof.
  exact (C03_exactly_one_trial_count xcfg 2 oticks oprogs osched 21 (oat 21) 1%nat 2%nat o_pos21 eq_refl o_region
           35 (oat 35) 2%nat CanRequest 4%nat o_pos35 o_at35).
Qed.
(* the three attempts on state object 2 and who is admitted *)
Example C03_exactly_one_trial_count_values :
  (map snd (filter (is_crcas_on xcfg 2 2) oL), map snd (filter (admitted_on xcfg 2 2) oL)) = ([3; 1; 2]%nat, [3%nat]).
Proof. vm_compute. reflexivity. Qed.

(* thread 4, first call: loads the successor 5 (deadline 30), reads 20 *)
Example C03_not_expired_rejected_nonvacuous :
  ret_at xcfg 2 (oat 38) 4 = Some (BB false) /\
  b_log (c_sh (step_cfg M2 (oat 38) 4)) = b_log (c_sh (oat 38)) ++ map (fun i => (i, LRejected)) (seq 0 2) /\
  b_states (c_sh (step_cfg M2 (oat 38) 4)) = b_states (c_sh (oat 38)) /\
  b_cur (c_sh (step_cfg M2 (oat 38) 4)) = b_cur (c_sh (oat 38)).
Proof.
  apply (C03_not_expired_rejected xcfg 2 oticks oprogs osched 38 (oat 38) 4%nat CanRequest 5%nat (BState KHalfOpen 0 30 10)
           o_pos38 o_at38); vm_compute; reflexivity.
Qed.

Example C03_loser_logs_rejection_nonvacuous :
  ret_at xcfg 2 (oat 34) 1 = Some (BB false) /\
  b_log (c_sh (step_cfg M2 (oat 34) 1)) = b_log (c_sh (oat 34)) ++ map (fun i => (i, LRejected)) (seq 0 2) /\
  b_states (c_sh (step_cfg M2 (oat 34) 1)) = b_states (c_sh (oat 34)) /\
  b_cur (c_sh (step_cfg M2 (oat 34) 1)) = b_cur (c_sh (oat 34)).
Proof.
  apply (C03_loser_logs_rejection xcfg 2 oticks oprogs osched 34 (oat 34) 1%nat CanRequest 2%nat 3%nat o_pos34 o_at34).
  vm_compute. discriminate.
Qed.

Example C03_winner_installs_half_open_nonvacuous :
  b_cur (c_sh (step_cfg M2 (oat 33) 3)) = 5%nat /\
  nth1 (b_states (c_sh (step_cfg M2 (oat 33) 3))) 5 = Some (BState KHalfOpen 0 (wrap64 (20 + trial xcfg)) (trial xcfg)) /\
  b_states (c_sh (step_cfg M2 (oat 33) 3)) = b_states (c_sh (oat 33)) /\
  b_log (c_sh (step_cfg M2 (oat 33) 3)) =
    b_log (c_sh (oat 33)) ++ each 2 (fun i => [(i, LStateChanged KHalfOpen); (i, LCountUpdated 0 0)]).
Proof.
  exact (C03_winner_installs_half_open xcfg 2 oticks oprogs osched 3%nat 2%nat 5%nat 26%nat 29%nat 32%nat 33%nat
           (BState KOpen 0 18 10) 20 20 (oat 33) o_call3 o_pos33 o_cas33).
Qed.

Example C03_successor_rejects_before_deadline_nonvacuous :
  ret_at xcfg 2 (oat 38) 4 = Some (BB false) /\
  b_log (c_sh (step_cfg M2 (oat 38) 4)) = b_log (c_sh (oat 38)) ++ map (fun i => (i, LRejected)) (seq 0 2) /\
  b_states (c_sh (step_cfg M2 (oat 38) 4)) = b_states (c_sh (oat 38)) /\
  b_cur (c_sh (step_cfg M2 (oat 38) 4)) = b_cur (c_sh (oat 38)).
Proof.
  apply (C03_successor_rejects_before_deadline xcfg 2 oticks oprogs osched 3%nat 2%nat 5%nat 26%nat 29%nat 32%nat 33%nat
           (BState KOpen 0 18 10) 20 20 (oat 33) o_call3 o_pos33 38%nat (oat 38) 4%nat CanRequest ltac:(lia) o_pos38 o_at38).
  vm_compute. reflexivity.
Qed.

(* thread 4's second call (CAS at position 43) is admitted: it read 30 >= deadline 30 of state object 5 *)
Example o_ret43 : ret_at xcfg 2 (oat 43) 4 = Some (BB true). Proof. vm_compute. reflexivity. Qed.
Example C03_admitted_only_after_deadline_nonvacuous :
  exists cs n i i1 i2 st tk t2,
    cr_call xcfg 2 oticks oprogs osched 4 cs n i i1 i2 43 st tk t2 /\ cas_succeeds (oat 43) 4 cs /\ st_timeout st <= tk.
Proof.
  apply (C03_admitted_only_after_deadline xcfg 2 oticks oprogs osched 21 (oat 21) 1%nat (BState KOpen 0 18 10)
           o_pos21 o_region).
  - vm_compute. reflexivity.
  - discriminate.
  - lia.
  - exact o_pos43.
  - exact o_ret43.
Qed.

Example C03_others_rejected_until_trial_elapses_nonvacuous :
  exists cs' n' j j1 j2 st' tk' t2',
    cr_call xcfg 2 oticks oprogs osched 4 cs' n' j j1 j2 43 st' tk' t2' /\ cas_succeeds (oat 43) 4 cs' /\
    (5 <= cs')%nat /\ st_timeout st' <= tk' /\
    (cs' = 5%nat -> st' = BState KHalfOpen 0 (wrap64 (20 + trial xcfg)) (trial xcfg) /\
                 wrap64 (20 + trial xcfg) <= tk') /\
    ((forall m cm tm, (33 < m < 43)%nat -> nth_error oL m = Some (cm, tm) ->
        ret_at xcfg 2 cm tm <> Some (BB true)) -> cs' = 5%nat).
Proof.
  exact (C03_others_rejected_until_trial_elapses xcfg 2 oticks oprogs osched 21 (oat 21) 1%nat o_pos21 o_region
           3%nat 2%nat 5%nat 26%nat 29%nat 32%nat 33%nat (BState KOpen 0 18 10) 20 20 (oat 33)
           ltac:(lia) o_call3 o_pos33 o_cas33 43%nat (oat 43) 4%nat ltac:(lia) o_pos43 o_ret43).
Qed.

(** the y-run stopped after thread 4's first (rejected) call: the trial is still running *)
Definition tsched : list nat :=
  (repeat 0 40 ++ [1; 2; 3] ++ [1; 2; 3] ++ [1; 2; 3] ++ [1; 2; 3] ++ [3; 1; 2] ++ repeat 4 3)%nat.
Notation tL := (steps_of M2 oc0 tsched).
Notation tat := (cfg_at tL).

Lemma trial_running_check cfg nl (L : list (bconfig * nat)) kw nw dl :
  forallb (fun x => match stepper (breaker cfg nl) (fst x) (snd x) with
                    | Some (_, CRTick c, _) => if Nat.eqb c nw then tick_of (c_sh (fst x)) <? dl else true
                    | _ => true end) (skipn (S kw) L) = true ->
  forall m cm tm o, (kw < m)%nat -> nth_error L m = Some (cm, tm) ->
    at_pc cfg nl cm tm o (CRTick nw) -> tick_of (c_sh cm) < dl.
Proof.
  intros H m cm tm o Hm Hn [fresh Hat]. rewrite forallb_forall in H.
  assert (Hin : In (cm, tm) (skipn (S kw) L)).
  { apply nth_error_In with (n := (m - S kw)%nat). rewrite ConcBase.nth_error_skipn.
    replace (S kw + (m - S kw))%nat with m by lia. exact Hn. }
  specialize (H _ Hin). simpl in H. rewrite Hat, Nat.eqb_refl in H. apply Z.ltb_lt. exact H.
Qed.

Example t_len : (length tL, map snd (skipn 33 tL)) = (39%nat, [3; 1; 2; 4; 4; 4]%nat).
Proof. vm_compute. reflexivity. Qed.
Example t_pos21 : nth_error tL 21 = Some (tat 21, 1%nat). Proof. pos. Qed.
Example t_pos33 : nth_error tL 33 = Some (tat 33, 3%nat). Proof. pos. Qed.
Example t_pos34 : nth_error tL 34 = Some (tat 34, 1%nat). Proof. pos. Qed.
Example t_pos35 : nth_error tL 35 = Some (tat 35, 2%nat). Proof. pos. Qed.
Example t_pos38 : nth_error tL 38 = Some (tat 38, 4%nat). Proof. pos. Qed.
Example t_cas33 : cas_succeeds (tat 33) 3 2. Proof. casok. Qed.
Example t_region : cr_region xcfg 2 oticks oprogs tsched 21.
Proof. apply cr_region_check. vm_compute. reflexivity. Qed.
Example t_call3 : cr_call xcfg 2 oticks oprogs tsched 3 2 5 26 29 32 33 (BState KOpen 0 18 10) 20 20.
Proof.
  apply (cr_call_intro xcfg 2 oticks oprogs tsched 3 2 5 23 26 29 32 33 (BState KOpen 0 18 10) 20 20).
  all: try (vm_compute; reflexivity). - lia. - discriminate. - vm_compute; discriminate.
Qed.
Example t_ticks : forall m cm tm o, (33 < m)%nat -> nth_error tL m = Some (cm, tm) ->
  at_pc xcfg 2 cm tm o (CRTick 5) -> tick_of (c_sh cm) < wrap64 (20 + trial xcfg).
Proof. apply trial_running_check. vm_compute. reflexivity. Qed.

(* every call that returns after the winner's CAS (position 33) returns false *)
Example C03_all_rejected_while_trial_running_nonvacuous :
  forall k ck t r, (33 < k)%nat -> nth_error tL k = Some (ck, t) -> ret_at xcfg 2 ck t = Some r -> r = BB false.
Proof.
  exact (C03_all_rejected_while_trial_running xcfg 2 oticks oprogs tsched 21 (tat 21) 1%nat t_pos21 t_region
           3%nat 2%nat 5%nat 26%nat 29%nat 32%nat 33%nat (BState KOpen 0 18 10) 20 20 (tat 33)
           ltac:(lia) t_call3 t_pos33 t_cas33 t_ticks).
Qed.
(* ... and three calls do return after it (the two losers and thread 4) *)
Example C03_all_rejected_while_trial_running_returns :
  map (fun k => ret_at xcfg 2 (tat k) (match k with 34 => 1 | 35 => 2 | _ => 4 end)%nat) [34; 35; 38]%nat =
  [Some (BB false); Some (BB false); Some (BB false)].
Proof. vm_compute. reflexivity. Qed.
Example C03_all_rejected_while_trial_running_instance :
  forall r, ret_at xcfg 2 (tat 38) 4 = Some r -> r = BB false.
Proof.
  intros r. exact (C03_all_rejected_while_trial_running_nonvacuous 38%nat (tat 38) 4%nat r ltac:(lia) t_pos38).
Qed.

(** (D) CAS attempts *)
Example C03_cas_attempt_replaced_nonvacuous :
  exists i ci li, (i < 34)%nat /\ nth_error oL i = Some (ci, 1%nat) /\ at_pc xcfg 2 ci 1 CanRequest li /\
    is_load li = true /\ b_cur (c_sh ci) = 2%nat /\
  exists j cj tj, (i < j <= 34)%nat /\ nth_error oL j = Some (cj, tj) /\ cas_succeeds cj tj 2 /\
    (tj = 1%nat <-> j = 34%nat) /\ (2 < b_cur (c_sh (step_cfg M2 (oat 34) 1)))%nat /\
    (forall j' cj' tj', nth_error oL j' = Some (cj', tj') -> cas_succeeds cj' tj' 2 -> j' = j).
Proof.
  exact (C03_cas_attempt_replaced xcfg 2 oticks oprogs osched 34 (oat 34) 1%nat CanRequest (CRCas 2 3) 2%nat 3%nat
           o_pos34 o_at34 eq_refl).
Qed.

Lemma no_cas_check (L : list (bconfig * nat)) cs k :
  forallb (fun x => match cas_b x with Some c => negb (Nat.eqb c cs) | None => true end) (firstn k L) = true ->
  forall j cj tj, (j < k)%nat -> nth_error L j = Some (cj, tj) -> ~ cas_succeeds cj tj cs.
Proof.
  intros H j cj tj Hj Hn Hc. rewrite forallb_forall in H.
  assert (Hin : In (cj, tj) (firstn k L)).
  { apply nth_error_In with (n := j). rewrite nth_error_firstn_lt by lia. exact Hn. }
  specialize (H _ Hin). rewrite (cas_b_complete _ _ _ Hc), Nat.eqb_refl in H. discriminate.
Qed.

(* the winner (position 33): nobody replaced state object 2 before it, although two others were
   about to try *)
Example C03_uncontended_cas_succeeds_nonvacuous : cas_succeeds (oat 33) 3 2.
Proof.
  apply (C03_uncontended_cas_succeeds xcfg 2 oticks oprogs osched 33 (oat 33) 3%nat CanRequest (CRCas 2 5) 2%nat 5%nat
           o_pos33 o_at33 eq_refl).
  intros j cj tj Hj Hn _. revert j cj tj Hj Hn. apply no_cas_check. vm_compute. reflexivity.
Qed.

(** the z-run of ConcOneExamples.v: OnSuccess (thread 2) and OnFailure (thread 3) race on the HALF_OPEN
    state object 3; the w-run: two OnFailure reports race on it *)
Notation zticks1 := ConcOneExamples.zticks.
Notation zprogs1 := ConcOneExamples.zprogs.
Notation zsched1 := ConcOneExamples.zsched.
Notation zL := (steps_of M2 (bcfg0 2 zticks1 zprogs1) zsched1).
Notation zat := (cfg_at zL).
Definition wprogs : list (list bop) := [[OnFailure; OnFailure]; [CanRequest]; [OnFailure]; [OnFailure]].
Definition wsched : list nat := (repeat 0 40 ++ repeat 1 5 ++ [2; 3; 2; 3; 2; 3; 2; 3])%nat.
Notation wL := (steps_of M2 (bcfg0 2 zticks1 wprogs) wsched).
Notation wat := (cfg_at wL).

Example w_steps :
  map (fun x => (snd x, match stepper M2 (fst x) (snd x) with Some (o, l, _) => Some l | None => None end,
                 b_cur (c_sh (fst x)))) (skipn 26 wL) =
  [(2, Some (BInv OnFailure), 3); (3, Some (BInv OnFailure), 3); (2, Some OFLoad, 3); (3, Some OFLoad, 3);
   (2, Some (OFTick 3 None), 3); (3, Some (OFTick 3 None), 3);
   (2, Some (OFCas 3 4 None), 3); (3, Some (OFCas 3 5 None), 4)]%nat.
Proof. vm_compute. reflexivity. Qed.

Example z_pos34 : nth_error zL 34 = Some (zat 34, 2%nat). Proof. pos. Qed.
Example z_pos35 : nth_error zL 35 = Some (zat 35, 3%nat). Proof. pos. Qed.
Example z_at34 : at_pc xcfg 2 (zat 34) 2 OnSuccess (OSCas 3 4). Proof. atpc. Qed.
Example z_at35 : at_pc xcfg 2 (zat 35) 3 OnFailure (OFCas 3 5 None). Proof. atpc. Qed.
Example z_cas34 : cas_succeeds (zat 34) 2 3. Proof. casok. Qed.
Example w_pos32 : nth_error wL 32 = Some (wat 32, 2%nat). Proof. pos. Qed.
Example w_pos33 : nth_error wL 33 = Some (wat 33, 3%nat). Proof. pos. Qed.
Example w_at32 : at_pc xcfg 2 (wat 32) 2 OnFailure (OFCas 3 4 None). Proof. atpc. Qed.
Example w_at33 : at_pc xcfg 2 (wat 33) 3 OnFailure (OFCas 3 5 None). Proof. atpc. Qed.
Example w_cas32 : cas_succeeds (wat 32) 2 3. Proof. casok. Qed.

(* the failure report that lost against the success report *)
Example C03_reports_exactly_one_transition_nonvacuous :
  exists j cj tj, (j <= 35)%nat /\ nth_error zL j = Some (cj, tj) /\ cas_succeeds cj tj 3 /\
    (forall j' cj' tj', nth_error zL j' = Some (cj', tj') -> cas_succeeds cj' tj' 3 -> j' = j) /\
    (3 < b_cur (c_sh (step_cfg M2 (zat 35) 3)))%nat /\
    (j <> 35%nat -> c_sh (step_cfg M2 (zat 35) 3) = c_sh (zat 35) /\ ret_at xcfg 2 (zat 35) 3 = Some BU).
Proof.
  exact (C03_reports_exactly_one_transition xcfg 2 zticks1 zprogs1 zsched1 35 (zat 35) 3%nat OnFailure (OFCas 3 5 None)
           3%nat 5%nat z_pos35 z_at35 (or_intror eq_refl)).
Qed.
(* the success report that won *)
Example C03_reports_exactly_one_transition_nonvacuous_os :
  exists j cj tj, (j <= 34)%nat /\ nth_error zL j = Some (cj, tj) /\ cas_succeeds cj tj 3 /\
    (forall j' cj' tj', nth_error zL j' = Some (cj', tj') -> cas_succeeds cj' tj' 3 -> j' = j) /\
    (3 < b_cur (c_sh (step_cfg M2 (zat 34) 2)))%nat /\
    (j <> 34%nat -> c_sh (step_cfg M2 (zat 34) 2) = c_sh (zat 34) /\ ret_at xcfg 2 (zat 34) 2 = Some BU).
Proof.
  exact (C03_reports_exactly_one_transition xcfg 2 zticks1 zprogs1 zsched1 34 (zat 34) 2%nat OnSuccess (OSCas 3 4)
           3%nat 4%nat z_pos34 z_at34 (or_introl eq_refl)).
Qed.
(* two concurrent failure reports: the second one (position 33) does nothing *)
Example C03_reports_exactly_one_transition_nonvacuous_two_failures :
  exists j cj tj, (j <= 33)%nat /\ nth_error wL j = Some (cj, tj) /\ cas_succeeds cj tj 3 /\
    (forall j' cj' tj', nth_error wL j' = Some (cj', tj') -> cas_succeeds cj' tj' 3 -> j' = j) /\
    (3 < b_cur (c_sh (step_cfg M2 (wat 33) 3)))%nat /\
    (j <> 33%nat -> c_sh (step_cfg M2 (wat 33) 3) = c_sh (wat 33) /\ ret_at xcfg 2 (wat 33) 3 = Some BU).
Proof.
  exact (C03_reports_exactly_one_transition xcfg 2 zticks1 wprogs wsched 33 (wat 33) 3%nat OnFailure (OFCas 3 5 None)
           3%nat 5%nat w_pos33 w_at33 (or_intror eq_refl)).
Qed.

Example C03_os_call_of_cas_nonvacuous :
  OnSuccess = OnSuccess /\
  exists i ci st i3 c3 w,
    (i < i3 < 34)%nat /\
    nth_error zL i = Some (ci, 2%nat) /\ at_pc xcfg 2 ci 2 OnSuccess OSLoad /\
    b_cur (c_sh ci) = 3%nat /\ nth1 (b_states (c_sh ci)) 3 = Some st /\ st_kind st = KHalfOpen /\
    nth_error zL i3 = Some (c3, 2%nat) /\ at_pc xcfg 2 c3 2 OnSuccess (OSTick2 3 w) /\
    nth1 (b_states (c_sh (zat 34))) 4 = Some (BState KClosed w (wrap64 (tick_of (c_sh c3) + 0)) 0) /\
    (3 < 4)%nat.
Proof.
  exact (C03_os_call_of_cas xcfg 2 zticks1 zprogs1 zsched1 34 (zat 34) 2%nat OnSuccess 3%nat 4%nat z_pos34 z_at34).
Qed.

Example C03_of_call_of_cas_nonvacuous :
  OnFailure = OnFailure /\
  exists i ci st i1 c1,
    (i < i1 < 35)%nat /\
    nth_error zL i = Some (ci, 3%nat) /\ at_pc xcfg 2 ci 3 OnFailure OFLoad /\
    b_cur (c_sh ci) = 3%nat /\ nth1 (b_states (c_sh ci)) 3 = Some st /\ st_kind st = KHalfOpen /\
    nth_error zL i1 = Some (c1, 3%nat) /\ at_pc xcfg 2 c1 3 OnFailure (OFTick 3 None) /\
    nth1 (b_states (c_sh (zat 35))) 5 =
      Some (BState KOpen 0 (wrap64 (tick_of (c_sh c1) + openw xcfg)) (openw xcfg)) /\
    (3 < 5)%nat.
Proof.
  exact (C03_of_call_of_cas xcfg 2 zticks1 zprogs1 zsched1 35 (zat 35) 3%nat OnFailure 3%nat 5%nat z_pos35 z_at35).
Qed.

Example C03_success_closes_nonvacuous :
  (exists w ts,
    b_cur (c_sh (step_cfg M2 (zat 34) 2)) = 4%nat /\
    nth1 (b_states (c_sh (step_cfg M2 (zat 34) 2))) 4 = Some (BState KClosed w ts 0) /\
    b_states (c_sh (step_cfg M2 (zat 34) 2)) = b_states (c_sh (zat 34)) /\
    b_wins (c_sh (step_cfg M2 (zat 34) 2)) = b_wins (c_sh (zat 34)) /\
    b_buckets (c_sh (step_cfg M2 (zat 34) 2)) = b_buckets (c_sh (zat 34)) /\
    b_log (c_sh (step_cfg M2 (zat 34) 2)) =
      b_log (c_sh (zat 34)) ++ each 2 (fun i => [(i, LStateChanged KClosed); (i, LCountUpdated 0 0)])) /\
  (exists w ts x bk,
    b_cur (c_sh (step_cfg M2 (zat 34) 2)) = 4%nat /\
    nth1 (b_states (c_sh (step_cfg M2 (zat 34) 2))) 4 = Some (BState KClosed w ts 0) /\
    nth1 (b_wins (c_sh (step_cfg M2 (zat 34) 2))) w = Some x /\ w_cells x = [] /\ w_snap x = (0, 0) /\
    nth1 (b_buckets (c_sh (step_cfg M2 (zat 34) 2))) (w_cur x) = Some bk /\ bk_s bk = 0 /\ bk_f bk = 0).
Proof.
  exact (C03_success_closes xcfg 2 zticks1 zprogs1 zsched1 34 (zat 34) 2%nat OnSuccess 3%nat 4%nat z_pos34 z_at34 z_cas34).
Qed.
Example C03_success_closes_values :
  (b_cur (c_sh (step_cfg M2 (zat 34) 2)), nth1 (b_states (c_sh (step_cfg M2 (zat 34) 2))) 4,
   nth1 (b_wins (c_sh (step_cfg M2 (zat 34) 2))) 2, nth1 (b_buckets (c_sh (step_cfg M2 (zat 34) 2))) 3) =
  (4%nat, Some (BState KClosed 2 23 0), Some (Window 3 [] (0, 0)), Some (Bucket 22 0 0)).
Proof. vm_compute. reflexivity. Qed.

(* the trial failure re-opens the circuit (w-run, position 32: thread 2's CAS 3 -> 4), deadline 23 + 10 *)
Example C03_failure_reopens_nonvacuous :
  exists i1 c1, (i1 < 32)%nat /\ nth_error wL i1 = Some (c1, 2%nat) /\ at_pc xcfg 2 c1 2 OnFailure (OFTick 3 None) /\
    b_cur (c_sh (step_cfg M2 (wat 32) 2)) = 4%nat /\
    nth1 (b_states (c_sh (step_cfg M2 (wat 32) 2))) 4 =
      Some (BState KOpen 0 (wrap64 (tick_of (c_sh c1) + openw xcfg)) (openw xcfg)) /\
    b_states (c_sh (step_cfg M2 (wat 32) 2)) = b_states (c_sh (wat 32)) /\
    b_wins (c_sh (step_cfg M2 (wat 32) 2)) = b_wins (c_sh (wat 32)) /\
    b_buckets (c_sh (step_cfg M2 (wat 32) 2)) = b_buckets (c_sh (wat 32)) /\
    b_log (c_sh (step_cfg M2 (wat 32) 2)) =
      b_log (c_sh (wat 32)) ++ each 2 (fun i => [(i, LStateChanged KOpen); (i, LCountUpdated 0 0)]).
Proof.
  exact (C03_failure_reopens xcfg 2 zticks1 wprogs wsched 32 (wat 32) 2%nat OnFailure 3%nat 4%nat None w_pos32 w_at32 w_cas32).
Qed.
Example C03_failure_reopens_values :
  nth1 (b_states (c_sh (step_cfg M2 (wat 32) 2))) 4 = Some (BState KOpen 0 32 10).
Proof. vm_compute. reflexivity. Qed.
(* the trip itself (CLOSED -> OPEN, y-run position 20, e = Some (0, 1)) is an instance too *)
Example o_pos20 : nth_error oL 20 = Some (oat 20, 0%nat). Proof. pos. Qed.
Example o_at20 : at_pc xcfg 2 (oat 20) 0 OnFailure (OFCas 1 2 (Some (0, 1))). Proof. atpc. Qed.
Example o_cas20 : cas_succeeds (oat 20) 0 1. Proof. casok. Qed.
Example C03_failure_reopens_nonvacuous_trip :
  exists i1 c1, (i1 < 20)%nat /\ nth_error oL i1 = Some (c1, 0%nat) /\ at_pc xcfg 2 c1 0 OnFailure (OFTick 1 (Some (0, 1))) /\
    b_cur (c_sh (step_cfg M2 (oat 20) 0)) = 2%nat /\
    nth1 (b_states (c_sh (step_cfg M2 (oat 20) 0))) 2 =
      Some (BState KOpen 0 (wrap64 (tick_of (c_sh c1) + openw xcfg)) (openw xcfg)) /\
    b_states (c_sh (step_cfg M2 (oat 20) 0)) = b_states (c_sh (oat 20)) /\
    b_wins (c_sh (step_cfg M2 (oat 20) 0)) = b_wins (c_sh (oat 20)) /\
    b_buckets (c_sh (step_cfg M2 (oat 20) 0)) = b_buckets (c_sh (oat 20)) /\
    b_log (c_sh (step_cfg M2 (oat 20) 0)) =
      b_log (c_sh (oat 20)) ++ each 2 (fun i => [(i, LStateChanged KOpen); (i, LCountUpdated 0 0)]).
Proof.
  exact (C03_failure_reopens xcfg 2 oticks oprogs osched 20 (oat 20) 0%nat OnFailure 1%nat 2%nat (Some (0, 1)) o_pos20 o_at20 o_cas20).
Qed.

Example C03_ret_in_trace_nonvacuous : exists o, In (ERet 3%nat o (BB true)) (trace M2 oc0 osched).
Proof. exact (C03_ret_in_trace xcfg 2 oticks oprogs osched 33 (oat 33) 3%nat (BB true) o_pos33 C03_admitted_nonvacuous). Qed.

(** * C06.v *)
Import Properties.C06.

(* one thread; trip, rejection, trial, rejection during the trial, trial success closes, the new window
   counts, a back-in-time report, second trip, trial, trial failure re-opens, reports ignored while OPEN,
   ticker exhausted (reads 0) *)
Definition sticks : list Z := [0; 0; 1; 7; 8; 10; 20; 21; 25; 26; 27; 28; 40; 39; 50; 51; 70; 71; 72].
Definition sops : list bop :=
  [OnFailure; OnFailure; CanRequest; CanRequest; CanRequest; OnSuccess; CanRequest; OnSuccess;
   OnFailure; OnFailure; OnFailure; CanRequest; OnFailure; OnSuccess; CanRequest].
Example sops_ok : forall o, In o sops -> breaker_op o = true.
Proof. exact (proj1 (forallb_forall breaker_op sops) eq_refl). Qed.
Example C06_refines_documented_machine_nonvacuous :
  exists n, forall m, (n <= m)%nat ->
    let '(c, e) := run (breaker xcfg 2) (seq_cfg xcfg 2 sticks sops) (repeat 0%nat m) in
    let '(r, xs) := ref_run xcfg 2 (ref_init 2 sticks) sops in
    rets e = xs /\ b_log (c_sh c) = r_log r /\ b_ticks (c_sh c) = r_ticks r.
Proof. exact (C06_refines_documented_machine xcfg 2 sticks sops sops_ok). Qed.
(* what both sides are on this sequence (150 steps complete it) *)
Example C06_refines_documented_machine_values :
  let '(c, e) := run (breaker xcfg 2) (seq_cfg xcfg 2 sticks sops) (repeat 0%nat 150) in
  let '(r, xs) := ref_run xcfg 2 (ref_init 2 sticks) sops in
  rets e = xs /\ b_log (c_sh c) = r_log r /\ b_ticks (c_sh c) = r_ticks r /\
  xs = [BU; BU; BB false; BB true; BB false; BU; BB true; BU; BU; BU; BU; BB true; BU; BU; BB false] /\
  map st_kind (b_states (c_sh c)) = [KClosed; KOpen; KHalfOpen; KClosed; KOpen; KHalfOpen; KOpen] /\
  map snd (filter (fun x => Nat.eqb (fst x) 1) (r_log r)) =
    [LStateChanged KClosed; LCountUpdated 0 0; LStateChanged KOpen; LCountUpdated 0 0; LRejected;
     LStateChanged KHalfOpen; LCountUpdated 0 0; LRejected; LStateChanged KClosed; LCountUpdated 0 0;
     LCountUpdated 1 0; LStateChanged KOpen; LCountUpdated 0 0; LStateChanged KHalfOpen; LCountUpdated 0 0;
     LStateChanged KOpen; LCountUpdated 0 0; LRejected] /\
  map (fun th => (t_prog th, t_cur th, t_dead th)) (c_thr c) = [([], None, false)].
Proof. vm_compute. repeat split; reflexivity. Qed.

(** * C10.v *)
Import Properties.C10.

(* sequential: one reporter, a window (100, interval 5) that slides: rolls at 7, 50, 120 (drops the
   buckets stamped 0, 3, 7), 230 (drops everything); a back-in-time report (3 after 7); Count() *)
Definition qticks : list Z := [0; 1; 2; 7; 3; 8; 50; 120; 121; 230].
Definition qops : list bop :=
  [WSuccess; WFailure; WSuccess; WSuccess; WCount; WFailure; WSuccess; WCount; WFailure; WSuccess; WFailure; WCount].
Example qops_ok : forall o, In o qops -> window_op o = true.
Proof. exact (proj1 (forallb_forall window_op qops) eq_refl). Qed.
Example C10_sequential_exact_nonvacuous :
  exists n, forall m, (n <= m)%nat ->
    let '(c, e) := run (breaker ycfg 0) (init bpc (winit qticks) tt [qops]) (repeat 0%nat m) in
    let '(w, xs) := rwin_run ycfg (rwin_init qticks) qops in
    rets e = xs /\ b_ticks (c_sh c) = rw_ticks w /\ b_log (c_sh c) = [].
Proof. exact (C10_sequential_exact ycfg 0 qticks qops qops_ok). Qed.
Example C10_sequential_exact_values :
  let '(c, e) := run (breaker ycfg 0) (init bpc (winit qticks) tt [qops]) (repeat 0%nat 250) in
  let '(w, xs) := rwin_run ycfg (rwin_init qticks) qops in
  rets e = xs /\
  xs = [BCount None; BCount None; BCount (Some (1, 1)); BCount None; BCount (Some (1, 1)); BCount None;
        BCount (Some (3, 2)); BCount (Some (3, 2)); BCount (Some (1, 0)); BCount None; BCount (Some (0, 0));
        BCount (Some (0, 0))] /\
  map (fun th => (t_prog th, t_cur th, t_dead th)) (c_thr c) = [([], None, false)].
Proof. vm_compute. repeat split; reflexivity. Qed.

(** concurrent: the run of ConcC10Examples.v (threads 0 and 1 race to roll at ticks 7 / 8, thread 2 reports
    at tick 3, back in time), extended: thread 2 then rolls at tick 105 (cut-off 5: the buckets stamped 0
    and 3 are trimmed, the roll returns (2, 0)); every call has returned; thread 2's next report reads 120 *)
Notation cticks := ConcC10Examples.yticks.
Notation cprogs := ConcC10Examples.yprogs.
Notation M0 := (breaker ycfg 0).
Notation cc0 := (bcfg0 0 cticks cprogs).
Notation cL := (steps_of M0 cc0 ysched1).
Notation cat := (cfg_at cL).

Definition dticks : list Z := [0; 0; 1; 2; 7; 8; 3; 105; 120].
Definition dprogs : list (list bop) :=
  [[WSuccess; WSuccess]; [WFailure; WSuccess]; [WSuccess; WFailure; WSuccess]].
Definition dsched : list nat := (ysched1 ++ repeat 2 5 ++ repeat 2 23)%nat.
Notation dc0 := (bcfg0 0 dticks dprogs).
Notation dL := (steps_of M0 dc0 dsched).
Notation dat := (cfg_at dL).
Notation dc := (final M0 dc0 dsched).
Definition dx : swindow := Window 5 [(1%nat, false); (3%nat, true); (4%nat, false); (2%nat, true)] (2, 0).

Example dprogs_small : (Z.of_nat (length (concat dprogs)) < 2 ^ 62)%Z.
Proof. vm_compute. reflexivity. Qed.
Example d_alog :
  alog dL = [(0, ATick 1); (0, AAdd true 1 0); (1, ATick 2); (1, AAdd false 1 0); (0, ATick 7); (0, AAdd true 2 7);
             (1, ATick 8); (1, AAdd true 3 8); (2, ATick 3); (2, AAdd true 4 3); (2, ATick 105); (2, AAdd false 5 105)]%nat.
Proof. vm_compute. reflexivity. Qed.
Example d_state :
  (map (fun th => (t_prog th, t_cur th, t_dead th)) (c_thr dc), b_wins (c_sh dc), b_buckets (c_sh dc), b_ticks (c_sh dc)) =
  ([([], None, false); ([], None, false); ([WSuccess], None, false)], [dx],
   [Bucket 0 1 1; Bucket 7 1 0; Bucket 8 1 0; Bucket 3 1 0; Bucket 105 0 1], [120]).
Proof. vm_compute. reflexivity. Qed.

Example d_pos54 : nth_error dL 54 = Some (dat 54, 2%nat). Proof. pos. Qed.
Example d_pc54 : nth_error (pcs (dat 54)) 2 = Some (WSnapStore 1 WKDirect 2 0). Proof. vm_compute. reflexivity. Qed.
Example d_step54 :
  step_thread M0 (dat 54) 2 = Some (step_cfg M0 (dat 54) 2, [ERet 2%nat WFailure (BCount (Some (2, 0)))]).
Proof. vm_compute. reflexivity. Qed.

(* (A): thread 2's roll at tick 105 returns (2, 0); the window slid: of the 4 success adds and 2 failure adds
   executed before (its own failure, on the new bucket stamped 105, included), the 2 successes on the buckets
   stamped 7 and 8 and its own failure are recent *)
Example C10_count_upper_bound_nonvacuous :
  exists t, tick_read 2 (firstn 54 dL) = Some t /\
    (0 <= 2 <= Z.of_nat (recent_adds ycfg true t (firstn 54 dL)))%Z /\
    (0 <= 0 <= Z.of_nat (recent_adds ycfg false t (firstn 54 dL)))%Z.
Proof.
  refine (C10_count_upper_bound ycfg 0 dticks dprogs dsched 54 (dat 54) 2%nat (step_cfg M0 (dat 54) 2)
            [ERet 2%nat WFailure (BCount (Some (2, 0)))] WFailure 2 0 dprogs_small d_pos54 d_step54 (or_introl eq_refl) _).
  discriminate.
Qed.
Example C10_count_upper_bound_values :
  (tick_read 2 (firstn 54 dL), recent_adds ycfg true 105 (firstn 54 dL), recent_adds ycfg false 105 (firstn 54 dL),
   total_adds true (firstn 54 dL), total_adds false (firstn 54 dL)) = (Some 105, 2%nat, 1%nat, 4%nat, 2%nat).
Proof. vm_compute. reflexivity. Qed.

Example C10_count_upper_bound_pc_nonvacuous :
  exists t, tick_read 2 (firstn 54 dL) = Some t /\
    (0 <= 2 <= Z.of_nat (recent_adds ycfg true t (firstn 54 dL)))%Z /\
    (0 <= 0 <= Z.of_nat (recent_adds ycfg false t (firstn 54 dL)))%Z.
Proof. exact (C10_count_upper_bound_pc ycfg 0 dticks dprogs dsched 54 (dat 54) 2%nat 1%nat WKDirect 2 0 dprogs_small d_pos54 d_pc54). Qed.

Example C10_count_upper_bound_window_nonvacuous :
  exists t x, tick_read 2 (firstn 54 dL) = Some t /\ nth1 (b_wins (c_sh (dat 54))) 1 = Some x /\
    (0 <= 2 <= Z.of_nat (recent_adds_on ycfg true t (map fst (w_cells x)) (firstn 54 dL)))%Z /\
    (0 <= 0 <= Z.of_nat (recent_adds_on ycfg false t (map fst (w_cells x)) (firstn 54 dL)))%Z.
Proof. exact (C10_count_upper_bound_window ycfg 0 dticks dprogs dsched 54 (dat 54) 2%nat 1%nat WKDirect 2 0 dprogs_small d_pos54 d_pc54). Qed.

(* the same on the roll race of ConcC10Examples.v (position 26: the winner returns (1, 1) while 3 success
   adds and 1 failure add are recent - the loser's and its own went to buckets it did not visit) *)
Example c_pos26 : nth_error cL 26 = Some (cat 26, 0%nat). Proof. pos. Qed.
Example c_pc26 : nth_error (pcs (cat 26)) 0 = Some (WSnapStore 1 WKDirect 1 1). Proof. vm_compute. reflexivity. Qed.
Example c_step26 :
  step_thread M0 (cat 26) 0 = Some (step_cfg M0 (cat 26) 0, [ERet 0%nat WSuccess (BCount (Some (1, 1)))]).
Proof. vm_compute. reflexivity. Qed.
Example C10_count_upper_bound_nonvacuous_race :
  exists t, tick_read 0 (firstn 26 cL) = Some t /\
    (0 <= 1 <= Z.of_nat (recent_adds ycfg true t (firstn 26 cL)))%Z /\
    (0 <= 1 <= Z.of_nat (recent_adds ycfg false t (firstn 26 cL)))%Z.
Proof.
  refine (C10_count_upper_bound ycfg 0 cticks cprogs ysched1 26 (cat 26) 0%nat (step_cfg M0 (cat 26) 0)
            [ERet 0%nat WSuccess (BCount (Some (1, 1)))] WSuccess 1 1 yprogs_small c_pos26 c_step26 (or_introl eq_refl) _).
  discriminate.
Qed.
Example C10_count_upper_bound_window_nonvacuous_race :
  exists t x, tick_read 0 (firstn 26 cL) = Some t /\ nth1 (b_wins (c_sh (cat 26))) 1 = Some x /\
    (0 <= 1 <= Z.of_nat (recent_adds_on ycfg true t (map fst (w_cells x)) (firstn 26 cL)))%Z /\
    (0 <= 1 <= Z.of_nat (recent_adds_on ycfg false t (map fst (w_cells x)) (firstn 26 cL)))%Z.
Proof. exact (C10_count_upper_bound_window ycfg 0 cticks cprogs ysched1 26 (cat 26) 0%nat 1%nat WKDirect 1 1 yprogs_small c_pos26 c_pc26). Qed.

Example C10_snapshot_upper_bound_nonvacuous :
  (0 <= fst (w_snap dx) <= Z.of_nat (total_adds true dL))%Z /\
  (0 <= snd (w_snap dx) <= Z.of_nat (total_adds false dL))%Z.
Proof.
  apply (C10_snapshot_upper_bound ycfg 0 dticks dprogs dsched 1%nat dx dprogs_small). vm_compute. reflexivity.
Qed.
Example C10_snapshot_upper_bound_values :
  (w_snap dx, total_adds true dL, total_adds false dL) = ((2, 0), 4%nat, 2%nat).
Proof. vm_compute. reflexivity. Qed.

(* bucket 1 (stamped 0, empty in the initial configuration) receives two adds; its stamp stays *)
Example C10_bucket_ts_immutable_nonvacuous :
  exists bk', nth1 (b_buckets (c_sh (final M0 dc0 dsched))) 1 = Some bk' /\ bk_ts bk' = bk_ts (Bucket 0 0 0).
Proof. apply (C10_bucket_ts_immutable ycfg 0 dsched dc0 1%nat (Bucket 0 0 0)). vm_compute. reflexivity. Qed.

(** (B) quiescent roll from [dc]: reservoir [1 (trimmed); 3; 4 (trimmed); 2], current bucket 5 (stamped 105);
    the reading 120 rolls, cut-off 20: buckets 2, 3 (stamped 7, 8) are now too old, the roll returns (0, 1) *)
Lemma quiescent_check (c : bconfig) :
  forallb (fun th => match t_cur th with None => true | Some _ => false end) (c_thr c) = true ->
  forall th, In th (c_thr c) -> t_cur th = None.
Proof.
  intros H th Hin. rewrite forallb_forall in H. specialize (H th Hin). destruct (t_cur th); [discriminate|reflexivity].
Qed.
Example d_quiescent : forall th, In th (c_thr dc) -> t_cur th = None.
Proof. apply quiescent_check. vm_compute. reflexivity. Qed.
Definition dth : bthread := Thread [WSuccess] tt None false.
Example d_th : nth_error (c_thr dc) 2 = Some dth. Proof. vm_compute. reflexivity. Qed.
Example d_win : nth1 (b_wins (c_sh dc)) 1 = Some dx. Proof. vm_compute. reflexivity. Qed.
Example d_cur : nth1 (b_buckets (c_sh dc)) (w_cur dx) = Some (Bucket 105 0 1). Proof. vm_compute. reflexivity. Qed.
Example d_t1 : (bk_ts (Bucket 105 0 1) <= hd 0%Z (b_ticks (c_sh dc)))%Z. Proof. vm_compute. discriminate. Qed.
Example d_t2 : (wrap64 (bk_ts (Bucket 105 0 1) + interval ycfg) <= hd 0%Z (b_ticks (c_sh dc)))%Z.
Proof. vm_compute. discriminate. Qed.

Example C10_quiescent_roll_exact_nonvacuous :
  exists n c' S F,
    run M0 dc (repeat 2%nat n) = (c', [EInv 2%nat WSuccess; ERet 2%nat WSuccess (BCount (Some (S, F)))]) /\
    (S, F) = roll_count ycfg (c_sh dc) dx (hd 0%Z (b_ticks (c_sh dc))) /\
    S = Z.of_nat (recent_adds_on ycfg true (hd 0%Z (b_ticks (c_sh dc))) (roll_ids dx) dL) /\
    F = Z.of_nat (recent_adds_on ycfg false (hd 0%Z (b_ticks (c_sh dc))) (roll_ids dx) dL).
Proof.
  exact (C10_quiescent_roll_exact ycfg 0 dticks dprogs dsched 2%nat dth WSuccess [] dx (Bucket 105 0 1) dprogs_small
           d_quiescent d_th eq_refl eq_refl (or_introl eq_refl) d_win d_cur d_t1 d_t2).
Qed.
Example C10_quiescent_roll_exact_values :
  (snd (run M0 dc (repeat 2%nat 40)), hd 0%Z (b_ticks (c_sh dc)), roll_ids dx, roll_count ycfg (c_sh dc) dx 120,
   recent_adds_on ycfg true 120 (roll_ids dx) dL, recent_adds_on ycfg false 120 (roll_ids dx) dL) =
  ([EInv 2%nat WSuccess; ERet 2%nat WSuccess (BCount (Some (0, 1)))], 120, [3; 2; 5]%nat, (0, 1), 0%nat, 1%nat).
Proof. vm_compute. reflexivity. Qed.

(* thread 2's back-in-time success went to the instant bucket 4, which is in the reservoir of window 1
   (as a TRIMMED cell: [In b (map fst (w_cells x))] does not say the cell is still live) *)
Example C10_quiescent_adds_archived_nonvacuous :
  exists w x, nth1 (b_wins (c_sh dc)) w = Some x /\ (4%nat = w_cur x \/ In 4%nat (map fst (w_cells x))).
Proof.
  apply (C10_quiescent_adds_archived ycfg 0 dticks dprogs dsched (2%nat, AAdd true 4 3) true 4%nat 3 d_quiescent).
  - apply (nth_error_In _ 9). vm_compute. reflexivity.
  - reflexivity.
Qed.

(* one window; the two trimmed cells (buckets 1 and 4, stamped 0 and 3) are older than the cut-off 20 *)
Example d_trimmed_old : forall b bk, In (b, false) (w_cells dx) -> nth1 (b_buckets (c_sh dc)) b = Some bk ->
  (bk_ts bk < cut ycfg (hd 0%Z (b_ticks (c_sh dc))))%Z.
Proof.
  intros b bk Hin Hb. simpl in Hin.
  destruct Hin as [E|[E|[E|[E|[]]]]]; try discriminate E; injection E as <-;
    vm_compute in Hb; injection Hb as <-; vm_compute; reflexivity.
Qed.
Example C10_quiescent_roll_exact_untrimmed_nonvacuous :
  exists n c',
    run M0 dc (repeat 2%nat n) =
      (c', [EInv 2%nat WSuccess;
            ERet 2%nat WSuccess (BCount (Some (Z.of_nat (recent_adds ycfg true (hd 0%Z (b_ticks (c_sh dc))) dL),
                                               Z.of_nat (recent_adds ycfg false (hd 0%Z (b_ticks (c_sh dc))) dL))))]).
Proof.
  refine (C10_quiescent_roll_exact_untrimmed ycfg 0 dticks dprogs dsched 2%nat dth WSuccess [] dx (Bucket 105 0 1) dprogs_small
           d_quiescent d_th eq_refl eq_refl (or_introl eq_refl) d_win d_cur d_t1 d_t2 _ d_trimmed_old).
  vm_compute. reflexivity.
Qed.
Example C10_quiescent_roll_exact_untrimmed_values :
  (recent_adds ycfg true 120 dL, recent_adds ycfg false 120 dL, total_adds true dL, total_adds false dL) =
  (0%nat, 1%nat, 4%nat, 2%nat).
Proof. vm_compute. reflexivity. Qed.

(** * Audit remarks backed by proofs *)

(* C03_closed_admits, C03_open_ignores_reports and C03_fail_fast are one case of the definition of [bstep]
   each, for an ARBITRARY shared state (no reachability involved): *)
Remark audit_closed_admits_is_unfolding : forall cfg nl s st,
  nth1 (b_states s) (b_cur s) = Some st -> st_kind st = KClosed ->
  bstep cfg nl CRLoad s = Done (BB true) tt s.
Proof. intros cfg nl s st H1 H2. unfold bstep. rewrite H1, H2. reflexivity. Qed.
Remark audit_open_ignores_reports_is_unfolding : forall cfg nl s st,
  nth1 (b_states s) (b_cur s) = Some st -> st_kind st = KOpen ->
  bstep cfg nl OSLoad s = Done BU tt s /\ bstep cfg nl OFLoad s = Done BU tt s.
Proof. intros cfg nl s st H1 H2. unfold bstep. rewrite H1, H2. split; reflexivity. Qed.
Remark audit_fail_fast_is_unfolding : forall cfg nl cs s st t r,
  nth1 (b_states s) cs = Some st -> b_ticks s = t :: r -> (t < st_timeout st)%Z ->
  bstep cfg nl (CRTick cs) s =
  Done (BB false) tt (notify_rejected nl (BS (b_states s) (b_cur s) (b_wins s) (b_buckets s) r (b_log s))).
Proof.
  intros cfg nl cs s st t r H1 H2 H3. unfold bstep. rewrite H1. unfold take_tick. rewrite H2.
  rewrite (proj2 (Z.leb_gt _ _) H3). reflexivity.
Qed.

(* the second conjunct of C03_trial_cas, [exists t2, ... wrap64 (t2 + trial cfg) ...], only says that the
   deadline of the new state object is an int64: every int64 is of that form *)
Remark audit_trial_cas_t2_unconstrained : forall cfg v,
  (- 2 ^ 63 <= v < 2 ^ 63)%Z -> exists t2, wrap64 (t2 + trial cfg) = v.
Proof.
  intros cfg v Hv. exists (v - trial cfg). replace (v - trial cfg + trial cfg) with v by ring.
  unfold wrap64. rewrite Z.mod_small by lia. ring.
Qed.
