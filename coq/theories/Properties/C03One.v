(** C03, second part - "EXACTLY one of the concurrent callers is admitted".
    Property theorems only (proofs in Breaker/ConcHist, ConcOne, ConcReport).
    Any configuration, any number of listeners and threads, any programs, any
    ticker stream, any schedule.  Vocabulary:

    - [L = steps_of M c0 sched]: the log of the steps actually taken,
      [nth_error L k = Some (ck, t)]: the k-th step is taken by thread [t] from
      configuration [ck];
    - [at_pc cfg nl ck t o l]: that step is taken from program counter [l]
      inside a call of operation [o];
    - [ret_at cfg nl ck t = Some r]: that step completes the call, returning [r]
      ([ret_in_trace]: it is the [ERet t o r] event of the trace);
    - [cas_succeeds ck t cs]: that step is a state-pointer CAS expecting [cs],
      and it succeeds (ConcBase);
    - [cr_call ... t cs n i i1 i2 k st tk t2]: positions [i < i1 < i2 < k] are
      the load (of [cs], current, not CLOSED, state [st]), the deadline check
      (reading [tk >= st_timeout st]), the allocation of the HALF_OPEN successor
      [n] (reading [t2], deadline [t2 + trial]) and the CAS of ONE CanRequest
      call of thread [t], which takes no other step in between;
    - [cr_region ... p]: from position [p] on, only CanRequest calls take steps
      ("until a result is reported"). *)
From Coq Require Import List Arith Bool ZArith Lia.
From Garr Require Import Conc.Conc Pure.F64 Pure.Config Breaker.BreakerModel
  Breaker.ConcBase Breaker.ConcInv Breaker.ConcHist Breaker.ConcOne Breaker.ConcReport.
Import ListNotations.
Local Open Scope Z_scope.

Section C03One.
Variables (cfg : cb_config) (nl : nat) (ticks : list Z) (progs : list (list bop)) (sched : list nat).
Notation M := (breaker cfg nl).
Notation L := (steps_of M (bcfg0 nl ticks progs) sched).

(** Every CanRequest CAS attempt is the end of a call that loaded [cs] when it
    was current and not CLOSED and read a tick at or past its deadline. *)
Theorem C03_cr_call_of_cas : forall k ck t o cs n,
  nth_error L k = Some (ck, t) -> at_pc cfg nl ck t o (CRCas cs n) ->
  o = CanRequest /\ exists i i1 i2 st tk t2, cr_call cfg nl ticks progs sched t cs n i i1 i2 k st tk t2.
Proof. apply cr_call_of_cas. Qed.

(** (A) Such a call that returns [false] lost the race: ANOTHER thread's CAS
    replaced [cs] between this call's load and its own CAS. *)
Theorem C03_rejected_after_expiry_implies_replaced : forall k ck t o cs n,
  nth_error L k = Some (ck, t) -> at_pc cfg nl ck t o (CRCas cs n) ->
  ret_at cfg nl ck t = Some (BB false) ->
  exists i i1 i2 st tk t2, cr_call cfg nl ticks progs sched t cs n i i1 i2 k st tk t2 /\
  exists j cj t', (i < j < k)%nat /\ nth_error L j = Some (cj, t') /\ t' <> t /\
    cas_succeeds cj t' cs /\ (cs < b_cur (c_sh ck))%nat.
Proof. apply rejected_after_expiry_implies_replaced. Qed.

(** ... and a call whose CAS succeeds is admitted. *)
Theorem C03_admitted : forall k ck t o cs n,
  nth_error L k = Some (ck, t) -> at_pc cfg nl ck t o (CRCas cs n) ->
  cas_succeeds ck t cs -> ret_at cfg nl ck t = Some (BB true).
Proof. apply admitted. Qed.

(** (B) Exactly one trial. *)
Theorem C03_exactly_one_trial : forall p cp tp cs,
  nth_error L p = Some (cp, tp) -> b_cur (c_sh cp) = cs -> cr_region cfg nl ticks progs sched p ->
  forall k ck t o n,
    nth_error L k = Some (ck, t) -> at_pc cfg nl ck t o (CRCas cs n) ->
  exists kw cw tw nw,
    (p <= kw <= k)%nat /\ nth_error L kw = Some (cw, tw) /\
    at_pc cfg nl cw tw CanRequest (CRCas cs nw) /\
    cas_succeeds cw tw cs /\ ret_at cfg nl cw tw = Some (BB true) /\
    forall k' ck' t' o' n',
      nth_error L k' = Some (ck', t') -> at_pc cfg nl ck' t' o' (CRCas cs n') -> k' <> kw ->
      (kw < k')%nat /\ ret_at cfg nl ck' t' = Some (BB false).
Proof. apply exactly_one_trial. Qed.

(** ... as a count: among all steps of the execution, exactly one is an
    admitted ([true]-returning) CAS attempt on [cs]. *)
Theorem C03_exactly_one_trial_count : forall p cp tp cs,
  nth_error L p = Some (cp, tp) -> b_cur (c_sh cp) = cs -> cr_region cfg nl ticks progs sched p ->
  forall k ck t o n,
    nth_error L k = Some (ck, t) -> at_pc cfg nl ck t o (CRCas cs n) ->
  length (filter (admitted_on cfg nl cs) L) = 1%nat /\
  (forall c t, admitted_on cfg nl cs (c, t) = true <->
     exists o n, at_pc cfg nl c t o (CRCas cs n) /\ ret_at cfg nl c t = Some (BB true)).
Proof.
  intros p cp tp cs Hp Hc Hr k ck t o n Hk Hat. split.
  - exact (exactly_one_trial_count cfg nl ticks progs sched p cp tp cs Hp Hc Hr k ck t o n Hk Hat).
  - apply admitted_on_spec.
Qed.

(** Callers that read a tick BEFORE the deadline of the state object they
    loaded are rejected; every listener is told once (cf. [C03_fail_fast]). *)
Theorem C03_not_expired_rejected : forall k ck t o cs st,
  nth_error L k = Some (ck, t) -> at_pc cfg nl ck t o (CRTick cs) ->
  nth1 (b_states (c_sh ck)) cs = Some st -> tick_of (c_sh ck) < st_timeout st ->
  ret_at cfg nl ck t = Some (BB false) /\
  b_log (c_sh (step_cfg M ck t)) = b_log (c_sh ck) ++ map (fun i => (i, LRejected)) (seq 0 nl) /\
  b_states (c_sh (step_cfg M ck t)) = b_states (c_sh ck) /\
  b_cur (c_sh (step_cfg M ck t)) = b_cur (c_sh ck).
Proof. apply not_expired_rejected. Qed.

(** The losers of the race are rejected, every listener is told once. *)
Theorem C03_loser_logs_rejection : forall k ck t o cs n,
  nth_error L k = Some (ck, t) -> at_pc cfg nl ck t o (CRCas cs n) -> b_cur (c_sh ck) <> cs ->
  ret_at cfg nl ck t = Some (BB false) /\
  b_log (c_sh (step_cfg M ck t)) = b_log (c_sh ck) ++ map (fun i => (i, LRejected)) (seq 0 nl) /\
  b_states (c_sh (step_cfg M ck t)) = b_states (c_sh ck) /\
  b_cur (c_sh (step_cfg M ck t)) = b_cur (c_sh ck).
Proof. apply loser_logs_rejection. Qed.

(** (C) The winner installs a HALF_OPEN state whose deadline is its second
    tick reading + the trial interval; every listener hears HALF_OPEN once. *)
Theorem C03_winner_installs_half_open : forall t cs n i i1 i2 k st tk t2 ck,
  cr_call cfg nl ticks progs sched t cs n i i1 i2 k st tk t2 ->
  nth_error L k = Some (ck, t) -> cas_succeeds ck t cs ->
  let s' := c_sh (step_cfg M ck t) in
  b_cur s' = n /\
  nth1 (b_states s') n = Some (BState KHalfOpen 0 (wrap64 (t2 + trial cfg)) (trial cfg)) /\
  b_states s' = b_states (c_sh ck) /\
  b_log s' = b_log (c_sh ck) ++ each nl (fun i => [(i, LStateChanged KHalfOpen); (i, LCountUpdated 0 0)]).
Proof. apply winner_installs_half_open. Qed.

(** Callers that load the successor before ITS deadline are rejected. *)
Theorem C03_successor_rejects_before_deadline : forall tw cs nw i i1 i2 kw stw tkw t2w cw,
  cr_call cfg nl ticks progs sched tw cs nw i i1 i2 kw stw tkw t2w -> nth_error L kw = Some (cw, tw) ->
  forall k ck t o, (kw <= k)%nat -> nth_error L k = Some (ck, t) -> at_pc cfg nl ck t o (CRTick nw) ->
    tick_of (c_sh ck) < wrap64 (t2w + trial cfg) ->
  ret_at cfg nl ck t = Some (BB false) /\
  b_log (c_sh (step_cfg M ck t)) = b_log (c_sh ck) ++ map (fun i => (i, LRejected)) (seq 0 nl) /\
  b_states (c_sh (step_cfg M ck t)) = b_states (c_sh ck) /\
  b_cur (c_sh (step_cfg M ck t)) = b_cur (c_sh ck).
Proof. apply successor_rejects_before_deadline. Qed.

(** Until a result is reported, every admission is the successful CAS of a
    caller that read a tick at or past the deadline of the state it loaded ... *)
Theorem C03_admitted_only_after_deadline : forall p cp tp st0,
  nth_error L p = Some (cp, tp) -> cr_region cfg nl ticks progs sched p ->
  nth1 (b_states (c_sh cp)) (b_cur (c_sh cp)) = Some st0 -> st_kind st0 <> KClosed ->
  forall k ck t, (p <= k)%nat -> nth_error L k = Some (ck, t) ->
    ret_at cfg nl ck t = Some (BB true) ->
  exists cs n i i1 i2 st tk t2,
    cr_call cfg nl ticks progs sched t cs n i i1 i2 k st tk t2 /\ cas_succeeds ck t cs /\ st_timeout st <= tk.
Proof. apply admitted_only_after_deadline. Qed.

(** ... so after the winner all others are rejected until the trial interval
    has elapsed: the first admission after the winner is by a caller that loaded
    the winner's successor and read a tick >= winner's reading + trial interval. *)
Theorem C03_others_rejected_until_trial_elapses : forall p cp tp,
  nth_error L p = Some (cp, tp) -> cr_region cfg nl ticks progs sched p ->
  forall tw cs nw i i1 i2 kw stw tkw t2w cw,
    (p <= kw)%nat -> cr_call cfg nl ticks progs sched tw cs nw i i1 i2 kw stw tkw t2w ->
    nth_error L kw = Some (cw, tw) -> cas_succeeds cw tw cs ->
  forall k ck t, (kw < k)%nat -> nth_error L k = Some (ck, t) ->
    ret_at cfg nl ck t = Some (BB true) ->
  exists cs' n' j j1 j2 st' tk' t2',
    cr_call cfg nl ticks progs sched t cs' n' j j1 j2 k st' tk' t2' /\ cas_succeeds ck t cs' /\
    (nw <= cs')%nat /\ st_timeout st' <= tk' /\
    (cs' = nw -> st' = BState KHalfOpen 0 (wrap64 (t2w + trial cfg)) (trial cfg) /\
                 wrap64 (t2w + trial cfg) <= tk') /\
    ((forall m cm tm, (kw < m < k)%nat -> nth_error L m = Some (cm, tm) ->
        ret_at cfg nl cm tm <> Some (BB true)) -> cs' = nw).
Proof. apply others_rejected_until_trial_elapses. Qed.

(** In particular: while the trial is running (every reading of the ticker by
    callers that inspect the winner's successor is before its deadline) and no
    result is reported, EVERY other caller is rejected. *)
Theorem C03_all_rejected_while_trial_running : forall p cp tp,
  nth_error L p = Some (cp, tp) -> cr_region cfg nl ticks progs sched p ->
  forall tw cs nw i i1 i2 kw stw tkw t2w cw,
    (p <= kw)%nat -> cr_call cfg nl ticks progs sched tw cs nw i i1 i2 kw stw tkw t2w ->
    nth_error L kw = Some (cw, tw) -> cas_succeeds cw tw cs ->
    (forall m cm tm o, (kw < m)%nat -> nth_error L m = Some (cm, tm) ->
       at_pc cfg nl cm tm o (CRTick nw) -> tick_of (c_sh cm) < wrap64 (t2w + trial cfg)) ->
  forall k ck t r, (kw < k)%nat -> nth_error L k = Some (ck, t) ->
    ret_at cfg nl ck t = Some r -> r = BB false.
Proof.
  intros p cp tp Hp Hreg tw cs nw i i1 i2 kw stw tkw t2w cw Hpk Hcall Hkw Hcw Hticks k ck t r Hlt Hk Hret.
  destruct (region_returns_bool cfg nl ticks progs sched p k ck t r Hreg ltac:(lia) Hk Hret) as [b ->].
  destruct b; [|reflexivity]. exfalso.
  exact (all_rejected_while_trial_running cfg nl ticks progs sched p cp tp Hp Hreg tw cs nw i i1 i2 kw stw tkw t2w cw
           Hpk Hcall Hkw Hcw Hticks k ck t Hlt Hk Hret).
Qed.

(** (D) Every CAS attempt that completes leaves the inspected state object
    replaced by exactly one successful CAS, between the attempt's load and the
    attempt itself. *)
Theorem C03_cas_attempt_replaced : forall k ck t o l cs n,
  nth_error L k = Some (ck, t) -> at_pc cfg nl ck t o l -> cas_of l = Some (cs, n) ->
  exists i ci li, (i < k)%nat /\ nth_error L i = Some (ci, t) /\ at_pc cfg nl ci t o li /\
    is_load li = true /\ b_cur (c_sh ci) = cs /\
  exists j cj tj, (i < j <= k)%nat /\ nth_error L j = Some (cj, tj) /\ cas_succeeds cj tj cs /\
    (tj = t <-> j = k) /\ (cs < b_cur (c_sh (step_cfg M ck t)))%nat /\
    (forall j' cj' tj', nth_error L j' = Some (cj', tj') -> cas_succeeds cj' tj' cs -> j' = j).
Proof. apply cas_attempt_replaced. Qed.

Theorem C03_uncontended_cas_succeeds : forall k ck t o l cs n,
  nth_error L k = Some (ck, t) -> at_pc cfg nl ck t o l -> cas_of l = Some (cs, n) ->
  (forall j cj tj, (j < k)%nat -> nth_error L j = Some (cj, tj) -> tj <> t -> ~ cas_succeeds cj tj cs) ->
  cas_succeeds ck t cs.
Proof. apply uncontended_cas_succeeds. Qed.

(** Concurrent reports on a HALF_OPEN state object cause exactly one
    transition; a report whose CAS fails does nothing. *)
Theorem C03_reports_exactly_one_transition : forall k ck t o l cs n,
  nth_error L k = Some (ck, t) -> at_pc cfg nl ck t o l ->
  l = OSCas cs n \/ l = OFCas cs n None ->
  exists j cj tj, (j <= k)%nat /\ nth_error L j = Some (cj, tj) /\ cas_succeeds cj tj cs /\
    (forall j' cj' tj', nth_error L j' = Some (cj', tj') -> cas_succeeds cj' tj' cs -> j' = j) /\
    (cs < b_cur (c_sh (step_cfg M ck t)))%nat /\
    (j <> k -> c_sh (step_cfg M ck t) = c_sh ck /\ ret_at cfg nl ck t = Some BU).
Proof. apply reports_exactly_one_transition. Qed.

(** These CAS attempts are made by reports that found [cs] current and HALF_OPEN. *)
Theorem C03_os_call_of_cas : forall k ck t o cs n,
  nth_error L k = Some (ck, t) -> at_pc cfg nl ck t o (OSCas cs n) ->
  o = OnSuccess /\
  exists i ci st i3 c3 w,
    (i < i3 < k)%nat /\
    nth_error L i = Some (ci, t) /\ at_pc cfg nl ci t OnSuccess OSLoad /\
    b_cur (c_sh ci) = cs /\ nth1 (b_states (c_sh ci)) cs = Some st /\ st_kind st = KHalfOpen /\
    nth_error L i3 = Some (c3, t) /\ at_pc cfg nl c3 t OnSuccess (OSTick2 cs w) /\
    nth1 (b_states (c_sh ck)) n = Some (BState KClosed w (wrap64 (tick_of (c_sh c3) + 0)) 0) /\
    (cs < n)%nat.
Proof. apply os_call_of_cas. Qed.

Theorem C03_of_call_of_cas : forall k ck t o cs n,
  nth_error L k = Some (ck, t) -> at_pc cfg nl ck t o (OFCas cs n None) ->
  o = OnFailure /\
  exists i ci st i1 c1,
    (i < i1 < k)%nat /\
    nth_error L i = Some (ci, t) /\ at_pc cfg nl ci t OnFailure OFLoad /\
    b_cur (c_sh ci) = cs /\ nth1 (b_states (c_sh ci)) cs = Some st /\ st_kind st = KHalfOpen /\
    nth_error L i1 = Some (c1, t) /\ at_pc cfg nl c1 t OnFailure (OFTick cs None) /\
    nth1 (b_states (c_sh ck)) n =
      Some (BState KOpen 0 (wrap64 (tick_of (c_sh c1) + openw cfg)) (openw cfg)) /\
    (cs < n)%nat.
Proof. apply of_call_of_cas. Qed.

(** One reported success closes the circuit, with a brand-new empty window. *)
Theorem C03_success_closes : forall k ck t o cs n,
  nth_error L k = Some (ck, t) -> at_pc cfg nl ck t o (OSCas cs n) -> cas_succeeds ck t cs ->
  let s' := c_sh (step_cfg M ck t) in
  (exists w ts,
    b_cur s' = n /\ nth1 (b_states s') n = Some (BState KClosed w ts 0) /\
    b_states s' = b_states (c_sh ck) /\ b_wins s' = b_wins (c_sh ck) /\ b_buckets s' = b_buckets (c_sh ck) /\
    b_log s' = b_log (c_sh ck) ++ each nl (fun i => [(i, LStateChanged KClosed); (i, LCountUpdated 0 0)])) /\
  (exists w ts x bk,
    b_cur s' = n /\ nth1 (b_states s') n = Some (BState KClosed w ts 0) /\
    nth1 (b_wins s') w = Some x /\ w_cells x = [] /\ w_snap x = (0, 0) /\
    nth1 (b_buckets s') (w_cur x) = Some bk /\ bk_s bk = 0 /\ bk_f bk = 0).
Proof.
  intros k ck t o cs n Hk Hat Hc s'. split.
  - exact (success_closes cfg nl ticks progs sched k ck t o cs n Hk Hat Hc).
  - exact (success_closes_fresh_window cfg nl ticks progs sched k ck t o cs n Hk Hat Hc).
Qed.

(** One reported failure (re)opens the circuit for a full window: deadline =
    the reporter's tick reading + circuitOpenWindow. *)
Theorem C03_failure_reopens : forall k ck t o cs n e,
  nth_error L k = Some (ck, t) -> at_pc cfg nl ck t o (OFCas cs n e) -> cas_succeeds ck t cs ->
  let s' := c_sh (step_cfg M ck t) in
  exists i1 c1, (i1 < k)%nat /\ nth_error L i1 = Some (c1, t) /\ at_pc cfg nl c1 t o (OFTick cs e) /\
    b_cur s' = n /\
    nth1 (b_states s') n = Some (BState KOpen 0 (wrap64 (tick_of (c_sh c1) + openw cfg)) (openw cfg)) /\
    b_states s' = b_states (c_sh ck) /\ b_wins s' = b_wins (c_sh ck) /\ b_buckets s' = b_buckets (c_sh ck) /\
    b_log s' = b_log (c_sh ck) ++ each nl (fun i => [(i, LStateChanged KOpen); (i, LCountUpdated 0 0)]).
Proof. apply failure_reopens. Qed.

(** return values are the return events of the trace *)
Theorem C03_ret_in_trace : forall k ck t r,
  nth_error L k = Some (ck, t) -> ret_at cfg nl ck t = Some r ->
  exists o, In (ERet t o r) (trace M (bcfg0 nl ticks progs) sched).
Proof. apply ret_in_trace. Qed.

End C03One.

Print Assumptions C03_cr_call_of_cas.
Print Assumptions C03_rejected_after_expiry_implies_replaced.
Print Assumptions C03_admitted.
Print Assumptions C03_exactly_one_trial.
Print Assumptions C03_exactly_one_trial_count.
Print Assumptions C03_not_expired_rejected.
Print Assumptions C03_loser_logs_rejection.
Print Assumptions C03_winner_installs_half_open.
Print Assumptions C03_successor_rejects_before_deadline.
Print Assumptions C03_admitted_only_after_deadline.
Print Assumptions C03_others_rejected_until_trial_elapses.
Print Assumptions C03_all_rejected_while_trial_running.
Print Assumptions C03_cas_attempt_replaced.
Print Assumptions C03_uncontended_cas_succeeds.
Print Assumptions C03_reports_exactly_one_transition.
Print Assumptions C03_os_call_of_cas.
Print Assumptions C03_of_call_of_cas.
Print Assumptions C03_success_closes.
Print Assumptions C03_failure_reopens.
Print Assumptions C03_ret_in_trace.
