(** Non-vacuity audit of the property theorems - INDEX.

    The audit is split by component; each file starts with its own table
    (theorem -> example) and contains, for every CONDITIONAL property theorem
    [T] of theories/Properties/C*.v, at least one example [T_nonvacuous] (often
    more: [T_nonvacuous_<variant>], [T_values] = the instantiated conclusion
    evaluated) that applies [T] itself to explicit client programs, an
    explicit schedule and explicit log positions, all hypotheses being closed
    by [vm_compute] / [reflexivity] / [lia]:

      NonVacuityQueue.v    C01, C07, C07Fair, C13, C15, C19
      NonVacuityAdder.v    C02, C09, C09Set, C16
      NonVacuityBreaker.v  C03, C03One, C06, C10
      NonVacuityPool.v     C04, C08, C11, C11Expand, C12, C17
      NonVacuityRace.v     C14, C14HB
      NonVacuityPure.v     C05, C05Float, C18, C20

    Unconditional theorems (no example needed):
      C01_jdk_structure, C01_mutex_linearizable, C01_mutex_herlihy_wing,
      C02_mutex_adder, C05_fixed, C05_exponential_value, C05_limit,
      C05_of_bits_valid, C05_sat_mul_one_below_arg, C07_never_blocks,
      C07_total_termination, C07_bound_formula, C09_mutex_adder,
      C10_no_double_count, C10_conservation, C13_only_offered_values,
      C15_jdk_quiescent_drain, C15_mutex, C16_mutex_adder, C17_stop_critical_section_never_blocks,
      C18_total, C18_builder_total, C18_layers_in_order, C18_builder_call_sequences,
      C18_builder_rebuild_same, C18_builder_sequences_total, C19_* (all four).
    The six generic [striped_*] theorems of C09Set.v (Section Striped) are
    covered through their two specialisations C09set_jdk_* and C09set_jdk_f64_*.

    Below: [Print Assumptions] of every [*_nonvacuous*] example.  All are
    "Closed under the global context" except those instantiating C05Float / C20
    theorems, which inherit the axioms of the standard library of real numbers
    (Flocq), exactly as the theorems they instantiate. *)
From Garr Require Properties.NonVacuityQueue Properties.NonVacuityAdder Properties.NonVacuityBreaker
  Properties.NonVacuityPool Properties.NonVacuityRace Properties.NonVacuityPure.

(** * NonVacuityQueue.v : 20 examples *)
(** * NonVacuityAdder.v : 59 examples *)
(** * NonVacuityBreaker.v : 43 examples *)
(** * NonVacuityPool.v : 52 examples *)
(** * NonVacuityRace.v : 9 examples *)
(** * NonVacuityPure.v : 41 examples *)
