(** C14 - concurrent-safe APIs are free of data races (PARTIAL: the access
    discipline).  Property theorems only.  The instance theorem for the
    current source tree ([table_ok access_table = true] for the table that
    tools/accesstab extracts from /repo) is generated and checked on every
    run in build/gen/C14Check.v; here is the soundness of the decision
    procedure it relies on. *)
From Coq Require Import String List.
From Garr Require Import Race.Discipline.

(** If the extracted access table passes the computed check, then every field
    access and every sync-object method call in the sources obeys the
    protection class declared for its location: atomic words are touched only
    through sync/atomic outside their constructors, immutable fields are only
    initialised, guarded fields are used only inside functions that hold their
    mutex, and every mutating call on a sync object is one of the known sites. *)
Theorem C14_discipline_sound : forall t, table_ok t = true -> forall a, In a t -> obeys a.
Proof. exact table_ok_sound. Qed.
Print Assumptions C14_discipline_sound.
