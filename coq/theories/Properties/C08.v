(** Property C08 of the worker pool - theorems only. *)
From Coq Require Import List Arith Bool ZArith.
From Garr Require Import Conc.Conc Pool.PoolModel Pool.PoolBase Pool.PoolInv1 Pool.PoolTok Pool.PoolStop Pool.PoolStopMain Pool.PoolWg Pool.PoolCap Pool.PoolMain.
Import ListNotations.

(** Setting of all pool theorems: [pool_cfg nw autostart choices clients nslots] is a
    pool with [nw] fixed workers (auto-started or not), any select-oracle
    stream [choices], any client programs [clients] (threads calling Do,
    TryDo, Execute, TryExecute, Start, Stop, cancelling contexts, opening
    gates, firing timers, awaiting results) and [nslots] goroutine slots;
    [clients_ok]: clients only use client operations and every task is
    submitted once.  [c] ranges over ALL configurations reachable under ANY
    schedule. *)

(** C08 - Stop drains accepted work and leaves no goroutine behind.
    [drained]: the queue has been closed and the Stop thread is past
    wg.Wait() (it is draining left-over tasks or has returned).  Then the
    wait group is at zero, EVERY goroutine the pool ever started (fixed and
    expanded workers) has finished, no timer is armed or holds an unreceived
    expiry, and from then on - under any further schedule - nothing is
    started any more and the queue only shrinks (further Start / Stop calls
    have no effect).  Since a worker finishes only after the queue is closed
    and empty (or its idle timer fired), every task a worker took was executed
    to its end before. *)
Theorem C08_draining_is_past_the_wait : forall nw lim autostart choices clients nslots sched,
  clients_ok clients -> forall i l,
  at_pc (final (pool nw lim) (pool_cfg nw autostart choices clients nslots) sched) i l -> is_dr l = true ->
  drained (c_sh (final (pool nw lim) (pool_cfg nw autostart choices clients nslots) sched))
          (aths (final (pool nw lim) (pool_cfg nw autostart choices clients nslots) sched)).
Proof. exact draining_is_drained. Qed.

Theorem C08_stop_leaves_no_goroutine : forall nw lim autostart choices clients nslots sched,
  clients_ok clients ->
  let c := final (pool nw lim) (pool_cfg nw autostart choices clients nslots) sched in
  drained (c_sh c) (aths c) ->
  p_wg (c_sh c) = 0 /\
  (forall k, k < length (p_spawned (c_sh c)) ->
     exists th, nth_error (c_thr c) (length clients + k) = Some th /\ t_prog th = [] /\ t_cur th = None) /\
  (forall x, In x (p_timers (c_sh c)) -> tm_armed x = false /\ tm_fired x = false) /\
  (forall sched', let c' := final (pool nw lim) c sched' in
     drained (c_sh c') (aths c') /\ p_spawned (c_sh c') = p_spawned (c_sh c) /\
     exists pre, p_queue (c_sh c) = pre ++ p_queue (c_sh c')).
Proof. exact stop_leaves_no_goroutine. Qed.

(** the wait group counts exactly the live goroutines *)
Theorem C08_wait_group_counts_live_goroutines : forall nw lim autostart choices clients nslots sched,
  clients_ok clients -> nw + cntdo (concat clients) <= nslots ->
  let c := final (pool nw lim) (pool_cfg nw autostart choices clients nslots) sched in
  p_wg (c_sh c) = length (filter unfinished (firstn (length (p_spawned (c_sh c))) (skipn (length clients) (c_thr c)))).
Proof. exact wg_counts_live. Qed.

(** a pending timer always belongs to a live expanded worker *)
Theorem C08_timer_owned : forall nw lim autostart choices clients nslots sched,
  clients_ok clients -> forall j x,
  let c := final (pool nw lim) (pool_cfg nw autostart choices clients nslots) sched in
  nth_error (p_timers (c_sh c)) j = Some x -> tm_armed x || tm_fired x = true ->
  exists i, at_pc c i (XSelect (S j)) \/ exists got, at_pc c i (XStopTimer (S j) got).
Proof. exact armed_timer_owned. Qed.
Print Assumptions C08_stop_leaves_no_goroutine.
Print Assumptions C08_wait_group_counts_live_goroutines.

(** ---- trace-level statements (what holds once Stop has RETURNED, where an accepted task is,
    backpressure and cancellation).
    Vocabulary.
    - [accepted x tr]: the trace contains the return of the submission of task x
      with "accepted": Do / Execute returned, TryDo / TryExecute returned true.
    - [returned x tr]: the submission of x has returned (any value).
    - [results c tr x]: the results delivered to x's result channel so far:
      those still in the channel, followed by those already received (the trace
      records them: Await / PollRes returned a value).
    - [res_ok x n r]: r is x's own value and n = 1, or r is the cancellation
      result and n = 0 (n = number of executions of x).
    - [stop_done c]: the state word is 2 and no thread is between Stop's CAS
      and the end of its drain loop, i.e. the Stop call that won the CAS has
      returned.  A second Stop call racing with the first returns at once
      ([PoolSafeExamples.second_stop_returns_early]), so "some Stop call has
      returned" alone is NOT enough; it is enough when no thread is inside a
      Stop call any more, or when the programs contain at most one Stop.
    - [Hwk x], [Hdr x], [H1 x]: number of worker goroutines holding x (taken
      from the queue, not yet answered) / of drain loops holding x / of
      workers executing x. *)
From Garr Require Import Pool.PoolStopDone Pool.PoolAcct Pool.PoolHist Pool.PoolAfterStop Pool.PoolStopCount
  Pool.PoolLateSubmit Pool.PoolSelect Pool.PoolTimers Pool.PoolLive Pool.PoolProgress Pool.PoolFacts.

(** (A) C08 / C12 - once the effective Stop has returned no work is left *)
Theorem C08_Stop_returned_no_work_left : forall nw lim autostart choices clients nslots,
  clients_ok clients -> forall sched,
  let c := final (pool nw lim) (pool_cfg nw autostart choices clients nslots) sched in
  let tr := trace (pool nw lim) (pool_cfg nw autostart choices clients nslots) sched in
  stop_done c ->
  p_queue (c_sh c) = [] /\ p_qclosed (c_sh c) = true /\ p_closedflag (c_sh c) = true /\
  p_poolctx (c_sh c) = true /\ p_wg (c_sh c) = 0 /\
  (forall k, k < length (p_spawned (c_sh c)) ->
     exists th, nth_error (c_thr c) (length clients + k) = Some th /\ t_prog th = [] /\ t_cur th = None) /\
  (forall x, In x (p_timers (c_sh c)) -> tm_armed x = false /\ tm_fired x = false) /\
  (forall i l, at_pc c i l -> worker_pc l = false /\ is_stop l = false) /\
  (forall x, H1 x (aths c) = 0 /\ Hwk x (aths c) = 0 /\ Hdr x (aths c) = 0) /\
  (forall x, accepted x tr ->
     exists t r, get_task (c_sh c) x = Some t /\ results c tr x = [r] /\ res_ok x (tk_execs t) r /\ tk_execs t <= 1).
Proof. exact stop_returned_no_work_left. Qed.

(** links between the trace and [stop_done] *)
Theorem C08_Stop_done_when_no_Stop_in_progress : forall nw lim autostart choices clients nslots,
  clients_ok clients -> forall sched,
  let c := final (pool nw lim) (pool_cfg nw autostart choices clients nslots) sched in
  let tr := trace (pool nw lim) (pool_cfg nw autostart choices clients nslots) sched in
  stop_returned tr ->
  (forall i th o l, nth_error (c_thr c) i = Some th -> t_cur th = Some (o, l) -> o <> Stop) ->
  stop_done c.
Proof. exact stop_done_from_trace. Qed.


Theorem C08_Stop_done_single_Stop : forall nw lim autostart choices clients nslots,
  clients_ok clients -> forall sched,
  let c := final (pool nw lim) (pool_cfg nw autostart choices clients nslots) sched in
  let tr := trace (pool nw lim) (pool_cfg nw autostart choices clients nslots) sched in
  cstop (concat clients) <= 1 -> stop_returned tr -> stop_done c.
Proof. exact stop_done_single_stop. Qed.


Theorem C08_Stop_done_is_stable : forall nw lim autostart choices clients nslots,
  clients_ok clients -> forall sched1 sched2,
  stop_done (final (pool nw lim) (pool_cfg nw autostart choices clients nslots) sched1) ->
  stop_done (final (pool nw lim) (final (pool nw lim) (pool_cfg nw autostart choices clients nslots) sched1) sched2).
Proof. exact stop_done_stable. Qed.

(** (A, end) a submission that starts after the effective Stop has returned is refused: never
    queued, never held by a worker, never executed, never answered "true"; once it has returned
    the task has exactly one result, the cancellation result *)
Theorem C08_Submission_after_Stop_refused : forall nw lim autostart choices clients nslots,
  clients_ok clients -> forall sched1 sched2 j th o x,
  let c1 := final (pool nw lim) (pool_cfg nw autostart choices clients nslots) sched1 in
  let c2 := final (pool nw lim) c1 sched2 in
  let tr := trace (pool nw lim) (pool_cfg nw autostart choices clients nslots) sched1 ++ trace (pool nw lim) c1 sched2 in
  stop_done c1 -> nth_error (c_thr c1) j = Some th -> In o (t_prog th) -> sub_id o = Some x ->
  stop_done c2 /\
  p_queue (c_sh c2) = [] /\ Hwk x (aths c2) = 0 /\ Hdr x (aths c2) = 0 /\ H1 x (aths c2) = 0 /\
  (forall t, get_task (c_sh c2) x = Some t -> tk_execs t = 0) /\
  (forall i o' r, In (ERet i o' r) tr -> sub_id o' = Some x -> r = PU \/ r = PB false) /\
  (returned x tr ->
     exists t, get_task (c_sh c2) x = Some t /\ results c2 tr x = [TCanceled] /\ tk_execs t = 0).
Proof. exact submission_after_stop_refused. Qed.

(** an expanded worker never waits in the drain of its timer channel (timer.Stop() never fails) *)
Theorem C08_Timer_drain_never_reached : forall nw lim autostart choices clients nslots sched,
  clients_ok clients ->
  let c := final (pool nw lim) (pool_cfg nw autostart choices clients nslots) sched in
  forall i tm got, ~ at_pc c i (XDrainTimer tm got).
Proof. exact timer_drain_never_reached. Qed.

Print Assumptions C08_Stop_returned_no_work_left.
Print Assumptions C08_Stop_done_when_no_Stop_in_progress.
Print Assumptions C08_Stop_done_single_Stop.
Print Assumptions C08_Stop_done_is_stable.
Print Assumptions C08_Submission_after_Stop_refused.
Print Assumptions C08_Timer_drain_never_reached.
