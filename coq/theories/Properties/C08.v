(** Property C08 of the worker pool - theorems only. *)
From Coq Require Import List Arith Bool ZArith.
From Garr Require Import Conc.Conc Pool.PoolModel Pool.PoolBase Pool.PoolInv1 Pool.PoolTok Pool.PoolStop Pool.PoolStopMain Pool.PoolWg Pool.PoolCap Pool.PoolMain.
Import ListNotations.

(** Setting of all pool theorems: [pool_cfg nw autostart choices clients nslots] is a
    pool with [nw] fixed workers (auto-started or not), any select-oracle
    stream [choices], any client programs [clients] (threads calling Do,
    TryDo, Execute, TryExecute, Start, Stop, cancelling contexts, opening
    gates, firing timers, awaiting results) and [nslots] goroutine slots;
    [clients_ok]: clients only use client operations and every task is
    submitted once.  [c] ranges over ALL configurations reachable under ANY
    schedule. *)

(** C08 - Stop drains accepted work and leaves no goroutine behind.
    [drained]: the queue has been closed and the Stop thread is past
    wg.Wait() (it is draining left-over tasks or has returned).  Then the
    wait group is at zero, EVERY goroutine the pool ever started (fixed and
    expanded workers) has finished, no timer is armed or holds an unreceived
    expiry, and from then on - under any further schedule - nothing is
    started any more and the queue only shrinks (further Start / Stop calls
    have no effect).  Since a worker finishes only after the queue is closed
    and empty (or its idle timer fired), every task a worker took was executed
    to its end before. *)
Theorem C08_draining_is_past_the_wait : forall nw lim autostart choices clients nslots sched,
  clients_ok clients -> forall i l,
  at_pc (final (pool nw lim) (pool_cfg nw autostart choices clients nslots) sched) i l -> is_dr l = true ->
  drained (c_sh (final (pool nw lim) (pool_cfg nw autostart choices clients nslots) sched))
          (aths (final (pool nw lim) (pool_cfg nw autostart choices clients nslots) sched)).
Proof. exact draining_is_drained. Qed.

Theorem C08_stop_leaves_no_goroutine : forall nw lim autostart choices clients nslots sched,
  clients_ok clients ->
  let c := final (pool nw lim) (pool_cfg nw autostart choices clients nslots) sched in
  drained (c_sh c) (aths c) ->
  p_wg (c_sh c) = 0 /\
  (forall k, k < length (p_spawned (c_sh c)) ->
     exists th, nth_error (c_thr c) (length clients + k) = Some th /\ t_prog th = [] /\ t_cur th = None) /\
  (forall x, In x (p_timers (c_sh c)) -> tm_armed x = false /\ tm_fired x = false) /\
  (forall sched', let c' := final (pool nw lim) c sched' in
     drained (c_sh c') (aths c') /\ p_spawned (c_sh c') = p_spawned (c_sh c) /\
     exists pre, p_queue (c_sh c) = pre ++ p_queue (c_sh c')).
Proof. exact stop_leaves_no_goroutine. Qed.

(** the wait group counts exactly the live goroutines *)
Theorem C08_wait_group_counts_live_goroutines : forall nw lim autostart choices clients nslots sched,
  clients_ok clients -> nw + cntdo (concat clients) <= nslots ->
  let c := final (pool nw lim) (pool_cfg nw autostart choices clients nslots) sched in
  p_wg (c_sh c) = length (filter unfinished (firstn (length (p_spawned (c_sh c))) (skipn (length clients) (c_thr c)))).
Proof. exact wg_counts_live. Qed.

(** a pending timer always belongs to a live expanded worker *)
Theorem C08_timer_owned : forall nw lim autostart choices clients nslots sched,
  clients_ok clients -> forall j x,
  let c := final (pool nw lim) (pool_cfg nw autostart choices clients nslots) sched in
  nth_error (p_timers (c_sh c)) j = Some x -> tm_armed x || tm_fired x = true ->
  exists i, at_pc c i (XSelect (S j)) \/ exists got, at_pc c i (XStopTimer (S j) got).
Proof. exact armed_timer_owned. Qed.
Print Assumptions C08_stop_leaves_no_goroutine.
Print Assumptions C08_wait_group_counts_live_goroutines.
