(** Property C11 of the worker pool - theorems only. *)
From Coq Require Import List Arith Bool ZArith.
From Garr Require Import Conc.Conc Pool.PoolModel Pool.PoolBase Pool.PoolInv1 Pool.PoolTok Pool.PoolStop Pool.PoolStopMain Pool.PoolWg Pool.PoolCap Pool.PoolMain.
Import ListNotations.

(** Setting of all pool theorems: [pool_cfg nw autostart choices clients nslots] is a
    pool with [nw] fixed workers (auto-started or not), any select-oracle
    stream [choices], any client programs [clients] (threads calling Do,
    TryDo, Execute, TryExecute, Start, Stop, cancelling contexts, opening
    gates, firing timers, awaiting results) and [nslots] goroutine slots;
    [clients_ok]: clients only use client operations and every task is
    submitted once.  [c] ranges over ALL configurations reachable under ANY
    schedule. *)

Local Open Scope Z_scope.
(** C11 - pool parallelism is capped.  In every reachable configuration the
    number of threads inside an executor (between its begin and its end) is at
    most NumberWorker + ExpandableLimit.  Hypothesis: limit + number of client
    threads < 2^31 - the int32 counter [expanded] could otherwise wrap
    (PoolExamples.expanded_wraps shows the wrap as a single step; it needs 2^31
    concurrent submitters and is documented, not a finding).
    "Reaches its cap" and "expansion is temporary" are liveness / timing
    clauses: covered on the real code by the gated-task scenarios (high-water
    mark = cap, counter back to zero after the timers fired), not theorems;
    the accounting identity below is their safety core. *)
Theorem C11_parallelism_capped : forall nw lim autostart choices clients nslots sched,
  clients_ok clients -> 0 <= lim -> lim + Z.of_nat (length clients) < 2 ^ 31 ->
  (cntp is_exec (aths (final (pool nw lim) (pool_cfg nw autostart choices clients nslots) sched)) <= nw + Z.to_nat lim)%nat.
Proof. exact parallelism_capped. Qed.

Theorem C11_capped_threads : forall nw lim autostart choices clients nslots sched,
  clients_ok clients -> 0 <= lim -> lim + Z.of_nat (length clients) < 2 ^ 31 ->
  forall ids, NoDup ids ->
  (forall i, In i ids -> exists l, at_pc (final (pool nw lim) (pool_cfg nw autostart choices clients nslots) sched) i l /\ is_exec l = true) ->
  (length ids <= nw + Z.to_nat lim)%nat.
Proof. exact parallelism_capped_threads. Qed.

(** reserve-then-spawn accounting: the counter equals live-or-reserved expanded
    workers plus transient over-reservations; live + reserved never exceeds the
    limit; at most NumberWorker fixed workers are ever started. *)
Theorem C11_expanded_accounting : forall nw lim autostart choices clients nslots sched,
  clients_ok clients -> 0 <= lim -> lim + Z.of_nat (length clients) < 2 ^ 31 ->
  let c := final (pool nw lim) (pool_cfg nw autostart choices clients nslots) sched in
  p_expanded (c_sh c) = Z.of_nat (nRE (c_sh c) + cntp is_wgadd (aths c) + cntp is_subsub (aths c)) - Z.of_nat (nD (length clients) (c_sh c) (aths c)) /\
  Z.of_nat (nRE (c_sh c) + cntp is_wgadd (aths c)) - Z.of_nat (nD (length clients) (c_sh c) (aths c)) <= lim /\
  (nD (length clients) (c_sh c) (aths c) <= nRE (c_sh c))%nat.
Proof. exact expanded_accounting. Qed.
Theorem C11_fixed_workers_bounded : forall nw lim autostart choices clients nslots sched,
  clients_ok clients -> 0 <= lim -> lim + Z.of_nat (length clients) < 2 ^ 31 ->
  (nRW (c_sh (final (pool nw lim) (pool_cfg nw autostart choices clients nslots) sched)) <= nw)%nat.
Proof. exact rworkers_bounded. Qed.
Print Assumptions C11_parallelism_capped.
Print Assumptions C11_expanded_accounting.
