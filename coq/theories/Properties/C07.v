(** C07 - lock-free queue operations always terminate, even if other
    goroutines stall.  Property theorems only. *)
From Coq Require Import List Arith.
From Garr Require Import Conc.Conc Queue.JdkModel Queue.JdkInv Queue.JdkProgress.
Import ListNotations.

(** No operation of the lock-free queue ever waits for another goroutine: no
    step of any operation (Offer, Poll, Peek, IsEmpty, Size, iterator
    construction, HasNext, Next, Remove) is ever disabled. *)
Theorem C07_never_blocks : forall l s, qstep l s <> Blocked.
Proof. exact jdk_never_blocks. Qed.
Print Assumptions C07_never_blocks.

(** From EVERY reachable configuration (any client programs, any schedule so
    far - the other threads may be suspended at any point inside the queue
    and never resume) a thread that runs alone finishes its current call (or,
    when idle, its next call) within 4*nodes+13 of its own steps, nodes being
    the number of nodes ever linked.  Hence no interleaving can deadlock or
    livelock the queue and a stalled goroutine never blocks producers or
    consumers. *)
Theorem C07_solo_termination_bound : forall progs sched t th,
  let c := final jdk (jdk_init progs) sched in
  nth_error (c_thr c) t = Some th -> 0 < work_left th ->
  exists n th', n <= 4 * length (q_nodes (c_sh c)) + 13 /\
     nth_error (c_thr (solo c t n)) t = Some th' /\ work_left th' < work_left th.
Proof. exact jdk_solo_terminates_tight. Qed.
Print Assumptions C07_solo_termination_bound.
