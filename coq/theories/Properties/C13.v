(** C13 - queue iterators are weakly consistent and Remove removes only what
    Next returned.  Property theorems only: any programs, any number of
    threads, any interleaving of iterators with Offer / Poll / Remove.
    Addresses are link order = queue order; a node's value never changes;
    [live] only ever goes from true to false. *)
From Coq Require Import List Arith.
From Garr Require Import Conc.Conc Queue.JdkModel Queue.JdkInv Queue.JdkLin Queue.JdkProgress Queue.JdkIter.
Import ListNotations.

(** Only offered values: every node from address 2 on carries a non-nil value
    that some Offer linked; the captured value of a cursor is the value of its
    node; [it_last < it_node]. *)
Theorem C13_only_offered_values : forall progs sched,
  let s := c_sh (final jdk (jdk_init progs) sched) in
  live s 1 = false /\ forall a, 2 <= a -> a <= len s -> val s a <> 0.
Proof. exact jdk_nodes_offered. Qed.

(** A completed Next returns the value captured for the cursor node, moves
    the cursor strictly forward and skips only dead nodes: either the cursor
    becomes nil and every later node is dead at that instant, or it stops at a
    node that is live at that instant and everything in between is dead. *)
Theorem C13_next_skips_only_dead : forall progs sched t th l fresh r ts' s',
  let c := final jdk (jdk_init progs) sched in
  let s := c_sh c in
  let c0 := it_node (t_ts th) in
  nth_error (c_thr c) t = Some th -> view jdk th = Some (ItNext, l, fresh) ->
  qstep l s = Done r ts' s' -> c0 <> 0 ->
  s' = s /\ r = RVal (val s c0) /\ 2 <= c0 /\ c0 <= len s /\ val s c0 <> 0 /\ it_last ts' = c0 /\
  ((it_node ts' = 0 /\ it_has ts' = false /\ forall a, c0 < a -> a <= len s -> live s a = false) \/
   (c0 < it_node ts' /\ it_node ts' <= len s /\ it_has ts' = true /\
    live s (it_node ts') = true /\ it_val ts' = val s (it_node ts') /\
    forall a, c0 < a -> a < it_node ts' -> live s a = false)).
Proof. exact jdk_next_done. Qed.

(** Each element at most once and in queue order: within one traversal the
    node addresses returned by successive Next calls strictly increase. *)
Theorem C13_at_most_once_in_order : forall progs sched t i j ci cj thi thj li lj fri frj ri rj tsi tsj si sj,
  let steps := steps_of jdk (jdk_init progs) sched in
  nth_error steps i = Some (ci, t) -> nth_error steps j = Some (cj, t) -> i < j ->
  nth_error (c_thr ci) t = Some thi -> view jdk thi = Some (ItNext, li, fri) ->
  qstep li (c_sh ci) = Done ri tsi si -> it_node (t_ts thi) <> 0 ->
  nth_error (c_thr cj) t = Some thj -> view jdk thj = Some (ItNext, lj, frj) ->
  qstep lj (c_sh cj) = Done rj tsj sj -> it_node (t_ts thj) <> 0 ->
  (forall k ck, i < k -> k < j -> nth_error steps k = Some (ck, t) -> op_of ck t <> Some IterNew) ->
  it_node (t_ts thi) < it_node (t_ts thj) /\
  ri = RVal (val (c_sh ci) (it_node (t_ts thi))) /\ rj = RVal (val (c_sh cj) (it_node (t_ts thj))).
Proof. exact jdk_traversal_ordered. Qed.

(** Completeness: every element still in the queue when a Next of the
    traversal returns is either at or behind the new cursor (still to come)
    or has been returned by a Next of this traversal - so an element that
    stays in the queue for the whole traversal is returned. *)
Theorem C13_returns_every_stable_element :
  forall progs sched t i0 j c0 cj th0 thj l0 lj fr0 frj r0 rj ts0 tsj s0 sj a,
  let steps := steps_of jdk (jdk_init progs) sched in
  nth_error steps i0 = Some (c0, t) -> nth_error steps j = Some (cj, t) -> i0 < j ->
  nth_error (c_thr c0) t = Some th0 -> view jdk th0 = Some (IterNew, l0, fr0) ->
  qstep l0 (c_sh c0) = Done r0 ts0 s0 ->
  nth_error (c_thr cj) t = Some thj -> view jdk thj = Some (ItNext, lj, frj) ->
  qstep lj (c_sh cj) = Done rj tsj sj -> it_node (t_ts thj) <> 0 ->
  (forall k ck, i0 < k -> k < j -> nth_error steps k = Some (ck, t) -> op_of ck t <> Some IterNew) ->
  inr (c_sh cj) a -> live (c_sh cj) a = true ->
  (it_node tsj <> 0 /\ it_node tsj <= a) \/
  exists m cm, i0 < m /\ m <= j /\ nth_error steps m = Some (cm, t) /\ next_returns cm t a.
Proof. exact jdk_traversal_complete. Qed.

(** Remove deletes exactly the node last returned by Next and nothing else. *)
Theorem C13_remove_kills_last_returned : forall progs sched t th l fresh r ts' s',
  let c := final jdk (jdk_init progs) sched in
  let s := c_sh c in
  let lst := it_last (t_ts th) in
  nth_error (c_thr c) t = Some th -> view jdk th = Some (Remove, l, fresh) ->
  qstep l s = Done r ts' s' ->
  r = RUnit /\ it_last ts' = 0 /\
  it_node ts' = it_node (t_ts th) /\ it_has ts' = it_has (t_ts th) /\ it_val ts' = it_val (t_ts th) /\
  (lst = 0 -> s' = s) /\
  (lst <> 0 ->
     1 <= lst /\ lst <= len s /\ l_pc l = RSet lst /\
     q_head s' = q_head s /\ q_tail s' = q_tail s /\ len s' = len s /\
     forall a, nd s' a = if Nat.eqb a lst then Node (val s lst) false (nxt s lst) else nd s a).
Proof. exact jdk_remove_done. Qed.

(** Exactly one fate: every offered element is still queued (never taken out),
    or was taken out by exactly one step - the item CAS of the one Poll that
    returns its value, or the store of a Remove whose iterator had returned it
    last; a dead element stays dead. *)
Theorem C13_exactly_one_fate : forall progs sched a,
  let c := final jdk (jdk_init progs) sched in
  let steps := steps_of jdk (jdk_init progs) sched in
  2 <= a -> a <= len (c_sh c) ->
  (live (c_sh c) a = true /\ forall i ci ti, nth_error steps i = Some (ci, ti) -> ~ kills ci ti a) \/
  (live (c_sh c) a = false /\
   exists i ci ti, nth_error steps i = Some (ci, ti) /\ kills ci ti a /\
     (forall j cj tj, nth_error steps j = Some (cj, tj) -> kills cj tj a -> j = i) /\
     exists th o l fresh,
       nth_error (c_thr ci) ti = Some th /\ view jdk th = Some (o, l, fresh) /\
       ((o = Poll /\ (exists h, l_pc l = PCasItem h a) /\
         pend_of_out (qstep l (c_sh ci)) = Some (RVal (val (c_sh ci) a))) \/
        (o = Remove /\ l_pc l = RSet a /\ a = it_last (t_ts th)))).
Proof. exact jdk_exactly_one_fate. Qed.

Print Assumptions C13_next_skips_only_dead.
Print Assumptions C13_at_most_once_in_order.
Print Assumptions C13_returns_every_stable_element.
Print Assumptions C13_exactly_one_fate.
