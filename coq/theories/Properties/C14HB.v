(** C14 - concurrent-safe APIs are free of data races: the step from the
    access discipline to data-race freedom, as theorems over the abstract
    execution model of [Race.HBModel] (Go memory model happens-before).
    Property theorems only; definitions and proofs are in Race/HB*.v. *)
From Coq Require Import String List.
From Garr Require Import Race.Discipline Race.HBModel Race.HB Race.HBStatic Race.HBPublish Race.HBEscape Race.HBStaticEscape.

(** A well-formed execution in which every accessed location obeys one of the
    protection classes (atomic / guarded by a mutex / immutable after
    publication / owned) has no data race. *)
Theorem C14_discipline_implies_drf : forall E, wf E -> disciplined E -> ~ data_race E.
Proof. exact discipline_implies_drf. Qed.
Print Assumptions C14_discipline_implies_drf.

(** If the extracted access table passes the computed check and the execution
    stems from the table as [static_to_dynamic] states, the execution has no
    data race. *)
Theorem C14_table_implies_drf :
  forall T E src fld creator guard elem,
    table_ok T = true -> static_to_dynamic T E src fld creator guard elem -> wf E ->
    ~ data_race E.
Proof. exact table_ok_implies_drf. Qed.
Print Assumptions C14_table_implies_drf.

(** The same with an operational notion of publication: no happens-before
    hypothesis on other goroutines' accesses.  Every accessed location is
    atomic / immutable / guarded - up to accesses of the creating goroutine
    that precede every event at which it lets a reference to the object
    escape - or owned; references obey their plain semantics ([ref_flow]). *)
Theorem C14_escape_discipline_implies_drf :
  forall E obj_of creator gets gives,
    wf_mutex E -> esc_disciplined E obj_of creator gives -> ref_flow E obj_of creator gets gives ->
    ~ data_race E.
Proof. exact escape_discipline_drf. Qed.
Print Assumptions C14_escape_discipline_implies_drf.

Theorem C14_table_implies_drf_esc :
  forall T E src fld obj_of creator gets gives guard elem,
    table_ok T = true ->
    static_to_dynamic_esc T E src fld obj_of creator gives guard elem ->
    wf_mutex E -> ref_flow E obj_of creator gets gives ->
    ~ data_race E.
Proof. exact table_ok_implies_drf_esc. Qed.
Print Assumptions C14_table_implies_drf_esc.
