(** C01 - queues are linearizable FIFO queues.  Property theorems only. *)
From Coq Require Import List.
From Garr Require Import Conc.Conc Conc.Lin Queue.JdkModel Queue.MutexModel.
From Garr Require Queue.MutexProofs.
From Garr Require Import Queue.JdkInv Queue.JdkLin Conc.LinHW Queue.MutexHW.
Import ListNotations.

(** Lock-free queue: for every client program over Offer / Poll / Peek /
    IsEmpty (any number of threads, any order, any prefill through Offers) and
    every interleaving of the atomic steps, each call takes effect at one of
    its own steps - the successful link CAS for Offer, the successful item CAS
    for a Poll that returns a value, the load that finds the dead last node
    for Poll/Peek -> nil and IsEmpty -> true, the load of a live item for
    Peek -> v and IsEmpty -> false - and the values returned are exactly those
    of the sequential FIFO queue run in that order. *)
Theorem C01_jdk_linearizable :
  forall (progs : list (list qop)) (sched : list nat),
    fifo_only progs ->
    lin_ok jdk MutexProofs.qret_eqb MutexProofs.fifo_spec jdk_lp qinit qiter0 [] progs sched = true.
Proof. exact jdk_linearizable_fifo. Qed.
Print Assumptions C01_jdk_linearizable.

(** No execution of any program (iterators and Size included) dereferences nil,
    and the structural invariants of the linked list (successor order, unique
    last node, dead prefix before head, self-links only behind head, shortcut
    links skip only dead nodes) hold in every reachable state. *)
Theorem C01_jdk_structure :
  forall (progs : list (list qop)) (sched : list nat),
    QInv (c_sh (final jdk (jdk_init progs) sched)) /\
    (forall th, In th (c_thr (final jdk (jdk_init progs) sched)) -> t_dead th = false).
Proof. exact jdk_invariant. Qed.
Print Assumptions C01_jdk_structure.

(** Mutex queue: linearizable as a FIFO queue (with Size and IsEmpty) *)
Theorem C01_mutex_linearizable :
  forall (progs : list (list qop)) (sched : list nat),
    lin_ok mutexq MutexProofs.qret_eqb MutexProofs.fifo_spec MutexProofs.mutex_lp minit tt [] progs sched = true.
Proof. exact MutexProofs.mutex_queue_linearizable. Qed.
Print Assumptions C01_mutex_linearizable.

(** The same in the classical form of Herlihy & Wing: the history (completed by
    responses for some pending calls that already took effect, the others
    dropped) is equivalent to a legal sequential FIFO history whose order
    extends the real-time order of the calls.  [lin_ok_hw] proves once, for
    every machine, that the executable check implies this. *)
Theorem C01_jdk_herlihy_wing : forall progs sched, fifo_only progs ->
  hw_linearizable MutexProofs.fifo_spec [] (trace jdk (init qlocal qinit qiter0 progs) sched).
Proof.
  intros progs sched H. eapply lin_ok_hw; [exact qret_eqb_eq|]. apply jdk_linearizable_fifo; exact H.
Qed.
Theorem C01_mutex_herlihy_wing : forall progs sched,
  hw_linearizable MutexProofs.fifo_spec [] (trace mutexq (init _ minit tt progs) sched).
Proof. exact mutex_queue_hw_linearizable. Qed.
Print Assumptions C01_jdk_herlihy_wing.
Print Assumptions C01_mutex_herlihy_wing.
