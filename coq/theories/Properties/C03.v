(** C03 - the breaker fails fast while open and admits exactly one trial at a
    time.  Property theorems only: any number of callers, any interleaving,
    any ticker stream, any configuration, any number of listeners. *)
From Coq Require Import List Arith Bool ZArith.
From Garr Require Import Conc.Conc Pure.F64 Pure.Config Breaker.BreakerModel
  Breaker.ConcBase Breaker.ConcInv Breaker.ConcWin Breaker.ConcFreshStep Breaker.ConcFresh.
Import ListNotations.

(** A closed circuit admits everybody. *)
Theorem C03_closed_admits : forall cfg nl s st,
  nth1 (b_states s) (b_cur s) = Some st -> st_kind st = KClosed ->
  bstep cfg nl CRLoad s = Done (BB true) tt s.
Proof. intros; eapply closed_admits; eauto. Qed.

(** Who can be admitted at all: a caller that found the circuit CLOSED, or the
    caller whose CAS replaces the state object it inspected. *)
Theorem C03_admission_sources : forall cfg nl l s s',
  bstep cfg nl l s = Done (BB true) tt s' ->
  (l = CRLoad /\ exists st, nth1 (b_states s) (b_cur s) = Some st /\ st_kind st = KClosed /\ s' = s) \/
  (exists cs n, l = CRCas cs n /\ b_cur s = cs /\ b_cur s' = n).
Proof. exact admission_sources. Qed.

(** A caller reaches that CAS only from an OPEN / HALF_OPEN state object with a
    positive window whose deadline it saw expired, and what it installs is a
    fresh HALF_OPEN state whose deadline is the trial interval. *)
Theorem C03_trial_cas : forall cfg nl ticks progs sched th o cs n,
  In th (c_thr (final (breaker cfg nl) (bcfg0 nl ticks progs) sched)) ->
  t_cur th = Some (o, CRCas cs n) ->
  let s := c_sh (final (breaker cfg nl) (bcfg0 nl ticks progs) sched) in
  (exists st, nth1 (b_states s) cs = Some st /\ st_kind st <> KClosed /\ (0 < st_dur st)%Z) /\
  (exists t2, nth1 (b_states s) n = Some (BState KHalfOpen 0 (wrap64 (t2 + trial cfg)) (trial cfg))).
Proof. exact trial_cas_invariant. Qed.

(** Every state object is replaced at most once in the whole execution (the
    state pointer only moves forward, no ABA): among any number of concurrent
    CanRequest / OnSuccess / OnFailure calls that inspected the same state
    object, at most one CAS succeeds - at most one trial is admitted per
    open / half-open period, and concurrent reports cause exactly one
    transition. *)
Theorem C03_one_transition_per_state : forall cfg nl ticks progs sched i j ci ti cj tj cs,
  let L := steps_of (breaker cfg nl) (bcfg0 nl ticks progs) sched in
  nth_error L i = Some (ci, ti) -> nth_error L j = Some (cj, tj) ->
  cas_succeeds ci ti cs -> cas_succeeds cj tj cs -> i = j.
Proof. exact one_transition_per_state. Qed.

(** Fail fast: a caller that reads a tick before the deadline of the state
    object it inspected is rejected, and every listener is told exactly once. *)
Theorem C03_fail_fast : forall cfg nl cs s st t r,
  nth1 (b_states s) cs = Some st -> b_ticks s = t :: r -> (t < st_timeout st)%Z ->
  exists s', bstep cfg nl (CRTick cs) s = Done (BB false) tt s' /\
             b_log s' = b_log s ++ map (fun i => (i, LRejected)) (seq 0 nl) /\
             b_states s' = b_states s /\ b_cur s' = b_cur s.
Proof.
  intros cfg nl cs s st t r H1 H2 H3.
  destruct (fail_fast cfg nl cs s st t r H1 H2 H3) as (s' & Hs & Hl & He & Hst & Hc & _).
  exists s'. rewrite <- He. repeat split; assumption.
Qed.

(** Open and half-open states carry no counter, so reports cannot re-trip or
    close an open circuit; a success report on a half-open circuit installs a
    CLOSED state with a brand-new, empty window that nobody else refers to. *)
Theorem C03_nonclosed_no_counter : forall cfg nl ticks progs sched i st,
  nth1 (b_states (c_sh (final (breaker cfg nl) (bcfg0 nl ticks progs) sched))) i = Some st ->
  st_kind st <> KClosed -> st_win st = 0%nat.
Proof. exact nonclosed_no_counter. Qed.
Theorem C03_open_ignores_reports : forall cfg nl s st,
  nth1 (b_states s) (b_cur s) = Some st -> st_kind st = KOpen ->
  bstep cfg nl OSLoad s = Done BU tt s /\ bstep cfg nl OFLoad s = Done BU tt s.
Proof. intros; eapply open_report_noop; eauto. Qed.

Print Assumptions C03_one_transition_per_state.
Print Assumptions C03_trial_cas.
Print Assumptions C03_fail_fast.
Print Assumptions C03_nonclosed_no_counter.
