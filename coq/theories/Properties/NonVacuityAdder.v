(** Non-vacuity audit of the ADDER property files: Properties/C02.v, C09.v, C09Set.v, C16.v.

    For every theorem of these files that has a hypothesis, a concrete instance (explicit client
    programs with 2-3 goroutines, explicit probe stream, explicit schedule, explicit log positions)
    for which ALL hypotheses hold - every side fact is closed by [vm_compute; reflexivity] - and the
    property theorem itself applied with all its arguments explicit.  [*_nonvacuous] is the literal
    instance, [*_nonvacuous_value] restates its conclusion with the numbers evaluated.

    theorem                                       -> example
    ---------------------------------------------------------------------------------------------
    C02_jdk_adder                                 -> C02_jdk_adder_nonvacuous (+ _value)          [3 goroutines, 73 steps, table created AND grown 2->4]
    C02_jdk_f64_adder                             -> C02_jdk_f64_adder_nonvacuous (+ _value)      [82 steps, grown 2->4]
    C02_random_cell_adder                         -> C02_random_cell_adder_nonvacuous (+ _value)  [3 goroutines, total 2^63+43 wraps]
    C02_random_cell_sum                           -> C02_random_cell_sum_nonvacuous
    C02_atomic_adder                              -> C02_atomic_adder_nonvacuous                  [3 goroutines, Add/Inc/Dec/Sum/Store/Reset]
    C02_atomic_f64_adder                          -> C02_atomic_f64_adder_nonvacuous              [two failed CASes]
    C02_mutex_adder                               -> unconditional (C02_mutex_adder_instance for the record)
    C09_atomic_adder / C09_atomic_f64_adder       -> C09_atomic_adder_nonvacuous / C09_atomic_f64_adder_nonvacuous (same lemma as C02)
    C09_mutex_adder                               -> unconditional
    C09_jdk_sum_bounds                            -> C09_jdk_sum_bounds_nonvacuous (+ _value: 6 <= 9 <= 16 <= 16, a non-snapshot Sum)
    C09_jdk_f64_sum_bounds                        -> C09_jdk_f64_sum_bounds_nonvacuous (+ _value)
    C09_jdk_no_fault                              -> C09_jdk_no_fault_nonvacuous (hypothesis is only [In th ...])
    C09_jdk_sum_bounds_nofault                    -> C09_jdk_sum_bounds_nofault_nonvacuous
    C09_jdk_f64_sum_bounds_nofault                -> C09_jdk_f64_sum_bounds_nofault_nonvacuous
    C09_random_cell_sum_bounds                    -> C09_random_cell_sum_bounds_nonvacuous (+ _value: 5 <= 9 <= 25 <= 25)
    C09set_rc_landing_effect                      -> C09set_rc_landing_effect_nonvacuous (+ _value, + _None)
    C09set_rc_sum_steps_change_nothing            -> C09set_rc_sum_steps_change_nothing_nonvacuous (both disjuncts)
    C09set_rc_update_lands_once                   -> C09set_rc_update_lands_once_nonvacuous
    C09set_rc_update_lands_at_most_once           -> C09set_rc_update_lands_at_most_once_nonvacuous (see CAVEAT there)
    C09set_rc_sum_is_set_of_whole_updates         -> C09set_rc_sum_is_set_of_whole_updates_nonvacuous (+ rcm_K)
    C09set_rc_sum_includes_returned_updates       -> C09set_rc_sum_includes_returned_updates_nonvacuous (+ _inner)
    C09set_jdk_landing_effect                     -> C09set_jdk_landing_effect_nonvacuous (+ _value: cell attach; + _cas: base CAS, failed CAS)
    C09set_jdk_sum_steps_change_nothing           -> C09set_jdk_sum_steps_change_nothing_nonvacuous
    C09set_jdk_update_lands_once                  -> C09set_jdk_update_lands_once_nonvacuous (update whose first CAS fails)
    C09set_jdk_update_lands_at_most_once          -> C09set_jdk_update_lands_at_most_once_nonvacuous (k2 = a later step of the same call)
    C09set_jdk_sum_is_set_of_whole_updates        -> C09set_jdk_sum_is_set_of_whole_updates_nonvacuous (+ jm_K)
    C09set_jdk_sum_includes_returned_updates      -> C09set_jdk_sum_includes_returned_updates_nonvacuous (+ _inner)
    C09set_jdk_f64_landing_effect                 -> C09set_jdk_f64_landing_effect_nonvacuous (+ _value, + _private)
    C09set_jdk_f64_sum_steps_change_nothing       -> C09set_jdk_f64_sum_steps_change_nothing_nonvacuous
    C09set_jdk_f64_update_lands_once              -> C09set_jdk_f64_update_lands_once_nonvacuous
    C09set_jdk_f64_update_lands_at_most_once      -> C09set_jdk_f64_update_lands_at_most_once_nonvacuous
    C09set_jdk_f64_sum_is_set_of_whole_updates    -> C09set_jdk_f64_sum_is_set_of_whole_updates_nonvacuous (+ fm_K)
    C09set_jdk_f64_sum_includes_returned_updates  -> C09set_jdk_f64_sum_includes_returned_updates_nonvacuous
    striped_* (Section Striped, 6 theorems)       -> generic in [nrm]; instantiated by the C09set_jdk_* (nrm = wrap64) and
                                                     C09set_jdk_f64_* (nrm = id) examples; one direct instance:
                                                     striped_update_lands_once_nonvacuous
    C16_mutex_adder                               -> unconditional
    C16_atomic_adder / C16_atomic_f64_adder       -> C16_atomic_adder_nonvacuous / C16_atomic_f64_adder_nonvacuous (same lemma as C02/C09)
    C16_jdk_adder                                 -> C16_jdk_adder_nonvacuous (+ _value)   [reach16 via r16_init, r16_conc, r16_seq, r16_conc]
    C16_jdk_f64_adder                             -> C16_jdk_f64_adder_nonvacuous (+ _value) [r16_init, r16_conc, r16_seq]
    C16_jdk_adder_sequential                      -> C16_jdk_adder_sequential_nonvacuous, C16_jdk_adder_sequential_nonvacuous_store
    C16_random_cell_adder                         -> C16_random_cell_adder_nonvacuous (+ _value) [rr16_init, rr16_conc, rr16_seq, rr16_conc]
    C16_atomic_adder_sequential                   -> C16_atomic_adder_sequential_nonvacuous (+ _value)

    Extra: [no_sar_is_needed] (lin_ok = false with a racing SumAndReset: the hypothesis [no_sar] is
    necessary, and the checker [lin_ok] can fail), and the audit checks at the end of the file. *)
From Coq Require Import List Arith Bool ZArith Lia.
From Garr Require Import Conc.Conc Conc.Lin Pure.F64 Breaker.ConcBase
     Adder.StripedModel Adder.SimpleModel Adder.AdderSpec
     Adder.StripedLib Adder.StripedInv Adder.StripedProofs Adder.StripedMono Adder.StripedStrip
     Adder.SimpleMutex Adder.SimpleAtomic Adder.SimpleRC Adder.SimpleRCSum
     Adder.StripedRead Adder.StripedC09 Adder.StripedNoFault Adder.StripedC09b
     Adder.SetDefs Adder.SetBase
     Adder.StripedPhase Adder.StripedSeq Adder.StripedC16
     Adder.SimpleSeqLib Adder.SimpleRCSeq Adder.SimpleRCPhase Adder.SimpleRCC16 Adder.SimpleAtomicSeq.
From Garr Require Import Properties.C02 Properties.C09 Properties.C09Set Properties.C16.
Import ListNotations.
Local Open Scope Z_scope.

(** * Helpers: boolean checkers for the hypothesis vocabulary *)
Definition done_b {sh ts lo op} (c : config sh ts lo op) : bool :=
  forallb (fun th => match t_prog th, t_cur th, t_dead th with [], None, false => true | _, _, _ => false end) (c_thr c).

Lemma all_done_of_b {sh ts lo op} (c : config sh ts lo op) : done_b c = true -> all_done c.
Proof.
  unfold done_b, all_done. rewrite forallb_forall. intros H th Hin. specialize (H th Hin).
  destruct (t_prog th); [|discriminate]. destruct (t_cur th); [discriminate|].
  destruct (t_dead th); [discriminate|]. auto.
Qed.

Definition progs_b (f : aop -> bool) (progs : list (list aop)) : bool := forallb (forallb f) progs.

Lemma progs_b_spec f progs : progs_b f progs = true ->
  forall p o, In p progs -> In o p -> f o = true.
Proof.
  unfold progs_b. rewrite forallb_forall. intros H p o Hp Ho.
  specialize (H p Hp). rewrite forallb_forall in H. apply H. exact Ho.
Qed.

Lemma updates_only_of_b progs : progs_b is_update progs = true -> updates_only progs.
Proof. intros H p o Hp Ho. exact (progs_b_spec _ _ H p o Hp Ho). Qed.

Definition not_sar_b (o : aop) : bool := match o with SumAndReset => false | _ => true end.
Lemma no_sar_of_b progs : progs_b not_sar_b progs = true -> no_sar progs.
Proof. intros H p o Hp Ho E. pose proof (progs_b_spec _ _ H p o Hp Ho) as H1. subst o. discriminate. Qed.

Definition mixed_b (o : aop) : bool := is_update o || match o with Sum => true | _ => false end.
Lemma mixed_of_b progs : progs_b mixed_b progs = true -> mixed_progs progs.
Proof.
  intros H p o Hp Ho. pose proof (progs_b_spec _ _ H p o Hp Ho) as H1. unfold mixed_b in H1.
  unfold mixed_op. destruct (is_update o); [left; reflexivity|]. right. destruct o; try discriminate. reflexivity.
Qed.

Definition reader_b (o : aop) : bool := mixed_b o && (0 <=? delta o).
Lemma reader_of_b progs : progs_b reader_b progs = true -> reader_progs progs.
Proof.
  intros H p o Hp Ho. pose proof (progs_b_spec _ _ H p o Hp Ho) as H1. unfold reader_b in H1.
  apply andb_prop in H1. destruct H1 as [H1 H2]. split.
  - unfold rop. unfold mixed_b in H1. destruct (is_update o); [left; reflexivity|]. right. destruct o; try discriminate. reflexivity.
  - unfold nnop. apply Z.leb_le. exact H2.
Qed.
Lemma rc_reader_of_b progs : progs_b reader_b progs = true -> rc_reader_progs progs.
Proof.
  intros H p o Hp Ho. pose proof (progs_b_spec _ _ H p o Hp Ho) as H1. unfold reader_b in H1.
  apply andb_prop in H1. destruct H1 as [H1 H2]. split.
  - unfold mixed_b in H1. destruct (is_update o); [left; reflexivity|]. right. destruct o; try discriminate. reflexivity.
  - apply Z.leb_le. exact H2.
Qed.

(** * C02 *)
(** three goroutines, nine updates of mixed sign, 73 effective steps; the run
    contends on base (CAS failures), creates the table (C1-C6), contends on
    cell 1 and GROWS the table from 2 to 4 slots, attaching a second cell *)
Definition c02_progs : list (list aop) := [[Add 5; Inc; Add (-3)]; [Dec; Add 100; Add 7]; [Add 1000; Dec; Inc]].
Definition c02_rnd : list Z := [2; 2; 2; 2; 2; 2; 2; 2; 2; 2; 2; 2; 2; 2; 2].
Definition c02_sched : list nat :=
  [1;2;2;0;2;1;0;1;1;1; 2;0;0;0;1;2;0;2;2;0; 0;0;2;2;0;0;2;2;1;0;
   2;2;2;1;1;2;1;2;1;2; 2;1;1;2;2;1;1;2;1;2; 1;1;1;1;1;1;1;1;1;1;
   1;1;1;1;1;1;1;1;1;1; 1;1;1]%nat.

Example c02_updates_only : updates_only c02_progs.
Proof. apply updates_only_of_b. vm_compute. reflexivity. Qed.

Example c02_jdk_all_done : all_done (final (jdk_adder 8) (init apc (ainit c02_rnd) tt c02_progs) c02_sched).
Proof. apply all_done_of_b. vm_compute. reflexivity. Qed.

(* what the run did: every one of the 73 schedule entries is an executed step, the table grew *)
Example c02_jdk_run_facts :
  length (steps_of (jdk_adder 8) (init apc (ainit c02_rnd) tt c02_progs) c02_sched) = 73%nat /\
  c_sh (final (jdk_adder 8) (init apc (ainit c02_rnd) tt c02_progs) c02_sched) =
    AS 2 0 (Some (0, 4)%nat) [[1; 0; 2; 0]%nat] [1100; 7] [2; 2; 2; 2; 2; 2; 2; 2; 2; 2] /\
  total c02_progs = 1109.
Proof. vm_compute. auto. Qed.

Example C02_jdk_adder_nonvacuous :
  solo_returns (jdk_adder 8) tt
    (c_sh (final (jdk_adder 8) (init apc (ainit c02_rnd) tt c02_progs) c02_sched)) Sum (RZ (wrap64 (total c02_progs))).
Proof. exact (C02_jdk_adder 8 c02_rnd c02_progs c02_sched c02_updates_only c02_jdk_all_done). Qed.

Example C02_jdk_adder_nonvacuous_value :
  solo_returns (jdk_adder 8) tt
    (AS 2 0 (Some (0, 4)%nat) [[1; 0; 2; 0]%nat] [1100; 7] [2; 2; 2; 2; 2; 2; 2; 2; 2; 2]) Sum (RZ 1109).
Proof.
  pose proof C02_jdk_adder_nonvacuous as H.
  replace (c_sh (final (jdk_adder 8) (init apc (ainit c02_rnd) tt c02_progs) c02_sched))
    with (AS 2 0 (Some (0, 4)%nat) [[1; 0; 2; 0]%nat] [1100; 7] [2; 2; 2; 2; 2; 2; 2; 2; 2; 2]) in H
    by (vm_compute; reflexivity).
  replace (wrap64 (total c02_progs)) with 1109 in H by (vm_compute; reflexivity).
  exact H.
Qed.

(** the same programs on the float adder (exact addition; cells are created with 0 and then set:
    extra steps L3f/C4f), 82 effective steps, again with growth of the table to 4 slots *)
Definition c02f_sched : list nat :=
  [1;0;1;2;0;0;2;1;0;2; 1;0;0;1;0;2;0;0;0;2; 1;1;0;0;0;2;0;1;0;1;
   0;2;1;0;2;2;0;1;0;0; 0;1;2;2;0;2;1;2;1;2; 2;2;1;1;2;2;2;1;1;2;
   2;2;2;2;1;1;2;2;2;2; 2;2;2;2;2;2;2;2;2;2; 2;2]%nat.

Example c02_jdk_f64_all_done : all_done (final (jdk_f64_adder 8) (init apc (ainit c02_rnd) tt c02_progs) c02f_sched).
Proof. apply all_done_of_b. vm_compute. reflexivity. Qed.

Example c02_jdk_f64_run_facts :
  length (steps_of (jdk_f64_adder 8) (init apc (ainit c02_rnd) tt c02_progs) c02f_sched) = 82%nat /\
  c_sh (final (jdk_f64_adder 8) (init apc (ainit c02_rnd) tt c02_progs) c02f_sched) =
    AS 1004 0 (Some (0, 4)%nat) [[1; 0; 2; 0]%nat] [104; 1] [2; 2; 2; 2; 2; 2; 2; 2].
Proof. vm_compute. auto. Qed.

Example C02_jdk_f64_adder_nonvacuous :
  solo_returns (jdk_f64_adder 8) tt
    (c_sh (final (jdk_f64_adder 8) (init apc (ainit c02_rnd) tt c02_progs) c02f_sched)) Sum (RZ (total c02_progs)).
Proof. exact (C02_jdk_f64_adder 8 c02_rnd c02_progs c02f_sched c02_updates_only c02_jdk_f64_all_done). Qed.

Example C02_jdk_f64_adder_nonvacuous_value :
  solo_returns (jdk_f64_adder 8) tt
    (AS 1004 0 (Some (0, 4)%nat) [[1; 0; 2; 0]%nat] [104; 1] [2; 2; 2; 2; 2; 2; 2; 2]) Sum (RZ 1109).
Proof.
  pose proof C02_jdk_f64_adder_nonvacuous as H.
  replace (c_sh (final (jdk_f64_adder 8) (init apc (ainit c02_rnd) tt c02_progs) c02f_sched))
    with (AS 1004 0 (Some (0, 4)%nat) [[1; 0; 2; 0]%nat] [104; 1] [2; 2; 2; 2; 2; 2; 2; 2]) in H
    by (vm_compute; reflexivity).
  replace (total c02_progs) with 1109 in H by (vm_compute; reflexivity).
  exact H.
Qed.

(** RandomCellAdder, 4 cells, three goroutines; the total 2^63 + 43 WRAPS *)
Definition rc02_progs : list (list aop) := [[Add (2^63-1); Inc]; [Add 50; Dec]; [Inc; Add (-7)]].
Definition rc02_rnd : list Z := [0;1;5;2;3;1; 2;3;1;3;2;1;3;2].
Definition rc02_sched : list nat := [0;1;2;1;0;2;2;0;1;0;2;1]%nat.

Example rc02_updates_only : updates_only rc02_progs.
Proof. apply updates_only_of_b. vm_compute. reflexivity. Qed.
Example rc02_all_done : all_done (final rc_adder (init rpc (rinit 4 rc02_rnd) tt rc02_progs) rc02_sched).
Proof. apply all_done_of_b. vm_compute. reflexivity. Qed.
Example rc02_run_facts :
  length (steps_of rc_adder (init rpc (rinit 4 rc02_rnd) tt rc02_progs) rc02_sched) = 12%nat /\
  c_sh (final rc_adder (init rpc (rinit 4 rc02_rnd) tt rc02_progs) rc02_sched) = RS [2^63-1; 50; -7; 1] [2;3;1;3;2;1;3;2] /\
  total rc02_progs = 2^63 + 43 /\ wrap64 (total rc02_progs) = - 2^63 + 43.
Proof. vm_compute. auto. Qed.

Example C02_random_cell_adder_nonvacuous :
  cells_sum (rc_cells (c_sh (final rc_adder (init rpc (rinit 4 rc02_rnd) tt rc02_progs) rc02_sched))) = wrap64 (total rc02_progs).
Proof. exact (C02_random_cell_adder 4 rc02_rnd rc02_progs rc02_sched ltac:(lia) rc02_updates_only rc02_all_done). Qed.

Example C02_random_cell_adder_nonvacuous_value : cells_sum [2^63-1; 50; -7; 1] = - 2^63 + 43.
Proof.
  pose proof C02_random_cell_adder_nonvacuous as H.
  replace (rc_cells (c_sh (final rc_adder (init rpc (rinit 4 rc02_rnd) tt rc02_progs) rc02_sched)))
    with [2^63-1; 50; -7; 1] in H by (vm_compute; reflexivity).
  replace (wrap64 (total rc02_progs)) with (- 2^63 + 43) in H by (vm_compute; reflexivity).
  exact H.
Qed.

Example C02_random_cell_sum_nonvacuous :
  solo_returns rc_adder tt (RS [2^63-1; 50; -7; 1] [2;3;1;3;2;1;3;2]) Sum (RZ (cells_sum (rc_cells (RS [2^63-1; 50; -7; 1] [2;3;1;3;2;1;3;2])))).
Proof. apply (C02_random_cell_sum (RS [2^63-1; 50; -7; 1] [2;3;1;3;2;1;3;2])). simpl. lia. Qed.

(** AtomicAdder: three goroutines, Add / Inc / Dec / Sum / Store / Reset interleaved *)
Definition at_progs : list (list aop) := [[Add 5; Sum; Store 9]; [Inc; Reset; Sum]; [Sum; Dec]].
Definition at_sched : list nat := [0;1;2;1;0;2;0;1;2;0;1;2;0;0;1;1]%nat.
Example at_no_sar : no_sar at_progs.
Proof. apply no_sar_of_b. vm_compute. reflexivity. Qed.
(* the history of this run: the Sums return 6, 6 and 9 *)
Example at_trace :
  trace atomic_adder (init tpc 0 tt at_progs) at_sched =
  [EInv 0 (Add 5); EInv 1 Inc; EInv 2 Sum; ERet 1 Inc RU; ERet 0 (Add 5) RU; ERet 2 Sum (RZ 6); EInv 0 Sum;
   EInv 1 Reset; EInv 2 Dec; ERet 0 Sum (RZ 6); ERet 1 Reset RU; ERet 2 Dec RU; EInv 0 (Store 9);
   ERet 0 (Store 9) RU; EInv 1 Sum; ERet 1 Sum (RZ 9)]%nat.
Proof. vm_compute. reflexivity. Qed.

Example C02_atomic_adder_nonvacuous :
  lin_ok atomic_adder aret_eqb (counter_spec wadd) tlp 0 tt 0 at_progs at_sched = true.
Proof. exact (C02_atomic_adder at_progs at_sched at_no_sar). Qed.

(** AtomicF64Adder: same programs; the CAS of Add 5 (thread 0) fails once (thread 1's Inc got in
    between its load and its CAS) and is retried, so does the CAS of Dec (thread 2) *)
Definition atf_sched : list nat := [0;0;1;1;1;0;2;0;2;0;1;2;1;0;0;2;0;0;1;1;2;1;2;2;2]%nat.
Example atf_facts :
  length (steps_of atomic_f64_adder (init tpc 0 tt at_progs) atf_sched) = 23%nat /\
  (* position 5: thread 0 is at its CAS expecting 0 while the value is 1: the CAS fails *)
  (exists c, nth_error (steps_of atomic_f64_adder (init tpc 0 tt at_progs) atf_sched) 5 = Some (c, 0%nat) /\
             c_sh c = 1 /\ nth_error (c_thr c) 0 = Some (Thread [Sum; Store 9] tt (Some (Add 5, TCas 5 0)) false)) /\
  rets (trace atomic_f64_adder (init tpc 0 tt at_progs) atf_sched) = [RU; RZ 1; RU; RU; RZ 0; RU; RZ 9; RU].
Proof.
  split; [vm_compute; reflexivity|]. split; [|vm_compute; reflexivity].
  exists (cfg_at atomic_f64_adder (init tpc 0 tt at_progs) atf_sched 5). repeat split; vm_compute; reflexivity.
Qed.

Example C02_atomic_f64_adder_nonvacuous :
  lin_ok atomic_f64_adder aret_eqb (counter_spec Z.add) tlp 0 tt 0 at_progs atf_sched = true.
Proof. exact (C02_atomic_f64_adder at_progs atf_sched at_no_sar). Qed.

(** the hypothesis [no_sar] is necessary (it is not an artefact): with a SumAndReset racing an
    Inc the check fails - SumAndReset is a load followed by a store *)
Example no_sar_is_needed :
  lin_ok atomic_adder aret_eqb (counter_spec wadd) tlp 0 tt 0 [[SumAndReset]; [Inc]] [0;0;1;1;0]%nat = false.
Proof. vm_compute. reflexivity. Qed.

(** C02_mutex_adder is unconditional; for the record, a run where a writer is blocked by a reader *)
Example C02_mutex_adder_instance :
  lin_ok mutex_adder aret_eqb (counter_spec wadd) xlp xinit tt 0
         [[Add 5; SumAndReset]; [Sum; Store 3]; [Inc; Sum]] [1;1;0;0;0;1;1;1;0;0;2;2;0;0;0;2;2;2;2;2;0;0;0;0;0;0;1;1;1;1;1;1;2;2;2;2;2;2]%nat = true.
Proof. exact (C02_mutex_adder _ _). Qed.

(** * C09 *)
(** the three linearizability statements are the same lemmas as in C02 *)
Example C09_atomic_adder_nonvacuous :
  lin_ok atomic_adder aret_eqb (counter_spec wadd) tlp 0 tt 0 at_progs at_sched = true.
Proof. exact (C09_atomic_adder at_progs at_sched at_no_sar). Qed.
Example C09_atomic_f64_adder_nonvacuous :
  lin_ok atomic_f64_adder aret_eqb (counter_spec Z.add) tlp 0 tt 0 at_progs atf_sched = true.
Proof. exact (C09_atomic_f64_adder at_progs atf_sched at_no_sar). Qed.

(** ** the bounds form: a Sum that is NOT a snapshot.
    Thread 0: Add 5; Add 3.  Thread 1: Sum.  Thread 2: Inc; Add 7.
    positions: 3 = +5 lands on base, 10 = +1 lands on base, 14 = the Sum is invoked,
    15 = the Sum reads base = 6, 16 = +7 lands on base (MISSED by the Sum), 17 = the base CAS of
    Add 3 fails (contention), 18-23 thread 0 creates the table, 24 = +3 lands as the first cell
    (attached with the table), 26-29 the Sum scans the table, sees the cell and returns 9 = 5+1+3 at 29.
    applied at 14 = 6 < 9 < 16 = applied after 29 = total. *)
Definition rd_progs : list (list aop) := [[Add 5; Add 3]; [Sum]; [Inc; Add 7]].
Definition rd_sched : list nat :=
  [0;0;0;0;0; 2;2;2; 0;0; 2;2;2;2; 1;1; 2; 0;0;0;0;0;0;0;0;0;0; 1;1;1;1;1;1]%nat.
Definition rd_rnd : list Z := [3; 5; 6; 1; 2].
Notation RW := (striped wadd false 8).
Notation RF := (striped Z.add true 8).
Notation rd0 := (init apc (ainit rd_rnd) tt rd_progs).
Notation rdlog := (steps_of RW rd0 rd_sched).
Notation rdflog := (steps_of RF rd0 rd_sched).

Example rd_reader : reader_progs rd_progs.
Proof. apply reader_of_b. vm_compute. reflexivity. Qed.
Example rd_total : total rd_progs < 2 ^ 62.
Proof. vm_compute. reflexivity. Qed.

Definition rd_thi : thread unit apc aop := mk_thread apc tt [Sum].
Definition rd_thj : thread unit apc aop := Thread [] tt (Some (Sum, S4 None 6 (0, 2)%nat 1 1)) false.

Example rd_landings :
  filter (fun k => match landing a_commit rdlog k with Some _ => true | None => false end) (seq 0 30) = [3; 10; 16; 24]%nat /\
  map (landing a_commit rdlog) [3; 10; 16; 24]%nat =
    [Some (LBase, 5); Some (LBase, 1); Some (LBase, 7); Some (LCell 1, 3)] /\
  map snd rdlog = [0;0;0;0;0; 2;2;2; 0;0; 2;2;2;2; 1;1; 2; 0;0;0;0;0;0;0;0;0; 1;1;1;1]%nat.
Proof. vm_compute. auto. Qed.

Example rd_H_i : nth_error rdlog 14 = Some (cfg_at RW rd0 rd_sched 14, 1%nat).
Proof. vm_compute. reflexivity. Qed.
Example rd_H_j : nth_error rdlog 29 = Some (cfg_at RW rd0 rd_sched 29, 1%nat).
Proof. vm_compute. reflexivity. Qed.
Example rd_H_thi : nth_error (c_thr (cfg_at RW rd0 rd_sched 14)) 1 = Some rd_thi.
Proof. vm_compute. reflexivity. Qed.
Example rd_H_thj : nth_error (c_thr (cfg_at RW rd0 rd_sched 29)) 1 = Some rd_thj.
Proof. vm_compute. reflexivity. Qed.
Example rd_H_step : step_thread RW (cfg_at RW rd0 rd_sched 29) 1 = Some (cfg_at RW rd0 rd_sched 30, [ERet 1%nat Sum (RZ 9)]).
Proof. vm_compute. reflexivity. Qed.
Example rd_H_nodead : no_dead (cfg_at RW rd0 rd_sched 30).
Proof.
  intros th Hin.
  assert (E : c_thr (cfg_at RW rd0 rd_sched 30) = [Thread [] tt None false; Thread [] tt None false; Thread [] tt None false])
    by (vm_compute; reflexivity).
  rewrite E in Hin. simpl in Hin. destruct Hin as [<-|[<-|[<-|[]]]]; reflexivity.
Qed.
Example rd_applied :
  applied (c_sh (cfg_at RW rd0 rd_sched 14)) = 6 /\ applied (c_sh (cfg_at RW rd0 rd_sched 30)) = 16 /\ total rd_progs = 16.
Proof. vm_compute. auto. Qed.

Example C09_jdk_sum_bounds_nonvacuous :
  applied (c_sh (cfg_at RW rd0 rd_sched 14)) <= 9 <= applied (c_sh (cfg_at RW rd0 rd_sched 30)) /\
  applied (c_sh (cfg_at RW rd0 rd_sched 30)) <= total rd_progs.
Proof.
  exact (C09_jdk_sum_bounds false 8 rd_rnd rd_progs rd_sched 14 29 1
           (cfg_at RW rd0 rd_sched 14) (cfg_at RW rd0 rd_sched 29) rd_thi rd_thj []
           (cfg_at RW rd0 rd_sched 30) [ERet 1%nat Sum (RZ 9)] 9
           rd_reader rd_total rd_H_i rd_H_j ltac:(lia) rd_H_thi eq_refl eq_refl rd_H_thj eq_refl
           rd_H_step (or_introl eq_refl) rd_H_nodead).
Qed.
Example C09_jdk_sum_bounds_nonvacuous_value : 6 <= 9 <= 16 /\ 16 <= 16.
Proof.
  pose proof C09_jdk_sum_bounds_nonvacuous as H. destruct rd_applied as (E1 & E2 & E3).
  rewrite E1, E2, E3 in H. exact H.
Qed.

Example C09_jdk_sum_bounds_nofault_nonvacuous :
  applied (c_sh (cfg_at RW rd0 rd_sched 14)) <= 9 <= applied (c_sh (cfg_at RW rd0 rd_sched 30)) /\
  applied (c_sh (cfg_at RW rd0 rd_sched 30)) <= total rd_progs.
Proof.
  exact (C09_jdk_sum_bounds_nofault false 8 rd_rnd rd_progs rd_sched 14 29 1
           (cfg_at RW rd0 rd_sched 14) (cfg_at RW rd0 rd_sched 29) rd_thi rd_thj []
           (cfg_at RW rd0 rd_sched 30) [ERet 1%nat Sum (RZ 9)] 9
           rd_reader rd_total rd_H_i rd_H_j ltac:(lia) rd_H_thi eq_refl eq_refl rd_H_thj eq_refl
           rd_H_step (or_introl eq_refl)).
Qed.

(** the float adder (exact addition, [f64 = true]: cells created with 0, then set): one more step,
    the Sum returns at position 30 *)
Definition rdf_thj : thread unit apc aop := Thread [] tt (Some (Sum, S4 None 6 (0, 2)%nat 1 1)) false.
Example rdf_H_i : nth_error rdflog 14 = Some (cfg_at RF rd0 rd_sched 14, 1%nat).
Proof. vm_compute. reflexivity. Qed.
Example rdf_H_j : nth_error rdflog 30 = Some (cfg_at RF rd0 rd_sched 30, 1%nat).
Proof. vm_compute. reflexivity. Qed.
Example rdf_H_thi : nth_error (c_thr (cfg_at RF rd0 rd_sched 14)) 1 = Some rd_thi.
Proof. vm_compute. reflexivity. Qed.
Example rdf_H_thj : nth_error (c_thr (cfg_at RF rd0 rd_sched 30)) 1 = Some rdf_thj.
Proof. vm_compute. reflexivity. Qed.
Example rdf_H_step : step_thread RF (cfg_at RF rd0 rd_sched 30) 1 = Some (cfg_at RF rd0 rd_sched 31, [ERet 1%nat Sum (RZ 9)]).
Proof. vm_compute. reflexivity. Qed.
Example rdf_H_nodead : no_dead (cfg_at RF rd0 rd_sched 31).
Proof.
  intros th Hin.
  assert (E : c_thr (cfg_at RF rd0 rd_sched 31) = [Thread [] tt None false; Thread [] tt None false; Thread [] tt None false])
    by (vm_compute; reflexivity).
  rewrite E in Hin. simpl in Hin. destruct Hin as [<-|[<-|[<-|[]]]]; reflexivity.
Qed.
Example rdf_applied :
  applied (c_sh (cfg_at RF rd0 rd_sched 14)) = 6 /\ applied (c_sh (cfg_at RF rd0 rd_sched 31)) = 16.
Proof. vm_compute. auto. Qed.

Example C09_jdk_f64_sum_bounds_nonvacuous :
  applied (c_sh (cfg_at RF rd0 rd_sched 14)) <= 9 <= applied (c_sh (cfg_at RF rd0 rd_sched 31)) /\
  applied (c_sh (cfg_at RF rd0 rd_sched 31)) <= total rd_progs.
Proof.
  exact (C09_jdk_f64_sum_bounds true 8 rd_rnd rd_progs rd_sched 14 30 1
           (cfg_at RF rd0 rd_sched 14) (cfg_at RF rd0 rd_sched 30) rd_thi rdf_thj []
           (cfg_at RF rd0 rd_sched 31) [ERet 1%nat Sum (RZ 9)] 9
           rd_reader rdf_H_i rdf_H_j ltac:(lia) rdf_H_thi eq_refl eq_refl rdf_H_thj eq_refl
           rdf_H_step (or_introl eq_refl) rdf_H_nodead).
Qed.
Example C09_jdk_f64_sum_bounds_nofault_nonvacuous :
  applied (c_sh (cfg_at RF rd0 rd_sched 14)) <= 9 <= applied (c_sh (cfg_at RF rd0 rd_sched 31)) /\
  applied (c_sh (cfg_at RF rd0 rd_sched 31)) <= total rd_progs.
Proof.
  exact (C09_jdk_f64_sum_bounds_nofault true 8 rd_rnd rd_progs rd_sched 14 30 1
           (cfg_at RF rd0 rd_sched 14) (cfg_at RF rd0 rd_sched 30) rd_thi rdf_thj []
           (cfg_at RF rd0 rd_sched 31) [ERet 1%nat Sum (RZ 9)] 9
           rd_reader rdf_H_i rdf_H_j ltac:(lia) rdf_H_thi eq_refl eq_refl rdf_H_thj eq_refl
           rdf_H_step (or_introl eq_refl)).
Qed.
Example C09_jdk_f64_sum_bounds_nonvacuous_value : 6 <= 9 <= 16 /\ 16 <= 16.
Proof.
  pose proof C09_jdk_f64_sum_bounds_nofault_nonvacuous as H. destruct rdf_applied as (E1 & E2).
  destruct rd_applied as (_ & _ & E3). rewrite E1, E2, E3 in H. exact H.
Qed.

(** C09_jdk_no_fault: hypothesis [In th (c_thr (final ...))]; instance = the Sum thread in the
    middle of its scan (after the first 29 schedule entries of the run above) *)
Example rd_mid_thr :
  c_thr (final RW rd0 (firstn 29 rd_sched)) =
  [Thread [] tt None false; Thread [] tt (Some (Sum, S3 None 6 (0, 2)%nat 1)) false; Thread [] tt None false].
Proof. vm_compute. reflexivity. Qed.
Example C09_jdk_no_fault_nonvacuous :
  t_dead (Thread [] tt (Some (Sum, S3 None 6 (0, 2)%nat 1)) false : thread unit apc aop) = false.
Proof.
  apply (C09_jdk_no_fault wadd false 8 rd_rnd rd_progs (firstn 29 rd_sched)).
  rewrite rd_mid_thr. right. left. reflexivity.
Qed.

(** ** RandomCellAdder, 2 cells.  Thread 0: Add 5; Add 3.  Thread 1: Sum.  Thread 2: Inc; Add 16.
    positions: 1 = +5 lands on cell 0, 2 = the Sum is invoked, 4 = the Sum reads cell 0 = 5,
    6 = +1 lands on cell 1, 8 = +16 lands on cell 0 (MISSED by the Sum), 9 = +3 lands on cell 1,
    10 = the Sum reads cell 1 = 4 and returns 9.   5 < 9 < 25. *)
Definition rcb_progs : list (list aop) := [[Add 5; Add 3]; [Sum]; [Inc; Add 16]].
Definition rcb_sched : list nat := [0;0;1;0;1;2;2;2;2;0;1]%nat.
Definition rcb_rnd : list Z := [0;1;1;0].
Notation rcb0 := (init rpc (rinit 2 rcb_rnd) tt rcb_progs).
Notation rcblog := (steps_of rc_adder rcb0 rcb_sched).

Example rcb_reader : rc_reader_progs rcb_progs.
Proof. apply rc_reader_of_b. vm_compute. reflexivity. Qed.
Example rcb_total : total rcb_progs < 2 ^ 63.
Proof. vm_compute. reflexivity. Qed.
Definition rcb_thi : thread unit rpc aop := mk_thread rpc tt [Sum].
Definition rcb_thj : thread unit rpc aop := Thread [] tt (Some (Sum, RSumL 5 1)) false.
Example rcb_H_i : nth_error rcblog 2 = Some (cfg_at rc_adder rcb0 rcb_sched 2, 1%nat).
Proof. vm_compute. reflexivity. Qed.
Example rcb_H_j : nth_error rcblog 10 = Some (cfg_at rc_adder rcb0 rcb_sched 10, 1%nat).
Proof. vm_compute. reflexivity. Qed.
Example rcb_H_thi : nth_error (c_thr (cfg_at rc_adder rcb0 rcb_sched 2)) 1 = Some rcb_thi.
Proof. vm_compute. reflexivity. Qed.
Example rcb_H_thj : nth_error (c_thr (cfg_at rc_adder rcb0 rcb_sched 10)) 1 = Some rcb_thj.
Proof. vm_compute. reflexivity. Qed.
Example rcb_H_step : step_thread rc_adder (cfg_at rc_adder rcb0 rcb_sched 10) 1 = Some (cfg_at rc_adder rcb0 rcb_sched 11, [ERet 1%nat Sum (RZ 9)]).
Proof. vm_compute. reflexivity. Qed.
Example rcb_values :
  SimpleRC.zsum (rc_cells (c_sh (cfg_at rc_adder rcb0 rcb_sched 2))) = 5 /\
  SimpleRC.zsum (rc_cells (c_sh (cfg_at rc_adder rcb0 rcb_sched 11))) = 25 /\ total rcb_progs = 25 /\
  map (landing rc_commit rcblog) (seq 0 11) =
    [None; Some (0%nat, 5); None; None; None; None; Some (1%nat, 1); None; Some (0%nat, 16); Some (1%nat, 3); None].
Proof. vm_compute. auto. Qed.

Example C09_random_cell_sum_bounds_nonvacuous :
  SimpleRC.zsum (rc_cells (c_sh (cfg_at rc_adder rcb0 rcb_sched 2))) <= 9 <= SimpleRC.zsum (rc_cells (c_sh (cfg_at rc_adder rcb0 rcb_sched 11))) /\
  SimpleRC.zsum (rc_cells (c_sh (cfg_at rc_adder rcb0 rcb_sched 11))) <= total rcb_progs.
Proof.
  exact (C09_random_cell_sum_bounds 2 rcb_rnd rcb_progs rcb_sched 2 10 1
           (cfg_at rc_adder rcb0 rcb_sched 2) (cfg_at rc_adder rcb0 rcb_sched 10) rcb_thi rcb_thj []
           (cfg_at rc_adder rcb0 rcb_sched 11) [ERet 1%nat Sum (RZ 9)] 9
           ltac:(lia) rcb_reader rcb_total rcb_H_i rcb_H_j ltac:(lia) rcb_H_thi eq_refl eq_refl rcb_H_thj eq_refl
           rcb_H_step (or_introl eq_refl)).
Qed.
Example C09_random_cell_sum_bounds_nonvacuous_value : 5 <= 9 <= 25 /\ 25 <= 25.
Proof.
  pose proof C09_random_cell_sum_bounds_nonvacuous as H. destruct rcb_values as (E1 & E2 & E3 & _).
  rewrite E1, E2, E3 in H. exact H.
Qed.

(** * C09Set *)
Ltac vm_conj := repeat match goal with |- _ /\ _ => split end; try (vm_compute; reflexivity).

(** ** RandomCellAdder: the same schedule with amounts of MIXED sign.
    Thread 0: Add 5; Add (-3).  Thread 1: Sum.  Thread 2: Dec; Add 16.
    landing steps 1 (+5, cell 0), 6 (-1, cell 1), 8 (+16, cell 0), 9 (-3, cell 1);
    the Sum (invoked 2, returns at 10) returns 1 = 5 - 1 - 3: K = {1, 6, 9}, 8 is not in K. *)
Definition rcm_progs : list (list aop) := [[Add 5; Add (-3)]; [Sum]; [Dec; Add 16]].
Notation rcm0 := (init rpc (rinit 2 rcb_rnd) tt rcm_progs).
Notation rcmlog := (steps_of rc_adder rcm0 rcb_sched).
Notation rcm_at k := (cfg_at rc_adder rcm0 rcb_sched k).

Example rcm_mixed : mixed_progs rcm_progs.
Proof. apply mixed_of_b. vm_compute. reflexivity. Qed.
Example rcm_landings :
  map (landing rc_commit rcmlog) (seq 0 11) =
    [None; Some (0%nat, 5); None; None; None; None; Some (1%nat, -1); None; Some (0%nat, 16); Some (1%nat, -3); None].
Proof. vm_compute. reflexivity. Qed.

(* landing_effect at a landing step (9: -3 on cell 1, which holds -1) *)
Example rcm_H9 : nth_error rcmlog 9 = Some (rcm_at 9, 0%nat).
Proof. vm_compute. reflexivity. Qed.
Example rcm_S9 : step_thread rc_adder (rcm_at 9) 0 = Some (rcm_at 10, [ERet 0%nat (Add (-3)) RU]).
Proof. vm_compute. reflexivity. Qed.
Example C09set_rc_landing_effect_nonvacuous :
  match landing rc_commit rcmlog 9 with
  | Some (i, x) =>
      (i < 2)%nat /\
      rc_cells (c_sh (rcm_at 10)) = upd (rc_cells (c_sh (rcm_at 9))) i (wadd (nth i (rc_cells (c_sh (rcm_at 9))) 0) x) /\
      exists th o l, nth_error (c_thr (rcm_at 9)) 0 = Some th /\ t_cur th = Some (o, l) /\
                     is_update o = true /\ delta o = x
  | None => rc_cells (c_sh (rcm_at 10)) = rc_cells (c_sh (rcm_at 9))
  end.
Proof.
  exact (C09set_rc_landing_effect 2 rcb_rnd rcm_progs rcb_sched ltac:(lia) rcm_mixed 9 (rcm_at 9) 0 (rcm_at 10)
           [ERet 0%nat (Add (-3)) RU] rcm_H9 rcm_S9).
Qed.
Example C09set_rc_landing_effect_nonvacuous_value :
  rc_cells (c_sh (rcm_at 9)) = [21; -1] /\ rc_cells (c_sh (rcm_at 10)) = [21; -4] /\
  exists th o l, nth_error (c_thr (rcm_at 9)) 0 = Some th /\ t_cur th = Some (o, l) /\ is_update o = true /\ delta o = -3.
Proof.
  pose proof C09set_rc_landing_effect_nonvacuous as H.
  assert (E : landing rc_commit rcmlog 9 = Some (1%nat, -3)) by (vm_compute; reflexivity).
  rewrite E in H. destruct H as (_ & _ & H). vm_conj. exact H.
Qed.
(* ... and at a non-landing step (the Sum reading cell 0 at position 4) *)
Example rcm_H4 : nth_error rcmlog 4 = Some (rcm_at 4, 1%nat).
Proof. vm_compute. reflexivity. Qed.
Example rcm_S4 : step_thread rc_adder (rcm_at 4) 1 = Some (rcm_at 5, []).
Proof. vm_compute. reflexivity. Qed.
Example C09set_rc_landing_effect_nonvacuous_None : rc_cells (c_sh (rcm_at 5)) = rc_cells (c_sh (rcm_at 4)).
Proof.
  pose proof (C09set_rc_landing_effect 2 rcb_rnd rcm_progs rcb_sched ltac:(lia) rcm_mixed 4 (rcm_at 4) 1 (rcm_at 5) [] rcm_H4 rcm_S4) as H.
  assert (E : landing rc_commit rcmlog 4 = None) by (vm_compute; reflexivity).
  rewrite E in H. exact H.
Qed.

(* sum_steps_change_nothing: the invocation step (2, left disjunct) and a scan step (4, right disjunct) *)
Example rcm_H2 : nth_error rcmlog 2 = Some (rcm_at 2, 1%nat).
Proof. vm_compute. reflexivity. Qed.
Example rcm_S2 : step_thread rc_adder (rcm_at 2) 1 = Some (rcm_at 3, [EInv 1%nat Sum]).
Proof. vm_compute. reflexivity. Qed.
Example rcm_T2 : nth_error (c_thr (rcm_at 2)) 1 = Some (mk_thread rpc tt [Sum]).
Proof. vm_compute. reflexivity. Qed.
Example rcm_T4 : nth_error (c_thr (rcm_at 4)) 1 = Some (Thread [] tt (Some (Sum, RSumL 0 0)) false).
Proof. vm_compute. reflexivity. Qed.
Example C09set_rc_sum_steps_change_nothing_nonvacuous :
  (landing rc_commit rcmlog 2 = None /\ rc_cells (c_sh (rcm_at 3)) = rc_cells (c_sh (rcm_at 2))) /\
  (landing rc_commit rcmlog 4 = None /\ rc_cells (c_sh (rcm_at 5)) = rc_cells (c_sh (rcm_at 4))).
Proof.
  split.
  - exact (C09set_rc_sum_steps_change_nothing 2 rcb_rnd rcm_progs rcb_sched ltac:(lia) rcm_mixed 2 (rcm_at 2) 1
             (mk_thread rpc tt [Sum]) (rcm_at 3) [EInv 1%nat Sum] rcm_H2 rcm_T2
             (or_introl (conj eq_refl (ex_intro _ [] eq_refl))) rcm_S2).
  - exact (C09set_rc_sum_steps_change_nothing 2 rcb_rnd rcm_progs rcb_sched ltac:(lia) rcm_mixed 4 (rcm_at 4) 1
             (Thread [] tt (Some (Sum, RSumL 0 0)) false) (rcm_at 5) [] rcm_H4 rcm_T4
             (or_intror (ex_intro _ (RSumL 0 0) eq_refl)) rcm_S4).
Qed.

(* the update Add (-3) of thread 0: invoked at 3, returns at 9; Add 16 and Dec of thread 2 run in between *)
Example rcm_add_invoked : invoked_at rcmlog 3 0 (Add (-3)) [].
Proof. exists (rcm_at 3), (mk_thread rpc tt [Add (-3)]). vm_conj. Qed.
Example rcm_add_returns : returns_at rc_adder rcmlog 9 0 (Add (-3)) [] RU.
Proof.
  exists (rcm_at 9), (Thread [] tt (Some (Add (-3), RAdd (-3) 1)) false), (rcm_at 10), [ERet 0%nat (Add (-3)) RU].
  vm_conj. left. reflexivity.
Qed.
Example C09set_rc_update_lands_once_nonvacuous :
  exists k cell,
    (3 <= k <= 9)%nat /\ step_of rcmlog k 0 /\ landing rc_commit rcmlog k = Some (cell, delta (Add (-3))) /\
    forall k', (3 <= k' <= 9)%nat -> step_of rcmlog k' 0 -> landing rc_commit rcmlog k' <> None -> k' = k.
Proof.
  exact (C09set_rc_update_lands_once 2 rcb_rnd rcm_progs rcb_sched ltac:(lia) 3 9 0 (Add (-3)) [] RU eq_refl
           rcm_add_invoked rcm_add_returns ltac:(lia)).
Qed.

(* lands_at_most_once.  CAVEAT (see the audit section at the end): an RC update call has two steps,
   RInv and RAdd, and RAdd (the landing step) is also the return step, so no step of the SAME call
   follows a landing step.  The hypothesis "t_prog th2 = pr" is also satisfied by the invocation step
   of the NEXT call of the thread (t_prog shrinks only when that step is taken), and that is the only
   kind of instance there is: a = 0 (Add 5 invoked, pr = [Add (-3)]), k1 = 1 (its landing/return
   step), k2 = 3 = the step that invokes Add (-3). *)
Example rcm_add5_invoked : invoked_at rcmlog 0 0 (Add 5) [Add (-3)].
Proof. exists (rcm_at 0), (mk_thread rpc tt [Add 5; Add (-3)]). vm_conj. Qed.
Example rcm_step1 : step_of rcmlog 1 0.
Proof. exists (rcm_at 1). vm_compute. reflexivity. Qed.
Example rcm_land1 : landing rc_commit rcmlog 1 <> None.
Proof. vm_compute. discriminate. Qed.
Example rcm_H3 : nth_error rcmlog 3 = Some (rcm_at 3, 0%nat).
Proof. vm_compute. reflexivity. Qed.
Example rcm_T3 : nth_error (c_thr (rcm_at 3)) 0 = Some (mk_thread rpc tt [Add (-3)]).
Proof. vm_compute. reflexivity. Qed.
Example C09set_rc_update_lands_at_most_once_nonvacuous : landing rc_commit rcmlog 3 = None.
Proof.
  exact (C09set_rc_update_lands_at_most_once 2 rcb_rnd rcm_progs rcb_sched ltac:(lia) 0 0 (Add 5) [Add (-3)] 1 3
           (rcm_at 3) (mk_thread rpc tt [Add (-3)]) eq_refl rcm_add5_invoked ltac:(lia) rcm_step1 rcm_land1 rcm_H3 rcm_T3 eq_refl).
Qed.

(* the Sum *)
Example rcm_sum_invoked : invoked_at rcmlog 2 1 Sum [].
Proof. exists (rcm_at 2), (mk_thread rpc tt [Sum]). vm_conj. Qed.
Example rcm_sum_returns : returns_at rc_adder rcmlog 10 1 Sum [] (RZ 1).
Proof.
  exists (rcm_at 10), (Thread [] tt (Some (Sum, RSumL 5 1)) false), (rcm_at 11), [ERet 1%nat Sum (RZ 1)].
  vm_conj. left. reflexivity.
Qed.
Example C09set_rc_sum_is_set_of_whole_updates_nonvacuous :
  exists K : list nat,
    NoDup K /\
    (forall k, In k K -> (k < 10)%nat /\ landing rc_commit rcmlog k <> None) /\
    (forall k, (k < 2)%nat -> landing rc_commit rcmlog k <> None -> In k K) /\
    1 = wrap64 (asum rc_commit rcmlog K).
Proof.
  exact (C09set_rc_sum_is_set_of_whole_updates 2 rcb_rnd rcm_progs rcb_sched ltac:(lia) rcm_mixed 2 10 1 [] 1
           rcm_sum_invoked rcm_sum_returns ltac:(lia)).
Qed.
(* the set: K = {1, 6, 9}; the landing step 8 (+16, which landed BEFORE 9) is not in it; and no
   other subset of the landing steps below 10 containing 1 sums to 1 *)
Example rcm_K : wrap64 (asum rc_commit rcmlog [1; 6; 9]%nat) = 1 /\
  map (fun K => wrap64 (asum rc_commit rcmlog K)) [[1];[1;6];[1;8];[1;9];[1;6;8];[1;8;9];[1;6;8;9]]%nat = [5; 4; 21; 2; 20; 18; 17].
Proof. vm_compute. auto. Qed.
Example C09set_rc_sum_includes_returned_updates_nonvacuous :
  exists K : list nat,
    NoDup K /\
    (forall k, In k K -> (k < 10)%nat /\ landing rc_commit rcmlog k <> None) /\
    1 = wrap64 (asum rc_commit rcmlog K) /\
    forall a b t' o pr' r', is_update o = true ->
      invoked_at rcmlog a t' o pr' -> returns_at rc_adder rcmlog b t' o pr' r' -> (a < b)%nat -> (b < 2)%nat ->
      exists k, In k K /\ (a <= k <= b)%nat /\ step_of rcmlog k t' /\ amount rc_commit rcmlog k = delta o.
Proof.
  exact (C09set_rc_sum_includes_returned_updates 2 rcb_rnd rcm_progs rcb_sched ltac:(lia) rcm_mixed 2 10 1 [] 1
           rcm_sum_invoked rcm_sum_returns ltac:(lia)).
Qed.
(* the inner hypotheses of the last clause are satisfiable too: Add 5 was invoked at 0 and returned at 1 < 2 *)
Example rcm_add5_returns : returns_at rc_adder rcmlog 1 0 (Add 5) [Add (-3)] RU.
Proof.
  exists (rcm_at 1), (Thread [Add (-3)] tt (Some (Add 5, RAdd 5 0)) false), (rcm_at 2), [ERet 0%nat (Add 5) RU].
  vm_conj. left. reflexivity.
Qed.
Example C09set_rc_sum_includes_returned_updates_nonvacuous_inner :
  exists K : list nat, 1 = wrap64 (asum rc_commit rcmlog K) /\
    exists k, In k K /\ (0 <= k <= 1)%nat /\ step_of rcmlog k 0 /\ amount rc_commit rcmlog k = 5.
Proof.
  destruct C09set_rc_sum_includes_returned_updates_nonvacuous as (K & _ & _ & Hr & Hincl).
  exists K. split; [exact Hr|].
  exact (Hincl 0%nat 1%nat 0%nat (Add 5) [Add (-3)] RU eq_refl rcm_add5_invoked rcm_add5_returns ltac:(lia) ltac:(lia)).
Qed.

(** ** JDKAdder: the non-snapshot schedule [rd_sched] with amounts of MIXED sign.
    Thread 0: Add 5; Add (-3).  Thread 1: Sum.  Thread 2: Dec; Add (-7).
    landing steps: 3 (+5 base), 10 (-1 base), 16 (-7 base, after the Sum has read base = 4),
    24 (-3 as the first cell, attached together with the table by step C6).
    Add (-3): invoked at 4, its base CAS FAILS at 17 (contention with Add (-7)), lands at 24, returns at 25.
    The Sum: invoked at 14, returns 1 = 5 - 1 - 3 at 29: K = {3, 10, 24}; 16 (which landed before 24) is not in K. *)
Definition jm_progs : list (list aop) := [[Add 5; Add (-3)]; [Sum]; [Dec; Add (-7)]].
Notation jm0 := (init apc (ainit rd_rnd) tt jm_progs).
Notation jmlog := (steps_of RW jm0 rd_sched).
Notation jm_at k := (cfg_at RW jm0 rd_sched k).
Definition jm_acc : acc := Acc (-3) 3 true false.

Example jm_mixed : mixed_progs jm_progs.
Proof. apply mixed_of_b. vm_compute. reflexivity. Qed.
Example jm_landings :
  filter (fun k => match landing a_commit jmlog k with Some _ => true | None => false end) (seq 0 30) = [3; 10; 16; 24]%nat /\
  map (landing a_commit jmlog) [3; 10; 16; 24]%nat =
    [Some (LBase, 5); Some (LBase, -1); Some (LBase, -7); Some (LCell 1, -3)].
Proof. vm_compute. auto. Qed.

(* landing_effect, (a) attach of a fresh cell: position 24 *)
Example jm_H24 : nth_error jmlog 24 = Some (jm_at 24, 0%nat).
Proof. vm_compute. reflexivity. Qed.
Example jm_S24 : step_thread RW (jm_at 24) 0 = Some (jm_at 25, []).
Proof. vm_compute. reflexivity. Qed.
Example C09set_jdk_landing_effect_nonvacuous :
  match landing a_commit jmlog 24 with
  | Some (loc, x) =>
      (forall loc', loc' <> loc -> summand (c_sh (jm_at 25)) loc' = summand (c_sh (jm_at 24)) loc') /\
      match summand (c_sh (jm_at 24)) loc with
      | Some v => summand (c_sh (jm_at 25)) loc = Some (wadd v x)
      | None => summand (c_sh (jm_at 25)) loc = Some x
      end /\
      exists th o l, nth_error (c_thr (jm_at 24)) 0 = Some th /\ t_cur th = Some (o, l) /\
                     is_update o = true /\ delta o = x
  | None => forall loc, summand (c_sh (jm_at 25)) loc = summand (c_sh (jm_at 24)) loc
  end.
Proof.
  exact (C09set_jdk_landing_effect false 8 rd_rnd jm_progs rd_sched jm_mixed 24 (jm_at 24) 0 (jm_at 25) [] jm_H24 jm_S24).
Qed.
Example C09set_jdk_landing_effect_nonvacuous_value :
  (forall loc', loc' <> LCell 1 -> summand (c_sh (jm_at 25)) loc' = summand (c_sh (jm_at 24)) loc') /\
  summand (c_sh (jm_at 24)) (LCell 1) = None /\ summand (c_sh (jm_at 25)) (LCell 1) = Some (-3).
Proof.
  pose proof C09set_jdk_landing_effect_nonvacuous as H.
  assert (E : landing a_commit jmlog 24 = Some (LCell 1, -3)) by (vm_compute; reflexivity).
  rewrite E in H. cbv beta iota in H. destruct H as (H1 & H2 & _).
  assert (E2 : summand (c_sh (jm_at 24)) (LCell 1) = None) by (vm_compute; reflexivity).
  rewrite E2 in H2. auto.
Qed.
(* (b) a successful CAS on base: position 16 (4 -> -3); (c) a FAILED CAS: position 17, no landing *)
Example jm_H16 : nth_error jmlog 16 = Some (jm_at 16, 2%nat).
Proof. vm_compute. reflexivity. Qed.
Example jm_S16 : step_thread RW (jm_at 16) 2 = Some (jm_at 17, [ERet 2%nat (Add (-7)) RU]).
Proof. vm_compute. reflexivity. Qed.
Example jm_H17 : nth_error jmlog 17 = Some (jm_at 17, 0%nat).
Proof. vm_compute. reflexivity. Qed.
Example jm_S17 : step_thread RW (jm_at 17) 0 = Some (jm_at 18, []).
Proof. vm_compute. reflexivity. Qed.
Example C09set_jdk_landing_effect_nonvacuous_cas :
  (summand (c_sh (jm_at 16)) LBase = Some 4 /\ summand (c_sh (jm_at 17)) LBase = Some (wadd 4 (-7))) /\
  (nth_error (c_thr (jm_at 17)) 0 = Some (Thread [] tt (Some (Add (-3), AddCasBase (-3) 5)) false) /\
   forall loc, summand (c_sh (jm_at 18)) loc = summand (c_sh (jm_at 17)) loc).
Proof.
  split.
  - pose proof (C09set_jdk_landing_effect false 8 rd_rnd jm_progs rd_sched jm_mixed 16 (jm_at 16) 2 (jm_at 17)
                  [ERet 2%nat (Add (-7)) RU] jm_H16 jm_S16) as H.
    assert (E : landing a_commit jmlog 16 = Some (LBase, -7)) by (vm_compute; reflexivity).
    rewrite E in H. cbv beta iota in H. destruct H as (_ & H2 & _).
    assert (E2 : summand (c_sh (jm_at 16)) LBase = Some 4) by (vm_compute; reflexivity).
    rewrite E2 in H2. auto.
  - split; [vm_compute; reflexivity|].
    pose proof (C09set_jdk_landing_effect false 8 rd_rnd jm_progs rd_sched jm_mixed 17 (jm_at 17) 0 (jm_at 18)
                  [] jm_H17 jm_S17) as H.
    assert (E : landing a_commit jmlog 17 = None) by (vm_compute; reflexivity).
    rewrite E in H. exact H.
Qed.

(* sum_steps_change_nothing: invocation step 14 (left disjunct), scan step 27 (right disjunct) *)
Example jm_H14 : nth_error jmlog 14 = Some (jm_at 14, 1%nat).
Proof. vm_compute. reflexivity. Qed.
Example jm_T14 : nth_error (c_thr (jm_at 14)) 1 = Some (mk_thread apc tt [Sum]).
Proof. vm_compute. reflexivity. Qed.
Example jm_S14 : step_thread RW (jm_at 14) 1 = Some (jm_at 15, [EInv 1%nat Sum]).
Proof. vm_compute. reflexivity. Qed.
Example jm_H27 : nth_error jmlog 27 = Some (jm_at 27, 1%nat).
Proof. vm_compute. reflexivity. Qed.
Example jm_T27 : nth_error (c_thr (jm_at 27)) 1 = Some (Thread [] tt (Some (Sum, S3 None 4 (0, 2)%nat 0)) false).
Proof. vm_compute. reflexivity. Qed.
Example jm_S27 : step_thread RW (jm_at 27) 1 = Some (jm_at 28, []).
Proof. vm_compute. reflexivity. Qed.
Example C09set_jdk_sum_steps_change_nothing_nonvacuous :
  (landing a_commit jmlog 14 = None /\ forall loc, summand (c_sh (jm_at 15)) loc = summand (c_sh (jm_at 14)) loc) /\
  (landing a_commit jmlog 27 = None /\ forall loc, summand (c_sh (jm_at 28)) loc = summand (c_sh (jm_at 27)) loc).
Proof.
  split.
  - exact (C09set_jdk_sum_steps_change_nothing false 8 rd_rnd jm_progs rd_sched jm_mixed 14 (jm_at 14) 1
             (mk_thread apc tt [Sum]) (jm_at 15) [EInv 1%nat Sum] jm_H14 jm_T14
             (or_introl (conj eq_refl (ex_intro _ [] eq_refl))) jm_S14).
  - exact (C09set_jdk_sum_steps_change_nothing false 8 rd_rnd jm_progs rd_sched jm_mixed 27 (jm_at 27) 1
             (Thread [] tt (Some (Sum, S3 None 4 (0, 2)%nat 0)) false) (jm_at 28) [] jm_H27 jm_T27
             (or_intror (ex_intro _ (S3 None 4 (0, 2)%nat 0) eq_refl)) jm_S27).
Qed.

(* update_lands_once: Add (-3), whose first attempt (base CAS at 17) fails under contention *)
Example jm_add_invoked : invoked_at jmlog 4 0 (Add (-3)) [].
Proof. exists (jm_at 4), (mk_thread apc tt [Add (-3)]). vm_conj. Qed.
Example jm_add_returns : returns_at RW jmlog 25 0 (Add (-3)) [] RU.
Proof.
  exists (jm_at 25), (Thread [] tt (Some (Add (-3), L9 jm_acc true)) false), (jm_at 26), [ERet 0%nat (Add (-3)) RU].
  vm_conj. left. reflexivity.
Qed.
Example C09set_jdk_update_lands_once_nonvacuous :
  exists k loc,
    (4 <= k <= 25)%nat /\ step_of jmlog k 0 /\ landing a_commit jmlog k = Some (loc, delta (Add (-3))) /\
    forall k', (4 <= k' <= 25)%nat -> step_of jmlog k' 0 -> landing a_commit jmlog k' <> None -> k' = k.
Proof.
  exact (C09set_jdk_update_lands_once false 8 rd_rnd jm_progs rd_sched jm_mixed 4 25 0 (Add (-3)) [] RU eq_refl
           jm_add_invoked jm_add_returns ltac:(lia)).
Qed.

(* lands_at_most_once: k1 = 24 (the landing step C6), k2 = 25 (step L9 of the SAME call: releases the flag) *)
Example jm_step24 : step_of jmlog 24 0.
Proof. exists (jm_at 24). vm_compute. reflexivity. Qed.
Example jm_land24 : landing a_commit jmlog 24 <> None.
Proof. vm_compute. discriminate. Qed.
Example jm_H25 : nth_error jmlog 25 = Some (jm_at 25, 0%nat).
Proof. vm_compute. reflexivity. Qed.
Example jm_T25 : nth_error (c_thr (jm_at 25)) 0 = Some (Thread [] tt (Some (Add (-3), L9 jm_acc true)) false).
Proof. vm_compute. reflexivity. Qed.
Example C09set_jdk_update_lands_at_most_once_nonvacuous : landing a_commit jmlog 25 = None.
Proof.
  exact (C09set_jdk_update_lands_at_most_once false 8 rd_rnd jm_progs rd_sched jm_mixed 4 0 (Add (-3)) [] 24 25
           (jm_at 25) (Thread [] tt (Some (Add (-3), L9 jm_acc true)) false)
           eq_refl jm_add_invoked ltac:(lia) jm_step24 jm_land24 jm_H25 jm_T25 eq_refl).
Qed.

(* the Sum *)
Example jm_sum_invoked : invoked_at jmlog 14 1 Sum [].
Proof. exists (jm_at 14), (mk_thread apc tt [Sum]). vm_conj. Qed.
Example jm_sum_returns : returns_at RW jmlog 29 1 Sum [] (RZ 1).
Proof.
  exists (jm_at 29), (Thread [] tt (Some (Sum, S4 None 4 (0, 2)%nat 1 1)) false), (jm_at 30), [ERet 1%nat Sum (RZ 1)].
  vm_conj. left. reflexivity.
Qed.
Example C09set_jdk_sum_is_set_of_whole_updates_nonvacuous :
  exists K : list nat,
    NoDup K /\
    (forall k, In k K -> (k < 29)%nat /\ landing a_commit jmlog k <> None) /\
    (forall k, (k < 14)%nat -> landing a_commit jmlog k <> None -> In k K) /\
    1 = wrap64 (asum a_commit jmlog K).
Proof.
  exact (C09set_jdk_sum_is_set_of_whole_updates false 8 rd_rnd jm_progs rd_sched jm_mixed 14 29 1 [] 1
           jm_sum_invoked jm_sum_returns ltac:(lia)).
Qed.
(* the only candidates: K must contain 3 and 10 and may contain 16, 24: only {3,10,24} sums to 1 *)
Example jm_K :
  map (fun K => wrap64 (asum a_commit jmlog K)) [[3;10];[3;10;16];[3;10;24];[3;10;16;24]]%nat = [4; -3; 1; -6].
Proof. vm_compute. reflexivity. Qed.
Example C09set_jdk_sum_includes_returned_updates_nonvacuous :
  exists K : list nat,
    NoDup K /\
    (forall k, In k K -> (k < 29)%nat /\ landing a_commit jmlog k <> None) /\
    1 = wrap64 (asum a_commit jmlog K) /\
    forall a b t' o pr' r', is_update o = true ->
      invoked_at jmlog a t' o pr' -> returns_at RW jmlog b t' o pr' r' -> (a < b)%nat -> (b < 14)%nat ->
      exists k, In k K /\ (a <= k <= b)%nat /\ step_of jmlog k t' /\ amount a_commit jmlog k = delta o.
Proof.
  exact (C09set_jdk_sum_includes_returned_updates false 8 rd_rnd jm_progs rd_sched jm_mixed 14 29 1 [] 1
           jm_sum_invoked jm_sum_returns ltac:(lia)).
Qed.
(* inner hypotheses: Dec of thread 2 was invoked at 5 and returned at 10 < 14 *)
Example jm_dec_invoked : invoked_at jmlog 5 2 Dec [Add (-7)].
Proof. exists (jm_at 5), (mk_thread apc tt [Dec; Add (-7)]). vm_conj. Qed.
Example jm_dec_returns : returns_at RW jmlog 10 2 Dec [Add (-7)] RU.
Proof.
  exists (jm_at 10), (Thread [Add (-7)] tt (Some (Dec, AddCasBase (-1) 5)) false), (jm_at 11), [ERet 2%nat Dec RU].
  vm_conj. left. reflexivity.
Qed.
Example C09set_jdk_sum_includes_returned_updates_nonvacuous_inner :
  exists K : list nat, 1 = wrap64 (asum a_commit jmlog K) /\
    exists k, In k K /\ (5 <= k <= 10)%nat /\ step_of jmlog k 2 /\ amount a_commit jmlog k = -1.
Proof.
  destruct C09set_jdk_sum_includes_returned_updates_nonvacuous as (K & _ & _ & Hr & Hincl).
  exists K. split; [exact Hr|].
  exact (Hincl 5%nat 10%nat 2%nat Dec [Add (-7)] RU eq_refl jm_dec_invoked jm_dec_returns ltac:(lia) ltac:(lia)).
Qed.

(** ** JDKF64Adder (exact addition, [f64 = true]): same programs and schedule; the cell is created
    with 0 and set by an extra step (C4f), so: Add (-3) invoked at 4, CAS fails at 17, lands at 25
    (C6), returns at 26; the Sum is invoked at 14 and returns 1 at 30.  K = {3, 10, 25}. *)
Notation fmlog := (steps_of RF jm0 rd_sched).
Notation fm_at k := (cfg_at RF jm0 rd_sched k).

Example fm_landings :
  filter (fun k => match landing a_commit fmlog k with Some _ => true | None => false end) (seq 0 31) = [3; 10; 16; 25]%nat /\
  map (landing a_commit fmlog) [3; 10; 16; 25]%nat =
    [Some (LBase, 5); Some (LBase, -1); Some (LBase, -7); Some (LCell 1, -3)].
Proof. vm_compute. auto. Qed.

Example fm_H25 : nth_error fmlog 25 = Some (fm_at 25, 0%nat).
Proof. vm_compute. reflexivity. Qed.
Example fm_S25 : step_thread RF (fm_at 25) 0 = Some (fm_at 26, []).
Proof. vm_compute. reflexivity. Qed.
Example C09set_jdk_f64_landing_effect_nonvacuous :
  match landing a_commit fmlog 25 with
  | Some (loc, x) =>
      (forall loc', loc' <> loc -> summand (c_sh (fm_at 26)) loc' = summand (c_sh (fm_at 25)) loc') /\
      match summand (c_sh (fm_at 25)) loc with
      | Some v => summand (c_sh (fm_at 26)) loc = Some (v + x)
      | None => summand (c_sh (fm_at 26)) loc = Some x
      end /\
      exists th o l, nth_error (c_thr (fm_at 25)) 0 = Some th /\ t_cur th = Some (o, l) /\
                     is_update o = true /\ delta o = x
  | None => forall loc, summand (c_sh (fm_at 26)) loc = summand (c_sh (fm_at 25)) loc
  end.
Proof.
  exact (C09set_jdk_f64_landing_effect true 8 rd_rnd jm_progs rd_sched jm_mixed 25 (fm_at 25) 0 (fm_at 26) [] fm_H25 fm_S25).
Qed.
Example C09set_jdk_f64_landing_effect_nonvacuous_value :
  summand (c_sh (fm_at 25)) (LCell 1) = None /\ summand (c_sh (fm_at 26)) (LCell 1) = Some (-3).
Proof.
  pose proof C09set_jdk_f64_landing_effect_nonvacuous as H.
  assert (E : landing a_commit fmlog 25 = Some (LCell 1, -3)) by (vm_compute; reflexivity).
  rewrite E in H. cbv beta iota in H. destruct H as (_ & H2 & _).
  assert (E2 : summand (c_sh (fm_at 25)) (LCell 1) = None) by (vm_compute; reflexivity).
  rewrite E2 in H2. auto.
Qed.
(* the step C4f that writes the amount into the still PRIVATE cell (position 23) is not a landing
   step and changes no summand: the cell is not attached yet *)
Example fm_H23 : nth_error fmlog 23 = Some (fm_at 23, 0%nat).
Proof. vm_compute. reflexivity. Qed.
Example fm_S23 : step_thread RF (fm_at 23) 0 = Some (fm_at 24, []).
Proof. vm_compute. reflexivity. Qed.
Example C09set_jdk_f64_landing_effect_nonvacuous_private :
  nth_error (c_thr (fm_at 23)) 0 = Some (Thread [] tt (Some (Add (-3), C4f jm_acc 0 1)) false) /\
  a_cells (c_sh (fm_at 23)) = [0] /\ a_cells (c_sh (fm_at 24)) = [-3] /\
  forall loc, summand (c_sh (fm_at 24)) loc = summand (c_sh (fm_at 23)) loc.
Proof.
  split; [vm_compute; reflexivity|]. split; [vm_compute; reflexivity|]. split; [vm_compute; reflexivity|].
  pose proof (C09set_jdk_f64_landing_effect true 8 rd_rnd jm_progs rd_sched jm_mixed 23 (fm_at 23) 0 (fm_at 24) [] fm_H23 fm_S23) as H.
  assert (E : landing a_commit fmlog 23 = None) by (vm_compute; reflexivity).
  rewrite E in H. exact H.
Qed.

Example fm_H14 : nth_error fmlog 14 = Some (fm_at 14, 1%nat).
Proof. vm_compute. reflexivity. Qed.
Example fm_T14 : nth_error (c_thr (fm_at 14)) 1 = Some (mk_thread apc tt [Sum]).
Proof. vm_compute. reflexivity. Qed.
Example fm_S14 : step_thread RF (fm_at 14) 1 = Some (fm_at 15, [EInv 1%nat Sum]).
Proof. vm_compute. reflexivity. Qed.
Example fm_H28 : nth_error fmlog 28 = Some (fm_at 28, 1%nat).
Proof. vm_compute. reflexivity. Qed.
Example fm_T28 : nth_error (c_thr (fm_at 28)) 1 = Some (Thread [] tt (Some (Sum, S3 None 4 (0, 2)%nat 0)) false).
Proof. vm_compute. reflexivity. Qed.
Example fm_S28 : step_thread RF (fm_at 28) 1 = Some (fm_at 29, []).
Proof. vm_compute. reflexivity. Qed.
Example C09set_jdk_f64_sum_steps_change_nothing_nonvacuous :
  (landing a_commit fmlog 14 = None /\ forall loc, summand (c_sh (fm_at 15)) loc = summand (c_sh (fm_at 14)) loc) /\
  (landing a_commit fmlog 28 = None /\ forall loc, summand (c_sh (fm_at 29)) loc = summand (c_sh (fm_at 28)) loc).
Proof.
  split.
  - exact (C09set_jdk_f64_sum_steps_change_nothing true 8 rd_rnd jm_progs rd_sched jm_mixed 14 (fm_at 14) 1
             (mk_thread apc tt [Sum]) (fm_at 15) [EInv 1%nat Sum] fm_H14 fm_T14
             (or_introl (conj eq_refl (ex_intro _ [] eq_refl))) fm_S14).
  - exact (C09set_jdk_f64_sum_steps_change_nothing true 8 rd_rnd jm_progs rd_sched jm_mixed 28 (fm_at 28) 1
             (Thread [] tt (Some (Sum, S3 None 4 (0, 2)%nat 0)) false) (fm_at 29) [] fm_H28 fm_T28
             (or_intror (ex_intro _ (S3 None 4 (0, 2)%nat 0) eq_refl)) fm_S28).
Qed.

Example fm_add_invoked : invoked_at fmlog 4 0 (Add (-3)) [].
Proof. exists (fm_at 4), (mk_thread apc tt [Add (-3)]). vm_conj. Qed.
Example fm_add_returns : returns_at RF fmlog 26 0 (Add (-3)) [] RU.
Proof.
  exists (fm_at 26), (Thread [] tt (Some (Add (-3), L9 jm_acc true)) false), (fm_at 27), [ERet 0%nat (Add (-3)) RU].
  vm_conj. left. reflexivity.
Qed.
Example C09set_jdk_f64_update_lands_once_nonvacuous :
  exists k loc,
    (4 <= k <= 26)%nat /\ step_of fmlog k 0 /\ landing a_commit fmlog k = Some (loc, delta (Add (-3))) /\
    forall k', (4 <= k' <= 26)%nat -> step_of fmlog k' 0 -> landing a_commit fmlog k' <> None -> k' = k.
Proof.
  exact (C09set_jdk_f64_update_lands_once true 8 rd_rnd jm_progs rd_sched jm_mixed 4 26 0 (Add (-3)) [] RU eq_refl
           fm_add_invoked fm_add_returns ltac:(lia)).
Qed.

Example fm_step25 : step_of fmlog 25 0.
Proof. exists (fm_at 25). vm_compute. reflexivity. Qed.
Example fm_land25 : landing a_commit fmlog 25 <> None.
Proof. vm_compute. discriminate. Qed.
Example fm_H26 : nth_error fmlog 26 = Some (fm_at 26, 0%nat).
Proof. vm_compute. reflexivity. Qed.
Example fm_T26 : nth_error (c_thr (fm_at 26)) 0 = Some (Thread [] tt (Some (Add (-3), L9 jm_acc true)) false).
Proof. vm_compute. reflexivity. Qed.
Example C09set_jdk_f64_update_lands_at_most_once_nonvacuous : landing a_commit fmlog 26 = None.
Proof.
  exact (C09set_jdk_f64_update_lands_at_most_once true 8 rd_rnd jm_progs rd_sched jm_mixed 4 0 (Add (-3)) [] 25 26
           (fm_at 26) (Thread [] tt (Some (Add (-3), L9 jm_acc true)) false)
           eq_refl fm_add_invoked ltac:(lia) fm_step25 fm_land25 fm_H26 fm_T26 eq_refl).
Qed.

Example fm_sum_invoked : invoked_at fmlog 14 1 Sum [].
Proof. exists (fm_at 14), (mk_thread apc tt [Sum]). vm_conj. Qed.
Example fm_sum_returns : returns_at RF fmlog 30 1 Sum [] (RZ 1).
Proof.
  exists (fm_at 30), (Thread [] tt (Some (Sum, S4 None 4 (0, 2)%nat 1 1)) false), (fm_at 31), [ERet 1%nat Sum (RZ 1)].
  vm_conj. left. reflexivity.
Qed.
Example C09set_jdk_f64_sum_is_set_of_whole_updates_nonvacuous :
  exists K : list nat,
    NoDup K /\
    (forall k, In k K -> (k < 30)%nat /\ landing a_commit fmlog k <> None) /\
    (forall k, (k < 14)%nat -> landing a_commit fmlog k <> None -> In k K) /\
    1 = asum a_commit fmlog K.
Proof.
  exact (C09set_jdk_f64_sum_is_set_of_whole_updates true 8 rd_rnd jm_progs rd_sched jm_mixed 14 30 1 [] 1
           fm_sum_invoked fm_sum_returns ltac:(lia)).
Qed.
Example fm_K :
  map (asum a_commit fmlog) [[3;10];[3;10;16];[3;10;25];[3;10;16;25]]%nat = [4; -3; 1; -6].
Proof. vm_compute. reflexivity. Qed.
Example C09set_jdk_f64_sum_includes_returned_updates_nonvacuous :
  exists K : list nat,
    NoDup K /\
    (forall k, In k K -> (k < 30)%nat /\ landing a_commit fmlog k <> None) /\
    1 = asum a_commit fmlog K /\
    forall a b t' o pr' r', is_update o = true ->
      invoked_at fmlog a t' o pr' -> returns_at RF fmlog b t' o pr' r' -> (a < b)%nat -> (b < 14)%nat ->
      exists k, In k K /\ (a <= k <= b)%nat /\ step_of fmlog k t' /\ amount a_commit fmlog k = delta o.
Proof.
  exact (C09set_jdk_f64_sum_includes_returned_updates true 8 rd_rnd jm_progs rd_sched jm_mixed 14 30 1 [] 1
           fm_sum_invoked fm_sum_returns ltac:(lia)).
Qed.

(** the generic [striped_*] theorems of Section Striped (any normalisation [nrm]) are instantiated by
    the two families above ([nrm = wrap64], [nrm = id]); one direct instance for the record: *)
Example striped_update_lands_once_nonvacuous :
  exists k loc,
    (4 <= k <= 25)%nat /\ step_of jmlog k 0 /\ landing a_commit jmlog k = Some (loc, delta (Add (-3))) /\
    forall k', (4 <= k' <= 25)%nat -> step_of jmlog k' 0 -> landing a_commit jmlog k' <> None -> k' = k.
Proof.
  exact (striped_update_lands_once wrap64 wrap64_add_l wrap64_0 wadd wadd_def false 8 rd_rnd jm_progs rd_sched jm_mixed
           4 25 0 (Add (-3)) [] RU eq_refl jm_add_invoked jm_add_returns ltac:(lia)).
Qed.

(** * C16 *)
Example C16_atomic_adder_nonvacuous :
  lin_ok atomic_adder aret_eqb (counter_spec wadd) tlp 0 tt 0 at_progs at_sched = true.
Proof. exact (C16_atomic_adder at_progs at_sched at_no_sar). Qed.
Example C16_atomic_f64_adder_nonvacuous :
  lin_ok atomic_f64_adder aret_eqb (counter_spec Z.add) tlp 0 tt 0 at_progs atf_sched = true.
Proof. exact (C16_atomic_f64_adder at_progs atf_sched at_no_sar). Qed.


Definition ok_b (o : aop) : bool := match o with Store v => wrap64 v =? v | _ => true end.
Lemma striped_ok_of_b ops : forallb ok_b ops = true -> Forall (StripedSeq.op_ok wrap64) ops.
Proof.
  rewrite forallb_forall. intros H. apply Forall_forall. intros o Ho. specialize (H o Ho).
  destruct o; simpl; auto. apply Z.eqb_eq. exact H.
Qed.
Lemma rc_ok_of_b ops : forallb ok_b ops = true -> Forall SimpleRCSeq.op_ok ops.
Proof.
  rewrite forallb_forall. intros H. apply Forall_forall. intros o Ho. specialize (H o Ho).
  destruct o; simpl; auto. apply Z.eqb_eq. exact H.
Qed.

Lemma run_pair {sh ts lo op ret} (M : machine sh ts lo op ret) c s : run M c s = (fst (run M c s), snd (run M c s)).
Proof. apply surjective_pairing. Qed.

(** ** JDKAdder: a [reach16] state built with ALL THREE constructors, four phases:
    (1) [r16_init]; (2) [r16_conc]: the 3-goroutine update phase of C02 (table created and grown to
    4 slots, value 1109); (3) [r16_seq]: one goroutine runs Sum; Store 7; Inc; SumAndReset; Add 4;
    Reset; Add 2; Store (-9); Dec (each Store/Reset replaces the table by fresh cells; value -10);
    (4) [r16_conc]: a 2-goroutine update phase on the table left by the Stores (value 6).
    Then the theorem is applied to a fifth, single-goroutine phase. *)
Definition j16_ops1 : list aop := [Sum; Store 7; Inc; SumAndReset; Add 4; Reset; Add 2; Store (-9); Dec].
Definition j16_progs2 : list (list aop) := [[Add 20; Dec]; [Inc; Add (-4)]].
Definition j16_sched2 : list nat := [0;1;0;1;0;1;0;1;0;1; 0;1;0;1;0;1;0;1;0;1; 1;1;1;1;1;1]%nat.
Definition j16_ops3 : list aop := [Sum; Add 10; SumAndReset; Sum; Store (-5); Dec; Sum; Reset; Sum].
Notation j16_s1 := (c_sh (final RW (init apc (ainit c02_rnd) tt c02_progs) c02_sched)).
Notation j16_run2 := (run RW (Config j16_s1 [mk_thread apc tt j16_ops1]) (repeat 0%nat 120)).
Notation j16_s2 := (c_sh (fst j16_run2)).
Notation j16_c3 := (final RW (init apc j16_s2 tt j16_progs2) j16_sched2).
Notation j16_s3 := (c_sh j16_c3).
Notation j16_run4 := (run RW (Config j16_s3 [mk_thread apc tt j16_ops3]) (repeat 0%nat 150)).

Example j16_ok1 : Forall (StripedSeq.op_ok wrap64) j16_ops1.
Proof. apply striped_ok_of_b. vm_compute. reflexivity. Qed.
Example j16_ok3 : Forall (StripedSeq.op_ok wrap64) j16_ops3.
Proof. apply striped_ok_of_b. vm_compute. reflexivity. Qed.
Example j16_done2 : all_done (fst j16_run2).
Proof. apply all_done_of_b. vm_compute. reflexivity. Qed.
Example j16_up2 : updates_only j16_progs2.
Proof. apply updates_only_of_b. vm_compute. reflexivity. Qed.
Example j16_done3 : all_done j16_c3.
Proof. apply all_done_of_b. vm_compute. reflexivity. Qed.
Example j16_done4 : all_done (fst j16_run4).
Proof. apply all_done_of_b. vm_compute. reflexivity. Qed.

Definition j16_reach1 := r16_conc wrap64 wadd false 8 (ainit c02_rnd) 0 c02_progs c02_sched
                            (r16_init wrap64 wadd false 8 c02_rnd) c02_updates_only c02_jdk_all_done.
Definition j16_reach2 := r16_seq wrap64 wadd false 8 j16_s1 (wadd 0 (total c02_progs)) j16_ops1 120
                            (fst j16_run2) (snd j16_run2) j16_reach1 j16_ok1 (run_pair RW _ _) j16_done2.
Definition j16_reach3 := r16_conc wrap64 wadd false 8 j16_s2 (fst (spec_run wadd (wadd 0 (total c02_progs)) j16_ops1))
                            j16_progs2 j16_sched2 j16_reach2 j16_up2 j16_done3.

(* what the phases did *)
Example j16_facts :
  j16_s2 = AS (-9) 0 (Some (4, 4)%nat)
              [[1;0;2;0]; [3;4;5;6]; [7;8;9;10]; [11;12;13;14]; [15;16;17;18]]%nat
              [1100; 7; 0; 0; 1; 0; 0; 0; 4; 0; 0; 0; 2; 0; 0; 0; -1; 0] [2; 2; 2; 2; 2; 2] /\
  j16_s3 = AS (-9) 0 (Some (4, 4)%nat)
              [[1;0;2;0]; [3;4;5;6]; [7;8;9;10]; [11;12;13;14]; [15;16;17;18]]%nat
              [1100; 7; 0; 0; 1; 0; 0; 0; 4; 0; 0; 0; 2; 0; 0; 0; 15; 0] [2; 2] /\
  wadd (fst (spec_run wadd (wadd 0 (total c02_progs)) j16_ops1)) (total j16_progs2) = 6.
Proof. vm_compute. auto. Qed.

Example C16_jdk_adder_nonvacuous :
  rets (snd j16_run4) =
  snd (spec_run wadd (wadd (fst (spec_run wadd (wadd 0 (total c02_progs)) j16_ops1)) (total j16_progs2)) j16_ops3).
Proof.
  exact (C16_jdk_adder false 8 j16_s3 _ j16_ops3 150 (fst j16_run4) (snd j16_run4)
           j16_reach3 j16_ok3 (run_pair RW _ _) j16_done4).
Qed.
Example C16_jdk_adder_nonvacuous_value :
  rets (snd j16_run4) = [RZ 6; RU; RZ 16; RZ 0; RU; RU; RZ (-6); RU; RZ 0].
Proof. rewrite C16_jdk_adder_nonvacuous. vm_compute. reflexivity. Qed.

(** C16_jdk_adder_sequential: [Good wrap64 s] for (a) the reach16 state above (via
    [striped_C16_state]) and (b) the state [store_demo_end] left by a Store, where the full
    invariant [Glob] is broken ([store_breaks_Glob]) but [Good] holds ([store_demo_end_Good]) *)
Example j16_good3 : Good wrap64 j16_s3 /\ a_busy j16_s3 = 0.
Proof.
  destruct (striped_C16_state wrap64 wrap64_add_l wrap64_0 wadd (fun a b => eq_refl) false 8 _ _ j16_reach3) as (H1 & H2 & _).
  split; assumption.
Qed.
Example C16_jdk_adder_sequential_nonvacuous :
  exists n, forall m, (n <= m)%nat ->
    let '(c, e) := run (striped wadd false 8) (Config j16_s3 [mk_thread apc tt j16_ops3]) (repeat 0%nat m) in
    rets e = snd (spec_run wadd (value wrap64 j16_s3) j16_ops3) /\
    Good wrap64 (c_sh c) /\ a_busy (c_sh c) = 0 /\
    value wrap64 (c_sh c) = fst (spec_run wadd (value wrap64 j16_s3) j16_ops3).
Proof. exact (C16_jdk_adder_sequential false 8 j16_ops3 j16_s3 (proj1 j16_good3) (proj2 j16_good3) j16_ok3). Qed.
Example C16_jdk_adder_sequential_nonvacuous_store :
  exists n, forall m, (n <= m)%nat ->
    let '(c, e) := run (striped wadd false 8) (Config store_demo_end [mk_thread apc tt j16_ops3]) (repeat 0%nat m) in
    rets e = snd (spec_run wadd (value wrap64 store_demo_end) j16_ops3) /\
    Good wrap64 (c_sh c) /\ a_busy (c_sh c) = 0 /\
    value wrap64 (c_sh c) = fst (spec_run wadd (value wrap64 store_demo_end) j16_ops3).
Proof.
  apply (C16_jdk_adder_sequential false 8 j16_ops3 store_demo_end store_demo_end_Good); [|exact j16_ok3].
  rewrite store_demo_end_eq. reflexivity.
Qed.

(** ** JDKF64Adder: [r16_init]; [r16_conc] (the 3-goroutine phase of C02 on the float machine, table
    grown to 4 slots); [r16_seq] (Store/Reset/SumAndReset phase); then the theorem *)
Notation f16_s1 := (c_sh (final RF (init apc (ainit c02_rnd) tt c02_progs) c02f_sched)).
Notation f16_run2 := (run RF (Config f16_s1 [mk_thread apc tt j16_ops1]) (repeat 0%nat 120)).
Notation f16_s2 := (c_sh (fst f16_run2)).
Notation f16_run3 := (run RF (Config f16_s2 [mk_thread apc tt j16_ops3]) (repeat 0%nat 150)).
Example f16_okid ops : Forall (StripedSeq.op_ok (fun z => z)) ops.
Proof. apply Forall_forall. intros o _. destruct o; simpl; auto. Qed.
Example f16_done2 : all_done (fst f16_run2).
Proof. apply all_done_of_b. vm_compute. reflexivity. Qed.
Example f16_done3 : all_done (fst f16_run3).
Proof. apply all_done_of_b. vm_compute. reflexivity. Qed.
Definition f16_reach1 := r16_conc (fun z => z) Z.add true 8 (ainit c02_rnd) 0 c02_progs c02f_sched
                            (r16_init (fun z => z) Z.add true 8 c02_rnd) c02_updates_only c02_jdk_f64_all_done.
Definition f16_reach2 := r16_seq (fun z => z) Z.add true 8 f16_s1 (0 + total c02_progs) j16_ops1 120
                            (fst f16_run2) (snd f16_run2) f16_reach1 (f16_okid _) (run_pair RF _ _) f16_done2.
Example C16_jdk_f64_adder_nonvacuous :
  rets (snd f16_run3) = snd (spec_run Z.add (fst (spec_run Z.add (0 + total c02_progs) j16_ops1)) j16_ops3).
Proof.
  exact (C16_jdk_f64_adder true 8 f16_s2 _ j16_ops3 150 (fst f16_run3) (snd f16_run3)
           f16_reach2 (run_pair RF _ _) f16_done3).
Qed.
Example C16_jdk_f64_adder_nonvacuous_value :
  rets (snd f16_run3) = [RZ (-10); RU; RZ 0; RZ 0; RU; RU; RZ (-6); RU; RZ 0].
Proof. rewrite C16_jdk_f64_adder_nonvacuous. vm_compute. reflexivity. Qed.

(** ** RandomCellAdder, 4 cells: [rr16_init]; [rr16_conc] (the wrapping 3-goroutine phase of C02);
    [rr16_seq] (Store/Reset/SumAndReset); [rr16_conc] (2 goroutines); then the theorem *)
Definition r16_sched2 : list nat := [0;1;1;0;0;1;1;0]%nat.
Notation r16_s1 := (c_sh (final rc_adder (init rpc (rinit 4 rc02_rnd) tt rc02_progs) rc02_sched)).
Notation r16_run2 := (run rc_adder (Config r16_s1 [mk_thread rpc tt j16_ops1]) (repeat 0%nat 60)).
Notation r16_s2 := (c_sh (fst r16_run2)).
Notation r16_c3 := (final rc_adder (init rpc r16_s2 tt j16_progs2) r16_sched2).
Notation r16_s3 := (c_sh r16_c3).
Notation r16_run4 := (run rc_adder (Config r16_s3 [mk_thread rpc tt j16_ops3]) (repeat 0%nat 60)).
Example r16_ok1 : Forall SimpleRCSeq.op_ok j16_ops1.
Proof. apply rc_ok_of_b. vm_compute. reflexivity. Qed.
Example r16_ok3 : Forall SimpleRCSeq.op_ok j16_ops3.
Proof. apply rc_ok_of_b. vm_compute. reflexivity. Qed.
Example r16_done2 : all_done (fst r16_run2).
Proof. apply all_done_of_b. vm_compute. reflexivity. Qed.
Example r16_done3 : all_done r16_c3.
Proof. apply all_done_of_b. vm_compute. reflexivity. Qed.
Example r16_done4 : all_done (fst r16_run4).
Proof. apply all_done_of_b. vm_compute. reflexivity. Qed.
Definition r16_reach1 := rr16_conc 4 (rinit 4 rc02_rnd) 0 rc02_progs rc02_sched (rr16_init 4 rc02_rnd) rc02_updates_only rc02_all_done.
Definition r16_reach2 := rr16_seq 4 r16_s1 (wadd 0 (total rc02_progs)) j16_ops1 60 (fst r16_run2) (snd r16_run2)
                            r16_reach1 r16_ok1 (run_pair rc_adder _ _) r16_done2.
Definition r16_reach3 := rr16_conc 4 r16_s2 (fst (spec_run wadd (wadd 0 (total rc02_progs)) j16_ops1)) j16_progs2 r16_sched2
                            r16_reach2 j16_up2 r16_done3.
Example r16_facts :
  r16_s1 = RS [2^63-1; 50; -7; 1] [2;3;1;3;2;1;3;2] /\ r16_s2 = RS [-9; 0; 0; -1] [2;1;3;2] /\ r16_s3 = RS [-9; 1; 16; -2] [] /\
  rets (snd r16_run2) = [RZ (- 2^63 + 43); RU; RU; RZ 8; RU; RU; RU; RU; RU].
Proof. vm_compute. auto. Qed.
Example C16_random_cell_adder_nonvacuous :
  rets (snd r16_run4) =
  snd (spec_run wadd (wadd (fst (spec_run wadd (wadd 0 (total rc02_progs)) j16_ops1)) (total j16_progs2)) j16_ops3).
Proof.
  exact (C16_random_cell_adder 4 r16_s3 _ j16_ops3 60 (fst r16_run4) (snd r16_run4) ltac:(lia)
           r16_reach3 r16_ok3 (run_pair rc_adder _ _) r16_done4).
Qed.
Example C16_random_cell_adder_nonvacuous_value :
  rets (snd r16_run4) = [RZ 6; RU; RZ 16; RZ 0; RU; RU; RZ (-6); RU; RZ 0].
Proof. rewrite C16_random_cell_adder_nonvacuous. vm_compute. reflexivity. Qed.

(** ** AtomicAdder, one goroutine, the whole API including SumAndReset *)
Definition a16_ops : list aop := [Add 3; SumAndReset; Sum; Store 4; Dec; SumAndReset; Inc; Reset; Sum].
Notation a16_run := (run atomic_adder (Config 5 [mk_thread tpc tt a16_ops]) (repeat 0%nat 40)).
Example a16_done : all_done (fst a16_run).
Proof. apply all_done_of_b. vm_compute. reflexivity. Qed.
Example C16_atomic_adder_sequential_nonvacuous :
  rets (snd a16_run) = snd (spec_run wadd 5 a16_ops) /\ c_sh (fst a16_run) = fst (spec_run wadd 5 a16_ops).
Proof. exact (C16_atomic_adder_sequential 5 a16_ops 40 (fst a16_run) (snd a16_run) (run_pair atomic_adder _ _) a16_done). Qed.
Example C16_atomic_adder_sequential_nonvacuous_value :
  rets (snd a16_run) = [RU; RZ 8; RZ 0; RU; RU; RZ 3; RU; RU; RZ 0] /\ c_sh (fst a16_run) = 0.
Proof.
  destruct C16_atomic_adder_sequential_nonvacuous as [H1 H2]. rewrite H1, H2. vm_compute. auto.
Qed.

(** * Audit checks (facts backing the flagged items of the report) *)

(** [reader_progs] (C09 bounds form) excludes Dec and every negative Add; [mixed_progs] (C09 set form)
    excludes Store / Reset / SumAndReset - both documented in the property text *)
Example audit_reader_progs_excludes_Dec : ~ reader_progs [[Dec]].
Proof.
  intros H. destruct (H [Dec] Dec (or_introl eq_refl) (or_introl eq_refl)) as [_ H2].
  unfold nnop in H2. simpl in H2. lia.
Qed.
Example audit_mixed_progs_excludes_Reset : ~ mixed_progs [[Reset]].
Proof.
  intros H. destruct (H [Reset] Reset (or_introl eq_refl) (or_introl eq_refl)) as [H1|H1]; discriminate.
Qed.

(** RandomCellAdder: the landing step (RAdd) of an update is the step with which the call RETURNS, so
    inside one call no step follows the landing step.  Hence the only positions k2 that satisfy the
    hypotheses of [C09set_rc_update_lands_at_most_once] are invocation steps of the NEXT call of the
    thread (where [t_prog] is still [pr] and [t_cur = None], so [landing = None] by definition):
    for this adder the theorem is true but says nothing about "the same call". *)
Lemma audit_rc_landing_step_is_return c t c' e :
  step_thread rc_adder c t = Some (c', e) -> rc_commit c t <> None ->
  exists th', nth_error (c_thr c') t = Some th' /\ t_cur th' = None.
Proof.
  unfold step_thread, rc_commit. destruct (nth_error (c_thr c) t) as [th|] eqn:Hn; [|discriminate].
  unfold view. destruct (t_dead th); [discriminate|].
  destruct (t_cur th) as [[o l]|]; [|intros _ H; congruence].
  destruct l; try (intros _ H; congruence).
  simpl. intros H _. injection H as <- _. simpl.
  exists (Thread (t_prog th) tt None false). split; [|reflexivity].
  rewrite nth_error_upd, Nat.eqb_refl, Hn. reflexivity.
Qed.
