(** C10 - the sliding-window counter neither invents, double-counts nor loses
    events.  Property theorems only. *)
From Coq Require Import List Arith Bool ZArith.
From Garr Require Import Conc.Conc Pure.F64 Pure.Config Breaker.BreakerModel Breaker.Ref
  Breaker.ConcBase Breaker.ConcWin Breaker.ConcCount Breaker.ConcFresh Breaker.SeqRefine Breaker.WindowSeq.
Import ListNotations.

(** Concurrent reporters (any number, any interleaving, any ticker stream):
    in every reachable state the buckets of a window are pairwise distinct,
    the current bucket is not also archived, no bucket belongs to two windows,
    and a bucket a reporter still carries (the loser's next bucket, an instant
    bucket, the old bucket about to be archived) is in no reservoir yet - so
    trimAndSum, which visits every reservoir cell at most once, can count no
    event twice. *)
Theorem C10_no_double_count : forall cfg nl ticks progs sched,
  WInv (final (breaker cfg nl) (bcfg0 nl ticks progs) sched).
Proof. exact window_invariant. Qed.
Print Assumptions C10_no_double_count.

(** Conservation: at every instant the successes (failures) stored in all
    buckets together equal, modulo 2^64, the number of success (failure)
    reports whose add step has been executed: nothing is invented, nothing is
    lost - including the events of reporters that lost the race to roll the
    bucket and of reporters that saw the ticker step backwards. *)
Theorem C10_conservation : forall cfg nl succ ticks progs sched,
  wrap64 (sum_of succ (b_buckets (c_sh (final (breaker cfg nl) (bcfg0 nl ticks progs) sched)))) =
  wrap64 (Z.of_nat (nadds succ (steps_of (breaker cfg nl) (bcfg0 nl ticks progs) sched))).
Proof. exact bucket_conservation. Qed.
Print Assumptions C10_conservation.

(** Quiescent / sequential exactness: a single reporter using the window (any
    sequence of OnSuccess / OnFailure / Count, any ticker readings - advancing,
    standing still or stepping backwards) gets exactly the counts of the
    reference window: a roll at tick t reports the sum of the buckets with
    timestamp >= t - window (the rolling event itself not included), events
    older than the window are dropped, back-in-time events live in their own
    instant bucket. *)
Theorem C10_sequential_exact : forall cfg nl ticks ops,
  (forall o, In o ops -> window_op o = true) ->
  exists n, forall m, (n <= m)%nat ->
    let '(c, e) := run (breaker cfg nl) (init bpc (winit ticks) tt [ops]) (repeat 0%nat m) in
    let '(w, xs) := rwin_run cfg (rwin_init ticks) ops in
    rets e = xs /\ b_ticks (c_sh c) = rw_ticks w /\ b_log (c_sh c) = [].
Proof. exact window_refines_reference. Qed.
Print Assumptions C10_sequential_exact.
