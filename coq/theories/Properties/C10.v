(** C10 - the sliding-window counter neither invents, double-counts nor loses
    events.  Property theorems only. *)
From Coq Require Import List Arith Bool ZArith.
From Garr Require Import Conc.Conc Pure.F64 Pure.Config Breaker.BreakerModel Breaker.Ref
  Breaker.ConcBase Breaker.ConcWin Breaker.ConcCount Breaker.ConcFresh Breaker.SeqRefine Breaker.WindowSeq
  Breaker.ConcGhost Breaker.ConcUpper Breaker.ConcOwn Breaker.ConcQuiescent.
Import ListNotations.

(** Concurrent reporters (any number, any interleaving, any ticker stream):
    in every reachable state the buckets of a window are pairwise distinct,
    the current bucket is not also archived, no bucket belongs to two windows,
    and a bucket a reporter still carries (the loser's next bucket, an instant
    bucket, the old bucket about to be archived) is in no reservoir yet - so
    trimAndSum, which visits every reservoir cell at most once, can count no
    event twice. *)
Theorem C10_no_double_count : forall cfg nl ticks progs sched,
  WInv (final (breaker cfg nl) (bcfg0 nl ticks progs) sched).
Proof. exact window_invariant. Qed.
Print Assumptions C10_no_double_count.

(** Conservation: at every instant the successes (failures) stored in all
    buckets together equal, modulo 2^64, the number of success (failure)
    reports whose add step has been executed: nothing is invented, nothing is
    lost - including the events of reporters that lost the race to roll the
    bucket and of reporters that saw the ticker step backwards. *)
Theorem C10_conservation : forall cfg nl succ ticks progs sched,
  wrap64 (sum_of succ (b_buckets (c_sh (final (breaker cfg nl) (bcfg0 nl ticks progs) sched)))) =
  wrap64 (Z.of_nat (nadds succ (steps_of (breaker cfg nl) (bcfg0 nl ticks progs) sched))).
Proof. exact bucket_conservation. Qed.
Print Assumptions C10_conservation.

(** Quiescent / sequential exactness: a single reporter using the window (any
    sequence of OnSuccess / OnFailure / Count, any ticker readings - advancing,
    standing still or stepping backwards) gets exactly the counts of the
    reference window: a roll at tick t reports the sum of the buckets with
    timestamp >= t - window (the rolling event itself not included), events
    older than the window are dropped, back-in-time events live in their own
    instant bucket. *)
Theorem C10_sequential_exact : forall cfg nl ticks ops,
  (forall o, In o ops -> window_op o = true) ->
  exists n, forall m, (n <= m)%nat ->
    let '(c, e) := run (breaker cfg nl) (init bpc (winit ticks) tt [ops]) (repeat 0%nat m) in
    let '(w, xs) := rwin_run cfg (rwin_init ticks) ops in
    rets e = xs /\ b_ticks (c_sh c) = rw_ticks w /\ b_log (c_sh c) = [].
Proof. exact window_refines_reference. Qed.
Print Assumptions C10_sequential_exact.

(** ---- concurrent upper bound and exactness after quiescence ---- *)

(** Vocabulary (all read off the execution log [steps_of], see ConcUpper.v):
    - [tick_read tid L]      the ticker reading of the last window report thread [tid] started in [L];
    - [recent_adds cfg succ t L]  number of add steps of outcome [succ] in [L] whose target bucket
                             has timestamp >= t - window ([recent_adds_spec] spells it out);
    - [recent_adds_on cfg succ t ids L]  the same, restricted to the buckets [ids];
    - [roll_ids x]           the live reservoir cells of window [x] followed by its current bucket. *)

(** (A) Any number of concurrent reporters, any ticker stream, any interleaving: a count
    returned by OnSuccess / OnFailure of the window (the thread rolled the bucket after
    reading tick t) is bounded by the success / failure add steps executed BEFORE the return
    on buckets whose interval began inside the window of t.  Nothing invented, nothing
    counted twice, nothing older than the window. *)
Theorem C10_count_upper_bound : forall cfg nl ticks progs sched j cj tid cj' ej o sc fc,
  (Z.of_nat (length (concat progs)) < 2 ^ 62)%Z ->
  let log := steps_of (breaker cfg nl) (bcfg0 nl ticks progs) sched in
  nth_error log j = Some (cj, tid) ->
  step_thread (breaker cfg nl) cj tid = Some (cj', ej) ->
  In (ERet tid o (BCount (Some (sc, fc)))) ej -> o <> WCount ->
  exists t, tick_read tid (firstn j log) = Some t /\
    (0 <= sc <= Z.of_nat (recent_adds cfg true t (firstn j log)))%Z /\
    (0 <= fc <= Z.of_nat (recent_adds cfg false t (firstn j log)))%Z.
Proof. exact returned_count_upper_bound. Qed.
Print Assumptions C10_count_upper_bound.

(** the same at the program counter that stores and delivers the count (also covers the
    counts delivered to the breaker and its listeners: any continuation [k]) *)
Theorem C10_count_upper_bound_pc : forall cfg nl ticks progs sched j cj tid w k sc fc,
  (Z.of_nat (length (concat progs)) < 2 ^ 62)%Z ->
  let log := steps_of (breaker cfg nl) (bcfg0 nl ticks progs) sched in
  nth_error log j = Some (cj, tid) ->
  nth_error (pcs cj) tid = Some (WSnapStore w k sc fc) ->
  exists t, tick_read tid (firstn j log) = Some t /\
    (0 <= sc <= Z.of_nat (recent_adds cfg true t (firstn j log)))%Z /\
    (0 <= fc <= Z.of_nat (recent_adds cfg false t (firstn j log)))%Z.
Proof. exact count_upper_bound. Qed.

(** sharper: only recent adds on the buckets archived in the reservoir of the window being
    rolled can be counted (no event of another window, none of a bucket not yet archived) *)
Theorem C10_count_upper_bound_window : forall cfg nl ticks progs sched j cj tid w k sc fc,
  (Z.of_nat (length (concat progs)) < 2 ^ 62)%Z ->
  let log := steps_of (breaker cfg nl) (bcfg0 nl ticks progs) sched in
  nth_error log j = Some (cj, tid) ->
  nth_error (pcs cj) tid = Some (WSnapStore w k sc fc) ->
  exists t x, tick_read tid (firstn j log) = Some t /\ nth1 (b_wins (c_sh cj)) w = Some x /\
    (0 <= sc <= Z.of_nat (recent_adds_on cfg true t (map fst (w_cells x)) (firstn j log)))%Z /\
    (0 <= fc <= Z.of_nat (recent_adds_on cfg false t (map fst (w_cells x)) (firstn j log)))%Z.
Proof. exact count_upper_bound_window. Qed.

(** Count(): the snapshot never exceeds the adds executed so far *)
Theorem C10_snapshot_upper_bound : forall cfg nl ticks progs sched w x,
  (Z.of_nat (length (concat progs)) < 2 ^ 62)%Z ->
  let log := steps_of (breaker cfg nl) (bcfg0 nl ticks progs) sched in
  nth1 (b_wins (c_sh (final (breaker cfg nl) (bcfg0 nl ticks progs) sched))) w = Some x ->
  (0 <= fst (w_snap x) <= Z.of_nat (total_adds true log))%Z /\
  (0 <= snd (w_snap x) <= Z.of_nat (total_adds false log))%Z.
Proof. exact snapshot_upper_bound. Qed.

(** bucket timestamps are immutable *)
Theorem C10_bucket_ts_immutable : forall cfg nl sched c b bk,
  nth1 (b_buckets (c_sh c)) b = Some bk ->
  exists bk', nth1 (b_buckets (c_sh (final (breaker cfg nl) c sched))) b = Some bk' /\ bk_ts bk' = bk_ts bk.
Proof. exact bucket_ts_immutable. Qed.

(** (B) From any configuration reached by a concurrent execution in which every call has
    returned, a reporter whose reading makes it roll returns EXACTLY the kept buckets of
    reservoir + current bucket, which is EXACTLY the number of add steps the log contains
    for them (whoever executed them). *)
Theorem C10_quiescent_roll_exact : forall cfg nl ticks progs sched r th o rest x cb,
  (Z.of_nat (length (concat progs)) < 2 ^ 62)%Z ->
  let c := final (breaker cfg nl) (bcfg0 nl ticks progs) sched in
  let log := steps_of (breaker cfg nl) (bcfg0 nl ticks progs) sched in
  (forall th', In th' (c_thr c) -> t_cur th' = None) ->
  nth_error (c_thr c) r = Some th -> t_dead th = false -> t_prog th = o :: rest ->
  (o = WSuccess \/ o = WFailure) ->
  nth1 (b_wins (c_sh c)) 1 = Some x -> nth1 (b_buckets (c_sh c)) (w_cur x) = Some cb ->
  let t := hd 0%Z (b_ticks (c_sh c)) in
  (bk_ts cb <= t)%Z -> (wrap64 (bk_ts cb + interval cfg) <= t)%Z ->
  exists n c' S F,
    run (breaker cfg nl) c (repeat r n) = (c', [EInv r o; ERet r o (BCount (Some (S, F)))]) /\
    (S, F) = roll_count cfg (c_sh c) x t /\
    S = Z.of_nat (recent_adds_on cfg true t (roll_ids x) log) /\
    F = Z.of_nat (recent_adds_on cfg false t (roll_ids x) log).
Proof. exact quiescent_roll_exact. Qed.
Print Assumptions C10_quiescent_roll_exact.

(** nothing is lost: at quiescence every logged add sits in a current or archived bucket ... *)
Theorem C10_quiescent_adds_archived : forall cfg nl ticks progs sched e sc b ts,
  let c := final (breaker cfg nl) (bcfg0 nl ticks progs) sched in
  (forall th, In th (c_thr c) -> t_cur th = None) ->
  In e (alog (steps_of (breaker cfg nl) (bcfg0 nl ticks progs) sched)) -> snd e = AAdd sc b ts ->
  exists w x, nth1 (b_wins (c_sh c)) w = Some x /\ (b = w_cur x \/ In b (map fst (w_cells x))).
Proof. exact quiescent_adds_archived. Qed.

(** ... so with one window and nothing inside the window trimmed, the roll reports ALL the
    recent adds of the log: the bound (A) is attained *)
Theorem C10_quiescent_roll_exact_untrimmed : forall cfg nl ticks progs sched r th o rest x cb,
  (Z.of_nat (length (concat progs)) < 2 ^ 62)%Z ->
  let c := final (breaker cfg nl) (bcfg0 nl ticks progs) sched in
  let log := steps_of (breaker cfg nl) (bcfg0 nl ticks progs) sched in
  (forall th', In th' (c_thr c) -> t_cur th' = None) ->
  nth_error (c_thr c) r = Some th -> t_dead th = false -> t_prog th = o :: rest ->
  (o = WSuccess \/ o = WFailure) ->
  nth1 (b_wins (c_sh c)) 1 = Some x -> nth1 (b_buckets (c_sh c)) (w_cur x) = Some cb ->
  let t := hd 0%Z (b_ticks (c_sh c)) in
  (bk_ts cb <= t)%Z -> (wrap64 (bk_ts cb + interval cfg) <= t)%Z ->
  length (b_wins (c_sh c)) = 1 ->
  (forall b bk, In (b, false) (w_cells x) -> nth1 (b_buckets (c_sh c)) b = Some bk ->
                (bk_ts bk < cut cfg t)%Z) ->
  exists n c',
    run (breaker cfg nl) c (repeat r n) =
      (c', [EInv r o; ERet r o (BCount (Some (Z.of_nat (recent_adds cfg true t log),
                                               Z.of_nat (recent_adds cfg false t log))))]).
Proof. exact quiescent_roll_exact_untrimmed. Qed.
Print Assumptions C10_quiescent_roll_exact_untrimmed.
