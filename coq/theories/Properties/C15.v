(** C15 - both queues behave like a plain FIFO list sequentially and at
    quiescence.  Property theorems only. *)
From Coq Require Import List Arith NArith.
From Garr Require Import Conc.Conc Conc.Lin Queue.JdkModel Queue.MutexModel.
From Garr Require Queue.MutexProofs.
From Garr Require Import Queue.JdkInv Queue.JdkLin Queue.JdkSeq.
Import ListNotations.

(** Lock-free queue, one goroutine: any sequence of Offer (nil included), Poll,
    Peek, IsEmpty, Size and iterator calls (Iterator, HasNext, Next, Remove)
    returns exactly what the plain list object [sq_step] returns: Offer(nil)
    is ignored, Poll/Peek on an empty queue return nil, Size is the number of
    queued elements, the iterator returns the captured elements in order and
    Remove deletes the element last returned by Next. *)
Theorem C15_jdk_sequential : forall ops,
  (N.of_nat (length ops) < max_int32)%N ->
  exists n, forall m, n <= m ->
    rets (trace jdk (jdk_init [ops]) (repeat 0 m)) = snd (sq_run (SQ [] None 0 None) ops).
Proof. exact jdk_sequential_refines_list. Qed.
Print Assumptions C15_jdk_sequential.

(** After ANY concurrent phase (any programs, any schedule - lagging head and
    tail, dead prefixes, self-links and shortcut links included): Size run
    alone returns the number of elements offered and not yet removed, *)
Theorem C15_jdk_quiescent_size : forall progs sched,
  let s := c_sh (final jdk (jdk_init progs) sched) in
  (N.of_nat (length (absq s)) < max_int32)%N ->
  solo_returns qiter0 s Size (RSize (N.of_nat (length (absq s)))).
Proof. exact jdk_quiescent_size. Qed.
Print Assumptions C15_jdk_quiescent_size.

(** any further single-threaded use of Offer/Poll/Peek/IsEmpty agrees with the
    FIFO list of exactly those elements, *)
Theorem C15_jdk_quiescent_fifo : forall progs sched ops,
  let s := c_sh (final jdk (jdk_init progs) sched) in
  (forall o, In o ops -> fifo_op o = true) ->
  exists n, forall m, n <= m ->
    rets (trace jdk (cfg1 s (mk_thread qlocal qiter0 ops)) (repeat 0 m)) =
    snd (spec_run (list nat) MutexProofs.fifo_spec (absq s) ops).
Proof. exact jdk_quiescent_fifo. Qed.
Print Assumptions C15_jdk_quiescent_fifo.

(** and a full drain returns them in order, then nil. *)
Theorem C15_jdk_quiescent_drain : forall progs sched,
  let s := c_sh (final jdk (jdk_init progs) sched) in
  exists n, forall m, n <= m ->
    rets (trace jdk (cfg1 s (mk_thread qlocal qiter0 (repeat Poll (S (length (absq s)))))) (repeat 0 m)) =
    map RVal (absq s) ++ [RVal 0].
Proof. exact jdk_quiescent_drain. Qed.
Print Assumptions C15_jdk_quiescent_drain.

(** Mutex queue: every history (a fortiori every sequential one) is that of the
    FIFO list with Size and IsEmpty. *)
Theorem C15_mutex : forall (progs : list (list qop)) (sched : list nat),
  lin_ok mutexq MutexProofs.qret_eqb MutexProofs.fifo_spec MutexProofs.mutex_lp minit tt [] progs sched = true.
Proof. exact MutexProofs.mutex_queue_linearizable. Qed.
Print Assumptions C15_mutex.
