(** Non-vacuity audit of the C14 property theorems (Properties/C14.v, C14HB.v).

    theorem                               -> example(s)
    ------------------------------------------------------------------------------------------
    C14_discipline_sound                  -> C14_discipline_sound_nonvacuous            (8 real rows, all 5 classes + a sync site)
                                             C14_discipline_sound_nonvacuous_row        (one instantiated conclusion, evaluated)
                                             C14_discipline_sound_hypothesis_bites      (the hypothesis is refutable: mutated rows)
    C14_discipline_implies_drf            -> C14_discipline_implies_drf_nonvacuous      (3 goroutines: guarded + immutable + atomic)
                                             C14_discipline_implies_drf_nonvacuous_owned (owned hand-over through channels)
                                             C14_discipline_implies_drf_hypothesis_bites (a racy execution is NOT disciplined)
    C14_table_implies_drf                 -> C14_table_implies_drf_nonvacuous           (queue rows: ctor / init / atomic / read)
                                             C14_table_implies_drf_nonvacuous_adder     (guarded rows, reuses HBStaticExample)
    C14_escape_discipline_implies_drf     -> C14_escape_discipline_implies_drf_nonvacuous       (publication through an atomic word)
                                             C14_escape_discipline_implies_drf_nonvacuous_chan  (reference passed through a channel)
    C14_table_implies_drf_esc             -> C14_table_implies_drf_esc_nonvacuous

    All five theorems are conditional; none is unconditional.
    Audit remarks (weak vocabulary, what carries the weight) are at the end of the file, with
    machine-checked illustrations [audit_*]. *)
From Coq Require Import String List Arith Bool Lia.
From Garr Require Import Race.Discipline Race.HBModel Race.HB Race.HBDecide Race.HBStatic Race.HBPublish
     Race.HBEscape Race.HBStaticEscape Race.HBExamples Race.HBStaticExample Race.HBEscapeExample.
From Garr Require Import Properties.C14 Properties.C14HB.
Import ListNotations.
Open Scope string_scope.

(* ------------------------------------------------------------------------------------------ *)
(** * C14_discipline_sound *)

(** rows of the REAL extracted table (build/gen/AccessTable.v), one per class and one sync site *)
Definition r_h_ctor  := Acc "queue" "JDKLinkedQueue" "h" "NewJDKLinkedQueue" "write".
Definition r_h_cas   := Acc "queue" "JDKLinkedQueue" "h" "JDKLinkedQueue.casHead" "atomic".
Definition r_h_load  := Acc "queue" "JDKLinkedQueue" "h" "JDKLinkedQueue.head" "atomic".
Definition r_v_init  := Acc "queue" "linkedListNode" "_v" "newLinkedListNode" "init".
Definition r_v_read  := Acc "queue" "linkedListNode" "_v" "linkedListNode.value" "read".
Definition r_madd_wr := Acc "adder" "MutexAdder" "value" "MutexAdder.Add" "write".
Definition r_it_wr   := Acc "queue" "jdkLinkedQueueIter" "nextNode" "jdkLinkedQueueIter.Next" "write".
Definition r_mu_lock := Acc "queue" "sync" "queue.mutex" "MutexLinkedQueue.Offer" "sync:Lock".

Definition nv_table : list access :=
  [r_h_ctor; r_h_cas; r_h_load; r_v_init; r_v_read; r_madd_wr; r_it_wr; r_mu_lock].

Example nv_table_ok : table_ok nv_table = true.
Proof. vm_compute. reflexivity. Qed.

Example C14_discipline_sound_nonvacuous : forall a, In a nv_table -> obeys a :=
  C14_discipline_sound nv_table nv_table_ok.

(** one conclusion, instantiated and unfolded: the plain write of the atomic head word is
    accepted only because it sits in the listed constructor *)
Example C14_discipline_sound_nonvacuous_row :
  exists c, class_of field_classes "queue" "JDKLinkedQueue" "h" = Some c /\
            c = CAtomic ["NewJDKLinkedQueue"] /\ mem (a_fn r_h_ctor) ["NewJDKLinkedQueue"] = true.
Proof.
  pose proof (C14_discipline_sound nv_table nv_table_ok r_h_ctor (or_introl eq_refl)) as H.
  exists (CAtomic ["NewJDKLinkedQueue"]). repeat split.
Qed.

(** the hypothesis can fail: the same table with the atomic load of the head replaced by a
    plain read (the mutation of the property text), and with an unknown sync site *)
Example C14_discipline_sound_hypothesis_bites :
  table_ok [r_h_ctor; Acc "queue" "JDKLinkedQueue" "h" "JDKLinkedQueue.head" "read"; r_v_read] = false /\
  table_ok [r_mu_lock; Acc "queue" "sync" "queue.mutex" "MutexLinkedQueue.Size" "sync:Lock"] = false.
Proof. split; vm_compute; reflexivity. Qed.

(* ------------------------------------------------------------------------------------------ *)
(** * C14_discipline_implies_drf *)
Open Scope nat_scope.

(** three goroutines.  location 2: an atomic pointer word (initialised plainly in the
    constructor), location 1: an immutable payload published through it, location 0: a counter
    guarded by RWMutex 0.  Goroutine 0 builds, starts 1 and 2, publishes; goroutine 1 loads
    the pointer, reads the payload, increments under Lock; goroutine 2 does an atomic RMW on
    the pointer, reads the payload, reads the counter under RLock. *)
Definition nv_exec : exec := [
  Ev 0 (Wr 2); Ev 0 (Spawn 1); Ev 0 (Spawn 2); Ev 0 (Wr 1); Ev 0 (AWr 2);
  Ev 1 (ARd 2); Ev 1 (Rd 1); Ev 1 (Lock 0); Ev 1 (Wr 0); Ev 1 (Unlock 0);
  Ev 2 (ARmw 2); Ev 2 (Rd 1); Ev 2 (RLock 0); Ev 2 (Rd 0); Ev 2 (RUnlock 0) ].

Definition nv_wit (x : loc) : witness :=
  match x with
  | 0 => WGuarded 0
  | 1 => WImmutable 0 4
  | _ => WAtomic 0 4
  end.

Example nv_exec_wf : wf nv_exec.
Proof. apply wfb_sound. vm_compute. reflexivity. Qed.

Example nv_exec_disciplined : disciplined nv_exec.
Proof. apply (disciplinedb_sound nv_exec nv_wit). vm_compute. reflexivity. Qed.

Example C14_discipline_implies_drf_nonvacuous : ~ data_race nv_exec :=
  C14_discipline_implies_drf nv_exec nv_exec_wf nv_exec_disciplined.

(** the conclusion, independently, by exhaustive computation of happens-before; and the
    execution really has conflicting accesses of different goroutines (the conclusion is not
    true for lack of conflicts): the two writes/reads of the counter and the payload *)
Example nv_exec_no_race_computed : data_raceb nv_exec = false.
Proof. vm_compute. reflexivity. Qed.
Example nv_exec_has_conflicts :
  conflicting (Wr 0) (Rd 0) /\ hb nv_exec 8 13 /\ conflicting (Wr 1) (Rd 1) /\ hb nv_exec 3 11 /\
  conflicting (Wr 2) (ARmw 2) /\ hb nv_exec 0 10.
Proof.
  repeat split; try (apply conflictingb_spec; vm_compute; reflexivity);
    apply hbb_spec; vm_compute; reflexivity.
Qed.

(** the owned class (hand-over through channels), on HBExamples.handover_ok *)
Example C14_discipline_implies_drf_nonvacuous_owned : ~ data_race handover_ok.
Proof.
  apply (C14_discipline_implies_drf handover_ok).
  - apply wfb_sound. vm_compute. reflexivity.
  - apply (disciplinedb_sound handover_ok (fun _ => WOwned handover_periods)). vm_compute. reflexivity.
Qed.

(** the hypothesis can fail: goroutine 1 of [nv_exec] writing the counter without the lock -
    the execution is well formed, it is not disciplined under ANY class for location 0 that
    the checker can certify, and it has a race *)
Definition nv_exec_racy : exec := [
  Ev 0 (Wr 2); Ev 0 (Spawn 1); Ev 0 (Spawn 2); Ev 0 (Wr 1); Ev 0 (AWr 2);
  Ev 1 (ARd 2); Ev 1 (Rd 1); Ev 1 (Wr 0);
  Ev 2 (ARmw 2); Ev 2 (Rd 1); Ev 2 (RLock 0); Ev 2 (Rd 0); Ev 2 (RUnlock 0) ].
Example C14_discipline_implies_drf_hypothesis_bites :
  wf nv_exec_racy /\ ~ disciplined nv_exec_racy /\ race_pair nv_exec_racy 7 11.
Proof.
  assert (Hr : race_pair nv_exec_racy 7 11) by (apply race_pairb_spec; vm_compute; reflexivity).
  assert (Hwf : wf nv_exec_racy) by (apply wfb_sound; vm_compute; reflexivity).
  split; [exact Hwf|]. split; [|exact Hr].
  intros Hd. apply (C14_discipline_implies_drf nv_exec_racy Hwf Hd). exists 7, 11. exact Hr.
Qed.

(* ------------------------------------------------------------------------------------------ *)
(** * C14_table_implies_drf : the execution [HBExamples.publish_ok] read as a run of the queue

      0  Ev 0 (Wr 1)    NewJDKLinkedQueue: plain initialisation of q.h          row r_h_ctor
      1  Ev 0 (Spawn 1) go func() { ... q ... }
      2  Ev 0 (Wr 0)    newLinkedListNode: &linkedListNode{_v: v}                 row r_v_init
      3  Ev 0 (AWr 1)   casHead                                                   row r_h_cas
      4  Ev 1 (ARd 1)   head()                                                    row r_h_load
      5  Ev 1 (Rd 0)    node.value()                                              row r_v_read
      6  Ev 0 (Rd 0)    node.value()                                              row r_v_read   *)
Definition q_table : list access := [r_h_ctor; r_h_cas; r_h_load; r_v_init; r_v_read].

Example q_table_ok : table_ok q_table = true.
Proof. vm_compute. reflexivity. Qed.

Definition q_src (i : nat) : access :=
  match i with 0 => r_h_ctor | 2 => r_v_init | 3 => r_h_cas | 4 => r_h_load | _ => r_v_read end.
Definition q_fld (x : loc) : field_id :=
  match x with 0 => ("queue", "linkedListNode", "_v") | _ => ("queue", "JDKLinkedQueue", "h") end.

Ltac nv_each_event Hat :=
  unfold at_ in Hat;
  repeat (match type of Hat with
          | nth_error _ ?i = _ => destruct i as [|i]; [simpl in Hat; inversion Hat; subst; clear Hat|simpl in Hat]
          end);
  try discriminate.

Example q_static_to_dynamic :
  static_to_dynamic q_table publish_ok q_src q_fld (fun _ => 0) (fun _ => 0) (fun _ => false).
Proof.
  constructor.
  - intros i t k x Hat Hx. nv_each_event Hat; simpl in Hx; try discriminate; inversion Hx; subst x;
      (split; [simpl; tauto|split; [reflexivity|split; [reflexivity|
         split; simpl; intros H; try discriminate H; reflexivity]]]).
  - intros i t k x c Hat Hx Hc H.
    nv_each_event Hat; simpl in Hx; try discriminate; inversion Hx; subst x;
      vm_compute in Hc; inversion Hc; subst c; clear Hc;
      simpl in H; destruct H as [H|H]; try discriminate H.
    + (* event 0, the constructor's plain write of h *)
      split; [reflexivity|]. exists 3. split.
      * apply pob_spec. vm_compute. reflexivity.
      * apply publishedb_sound. vm_compute. reflexivity.
    + (* event 2, the composite literal of the node *)
      split; [reflexivity|]. exists 3. split.
      * apply pob_spec. vm_compute. reflexivity.
      * apply publishedb_sound. vm_compute. reflexivity.
  - intros i t k x funcs Hat Hx Hc H.
    nv_each_event Hat; simpl in Hx; try discriminate; inversion Hx; subst x; vm_compute in Hc; discriminate Hc.
  - intros x (i & t & k & Hat & Hx) Hc.
    nv_each_event Hat; simpl in Hx; try discriminate; inversion Hx; subst x; vm_compute in Hc; discriminate Hc.
  - intros i t k x Hat Hx Hc.
    nv_each_event Hat; simpl in Hx; try discriminate; inversion Hx; subst x; vm_compute in Hc; discriminate Hc.
Qed.

Example publish_ok_wf : wf publish_ok.
Proof. apply wfb_sound. vm_compute. reflexivity. Qed.

Example C14_table_implies_drf_nonvacuous : ~ data_race publish_ok :=
  C14_table_implies_drf q_table publish_ok q_src q_fld (fun _ => 0) (fun _ => 0) (fun _ => false)
    q_table_ok q_static_to_dynamic publish_ok_wf.

(** the guarded class, reusing Race/HBStaticExample.v (NewMutexAdder / Add / Sum, 2 goroutines) *)
Example adder_exec_wf : wf adder_exec.
Proof. apply wfb_sound. vm_compute. reflexivity. Qed.
Example C14_table_implies_drf_nonvacuous_adder : ~ data_race adder_exec :=
  C14_table_implies_drf adder_table adder_exec adder_src
    (fun _ => ("adder", "MutexAdder", "value")) (fun _ => 0) (fun _ => 0) (fun _ => false)
    adder_table_ok adder_static_to_dynamic adder_exec_wf.

(* ------------------------------------------------------------------------------------------ *)
(** * C14_escape_discipline_implies_drf : [publish_ok] with its reference flow
      (object 0 = the queue, location 1 its head word; object 1 = the node, location 0 its
      payload; the go statement hands the queue over, the atomic store puts the node into the
      head word, the atomic load obtains it: ex_obj_of / ex_creator / ex_gets / ex_gives of
      Race/HBEscapeExample.v) *)
Example publish_ok_wf_mutex : wf_mutex publish_ok := wf_locks publish_ok publish_ok_wf.

Example publish_ok_esc_disciplined : esc_disciplined publish_ok ex_obj_of ex_creator ex_gives.
Proof.
  intros x (i & t & k & Hat & Hx). destruct x as [|x].
  - exists EImmutable. intros j u kj Hj Hxj Hw. nv_each_event Hj; simpl in Hxj, Hw; try discriminate.
    split; [reflexivity|]. intros e (ke & _ & _ & [[_ Ho]|[-> _]]); [discriminate|lia].
  - exists EAtomic. intros j u kj Hj Hxj. nv_each_event Hj; simpl in Hxj; try discriminate; inversion Hxj; subst.
    + right. split; [reflexivity|]. intros e (ke & _ & _ & [[-> _]|[_ Ho]]); [lia|discriminate].
    + left. reflexivity.
    + left. reflexivity.
Qed.

Example publish_ok_ref_flow : ref_flow publish_ok ex_obj_of ex_creator ex_gets ex_gives.
Proof.
  constructor.
  - intros j t k x Hat Hx. nv_each_event Hat; simpl in Hx; try discriminate; inversion Hx; subst;
      try (apply K_creator).
    + apply (K_spawn _ _ _ _ 1 0 1 4); [lia|reflexivity|left; auto].
    + apply (K_in _ _ _ _ 1 4 5 (ARd 1)); [lia|reflexivity|reflexivity|split; reflexivity].
  - intros o w t k Hat _ [[-> ->]|[-> ->]]; unfold at_ in Hat; simpl in Hat; inversion Hat; apply K_creator.
  - intros o j t c n Hat _. nv_each_event Hat.
  - intros o i t k y Hat _ Hy [-> ->]. unfold at_ in Hat; simpl in Hat; inversion Hat; subst.
    simpl in Hy. inversion Hy. subst y.
    exists 3, 0, (AWr 1). repeat split; auto; try lia. right. auto.
Qed.

Example C14_escape_discipline_implies_drf_nonvacuous : ~ data_race publish_ok :=
  C14_escape_discipline_implies_drf publish_ok ex_obj_of ex_creator ex_gets ex_gives
    publish_ok_wf_mutex publish_ok_esc_disciplined publish_ok_ref_flow.

(** a second instance, exercising the channel clause [rf_recv] (absent from [publish_ok]): goroutine
    0 fills a node (location 0), sends the reference on channel 0; goroutine 1 receives it and
    reads the payload.  No happens-before fact is supplied: only who gives / gets the reference. *)
Open Scope nat_scope.
Definition chan_exec : exec := [Ev 0 (Spawn 1); Ev 0 (Wr 0); Ev 0 (Send 0 0); Ev 1 (Recv 0 0); Ev 1 (Rd 0)].
Definition ch_gives (i : nat) (o : obj) : Prop := i = 2 /\ o = 0.
Definition ch_gets (i : nat) (o : obj) : Prop := i = 3 /\ o = 0.

Example chan_exec_wf_mutex : wf_mutex chan_exec.
Proof. apply wf_locks. apply wfb_sound. vm_compute. reflexivity. Qed.

Example chan_exec_esc_disciplined : esc_disciplined chan_exec (fun _ => 0) (fun _ => 0) ch_gives.
Proof.
  intros x _. exists EImmutable. intros j u kj Hj Hxj Hw.
  nv_each_event Hj; simpl in Hxj, Hw; try discriminate.
  split; [reflexivity|]. intros e (ke & _ & _ & [-> _]). lia.
Qed.

Example chan_exec_ref_flow : ref_flow chan_exec (fun _ => 0) (fun _ => 0) ch_gets ch_gives.
Proof.
  constructor.
  - intros j t k x Hat Hx. nv_each_event Hat; simpl in Hx; try discriminate.
    + apply K_creator.
    + apply (K_in _ _ _ _ 1 3 4 (Recv 0 0)); [lia|reflexivity|reflexivity|split; reflexivity].
  - intros o w t k Hat _ [-> ->]. unfold at_ in Hat; simpl in Hat; inversion Hat; apply K_creator.
  - intros o j t c n Hat [-> ->]. unfold at_ in Hat; simpl in Hat; inversion Hat; subst.
    exists 2, 0. split; [lia|]. split; [reflexivity|]. split; reflexivity.
  - intros o i t k y Hat _ Hy [-> ->]. unfold at_ in Hat; simpl in Hat; inversion Hat; subst.
    simpl in Hy. discriminate Hy.
Qed.

Example C14_escape_discipline_implies_drf_nonvacuous_chan : ~ data_race chan_exec :=
  C14_escape_discipline_implies_drf chan_exec (fun _ => 0) (fun _ => 0) ch_gets ch_gives
    chan_exec_wf_mutex chan_exec_esc_disciplined chan_exec_ref_flow.
(** the write and the read do conflict; they are ordered only through the channel *)
Example chan_exec_conflict_ordered : conflicting (Wr 0) (Rd 0) /\ hb chan_exec 1 4 /\ data_raceb chan_exec = false.
Proof.
  split; [apply conflictingb_spec; vm_compute; reflexivity|].
  split; [apply hbb_spec; vm_compute; reflexivity|vm_compute; reflexivity].
Qed.

(* ------------------------------------------------------------------------------------------ *)
(** * C14_table_implies_drf_esc : the same run, from the queue rows of the table, with the
      operational notion of publication *)
Example q_static_to_dynamic_esc :
  static_to_dynamic_esc q_table publish_ok q_src q_fld ex_obj_of ex_creator ex_gives (fun _ => 0) (fun _ => false).
Proof.
  constructor.
  - intros i t k x Hat Hx. nv_each_event Hat; simpl in Hx; try discriminate; inversion Hx; subst x;
      (split; [simpl; tauto|split; [reflexivity|split; [reflexivity|
         split; simpl; intros H; try discriminate H; reflexivity]]]).
  - intros i t k x c Hat Hx Hc H.
    nv_each_event Hat; simpl in Hx; try discriminate; inversion Hx; subst x;
      vm_compute in Hc; inversion Hc; subst c; clear Hc;
      simpl in H; destruct H as [H|H]; try discriminate H.
    + (* event 0: before the go statement (event 1) that lets the queue escape *)
      split; [reflexivity|]. intros e (ke & _ & _ & [[-> _]|[_ Ho]]); [lia|discriminate].
    + (* event 2: before the atomic store (event 3) that lets the node escape *)
      split; [reflexivity|]. intros e (ke & _ & _ & [[_ Ho]|[-> _]]); [discriminate|lia].
  - intros i t k x funcs Hat Hx Hc H.
    nv_each_event Hat; simpl in Hx; try discriminate; inversion Hx; subst x; vm_compute in Hc; discriminate Hc.
  - intros x (i & t & k & Hat & Hx) Hc.
    nv_each_event Hat; simpl in Hx; try discriminate; inversion Hx; subst x; vm_compute in Hc; discriminate Hc.
  - intros i t k x Hat Hx Hc.
    nv_each_event Hat; simpl in Hx; try discriminate; inversion Hx; subst x; vm_compute in Hc; discriminate Hc.
Qed.

Example C14_table_implies_drf_esc_nonvacuous : ~ data_race publish_ok :=
  C14_table_implies_drf_esc q_table publish_ok q_src q_fld ex_obj_of ex_creator ex_gets ex_gives
    (fun _ => 0) (fun _ => false)
    q_table_ok q_static_to_dynamic_esc publish_ok_wf_mutex publish_ok_ref_flow.

(** the conclusion of the three [publish_ok] examples, by computation *)
Example publish_ok_no_race_computed : data_raceb publish_ok = false.
Proof. vm_compute. reflexivity. Qed.

(* ------------------------------------------------------------------------------------------ *)
(** * Audit remarks, with machine-checked illustrations

    A-C14-1  [C14_discipline_sound] is a reflection lemma: [obeys] is [access_ok] with [= true]
             pushed through the connectives (same [class_of], [mem], [site_known], same table of
             classes).  It restates the definition of the checker; all content is in the
             hand-written tables [field_classes] / [sync_sites] and in the extractor.
    A-C14-2  Owned fields (17 of the classified fields: the builders, the queue iterator,
             Task.ctx) are not constrained by the table at all ([audit_owned_rows_unconstrained]),
             and at trace level [static_to_dynamic(_esc)] ASSUMES [owned_loc] for them
             (std_owned / ste_owned), whose hand-over clause is itself a happens-before
             hypothesis.  For these fields the DRF theorems assume what they conclude
             ([audit_owned_race_passes_table]).
    A-C14-3  A row of kind "init" is accepted for every class in every function
             ([audit_init_kind_accepted_everywhere]); the theorems then rely on std_ctor /
             ste_ctor, i.e. on the extractor emitting "init" only for composite literals of
             objects that are still private.
    A-C14-4  The sync rows ("sync:Lock" ...) and [sync_sites] play no role in the DRF theorems:
             std_stems requires [is_sync_kind = None] for every access event, lock / unlock /
             channel events stem from no row, and "the listed functions hold the mutex" is the
             hypothesis std_guard, not something derived from the Lock/Unlock rows
             ([audit_table_without_sync_rows]: the theorem applies to a table with no sync row
             although the execution locks and unlocks).  For sync rows [a_typ] is ignored
             ([audit_sync_row_type_ignored]).
    A-C14-5  In [C14_discipline_implies_drf] / [C14_table_implies_drf] the classes atomic /
             immutable / guarded-after-init use [published], which is literally "every access of
             another goroutine is hb-after p": for the immutable class the hypothesis orders
             exactly the conflicting pairs, so [immutable_no_race] / [atomic_no_race] are close to
             restating race freedom.  Real content: the guarded class ([locked_hb]) and the escape
             variants [C14_escape_discipline_implies_drf] / [C14_table_implies_drf_esc], where the
             publication is derived from [ref_flow] (except for the owned class, A-C14-2).
    A-C14-6  [wf E] in [C14_discipline_implies_drf] / [C14_table_implies_drf]: only [wf_locks]
             is used (the proof goes through [discipline_implies_drf_mutex]); wf_spawn / wf_send /
             wf_recv are unused (harmless, the hypothesis is just stronger than needed).
    A-C14-7  Nothing is vacuous: every hypothesis is satisfied by the examples above, and each
             is refutable on a mutated instance (the [_hypothesis_bites] examples). *)
Open Scope string_scope.

Example audit_owned_rows_unconstrained :
  access_ok (Acc "queue" "jdkLinkedQueueIter" "nextNode" "any.Function.AtAll" "write") = true /\
  access_ok (Acc "worker-pool" "Task" "ctx" "Pool.worker" "write") = true.
Proof. split; vm_compute; reflexivity. Qed.

Example audit_init_kind_accepted_everywhere :
  access_ok (Acc "worker-pool" "Pool" "expanded" "Pool.Do" "read") = false /\
  access_ok (Acc "worker-pool" "Pool" "expanded" "Pool.Do" "init") = true /\
  access_ok (Acc "adder" "MutexAdder" "value" "not.A.Locked.Function" "init") = true.
Proof. repeat split; vm_compute; reflexivity. Qed.

Example audit_sync_row_type_ignored :
  access_ok (Acc "queue" "no-such-type" "queue.mutex" "MutexLinkedQueue.Offer" "sync:Lock") = true.
Proof. vm_compute. reflexivity. Qed.

(** the adder example: no row of the table is a sync row, yet the execution contains
    Lock / Unlock / RLock / RUnlock events (they stem from no row) *)
Example audit_table_without_sync_rows :
  (forall a, In a adder_table -> is_sync_kind (a_kind a) = None) /\
  at_ adder_exec 2 0 (Lock 0) /\ at_ adder_exec 5 0 (Unlock 0) /\
  at_ adder_exec 6 1 (RLock 0) /\ at_ adder_exec 8 1 (RUnlock 0).
Proof.
  split; [|repeat split].
  intros a [<-|[<-|[<-|[<-|[]]]]]; vm_compute; reflexivity.
Qed.

(** two goroutines write an iterator field concurrently: the table check passes, the execution is
    well formed and every access stems from a checked row - only the ASSUMED [owned_loc] fails *)
Open Scope nat_scope.
Definition owned_racy : exec := [Ev 0 (Spawn 1); Ev 0 (Wr 0); Ev 1 (Wr 0)].
Example audit_owned_race_passes_table :
  table_ok [r_it_wr] = true /\ wf owned_racy /\ race_pair owned_racy 1 2 /\
  (forall i t k x, at_ owned_racy i t k -> loc_of k = Some x ->
     In r_it_wr [r_it_wr] /\ is_sync_kind (a_kind r_it_wr) = None /\ kind_agrees (a_kind r_it_wr) k) /\
  ~ owned_loc owned_racy 0.
Proof.
  assert (Hr : race_pair owned_racy 1 2) by (apply race_pairb_spec; vm_compute; reflexivity).
  split; [vm_compute; reflexivity|]. split; [apply wfb_sound; vm_compute; reflexivity|].
  split; [exact Hr|]. split.
  - intros i t k x _ _. split; [left; reflexivity|]. split; [reflexivity|].
    split; intros H; vm_compute in H; discriminate H.
  - intros Ho. apply (owned_no_race owned_racy 0 Ho).
    destruct Hr as (t1 & t2 & k1 & k2 & H1 & H2 & Hne & [[x [Hx1 Hx2]] [Hw Hp]] & Hn1 & Hn2).
    unfold at_ in H1, H2. simpl in H1, H2. inversion H1. inversion H2. subst.
    exists 1, 2, 0, 1, (Wr 0), (Wr 0). repeat split; auto.
Qed.
