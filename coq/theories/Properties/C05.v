(** C05 — Backoff delays stay inside their documented envelope.
    Statements over the executable model Pure/Retry.v ([next_delay]); [p] is the
    oracle value of math.Pow(multiplier, n-1), [rnd] the stream of random words. *)
From Coq Require Import ZArith List.
From Garr Require Import Pure.F64 Pure.Retry Pure.RetryProofs.
Import ListNotations.
Local Open Scope Z_scope.

Theorem C05_fixed : forall p d n rnd, next_delay p (Fixed d) n rnd = Some (d, rnd).
Proof. exact fixed_delay. Qed.

(** exponential: exactly [initial] at attempt 1, afterwards the saturating float
    product clamped to the maximum; never above the maximum *)
Theorem C05_exponential_value : forall p i mx m n rnd,
  next_delay p (Expo i mx m) n rnd = Some (if n =? 1 then i else Z.min mx (sat_mul i p), rnd).
Proof. exact expo_delay. Qed.

Theorem C05_exponential_le_max : forall p i mx m n rnd d rnd',
  i <= mx -> next_delay p (Expo i mx m) n rnd = Some (d, rnd') -> d <= mx.
Proof. exact expo_le_max. Qed.

(** random: for every outcome of the random source, a value in [min, max] *)
Theorem C05_random_range : forall p mn mx bound n rnd,
  words rnd -> wf (Random mn mx bound) ->
  exists d rnd', next_delay p (Random mn mx bound) n rnd = Some (d, rnd') /\ mn <= d <= mx /\ words rnd'.
Proof. exact random_delay. Qed.

(** limit: negative exactly from attempt [limit] on, otherwise the wrapped delay *)
Theorem C05_limit : forall p l b n rnd,
  next_delay p (Limit l b) n rnd = if l <=? n then Some (-1, rnd) else next_delay p b n rnd.
Proof. exact limit_delay. Qed.

(** jitter passes a non-positive delay (a negative 'stop') through unchanged *)
Theorem C05_jitter_passthrough : forall p lo hi b n rnd tmp rnd1,
  next_delay p b n rnd = Some (tmp, rnd1) -> tmp <= 0 ->
  next_delay p (Jitter lo hi b) n rnd = Some (tmp, rnd1).
Proof. exact jitter_passthrough. Qed.

(** jitter band: between the two saturated products, never negative, never
    above MaxInt64, for every outcome of the random source.  Here the ordering
    of the two products is a hypothesis; it is DISCHARGED for all rates the
    constructor accepts in Properties/C05Float.v ([C05_jitter_band],
    [C05_sat_mul_jitter_ordered]), together with "never below initial" and
    monotonicity of the exponential policy ([C05_exponential_ge_initial],
    [C05_exponential_monotone]). *)
Theorem C05_jitter_band_partial : forall p lo hi b n rnd tmp rnd1,
  words rnd1 ->
  next_delay p b n rnd = Some (tmp, rnd1) -> 0 < tmp ->
  let minj := sat_mul tmp (fadd fone lo) in
  let maxj := sat_mul tmp (fadd fone hi) in
  0 <= minj <= maxj -> maxj <= max_int64 ->
  exists d rnd2, next_delay p (Jitter lo hi b) n rnd = Some (d, rnd2) /\ minj <= d <= maxj /\ words rnd2.
Proof. exact jitter_band. Qed.

(** a stop never becomes a retry, whatever is layered on top *)
Theorem C05_jitter_keeps_stop : forall p lo hi b n rnd tmp rnd1,
  next_delay p b n rnd = Some (tmp, rnd1) -> tmp < 0 ->
  next_delay p (Jitter lo hi b) n rnd = Some (tmp, rnd1).
Proof. exact jitter_keeps_stop. Qed.

Theorem C05_limit_keeps_stop : forall p l b n rnd tmp rnd1,
  next_delay p b n rnd = Some (tmp, rnd1) -> tmp < 0 ->
  exists d rnd2, next_delay p (Limit l b) n rnd = Some (d, rnd2) /\ d < 0.
Proof. exact limit_keeps_stop. Qed.

(** the random helper never loops and never leaves [0, bound) *)
Theorem C05_random_helper : forall bound rnd,
  words rnd -> 0 < bound <= max_int64 ->
  exists r rnd', next_incl_zero bound rnd = Some (r, rnd') /\ 0 <= r < bound /\ words rnd'.
Proof. exact next_incl_zero_range. Qed.

Print Assumptions C05_fixed.
Print Assumptions C05_exponential_value.
Print Assumptions C05_exponential_le_max.
Print Assumptions C05_random_range.
Print Assumptions C05_limit.
Print Assumptions C05_jitter_passthrough.
Print Assumptions C05_jitter_band_partial.
Print Assumptions C05_jitter_keeps_stop.
Print Assumptions C05_limit_keeps_stop.
Print Assumptions C05_random_helper.
