(** C09 - a concurrent Sum sees every finished update and only whole updates.
    Property theorems only.  For a linearizable counter the window statement
    of the property is a consequence: the Sum takes effect at one instant
    between its invocation and its return, so it returns the total of exactly
    the updates linearized before that instant - a set that contains every
    update that had returned before the Sum was invoked and no update invoked
    after it returned.  The striped adders' Sum is NOT an atomic snapshot; for
    them the bounds form of the property is proved below. *)
From Coq Require Import List ZArith.
From Garr Require Import Conc.Conc Conc.Lin Pure.F64 Adder.StripedModel Adder.SimpleModel Adder.AdderSpec.
From Garr Require Import Adder.SimpleMutex Adder.SimpleAtomic Adder.SimpleRC.
From Garr Require Import Breaker.ConcBase Adder.StripedInv Adder.StripedRead Adder.StripedC09 Adder.StripedNoFault Adder.StripedC09b Adder.SimpleRCSum.
Import ListNotations.
Local Open Scope Z_scope.

Theorem C09_atomic_adder : forall progs sched, no_sar progs ->
  lin_ok atomic_adder aret_eqb (counter_spec wadd) tlp 0 tt 0 progs sched = true.
Proof. exact atomic_adder_linearizable. Qed.
Theorem C09_atomic_f64_adder : forall progs sched, no_sar progs ->
  lin_ok atomic_f64_adder aret_eqb (counter_spec Z.add) tlp 0 tt 0 progs sched = true.
Proof. exact atomic_f64_adder_linearizable. Qed.
Theorem C09_mutex_adder : forall (progs : list (list aop)) (sched : list nat),
  lin_ok mutex_adder aret_eqb (counter_spec wadd) xlp xinit tt 0 progs sched = true.
Proof. exact mutex_adder_linearizable. Qed.
Print Assumptions C09_atomic_adder.
Print Assumptions C09_mutex_adder.

(** JDKAdder (and, with exact addition, JDKF64Adder): programs of
    non-negative Add/Inc calls and Sums, any interleaving, any table growth,
    total below 2^62 (nothing wraps).  [applied s] = base + attached cells =
    the exact amount of the updates that have taken effect in state [s].  A
    Sum invoked at log position i and returning r at position j satisfies
        applied(state at i) <= r <= applied(state after j) <= total,
    i.e. it contains every update that had taken effect (a fortiori: had
    returned) before it was invoked, nothing that takes effect after it
    returned, no update twice or in part beyond those bounds; successive Sums
    never decrease and never exceed the true total.  (The versions below carry
    a hypothesis [no_dead]; [C09_jdk_sum_bounds_nofault] removes it, using the
    proof that no thread of the striped machine ever faults.)  The exact
    "set of whole updates" form for updates of mixed sign is NOT proved; it is
    checked per history on the real code by the subset-sum monitor. *)
Theorem C09_jdk_sum_bounds : forall f64 maxcells rnd progs sched i j t ci cj thi thj pr cj' ej r,
  reader_progs progs -> total progs < 2 ^ 62 ->
  let log := steps_of (striped wadd f64 maxcells) (init apc (ainit rnd) tt progs) sched in
  nth_error log i = Some (ci, t) -> nth_error log j = Some (cj, t) -> (i < j)%nat ->
  nth_error (c_thr ci) t = Some thi -> t_cur thi = None -> t_prog thi = Sum :: pr ->
  nth_error (c_thr cj) t = Some thj -> t_prog thj = pr ->
  step_thread (striped wadd f64 maxcells) cj t = Some (cj', ej) -> In (ERet t Sum (RZ r)) ej ->
  no_dead cj' ->
  applied (c_sh ci) <= r <= applied (c_sh cj') /\ applied (c_sh cj') <= total progs.
Proof. exact sum_bounds_log. Qed.
Theorem C09_jdk_f64_sum_bounds : forall f64 maxcells rnd progs sched i j t ci cj thi thj pr cj' ej r,
  reader_progs progs ->
  let log := steps_of (striped Z.add f64 maxcells) (init apc (ainit rnd) tt progs) sched in
  nth_error log i = Some (ci, t) -> nth_error log j = Some (cj, t) -> (i < j)%nat ->
  nth_error (c_thr ci) t = Some thi -> t_cur thi = None -> t_prog thi = Sum :: pr ->
  nth_error (c_thr cj) t = Some thj -> t_prog thj = pr ->
  step_thread (striped Z.add f64 maxcells) cj t = Some (cj', ej) -> In (ERet t Sum (RZ r)) ej ->
  no_dead cj' ->
  applied (c_sh ci) <= r <= applied (c_sh cj') /\ applied (c_sh cj') <= total progs.
Proof. exact sum_bounds_log_exact. Qed.
Print Assumptions C09_jdk_sum_bounds.
Print Assumptions C09_jdk_f64_sum_bounds.

(** the same without any fault hypothesis: no thread of the striped machine ever
    faults, for all programs, schedules, probe streams and table limits *)
Theorem C09_jdk_no_fault : forall vadd f64 maxcells rnd progs sched th,
  In th (c_thr (final (striped vadd f64 maxcells) (init apc (ainit rnd) tt progs) sched)) -> t_dead th = false.
Proof. intros vadd f64 maxcells. exact (striped_no_fault vadd f64 maxcells). Qed.
Theorem C09_jdk_sum_bounds_nofault : forall f64 maxcells rnd progs sched i j t ci cj thi thj pr cj' ej r,
  reader_progs progs -> total progs < 2 ^ 62 ->
  let log := steps_of (striped wadd f64 maxcells) (init apc (ainit rnd) tt progs) sched in
  nth_error log i = Some (ci, t) -> nth_error log j = Some (cj, t) -> (i < j)%nat ->
  nth_error (c_thr ci) t = Some thi -> t_cur thi = None -> t_prog thi = Sum :: pr ->
  nth_error (c_thr cj) t = Some thj -> t_prog thj = pr ->
  step_thread (striped wadd f64 maxcells) cj t = Some (cj', ej) -> In (ERet t Sum (RZ r)) ej ->
  applied (c_sh ci) <= r <= applied (c_sh cj') /\ applied (c_sh cj') <= total progs.
Proof. exact sum_bounds_log'. Qed.
Theorem C09_jdk_f64_sum_bounds_nofault : forall f64 maxcells rnd progs sched i j t ci cj thi thj pr cj' ej r,
  reader_progs progs ->
  let log := steps_of (striped Z.add f64 maxcells) (init apc (ainit rnd) tt progs) sched in
  nth_error log i = Some (ci, t) -> nth_error log j = Some (cj, t) -> (i < j)%nat ->
  nth_error (c_thr ci) t = Some thi -> t_cur thi = None -> t_prog thi = Sum :: pr ->
  nth_error (c_thr cj) t = Some thj -> t_prog thj = pr ->
  step_thread (striped Z.add f64 maxcells) cj t = Some (cj', ej) -> In (ERet t Sum (RZ r)) ej ->
  applied (c_sh ci) <= r <= applied (c_sh cj') /\ applied (c_sh cj') <= total progs.
Proof. exact sum_bounds_log_exact'. Qed.

(** RandomCellAdder (any number n > 0 of cells): the same bounds - every cell is
    read exactly once and cells only grow *)
Theorem C09_random_cell_sum_bounds : forall n rnd progs sched i j t ci cj thi thj pr cj' ej r,
  (0 < n)%nat -> rc_reader_progs progs -> total progs < 2 ^ 63 ->
  let log := steps_of rc_adder (init rpc (rinit n rnd) tt progs) sched in
  nth_error log i = Some (ci, t) -> nth_error log j = Some (cj, t) -> (i < j)%nat ->
  nth_error (c_thr ci) t = Some thi -> t_cur thi = None -> t_prog thi = Sum :: pr ->
  nth_error (c_thr cj) t = Some thj -> t_prog thj = pr ->
  step_thread rc_adder cj t = Some (cj', ej) -> In (ERet t Sum (RZ r)) ej ->
  SimpleRC.zsum (rc_cells (c_sh ci)) <= r <= SimpleRC.zsum (rc_cells (c_sh cj')) /\
  SimpleRC.zsum (rc_cells (c_sh cj')) <= total progs.
Proof. exact rc_sum_bounds_log. Qed.
Print Assumptions C09_jdk_no_fault.
Print Assumptions C09_jdk_sum_bounds_nofault.
Print Assumptions C09_random_cell_sum_bounds.
