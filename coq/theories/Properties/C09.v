(** C09 - a concurrent Sum sees every finished update and only whole updates.
    Property theorems only.  For a linearizable counter the window statement
    of the property is a consequence: the Sum takes effect at one instant
    between its invocation and its return, so it returns the total of exactly
    the updates linearized before that instant - a set that contains every
    update that had returned before the Sum was invoked and no update invoked
    after it returned.  (The striped adders' Sum is NOT an atomic snapshot;
    their window theorem is in Adder/StripedSum.v when present; see DESIGN.md.) *)
From Coq Require Import List ZArith.
From Garr Require Import Conc.Conc Conc.Lin Pure.F64 Adder.StripedModel Adder.SimpleModel Adder.AdderSpec.
From Garr Require Import Adder.SimpleMutex Adder.SimpleAtomic.
Import ListNotations.
Local Open Scope Z_scope.

Theorem C09_atomic_adder : forall progs sched, no_sar progs ->
  lin_ok atomic_adder aret_eqb (counter_spec wadd) tlp 0 tt 0 progs sched = true.
Proof. exact atomic_adder_linearizable. Qed.
Theorem C09_atomic_f64_adder : forall progs sched, no_sar progs ->
  lin_ok atomic_f64_adder aret_eqb (counter_spec Z.add) tlp 0 tt 0 progs sched = true.
Proof. exact atomic_f64_adder_linearizable. Qed.
Theorem C09_mutex_adder : forall (progs : list (list aop)) (sched : list nat),
  lin_ok mutex_adder aret_eqb (counter_spec wadd) xlp xinit tt 0 progs sched = true.
Proof. exact mutex_adder_linearizable. Qed.
Print Assumptions C09_atomic_adder.
Print Assumptions C09_mutex_adder.
