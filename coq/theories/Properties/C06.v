(** C06 - the breaker follows the documented state machine for every call
    sequence.  Property theorems only. *)
From Coq Require Import List ZArith.
From Garr Require Import Conc.Conc Pure.F64 Pure.Config Breaker.BreakerModel Breaker.Ref Breaker.SeqRefine.
Import ListNotations.

(** For every configuration, every number of listeners, every stream of ticker
    readings (advancing, standing still, stepping backwards - any integers)
    and every single-threaded sequence of CanRequest / OnSuccess / OnFailure
    calls, the step machine of the implementation, run to completion, returns
    exactly the admission decisions of the documented reference machine
    (Breaker/Ref.v), produces exactly its listener callback log (each
    transition and each rejection once per listener, in order) and consumes
    exactly the same ticker readings. *)
Theorem C06_refines_documented_machine :
  forall cfg nl ticks ops,
    (forall o, In o ops -> breaker_op o = true) ->
    exists n, forall m, (n <= m)%nat ->
      let '(c, e) := run (breaker cfg nl) (seq_cfg cfg nl ticks ops) (repeat 0%nat m) in
      let '(r, xs) := ref_run cfg nl (ref_init nl ticks) ops in
      rets e = xs /\ b_log (c_sh c) = r_log r /\ b_ticks (c_sh c) = r_ticks r.
Proof. exact breaker_refines_reference. Qed.
Print Assumptions C06_refines_documented_machine.
