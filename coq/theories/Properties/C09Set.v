(** C09, exact form: a concurrent Sum returns the total of a SET OF WHOLE UPDATES.

    Read Adder/SetDefs.v first (vocabulary: [mixed_progs], [step_of],
    [invoked_at], [returns_at], [landing], [amount], [asum], [rc_commit],
    [summand], [a_commit]).  This file only states the theorems; the proofs are
    in Adder/RCSet.v (RandomCellAdder) and Adder/StripedSet1-3.v (JDKAdder,
    JDKF64Adder).

    Setting: any number of threads, each running any list of Add x / Inc / Dec
    / Sum calls - amounts of ANY sign, no bound on the totals - under ANY
    schedule (and any probe stream, any table-growth timing).
    [log = steps_of M (init ...) sched]; a log position = one atomic step.

    For each adder kind three theorems:

    1. [*_landing_effect] - what a landing step is.  If [landing log k =
       Some (loc, x)] then the step at k changes the summand location [loc]
       from [v] to [vadd v x] (or, striped adder only, makes the fresh cell
       [loc] a summand with value [x]) and changes no other summand location,
       and the stepping thread is inside an update call of amount [x].  If
       [landing log k = None] the step changes no summand location at all.
       In particular no step of a Sum call changes anything:
       [*_sum_steps_change_nothing].

    2. [*_update_lands_once] - whole updates.  Every update call that has
       returned (invoked at position a, returned at position b) has EXACTLY
       ONE landing step k among the steps of its thread in [a, b]; it lands
       the full amount of the call.  So an update = one log position.
       [*_update_lands_at_most_once]: a call that has not returned (yet) has
       at most one landing step, so no update is ever counted twice.

    3. [*_sum_is_set_of_whole_updates].  For a Sum invoked at position i and
       returning r at position j there is a duplicate-free list K of log
       positions such that
         - every k in K is a landing step and k < j   (an update invoked
           after the Sum returned lands after j: it is not in K),
         - every landing step k < i is in K           (an update that returned
           before the Sum was invoked landed before i: it is in K),
         - r = the sum of [amount log k] over K (wrapped to int64 for the
           int64 adders, exact for the float adder on exact sums).
       [*_sum_includes_returned_updates] spells out the second clause in terms
       of calls. *)
From Coq Require Import List Arith Bool ZArith Lia.
From Garr Require Import Conc.Conc Pure.F64 Breaker.ConcBase Adder.StripedModel Adder.SimpleModel
     Adder.AdderSpec Adder.StripedLib Adder.StripedInv Adder.StripedProofs Adder.StripedMono
     Adder.SetDefs Adder.SetBase Adder.RCSet Adder.StripedSet1 Adder.StripedSet2 Adder.StripedSet3.
Import ListNotations.
Local Open Scope Z_scope.

(** * RandomCellAdder (any number n > 0 of cells; int64 wrap-around) *)
Section RC.
Variable n : nat.
Variable rnd : list Z.
Variable progs : list (list aop).
Variable sched : list nat.
Hypothesis n_pos : (0 < n)%nat.
Hypothesis progs_mixed : mixed_progs progs.
Notation log := (steps_of rc_adder (init rpc (rinit n rnd) tt progs) sched).

Theorem C09set_rc_landing_effect : forall k c t c' e,
  nth_error log k = Some (c, t) -> step_thread rc_adder c t = Some (c', e) ->
  match landing rc_commit log k with
  | Some (i, x) =>
      (i < n)%nat /\
      rc_cells (c_sh c') = upd (rc_cells (c_sh c)) i (wadd (nth i (rc_cells (c_sh c)) 0) x) /\
      exists th o l, nth_error (c_thr c) t = Some th /\ t_cur th = Some (o, l) /\
                     is_update o = true /\ delta o = x
  | None => rc_cells (c_sh c') = rc_cells (c_sh c)
  end.
Proof.
  intros k c t c' e H Hs.
  destruct (cfg_at_step rc_adder _ sched k c t H) as [_ [e' Hs']]. rewrite Hs in Hs'. injection Hs' as -> _.
  apply (rc_landing_effect n n_pos rnd progs progs_mixed sched k c t H).
Qed.

(** no step of a Sum call (its invocation step included) is a landing step or changes a cell *)
Corollary C09set_rc_sum_steps_change_nothing : forall k c t th c' e,
  nth_error log k = Some (c, t) -> nth_error (c_thr c) t = Some th ->
  (t_cur th = None /\ (exists pr, t_prog th = Sum :: pr) \/ exists l, t_cur th = Some (Sum, l)) ->
  step_thread rc_adder c t = Some (c', e) ->
  landing rc_commit log k = None /\ rc_cells (c_sh c') = rc_cells (c_sh c).
Proof.
  intros k c t th c' e H Hn Hc Hs.
  destruct (cfg_at_step rc_adder _ sched k c t H) as [_ [e' Hs']]. rewrite Hs in Hs'. injection Hs' as -> _.
  apply (rc_sum_steps_change_nothing n n_pos rnd progs progs_mixed sched k c t th H Hn Hc).
Qed.

Theorem C09set_rc_update_lands_once : forall a b t o pr r,
  is_update o = true ->
  invoked_at log a t o pr -> returns_at rc_adder log b t o pr r -> (a < b)%nat ->
  exists k cell,
    (a <= k <= b)%nat /\ step_of log k t /\ landing rc_commit log k = Some (cell, delta o) /\
    forall k', (a <= k' <= b)%nat -> step_of log k' t -> landing rc_commit log k' <> None -> k' = k.
Proof.
  intros a b t o pr r Hu Ha Hb Hlt.
  destruct (rc_update_lands_once n n_pos rnd progs sched a b t o pr r Hu Ha Hb Hlt)
    as (cell & H1 & H2 & H3).
  exists b, cell. split; [lia|]. auto.
Qed.

(** no call, returned or not, has two landing steps: after a landing step of thread [t] inside the
    call invoked at [a], no later step of the same call (same remaining program [pr]) lands *)
Theorem C09set_rc_update_lands_at_most_once : forall a t o pr k1 k2 c2 th2,
  is_update o = true -> invoked_at log a t o pr ->
  (a <= k1 < k2)%nat -> step_of log k1 t -> landing rc_commit log k1 <> None ->
  nth_error log k2 = Some (c2, t) -> nth_error (c_thr c2) t = Some th2 -> t_prog th2 = pr ->
  landing rc_commit log k2 = None.
Proof. intros a t o pr k1 k2 c2 th2. apply rc_update_lands_at_most_once. exact n_pos. Qed.

Theorem C09set_rc_sum_is_set_of_whole_updates : forall i j t pr r,
  invoked_at log i t Sum pr -> returns_at rc_adder log j t Sum pr (RZ r) -> (i < j)%nat ->
  exists K : list nat,
    NoDup K /\
    (forall k, In k K -> (k < j)%nat /\ landing rc_commit log k <> None) /\
    (forall k, (k < i)%nat -> landing rc_commit log k <> None -> In k K) /\
    r = wrap64 (asum rc_commit log K).
Proof. exact (rc_sum_is_set_of_whole_updates n n_pos rnd progs progs_mixed sched). Qed.

(** every update that returned before the Sum was invoked is counted, exactly once and whole *)
Corollary C09set_rc_sum_includes_returned_updates : forall i j t pr r,
  invoked_at log i t Sum pr -> returns_at rc_adder log j t Sum pr (RZ r) -> (i < j)%nat ->
  exists K : list nat,
    NoDup K /\
    (forall k, In k K -> (k < j)%nat /\ landing rc_commit log k <> None) /\
    r = wrap64 (asum rc_commit log K) /\
    forall a b t' o pr' r', is_update o = true ->
      invoked_at log a t' o pr' -> returns_at rc_adder log b t' o pr' r' -> (a < b)%nat -> (b < i)%nat ->
      exists k, In k K /\ (a <= k <= b)%nat /\ step_of log k t' /\ amount rc_commit log k = delta o.
Proof.
  intros i j t pr r Hi Hj Hlt.
  destruct (C09set_rc_sum_is_set_of_whole_updates i j t pr r Hi Hj Hlt) as (K & Hnd & HK1 & HK2 & Hr).
  exists K. split; [exact Hnd|]. split; [exact HK1|]. split; [exact Hr|].
  intros a b t' o pr' r' Hu Ha Hb Hab Hbi.
  destruct (C09set_rc_update_lands_once a b t' o pr' r' Hu Ha Hb Hab) as (k & cell & Hk & Hst & Hl & _).
  exists k. split; [apply HK2; [lia|congruence]|]. split; [exact Hk|]. split; [exact Hst|].
  apply (amount_landing rc_commit log k cell (delta o) Hl).
Qed.
End RC.

(** * JDKAdder / JDKF64Adder, generic in the addition [vadd a b = nrm (a + b)] *)
Section Striped.
Variable nrm : Z -> Z.
Hypothesis nrm_add : forall a b, nrm (nrm a + b) = nrm (a + b).
Hypothesis nrm_0 : nrm 0 = 0.
Variable vadd : Z -> Z -> Z.
Hypothesis vadd_def : forall a b, vadd a b = nrm (a + b).
Variable f64 : bool.
Variable maxcells : Z.
Variable rnd : list Z.
Variable progs : list (list aop).
Variable sched : list nat.
Hypothesis progs_mixed : mixed_progs progs.
Notation M := (striped vadd f64 maxcells).
Notation log := (steps_of M (init apc (ainit rnd) tt progs) sched).

Theorem striped_landing_effect : forall k c t c' e,
  nth_error log k = Some (c, t) -> step_thread M c t = Some (c', e) ->
  match landing a_commit log k with
  | Some (loc, x) =>
      (forall loc', loc' <> loc -> summand (c_sh c') loc' = summand (c_sh c) loc') /\
      match summand (c_sh c) loc with
      | Some v => summand (c_sh c') loc = Some (vadd v x)
      | None => summand (c_sh c') loc = Some x
      end /\
      exists th o l, nth_error (c_thr c) t = Some th /\ t_cur th = Some (o, l) /\
                     is_update o = true /\ delta o = x
  | None => forall loc, summand (c_sh c') loc = summand (c_sh c) loc
  end.
Proof.
  intros k c t c' e H Hs.
  destruct (cfg_at_step M _ sched k c t H) as [_ [e' Hs']]. rewrite Hs in Hs'. injection Hs' as -> _.
  apply (st_landing_effect nrm nrm_add nrm_0 vadd vadd_def f64 maxcells rnd progs progs_mixed sched k c t H).
Qed.

Corollary striped_sum_steps_change_nothing : forall k c t th c' e,
  nth_error log k = Some (c, t) -> nth_error (c_thr c) t = Some th ->
  (t_cur th = None /\ (exists pr, t_prog th = Sum :: pr) \/ exists l, t_cur th = Some (Sum, l)) ->
  step_thread M c t = Some (c', e) ->
  landing a_commit log k = None /\ forall loc, summand (c_sh c') loc = summand (c_sh c) loc.
Proof.
  intros k c t th c' e H Hn Hc Hs.
  destruct (cfg_at_step M _ sched k c t H) as [_ [e' Hs']]. rewrite Hs in Hs'. injection Hs' as -> _.
  apply (st_sum_steps_change_nothing nrm nrm_add nrm_0 vadd vadd_def f64 maxcells rnd progs progs_mixed sched k c t th H Hn Hc).
Qed.

Theorem striped_update_lands_once : forall a b t o pr r,
  is_update o = true ->
  invoked_at log a t o pr -> returns_at M log b t o pr r -> (a < b)%nat ->
  exists k loc,
    (a <= k <= b)%nat /\ step_of log k t /\ landing a_commit log k = Some (loc, delta o) /\
    forall k', (a <= k' <= b)%nat -> step_of log k' t -> landing a_commit log k' <> None -> k' = k.
Proof. exact (st_update_lands_once nrm nrm_add nrm_0 vadd vadd_def f64 maxcells rnd progs progs_mixed sched). Qed.

Theorem striped_update_lands_at_most_once : forall a t o pr k1 k2 c2 th2,
  is_update o = true -> invoked_at log a t o pr ->
  (a <= k1 < k2)%nat -> step_of log k1 t -> landing a_commit log k1 <> None ->
  nth_error log k2 = Some (c2, t) -> nth_error (c_thr c2) t = Some th2 -> t_prog th2 = pr ->
  landing a_commit log k2 = None.
Proof. exact (st_update_lands_at_most_once nrm nrm_add nrm_0 vadd vadd_def f64 maxcells rnd progs progs_mixed sched). Qed.

Theorem striped_sum_is_set_of_whole_updates : forall i j t pr r,
  invoked_at log i t Sum pr -> returns_at M log j t Sum pr (RZ r) -> (i < j)%nat ->
  exists K : list nat,
    NoDup K /\
    (forall k, In k K -> (k < j)%nat /\ landing a_commit log k <> None) /\
    (forall k, (k < i)%nat -> landing a_commit log k <> None -> In k K) /\
    r = nrm (asum a_commit log K).
Proof. exact (st_sum_is_set_of_whole_updates nrm nrm_add nrm_0 vadd vadd_def f64 maxcells rnd progs progs_mixed sched). Qed.

Corollary striped_sum_includes_returned_updates : forall i j t pr r,
  invoked_at log i t Sum pr -> returns_at M log j t Sum pr (RZ r) -> (i < j)%nat ->
  exists K : list nat,
    NoDup K /\
    (forall k, In k K -> (k < j)%nat /\ landing a_commit log k <> None) /\
    r = nrm (asum a_commit log K) /\
    forall a b t' o pr' r', is_update o = true ->
      invoked_at log a t' o pr' -> returns_at M log b t' o pr' r' -> (a < b)%nat -> (b < i)%nat ->
      exists k, In k K /\ (a <= k <= b)%nat /\ step_of log k t' /\ amount a_commit log k = delta o.
Proof.
  intros i j t pr r Hi Hj Hlt.
  destruct (striped_sum_is_set_of_whole_updates i j t pr r Hi Hj Hlt) as (K & Hnd & HK1 & HK2 & Hr).
  exists K. split; [exact Hnd|]. split; [exact HK1|]. split; [exact Hr|].
  intros a b t' o pr' r' Hu Ha Hb Hab Hbi.
  destruct (striped_update_lands_once a b t' o pr' r' Hu Ha Hb Hab) as (k & loc & Hk & Hst & Hl & _).
  exists k. split; [apply HK2; [lia|congruence]|]. split; [exact Hk|]. split; [exact Hst|].
  apply (amount_landing a_commit log k loc (delta o) Hl).
Qed.
End Striped.

(** * JDKAdder: [wadd] = int64 wrap-around addition *)
Lemma wadd_def a b : wadd a b = wrap64 (a + b).
Proof. reflexivity. Qed.

Section JDK.
Variable f64 : bool.
Variable maxcells : Z.
Variable rnd : list Z.
Variable progs : list (list aop).
Variable sched : list nat.
Hypothesis progs_mixed : mixed_progs progs.
Notation M := (striped wadd f64 maxcells).
Notation log := (steps_of M (init apc (ainit rnd) tt progs) sched).

Theorem C09set_jdk_landing_effect : forall k c t c' e,
  nth_error log k = Some (c, t) -> step_thread M c t = Some (c', e) ->
  match landing a_commit log k with
  | Some (loc, x) =>
      (forall loc', loc' <> loc -> summand (c_sh c') loc' = summand (c_sh c) loc') /\
      match summand (c_sh c) loc with
      | Some v => summand (c_sh c') loc = Some (wadd v x)
      | None => summand (c_sh c') loc = Some x
      end /\
      exists th o l, nth_error (c_thr c) t = Some th /\ t_cur th = Some (o, l) /\
                     is_update o = true /\ delta o = x
  | None => forall loc, summand (c_sh c') loc = summand (c_sh c) loc
  end.
Proof. exact (striped_landing_effect wrap64 wrap64_add_l wrap64_0 wadd wadd_def f64 maxcells rnd progs sched progs_mixed). Qed.

Corollary C09set_jdk_sum_steps_change_nothing : forall k c t th c' e,
  nth_error log k = Some (c, t) -> nth_error (c_thr c) t = Some th ->
  (t_cur th = None /\ (exists pr, t_prog th = Sum :: pr) \/ exists l, t_cur th = Some (Sum, l)) ->
  step_thread M c t = Some (c', e) ->
  landing a_commit log k = None /\ forall loc, summand (c_sh c') loc = summand (c_sh c) loc.
Proof. exact (striped_sum_steps_change_nothing wrap64 wrap64_add_l wrap64_0 wadd wadd_def f64 maxcells rnd progs sched progs_mixed). Qed.

Theorem C09set_jdk_update_lands_once : forall a b t o pr r,
  is_update o = true ->
  invoked_at log a t o pr -> returns_at M log b t o pr r -> (a < b)%nat ->
  exists k loc,
    (a <= k <= b)%nat /\ step_of log k t /\ landing a_commit log k = Some (loc, delta o) /\
    forall k', (a <= k' <= b)%nat -> step_of log k' t -> landing a_commit log k' <> None -> k' = k.
Proof. exact (striped_update_lands_once wrap64 wrap64_add_l wrap64_0 wadd wadd_def f64 maxcells rnd progs sched progs_mixed). Qed.

Theorem C09set_jdk_update_lands_at_most_once : forall a t o pr k1 k2 c2 th2,
  is_update o = true -> invoked_at log a t o pr ->
  (a <= k1 < k2)%nat -> step_of log k1 t -> landing a_commit log k1 <> None ->
  nth_error log k2 = Some (c2, t) -> nth_error (c_thr c2) t = Some th2 -> t_prog th2 = pr ->
  landing a_commit log k2 = None.
Proof. exact (striped_update_lands_at_most_once wrap64 wrap64_add_l wrap64_0 wadd wadd_def f64 maxcells rnd progs sched progs_mixed). Qed.

Theorem C09set_jdk_sum_is_set_of_whole_updates : forall i j t pr r,
  invoked_at log i t Sum pr -> returns_at M log j t Sum pr (RZ r) -> (i < j)%nat ->
  exists K : list nat,
    NoDup K /\
    (forall k, In k K -> (k < j)%nat /\ landing a_commit log k <> None) /\
    (forall k, (k < i)%nat -> landing a_commit log k <> None -> In k K) /\
    r = wrap64 (asum a_commit log K).
Proof. exact (striped_sum_is_set_of_whole_updates wrap64 wrap64_add_l wrap64_0 wadd wadd_def f64 maxcells rnd progs sched progs_mixed). Qed.

Corollary C09set_jdk_sum_includes_returned_updates : forall i j t pr r,
  invoked_at log i t Sum pr -> returns_at M log j t Sum pr (RZ r) -> (i < j)%nat ->
  exists K : list nat,
    NoDup K /\
    (forall k, In k K -> (k < j)%nat /\ landing a_commit log k <> None) /\
    r = wrap64 (asum a_commit log K) /\
    forall a b t' o pr' r', is_update o = true ->
      invoked_at log a t' o pr' -> returns_at M log b t' o pr' r' -> (a < b)%nat -> (b < i)%nat ->
      exists k, In k K /\ (a <= k <= b)%nat /\ step_of log k t' /\ amount a_commit log k = delta o.
Proof. exact (striped_sum_includes_returned_updates wrap64 wrap64_add_l wrap64_0 wadd wadd_def f64 maxcells rnd progs sched progs_mixed). Qed.
End JDK.

(** * JDKF64Adder on exactly representable sums: [Z.add] *)
Section JDKF64.
Variable f64 : bool.
Variable maxcells : Z.
Variable rnd : list Z.
Variable progs : list (list aop).
Variable sched : list nat.
Hypothesis progs_mixed : mixed_progs progs.
Notation M := (striped Z.add f64 maxcells).
Notation log := (steps_of M (init apc (ainit rnd) tt progs) sched).

Theorem C09set_jdk_f64_landing_effect : forall k c t c' e,
  nth_error log k = Some (c, t) -> step_thread M c t = Some (c', e) ->
  match landing a_commit log k with
  | Some (loc, x) =>
      (forall loc', loc' <> loc -> summand (c_sh c') loc' = summand (c_sh c) loc') /\
      match summand (c_sh c) loc with
      | Some v => summand (c_sh c') loc = Some (v + x)
      | None => summand (c_sh c') loc = Some x
      end /\
      exists th o l, nth_error (c_thr c) t = Some th /\ t_cur th = Some (o, l) /\
                     is_update o = true /\ delta o = x
  | None => forall loc, summand (c_sh c') loc = summand (c_sh c) loc
  end.
Proof. exact (striped_landing_effect idn idn_add eq_refl Z.add (fun a b => eq_refl) f64 maxcells rnd progs sched progs_mixed). Qed.

Corollary C09set_jdk_f64_sum_steps_change_nothing : forall k c t th c' e,
  nth_error log k = Some (c, t) -> nth_error (c_thr c) t = Some th ->
  (t_cur th = None /\ (exists pr, t_prog th = Sum :: pr) \/ exists l, t_cur th = Some (Sum, l)) ->
  step_thread M c t = Some (c', e) ->
  landing a_commit log k = None /\ forall loc, summand (c_sh c') loc = summand (c_sh c) loc.
Proof. exact (striped_sum_steps_change_nothing idn idn_add eq_refl Z.add (fun a b => eq_refl) f64 maxcells rnd progs sched progs_mixed). Qed.

Theorem C09set_jdk_f64_update_lands_once : forall a b t o pr r,
  is_update o = true ->
  invoked_at log a t o pr -> returns_at M log b t o pr r -> (a < b)%nat ->
  exists k loc,
    (a <= k <= b)%nat /\ step_of log k t /\ landing a_commit log k = Some (loc, delta o) /\
    forall k', (a <= k' <= b)%nat -> step_of log k' t -> landing a_commit log k' <> None -> k' = k.
Proof. exact (striped_update_lands_once idn idn_add eq_refl Z.add (fun a b => eq_refl) f64 maxcells rnd progs sched progs_mixed). Qed.

Theorem C09set_jdk_f64_update_lands_at_most_once : forall a t o pr k1 k2 c2 th2,
  is_update o = true -> invoked_at log a t o pr ->
  (a <= k1 < k2)%nat -> step_of log k1 t -> landing a_commit log k1 <> None ->
  nth_error log k2 = Some (c2, t) -> nth_error (c_thr c2) t = Some th2 -> t_prog th2 = pr ->
  landing a_commit log k2 = None.
Proof. exact (striped_update_lands_at_most_once idn idn_add eq_refl Z.add (fun a b => eq_refl) f64 maxcells rnd progs sched progs_mixed). Qed.

Theorem C09set_jdk_f64_sum_is_set_of_whole_updates : forall i j t pr r,
  invoked_at log i t Sum pr -> returns_at M log j t Sum pr (RZ r) -> (i < j)%nat ->
  exists K : list nat,
    NoDup K /\
    (forall k, In k K -> (k < j)%nat /\ landing a_commit log k <> None) /\
    (forall k, (k < i)%nat -> landing a_commit log k <> None -> In k K) /\
    r = asum a_commit log K.
Proof. exact (striped_sum_is_set_of_whole_updates idn idn_add eq_refl Z.add (fun a b => eq_refl) f64 maxcells rnd progs sched progs_mixed). Qed.

Corollary C09set_jdk_f64_sum_includes_returned_updates : forall i j t pr r,
  invoked_at log i t Sum pr -> returns_at M log j t Sum pr (RZ r) -> (i < j)%nat ->
  exists K : list nat,
    NoDup K /\
    (forall k, In k K -> (k < j)%nat /\ landing a_commit log k <> None) /\
    r = asum a_commit log K /\
    forall a b t' o pr' r', is_update o = true ->
      invoked_at log a t' o pr' -> returns_at M log b t' o pr' r' -> (a < b)%nat -> (b < i)%nat ->
      exists k, In k K /\ (a <= k <= b)%nat /\ step_of log k t' /\ amount a_commit log k = delta o.
Proof. exact (striped_sum_includes_returned_updates idn idn_add eq_refl Z.add (fun a b => eq_refl) f64 maxcells rnd progs sched progs_mixed). Qed.
End JDKF64.

Print Assumptions C09set_rc_landing_effect.
Print Assumptions C09set_rc_sum_steps_change_nothing.
Print Assumptions C09set_rc_update_lands_once.
Print Assumptions C09set_rc_update_lands_at_most_once.
Print Assumptions C09set_rc_sum_is_set_of_whole_updates.
Print Assumptions C09set_rc_sum_includes_returned_updates.
Print Assumptions C09set_jdk_landing_effect.
Print Assumptions C09set_jdk_sum_steps_change_nothing.
Print Assumptions C09set_jdk_update_lands_once.
Print Assumptions C09set_jdk_update_lands_at_most_once.
Print Assumptions C09set_jdk_sum_is_set_of_whole_updates.
Print Assumptions C09set_jdk_sum_includes_returned_updates.
Print Assumptions C09set_jdk_f64_landing_effect.
Print Assumptions C09set_jdk_f64_sum_steps_change_nothing.
Print Assumptions C09set_jdk_f64_update_lands_once.
Print Assumptions C09set_jdk_f64_update_lands_at_most_once.
Print Assumptions C09set_jdk_f64_sum_is_set_of_whole_updates.
Print Assumptions C09set_jdk_f64_sum_includes_returned_updates.
