(** Progress of the lock-free JDK queue model [jdk]: no operation ever
    blocks, and from every reachable configuration every thread, run alone,
    completes its current (or next) call within a number of its own steps
    that is linear in the number of nodes - wherever the other threads are
    frozen (all operations, including Size and the iterator operations). *)
From Coq Require Import List Arith Bool NArith Lia.
From Garr Require Import Conc.Conc Queue.JdkModel Queue.JdkInv.
Import ListNotations.

(** ** (1a) no step ever blocks *)

Lemma finish_nb it k s : finish it k s <> Blocked.
Proof. destruct k; discriminate. Qed.

Lemma update_head_nb it h x k s : update_head it h x k s <> Blocked.
Proof. unfold update_head. destruct (Nat.eqb h x); [apply finish_nb|discriminate]. Qed.

Lemma scan_end_nb it k h p f v s : scan_end it k h p f v s <> Blocked.
Proof. destruct k; unfold scan_end; apply update_head_nb. Qed.

Lemma nloop_nb it pred p v s : nloop it pred p v s <> Blocked.
Proof. destruct p; discriminate. Qed.

Lemma after_succ_nb it pred p q v s : after_succ it pred p q v s <> Blocked.
Proof. destruct q; unfold after_succ; [apply nloop_nb|discriminate]. Qed.

Theorem jdk_never_blocks : forall l s, qstep l s <> Blocked.
Proof.
  intros [c it] s. destruct c; unfold qstep; cbn [l_pc l_it];
    try discriminate;
    try (match goal with |- context [getn s ?a] => destruct (getn s a) as [np|] end;
         [|discriminate]);
    repeat match goal with
           | |- context [if ?b then _ else _] => destruct b
           end;
    try discriminate;
    auto using finish_nb, update_head_nb, scan_end_nb, nloop_nb, after_succ_nb.
  - destruct o; try discriminate.
    + destruct (Nat.eqb v 0); discriminate.
    + destruct (it_node it); discriminate.
    + destruct (it_last it); discriminate.
Qed.

Print Assumptions jdk_never_blocks.

(** ** (1b) a measure that strictly decreases on every step of a thread *)

Definition D (s : qshared) (p : nat) : nat := 4 * (len s - p).
Definition ph (s : qshared) (p : nat) : nat := if Nat.ltb p (q_head s) then 4 else 0.
Definition MB (s : qshared) (x : nat) : nat := D s x + 4.

(** bound for the Offer loop at cursor [p] with remembered tail [t]: once
    [t] is the current tail the cursor only moves forward *)
Definition mONb (s : qshared) (t p : nat) : nat :=
  if Nat.eqb t (q_tail s) then MB s p
  else MB s (q_tail s) + (if Nat.eqb p t then 6 else 3).
Definition mON (s : qshared) (t p : nat) : nat :=
  if Nat.eqb (nxt s p) 0 then 3 else mONb s t p.

Definition mu (s : qshared) (c : pc) : nat :=
  match c with
  | Inv _ => 4 * len s + 12
  | OTail _ => MB s (q_tail s) + 1
  | ONext _ t p => mON s t p
  | OCasNext _ t p => if Nat.eqb (nxt s p) 0 then 2 else mON s t p + 1
  | OCasTail _ _ => 1
  | OReTailOff _ t p =>
      if Nat.eqb t (q_tail s) then MB s (q_head s) + 2 else MB s (q_tail s) + 1
  | OHead _ t => mONb s t (q_head s) + 1
  | OReTailHop _ t p q =>
      if Nat.eqb t (q_tail s) then MB s q + 1 else MB s (q_tail s) + 1
  | PHead => D s (q_head s) + 8
  | PItem _ p => D s p + 7
  | PCasItem _ p => D s p + 6
  | PNext _ p => D s p + 5
  | PNextAfter _ _ _ => 3
  | UCasHead _ x (KRet _) => 2
  | UCasHead _ x (KSize p) =>
      D s p + 4 + (if Nat.ltb p (Nat.max (q_head s) x) then 4 else 0)
  | USetNext _ (KRet _) => 1
  | USetNext _ (KSize p) => D s p + 3 + ph s p
  | SHead _ => D s (q_head s) + 8
  | SItem _ _ p => D s p + 7 + ph s p
  | SNext _ _ p => D s p + 5 + ph s p
  | ZItem p _ => D s p + 2 + ph s p
  | ZNext p _ => D s p + 1 + ph s p
  | NSucc1 pred => D s pred + 6
  | NHead1 _ => D s (q_head s) + 5
  | NItem _ p => D s p + 4
  | NSucc2 _ p _ => D s p + 3
  | NHead2 _ p _ => D s p + 2
  | NCas _ _ q _ => D s q + 5
  | RSet _ => 1
  end.

Lemma mON_le s t p : mON s t p <= mONb s t p.
Proof.
  unfold mON, mONb, MB. destruct (Nat.eqb (nxt s p) 0); [|lia].
  destruct (Nat.eqb t (q_tail s)); [lia|]. destruct (Nat.eqb p t); lia.
Qed.

Lemma mONb_same s p : mONb s (q_tail s) p = MB s p.
Proof. unfold mONb. rewrite Nat.eqb_refl. reflexivity. Qed.

Lemma mu_bound s c : mu s c <= 4 * len s + 12.
Proof.
  pose proof (mON_le s) as HM.
  destruct c; simpl; unfold mON, mONb, MB, D, ph in *;
    repeat match goal with
           | |- context [if ?b then _ else _] => destruct b
           | |- context [match ?k with KRet _ => _ | KSize _ => _ end] => destruct k
           end; lia.
Qed.

Definition dec_out (m : nat) (out : qout) : Prop :=
  match out with
  | Next l' s' => mu s' (l_pc l') < m
  | _ => True
  end.

Lemma dec_goto m it c s' : mu s' c < m -> dec_out m (goto it c s').
Proof. intros H. exact H. Qed.

Lemma dec_done m it r s' : dec_out m (done it r s').
Proof. exact I. Qed.

Lemma dec_finish m it k s' :
  (forall p, k = KSize p -> mu s' (ZItem p 0%N) < m) -> dec_out m (finish it k s').
Proof. intros H. destruct k; simpl; [exact I|]. apply H. reflexivity. Qed.

Lemma dec_update_head m it h x k s :
  mu s (UCasHead h x k) < m ->
  (forall p, k = KSize p -> mu s (ZItem p 0%N) < m) ->
  dec_out m (update_head it h x k s).
Proof.
  intros H1 H2. unfold update_head. destruct (Nat.eqb h x).
  - apply dec_finish. exact H2.
  - exact H1.
Qed.

Ltac brk :=
  repeat match goal with
         | |- context [Nat.eqb ?a ?b] => destruct (Nat.eqb_spec a b)
         | |- context [Nat.ltb ?a ?b] => destruct (Nat.ltb_spec a b)
         end.

Lemma mu_bound' s c : (forall o, c <> Inv o) -> mu s c <= 4 * len s + 11.
Proof.
  intros Hc. destruct c; try (exfalso; eapply Hc; reflexivity);
    simpl; unfold mON, mONb, MB, D, ph in *;
    repeat match goal with
           | |- context [if ?b then _ else _] => destruct b
           | |- context [match ?k with KRet _ => _ | KSize _ => _ end] => destruct k
           end; lia.
Qed.

Ltac fin := cbn [mu]; unfold mON, mONb, MB, D, ph in *; brk; try lia.
Ltac inv_goto :=
  apply dec_goto; eapply Nat.le_lt_trans; [apply mu_bound'; intros ? ?; discriminate|cbn [mu]; lia].

Lemma qstep_dec l s :
  QInv s -> pc_ok s (l_pc l) -> dec_out (mu s (l_pc l)) (qstep l s).
Proof.
  intros HI Hpc. destruct l as [c it]. simpl in Hpc. cbn [l_pc].
  pose proof (qi_head _ HI) as Hhd. pose proof (qi_tail _ HI) as Htl.
  unfold inr in Hhd, Htl.
  destruct c; unfold qstep; cbn [l_pc l_it].
  - (* Inv *)
    destruct o; cbn [l_pc l_it]; try inv_goto; try apply dec_done.
    + destruct (Nat.eqb v 0); [apply dec_done|inv_goto].
    + destruct (it_node it); [apply dec_done|inv_goto].
    + destruct (it_last it); [apply dec_done|inv_goto].
  - (* OTail *)
    apply dec_goto. pose proof (mON_le s (q_tail s) (q_tail s)) as H.
    rewrite mONb_same in H. cbn [mu]. lia.
  - (* ONext *)
    rewrite (getn_inr s p Hpc). fold (nxt s p).
    destruct (Nat.eqb_spec (nxt s p) 0) as [E0|N0]; [apply dec_goto; fin|].
    destruct (Nat.eqb_spec p (nxt s p)) as [E1|N1].
    + pose proof (qi_self _ HI p Hpc (eq_sym E1)) as Hlt. apply dec_goto. fin.
    + destruct (nxt_fwd s p HI Hpc N0 N1) as [A B].
      pose proof (mON_le s t (nxt s p)) as HM.
      destruct (Nat.eqb_spec p t) as [Ept|Npt]; cbn [negb]; apply dec_goto; cbn [mu].
      * revert HM. unfold mON at 3. destruct (Nat.eqb_spec (nxt s p) 0) as [|_]; [lia|].
        unfold mONb, MB, D in *. brk; lia.
      * unfold mON. destruct (Nat.eqb_spec (nxt s p) 0) as [|_]; [lia|].
        unfold mONb, MB, D in *. brk; lia.
  - (* OCasNext *)
    rewrite (getn_inr s p Hpc). fold (nxt s p). cbn [mu].
    destruct (Nat.eqb_spec (nxt s p) 0) as [E0|N0].
    + destruct (Nat.eqb p t); [apply dec_done|apply dec_goto; cbn [mu]; lia].
    + apply dec_goto. cbn [mu]. lia.
  - (* OCasTail *) apply dec_done.
  - (* OReTailOff *)
    cbn [mu]. destruct (Nat.eqb_spec t (q_tail s)) as [E|N]; apply dec_goto; cbn [mu].
    + rewrite mONb_same. lia.
    + pose proof (mON_le s (q_tail s) (q_tail s)) as H. rewrite mONb_same in H. lia.
  - (* OHead *)
    apply dec_goto. cbn [mu]. pose proof (mON_le s t (q_head s)). lia.
  - (* OReTailHop *)
    cbn [mu]. destruct (Nat.eqb_spec t (q_tail s)) as [E|N]; apply dec_goto; cbn [mu].
    + pose proof (mON_le s (q_tail s) q) as H. rewrite mONb_same in H. lia.
    + pose proof (mON_le s (q_tail s) (q_tail s)) as H. rewrite mONb_same in H. lia.
  - (* PHead *) apply dec_goto. fin.
  - (* PItem *)
    destruct Hpc as (A & B & C & Dd).
    assert (Hp : inr s p) by (unfold inr; lia).
    rewrite (getn_inr s p Hp). destruct (n_live (nd s p)); apply dec_goto; fin.
  - (* PCasItem *)
    destruct Hpc as (A & B & C & Dd).
    assert (Hp : inr s p) by (unfold inr; lia).
    rewrite (getn_inr s p Hp). destruct (n_live (nd s p)).
    + destruct (Nat.eqb p h); [apply dec_done|apply dec_goto; fin].
    + apply dec_goto; fin.
  - (* PNextAfter *)
    destruct Hpc as (A & B & C & Dd).
    assert (Hp : inr s p) by (unfold inr; lia).
    rewrite (getn_inr s p Hp).
    apply dec_update_head; [cbn [mu]; lia|intros p0 E; discriminate].
  - (* PNext *)
    destruct Hpc as (A & B & C & Dd).
    assert (Hp : inr s p) by (unfold inr; lia).
    rewrite (getn_inr s p Hp). fold (nxt s p).
    destruct (Nat.eqb_spec (nxt s p) 0) as [E0|N0].
    + apply dec_update_head; [cbn [mu]; lia|intros p0 E; discriminate].
    + destruct (Nat.eqb_spec p (nxt s p)) as [E1|N1].
      * pose proof (qi_self _ HI p Hp (eq_sym E1)) as Hlt. apply dec_goto. fin.
      * destruct (nxt_fwd s p HI Hp N0 N1) as [F G]. apply dec_goto. fin.
  - (* UCasHead *)
    destruct Hpc as (A & B & C & Dd & E).
    destruct (Nat.eqb_spec (q_head s) h) as [Eh|Nh].
    + apply dec_goto. destruct k as [r|p0]; cbn [mu]; [lia|].
      unfold D, ph, len. cbn [q_head q_nodes]. brk; lia.
    + apply dec_finish. intros p0 ->. cbn [mu]. unfold D, ph. brk; lia.
  - (* USetNext *)
    destruct Hpc as (A & B & C).
    assert (Hh : inr s h) by (unfold inr in *; lia).
    rewrite (getn_inr s h Hh).
    apply dec_finish. intros p0 ->. cbn [mu]. unfold D, ph.
    rewrite len_setn, head_setn. brk; lia.
  - (* SHead *) apply dec_goto. fin.
  - (* SItem *)
    destruct Hpc as (A & B & C & Dd).
    assert (Hp : inr s p) by (unfold inr; lia).
    rewrite (getn_inr s p Hp). destruct (n_live (nd s p)).
    + destruct k; unfold scan_end; cbv iota; apply dec_update_head;
        try (cbn [mu]; lia); try (intros p0 E; discriminate).
      * fin.
      * intros p0 E. injection E as <-. fin.
    + apply dec_goto. fin.
  - (* SNext *)
    destruct Hpc as (A & B & C & Dd).
    assert (Hp : inr s p) by (unfold inr; lia).
    rewrite (getn_inr s p Hp). fold (nxt s p).
    destruct (Nat.eqb_spec (nxt s p) 0) as [E0|N0].
    + destruct k; unfold scan_end; cbv iota; apply dec_update_head;
        try (cbn [mu]; lia); try (intros p0 E; discriminate).
    + destruct (Nat.eqb_spec p (nxt s p)) as [E1|N1].
      * pose proof (qi_self _ HI p Hp (eq_sym E1)) as Hlt. apply dec_goto. fin.
      * destruct (nxt_fwd s p HI Hp N0 N1) as [F G]. apply dec_goto. fin.
  - (* ZItem *)
    rewrite (getn_inr s p Hpc). destruct (n_live (nd s p)).
    + destruct (N.eqb (N.succ cnt) max_int32); [apply dec_done|apply dec_goto; fin].
    + apply dec_goto; fin.
  - (* ZNext *)
    rewrite (getn_inr s p Hpc). fold (nxt s p).
    destruct (Nat.eqb_spec p (nxt s p)) as [E1|N1].
    + pose proof (qi_self _ HI p Hpc (eq_sym E1)) as Hlt. unfold inr in Hpc. apply dec_goto. fin.
    + destruct (Nat.eqb_spec (nxt s p) 0) as [E0|N0]; [apply dec_done|].
      destruct (nxt_fwd s p HI Hpc N0 N1) as [F G]. apply dec_goto. fin.
  - (* NSucc1 *)
    rewrite (getn_inr s pred Hpc). fold (nxt s pred).
    destruct (Nat.eqb_spec pred (nxt s pred)) as [E1|N1].
    + pose proof (qi_self _ HI pred Hpc (eq_sym E1)) as Hlt. apply dec_goto. fin.
    + unfold nloop. destruct (nxt s pred) as [|q] eqn:Eq; [apply dec_done|].
      assert (N0 : nxt s pred <> 0) by lia. rewrite <- Eq in N1.
      destruct (nxt_fwd s pred HI Hpc N0 N1) as [F G]. apply dec_goto. fin.
  - (* NHead1 *)
    unfold nloop. destruct (q_head s) as [|q] eqn:Eq; [apply dec_done|].
    apply dec_goto. cbn [mu]. rewrite Eq. lia.
  - (* NItem *)
    destruct Hpc as (A & B & C).
    assert (Hp : inr s p) by (unfold inr; lia).
    rewrite (getn_inr s p Hp). destruct (n_live (nd s p)); [apply dec_done|apply dec_goto; fin].
  - (* NSucc2 *)
    destruct Hpc as (A & B & C & Dd).
    assert (Hp : inr s p) by (unfold inr; lia).
    rewrite (getn_inr s p Hp). fold (nxt s p).
    destruct (Nat.eqb_spec p (nxt s p)) as [E1|N1]; [apply dec_goto; fin|].
    unfold after_succ. destruct (nxt s p) as [|q] eqn:Eq; [apply dec_done|].
    assert (N0 : nxt s p <> 0) by lia. rewrite <- Eq in N1.
    destruct (nxt_fwd s p HI Hp N0 N1) as [F G]. apply dec_goto. fin.
  - (* NHead2 *)
    destruct Hpc as (A & B & C).
    unfold after_succ. destruct (q_head s) as [|q] eqn:Eq; [apply dec_done|].
    apply dec_goto. fin.
  - (* NCas *)
    destruct Hpc as (A & B & C & Dd & E).
    assert (Hp : inr s pred) by (unfold inr; lia).
    rewrite (getn_inr s pred Hp).
    unfold nloop. destruct q as [|q]; [apply dec_done|].
    apply dec_goto. cbn [mu]. unfold D.
    destruct (Nat.eqb (n_next (nd s pred)) p); rewrite ?len_setn; lia.
  - (* RSet *)
    rewrite (getn_inr s l Hpc). apply dec_done.
Qed.

(** ** Bounded solo termination *)

Definition work_left (th : thread qiter qlocal qop) : nat :=
  length (t_prog th) + match t_cur th with Some _ => 1 | None => 0 end.
Definition solo (c : config qshared qiter qlocal qop) (t n : nat) := final jdk c (repeat t n).

Definition thr_mu (s : qshared) (th : qthread) : nat :=
  match t_cur th with
  | Some (_, l) => mu s (l_pc l)
  | None => 4 * len s + 12
  end.

Lemma thr_mu_bound s th : thr_mu s th <= 4 * len s + 12.
Proof. unfold thr_mu. destruct (t_cur th) as [[o l]|]; [apply mu_bound|lia]. Qed.

Lemma view_some th :
  t_dead th = false -> 0 < work_left th ->
  exists o l fresh, view jdk th = Some (o, l, fresh) /\
    forall s, mu s (l_pc l) = thr_mu s th.
Proof.
  intros Hd Hw. unfold view, work_left, thr_mu in *. rewrite Hd.
  destruct (t_cur th) as [[o l]|].
  - exists o, l, false. split; reflexivity.
  - destruct (t_prog th) as [|o r]; [simpl in Hw; lia|].
    exists o, (m_start jdk (t_ts th) o), true. split; reflexivity.
Qed.

Lemma work_left_next th o l fresh l' :
  view jdk th = Some (o, l, fresh) ->
  work_left (Thread (rest_prog th fresh) (t_ts th) (Some (o, l')) false) = work_left th.
Proof.
  unfold view, work_left. destruct (t_dead th); [discriminate|].
  destruct (t_cur th) as [[o' l'']|].
  - intros E. injection E as <- <- <-. reflexivity.
  - destruct (t_prog th) as [|o' r] eqn:Ep; [discriminate|].
    intros E. injection E as <- <- <-. simpl. rewrite Ep. simpl. lia.
Qed.

Lemma work_left_done th o l fresh ts' :
  view jdk th = Some (o, l, fresh) ->
  work_left (Thread (rest_prog th fresh) ts' None false) < work_left th.
Proof.
  unfold view, work_left. destruct (t_dead th); [discriminate|].
  destruct (t_cur th) as [[o' l'']|].
  - intros E. injection E as <- <- <-. simpl. lia.
  - destruct (t_prog th) as [|o' r] eqn:Ep; [discriminate|].
    intros E. injection E as <- <- <-. simpl. rewrite Ep. simpl. lia.
Qed.

Lemma solo_S c t n : solo c t (S n) = solo (step_cfg jdk c t) t n.
Proof. unfold solo. simpl. apply final_cons. Qed.

Lemma solo_terminates_gen k : forall c t th,
  CInv c -> nth_error (c_thr c) t = Some th -> 0 < work_left th ->
  thr_mu (c_sh c) th <= k ->
  exists n th', n <= S k /\
     nth_error (c_thr (solo c t n)) t = Some th' /\ work_left th' < work_left th.
Proof.
  induction k as [|k IH]; intros c t th HC Hn Hw Hk.
  - (* measure 0: the next step returns *)
    pose proof HC as [HI Hthr]. destruct (Hthr _ _ Hn) as (Hd & _).
    destruct (view_some th Hd Hw) as (o & l & fresh & Hv & Hm).
    destruct (view_ok _ _ _ _ _ (Hthr _ _ Hn) Hv) as [Hpc Hit].
    pose proof (qstep_ok l (c_sh c) HI Hpc Hit) as Hout.
    pose proof (qstep_dec l (c_sh c) HI Hpc) as Hdec. rewrite Hm in Hdec.
    exists 1. unfold solo. simpl repeat. rewrite final_cons, final_nil.
    unfold step_cfg, step_thread. rewrite Hn, Hv.
    change (m_step jdk l (c_sh c)) with (qstep l (c_sh c)).
    destruct (qstep l (c_sh c)) as [l' s'|r ts' s'| |]; simpl in Hout, Hdec; try contradiction; [lia|].
    eexists. split; [lia|]. simpl. rewrite nth_error_upd, Nat.eqb_refl, Hn.
    split; [reflexivity|]. eapply work_left_done; eauto.
  - pose proof HC as [HI Hthr]. destruct (Hthr _ _ Hn) as (Hd & _).
    destruct (view_some th Hd Hw) as (o & l & fresh & Hv & Hm).
    destruct (view_ok _ _ _ _ _ (Hthr _ _ Hn) Hv) as [Hpc Hit].
    pose proof (qstep_ok l (c_sh c) HI Hpc Hit) as Hout.
    pose proof (qstep_dec l (c_sh c) HI Hpc) as Hdec. rewrite Hm in Hdec.
    destruct (CInv_step c t HC) as [HC' _].
    assert (Hstep : step_cfg jdk c t =
              match qstep l (c_sh c) with
              | Next l' s' => Config s' (upd (c_thr c) t (Thread (rest_prog th fresh) (t_ts th) (Some (o, l')) false))
              | Done r ts' s' => Config s' (upd (c_thr c) t (Thread (rest_prog th fresh) ts' None false))
              | _ => c
              end).
    { unfold step_cfg, step_thread. rewrite Hn, Hv.
      change (m_step jdk l (c_sh c)) with (qstep l (c_sh c)).
      destruct (qstep l (c_sh c)); simpl in Hout; try contradiction; reflexivity. }
    destruct (qstep l (c_sh c)) as [l' s'|r ts' s'| |]; simpl in Hout, Hdec; try contradiction.
    + (* Next: measure decreased *)
      set (th1 := Thread (rest_prog th fresh) (t_ts th) (Some (o, l')) false) in *.
      assert (Hn1 : nth_error (c_thr (step_cfg jdk c t)) t = Some th1).
      { rewrite Hstep. simpl. rewrite nth_error_upd, Nat.eqb_refl, Hn. reflexivity. }
      assert (Hw1 : work_left th1 = work_left th) by (eapply work_left_next; eauto).
      destruct (IH (step_cfg jdk c t) t th1 HC' Hn1) as (n & th' & Hle & Hn' & Hw').
      { lia. }
      { rewrite Hstep. simpl. unfold th1, thr_mu. simpl. lia. }
      exists (S n), th'. rewrite solo_S. split; [lia|]. split; [exact Hn'|lia].
    + exists 1. unfold solo. simpl repeat. rewrite final_cons, final_nil, Hstep.
      eexists. split; [lia|]. simpl. rewrite nth_error_upd, Nat.eqb_refl, Hn.
      split; [reflexivity|]. eapply work_left_done; eauto.
Qed.

(** every thread, run alone from any reachable configuration, completes its
    current call (or, if idle, its next call) within [4 * nodes + 13] of its
    own steps *)
Theorem jdk_solo_terminates_tight : forall progs sched t th,
  let c := final jdk (jdk_init progs) sched in
  nth_error (c_thr c) t = Some th -> 0 < work_left th ->
  exists n th', n <= 4 * length (q_nodes (c_sh c)) + 13 /\
     nth_error (c_thr (solo c t n)) t = Some th' /\ work_left th' < work_left th.
Proof.
  intros progs sched t th c Hn Hw.
  destruct (solo_terminates_gen (4 * len (c_sh c) + 12) c t th) as (n & th' & H1 & H2 & H3); auto.
  - apply CInv_final.
  - apply thr_mu_bound.
  - exists n, th'. unfold len in H1. split; [lia|]. split; assumption.
Qed.

Theorem jdk_solo_terminates : forall progs sched t th,
  let c := final jdk (jdk_init progs) sched in
  nth_error (c_thr c) t = Some th -> 0 < work_left th ->
  exists n th', n <= 8 * (length (q_nodes (c_sh c)) + 4) /\
     nth_error (c_thr (solo c t n)) t = Some th' /\ work_left th' < work_left th.
Proof.
  intros progs sched t th c Hn Hw.
  destruct (jdk_solo_terminates_tight progs sched t th Hn Hw) as (n & th' & H1 & H2 & H3).
  exists n, th'. split; [fold c in H1; lia|]. split; assumption.
Qed.

Print Assumptions jdk_solo_terminates.
