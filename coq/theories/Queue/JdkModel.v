(** Hand-written step machine for queue/jdkLinkedQueue.go + queue/node.go
    (the lock-free JDK ConcurrentLinkedQueue port).

    One model step = one sync/atomic access of the Go code (program order
    kept) + the thread-private code up to the next one.  Addresses are
    positions in an append-only node list (0 = nil, a > 0 = node a-1); a node
    is allocated at the instant its link CAS succeeds (before that the Go
    node is private to the offering goroutine).  [n_live] is "_i != nil": the
    item pointer of a node only ever changes from &v to nil, so the CAS
    [casItemNil(item)] with a previously loaded non-nil [item] succeeds iff
    the node is still live.  [_v] is immutable (plain reads are fused with the
    preceding access).  Values are naturals, 0 = nil.  The iterator object is
    owned by the calling thread ([tstate]).  Dereferencing nil is [Fault]. *)
From Coq Require Import List Arith Bool NArith.
From Garr Require Import Conc.Conc.
Import ListNotations.

Record node := Node { n_val : nat; n_live : bool; n_next : nat }.
Record qshared := QS { q_nodes : list node; q_head : nat; q_tail : nat }.

Record qiter := Iter { it_node : nat; it_has : bool; it_val : nat; it_last : nat }.
Definition qiter0 : qiter := Iter 0 false 0 0.

Inductive qop := Offer (v : nat) | Poll | Peek | IsEmpty | Size | IterNew | HasNext | ItNext | Remove.
Inductive qret := RUnit | RVal (v : nat) | RBool (b : bool) | RSize (n : N).

Inductive skind := SKPeek | SKEmpty | SKSize | SKIter.
Inductive cont := KRet (r : qret) | KSize (p : nat).

Inductive pc :=
| Inv (o : qop)
(* Offer *)
| OTail (v : nat)
| ONext (v t p : nat)
| OCasNext (v t p : nat)
| OCasTail (t n : nat)
| OReTailOff (v t p : nat)
| OHead (v t : nat)
| OReTailHop (v t p q : nat)
(* Poll *)
| PHead
| PItem (h p : nat)
| PCasItem (h p : nat)
| PNextAfter (h p v : nat)
| PNext (h p : nat)
(* updateHead, then continue with k *)
| UCasHead (h x : nat) (k : cont)
| USetNext (h : nat) (k : cont)
(* scan to the first live node: Peek / first() / iterator constructor *)
| SHead (k : skind)
| SItem (k : skind) (h p : nat)
| SNext (k : skind) (h p : nat)
(* Size loop *)
| ZItem (p : nat) (cnt : N)
| ZNext (p : nat) (cnt : N)
(* Iterator.Next *)
| NSucc1 (pred : nat)
| NHead1 (pred : nat)
| NItem (pred p : nat)
| NSucc2 (pred p val : nat)
| NHead2 (pred p val : nat)
| NCas (pred p q val : nat)
(* Iterator.Remove *)
| RSet (l : nat).

Record qlocal := QL { l_pc : pc; l_it : qiter }.

Definition getn (s : qshared) (a : nat) : option node :=
  match a with O => None | S i => nth_error (q_nodes s) i end.

Definition setn (s : qshared) (a : nat) (n : node) : qshared :=
  match a with
  | O => s
  | S i => QS (upd (q_nodes s) i n) (q_head s) (q_tail s)
  end.

Definition max_int32 : N := 2147483647%N.

Definition qout := outcome qshared qiter qlocal qret.

Definition goto (it : qiter) (p : pc) (s : qshared) : qout := Next (QL p it) s.
Definition done (it : qiter) (r : qret) (s : qshared) : qout := Done r it s.

Definition finish (it : qiter) (k : cont) (s : qshared) : qout :=
  match k with
  | KRet r => done it r s
  | KSize p => goto it (ZItem p 0%N) s
  end.

(* updateHead(h, x): the test h != x is private; the CAS is the next access *)
Definition update_head (it : qiter) (h x : nat) (k : cont) (s : qshared) : qout :=
  if Nat.eqb h x then finish it k s else goto it (UCasHead h x k) s.

(* end of a scan at node p: found = p holds a live item *)
Definition scan_end (it : qiter) (k : skind) (h p : nat) (found : bool) (v : nat) (s : qshared) : qout :=
  match k with
  | SKPeek => update_head it h p (KRet (RVal (if found then v else 0))) s
  | SKEmpty => update_head it h p (KRet (RBool (negb found))) s
  | SKSize => update_head it h p (if found then KSize p else KRet (RSize 0%N)) s
  | SKIter => update_head (if found then Iter p true v 0 else it) h p (KRet RUnit) s
  end.

(* the loop head of Iterator.Next with cursor p (val = value of the last node visited) *)
Definition nloop (it : qiter) (pred p val : nat) (s : qshared) : qout :=
  match p with
  | O => done (Iter 0 false val (it_last it)) (RVal (it_val it)) s
  | _ => goto it (NItem pred p) s
  end.

Definition after_succ (it : qiter) (pred p q val : nat) (s : qshared) : qout :=
  match q with
  | O => nloop it pred 0 val s
  | _ => goto it (NCas pred p q val) s
  end.

Definition qstep (l : qlocal) (s : qshared) : qout :=
  let it := l_it l in
  match l_pc l with
  (* ---- invocation (a scheduling point inserted by the harness, no access) *)
  | Inv (Offer v) => if Nat.eqb v 0 then done it RUnit s else goto it (OTail v) s
  | Inv Poll => goto it PHead s
  | Inv Peek => goto it (SHead SKPeek) s
  | Inv IsEmpty => goto it (SHead SKEmpty) s
  | Inv Size => goto it (SHead SKSize) s
  | Inv IterNew => goto qiter0 (SHead SKIter) s
  | Inv HasNext => done it (RBool (it_has it)) s
  | Inv ItNext =>
      match it_node it with
      | O => done it (RVal 0) s
      | pred => goto (Iter (it_node it) (it_has it) (it_val it) pred) (NSucc1 pred) s
      end
  | Inv Remove =>
      match it_last it with
      | O => done it RUnit s
      | l => goto it (RSet l) s
      end
  (* ---- Offer *)
  | OTail v => goto it (ONext v (q_tail s) (q_tail s)) s
  | ONext v t p =>
      match getn s p with
      | None => Fault
      | Some np =>
          let q := n_next np in
          if Nat.eqb q 0 then goto it (OCasNext v t p) s
          else if Nat.eqb p q then goto it (OReTailOff v t p) s
          else if negb (Nat.eqb p t) then goto it (OReTailHop v t p q) s
          else goto it (ONext v t q) s
      end
  | OCasNext v t p =>
      match getn s p with
      | None => Fault
      | Some np =>
          if Nat.eqb (n_next np) 0 then
            let a := S (length (q_nodes s)) in
            let s1 := setn s p (Node (n_val np) (n_live np) a) in
            let s2 := QS (q_nodes s1 ++ [Node v true 0]) (q_head s1) (q_tail s1) in
            if Nat.eqb p t then done it RUnit s2 else goto it (OCasTail t a) s2
          else goto it (ONext v t p) s
      end
  | OCasTail t n =>
      done it RUnit (if Nat.eqb (q_tail s) t then QS (q_nodes s) (q_head s) n else s)
  | OReTailOff v t p =>
      let t' := q_tail s in
      if Nat.eqb t t' then goto it (OHead v t') s else goto it (ONext v t' t') s
  | OHead v t => goto it (ONext v t (q_head s)) s
  | OReTailHop v t p q =>
      let t' := q_tail s in
      if Nat.eqb t t' then goto it (ONext v t' q) s else goto it (ONext v t' t') s
  (* ---- Poll *)
  | PHead => goto it (PItem (q_head s) (q_head s)) s
  | PItem h p =>
      match getn s p with
      | None => Fault
      | Some np => if n_live np then goto it (PCasItem h p) s else goto it (PNext h p) s
      end
  | PCasItem h p =>
      match getn s p with
      | None => Fault
      | Some np =>
          if n_live np then
            let s' := setn s p (Node (n_val np) false (n_next np)) in
            if Nat.eqb p h then done it (RVal (n_val np)) s'
            else goto it (PNextAfter h p (n_val np)) s'
          else goto it (PNext h p) s
      end
  | PNextAfter h p v =>
      match getn s p with
      | None => Fault
      | Some np =>
          let q := n_next np in
          update_head it h (if Nat.eqb q 0 then p else q) (KRet (RVal v)) s
      end
  | PNext h p =>
      match getn s p with
      | None => Fault
      | Some np =>
          let q := n_next np in
          if Nat.eqb q 0 then update_head it h p (KRet (RVal 0)) s
          else if Nat.eqb p q then goto it PHead s
          else goto it (PItem h q) s
      end
  (* ---- updateHead *)
  | UCasHead h x k =>
      if Nat.eqb (q_head s) h then goto it (USetNext h k) (QS (q_nodes s) x (q_tail s))
      else finish it k s
  | USetNext h k =>
      match getn s h with
      | None => Fault
      | Some nh => finish it k (setn s h (Node (n_val nh) (n_live nh) h))
      end
  (* ---- scans *)
  | SHead k => goto it (SItem k (q_head s) (q_head s)) s
  | SItem k h p =>
      match getn s p with
      | None => Fault
      | Some np =>
          if n_live np then scan_end it k h p true (n_val np) s
          else goto it (SNext k h p) s
      end
  | SNext k h p =>
      match getn s p with
      | None => Fault
      | Some np =>
          let q := n_next np in
          if Nat.eqb q 0 then scan_end it k h p false 0 s
          else if Nat.eqb p q then goto it (SHead k) s
          else goto it (SItem k h q) s
      end
  (* ---- Size loop *)
  | ZItem p cnt =>
      match getn s p with
      | None => Fault
      | Some np =>
          if n_live np then
            let c := N.succ cnt in
            if N.eqb c max_int32 then done it (RSize c) s else goto it (ZNext p c) s
          else goto it (ZNext p cnt) s
      end
  | ZNext p cnt =>
      match getn s p with
      | None => Fault
      | Some np =>
          let q := n_next np in
          if Nat.eqb p q then goto it (SHead SKSize) s
          else if Nat.eqb q 0 then done it (RSize cnt) s
          else goto it (ZItem q cnt) s
      end
  (* ---- Iterator.Next *)
  | NSucc1 pred =>
      match getn s pred with
      | None => Fault
      | Some np =>
          let q := n_next np in
          if Nat.eqb pred q then goto it (NHead1 pred) s else nloop it pred q 0 s
      end
  | NHead1 pred => nloop it pred (q_head s) 0 s
  | NItem pred p =>
      match getn s p with
      | None => Fault
      | Some np =>
          if n_live np then
            done (Iter p true (n_val np) (it_last it)) (RVal (it_val it)) s
          else goto it (NSucc2 pred p (n_val np)) s
      end
  | NSucc2 pred p val =>
      match getn s p with
      | None => Fault
      | Some np =>
          let q := n_next np in
          if Nat.eqb p q then goto it (NHead2 pred p val) s else after_succ it pred p q val s
      end
  | NHead2 pred p val => after_succ it pred p (q_head s) val s
  | NCas pred p q val =>
      match getn s pred with
      | None => Fault
      | Some npr =>
          let s' := if Nat.eqb (n_next npr) p
                    then setn s pred (Node (n_val npr) (n_live npr) q) else s in
          nloop it pred q val s'
      end
  (* ---- Iterator.Remove *)
  | RSet l0 =>
      match getn s l0 with
      | None => Fault
      | Some nl =>
          done (Iter (it_node it) (it_has it) (it_val it) 0) RUnit
               (setn s l0 (Node (n_val nl) false (n_next nl)))
      end
  end.

Definition qstart (ts : qiter) (o : qop) : qlocal := QL (Inv o) ts.

Definition jdk : machine qshared qiter qlocal qop qret :=
  Machine qstart qstep (fun _ => false).

Definition qinit : qshared := QS [Node 0 false 0] 1 1.

Definition jdk_init (progs : list (list qop)) : config qshared qiter qlocal qop :=
  init qlocal qinit qiter0 progs.
