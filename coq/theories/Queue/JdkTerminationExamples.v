(** Total termination of the lock-free JDK queue model: concrete instances
    (all closed by [vm_compute]). *)
From Coq Require Import List Arith Bool NArith Lia.
From Garr Require Import Conc.Conc Queue.JdkModel Queue.JdkInv Queue.JdkProgress
  Breaker.ConcBase Queue.JdkTermination Queue.JdkTerminationMain Queue.JdkTerminationFair.
Import ListNotations.

(** three threads, 14 operations of every kind, 3 of them Offers *)
Definition progs3 : list (list qop) :=
  [ [Offer 1; Offer 2; Poll; Size];
    [Poll; Peek; IterNew; HasNext; ItNext; Remove; Offer 3];
    [IsEmpty; Poll; Size] ].

(** N = 4 nodes at most, solo bound 4N+12 = 28, weight of an effective change
    3*29+1 = 88, at most 3*3 = 9 effective changes, 14 operations *)
Example bound_progs3 : bound progs3 = 1198.
Proof. vm_compute. reflexivity. Qed.

Example bound_progs3_formula :
  bound progs3 = (3 * (4 * 3 + 17) + 1) * (3 * 3) + 14 * (4 * 3 + 17).
Proof. vm_compute. reflexivity. Qed.

Definition all_finished (c : qcfg) : bool := forallb idle (c_thr c).
Definition nsteps (progs : list (list qop)) (sched : list nat) : nat :=
  length (steps_of jdk (jdk_init progs) sched).

(** schedules *)
Definition round_robin (k : nat) : list nat := rounds 3 k.

(** a deterministic "random" adversary: linear congruential generator mod 3 *)
Fixpoint lcg (k x : nat) : list nat :=
  match k with
  | O => []
  | S k' => (x mod 3) :: lcg k' ((x * 61 + 17) mod 1021)
  end.

(** an adversary that lets one thread take a single step between long bursts
    of the two others (maximises CAS failures / restarts of the slow one) *)
Fixpoint bursts (k : nat) : list nat :=
  match k with
  | O => []
  | S k' => [0; 1; 2; 1; 2; 1; 2; 1; 0; 2; 2; 1; 1; 0; 0; 2] ++ bursts k'
  end.

Example rr_steps : nsteps progs3 (round_robin 100) = 66.
Proof. vm_compute. reflexivity. Qed.

Example rr_finished : all_finished (final jdk (jdk_init progs3) (round_robin 100)) = true.
Proof. vm_compute. reflexivity. Qed.

Example lcg_steps : nsteps progs3 (lcg 600 7) = 67.
Proof. vm_compute. reflexivity. Qed.

Example lcg_finished : all_finished (final jdk (jdk_init progs3) (lcg 600 7)) = true.
Proof. vm_compute. reflexivity. Qed.

Example bursts_steps : nsteps progs3 (bursts 40) = 64.
Proof. vm_compute. reflexivity. Qed.

(** a long adversarial schedule (640 + 600 + 3 * 1198 entries): the three
    adversaries one after the other, then the theorem's round-robin tail *)
Definition long_sched : list nat := bursts 40 ++ lcg 600 7 ++ rounds 3 (bound progs3).

Example long_sched_length : length long_sched = 4834.
Proof. vm_compute. reflexivity. Qed.

Example long_sched_steps_le : nsteps progs3 long_sched <=? bound progs3 = true.
Proof. vm_compute. reflexivity. Qed.

Example long_sched_finished : all_finished (final jdk (jdk_init progs3) long_sched) = true.
Proof. vm_compute. reflexivity. Qed.

(** the calls returned by thread 1 are its program, in order *)
Example long_sched_returns :
  ret_ops 1 (trace jdk (jdk_init progs3) long_sched) = nth 1 progs3 [].
Proof. vm_compute. reflexivity. Qed.

(** thread 0 is frozen forever inside its second Offer, right after its link
    CAS succeeded and before its tail CAS (so the tail lags behind for ever);
    threads 1 and 2 get their turns and finish everything *)
Definition freeze_prefix : list nat := repeat 0 9.
Definition others_only : list nat := concat (repeat [1; 2] 120).

Example frozen_thread0_is_mid_call :
  match nth_error (c_thr (final jdk (jdk_init progs3) (freeze_prefix ++ others_only))) 0 with
  | Some th => match t_cur th with
               | Some (Offer 2, QL (OCasTail 1 3) _) => true
               | _ => false
               end
  | None => false
  end = true.
Proof. vm_compute. reflexivity. Qed.

Example frozen_others_finished :
  match c_thr (final jdk (jdk_init progs3) (freeze_prefix ++ others_only)) with
  | [_; th1; th2] => idle th1 && idle th2
  | _ => false
  end = true.
Proof. vm_compute. reflexivity. Qed.

Example frozen_others_returned :
  ret_ops 1 (trace jdk (jdk_init progs3) (freeze_prefix ++ others_only)) = nth 1 progs3 [] /\
  ret_ops 2 (trace jdk (jdk_init progs3) (freeze_prefix ++ others_only)) = nth 2 progs3 [].
Proof. vm_compute. split; reflexivity. Qed.

(** a second, more contended program: 6 Offers and 6 Polls racing *)
Definition progsC : list (list qop) :=
  [ [Offer 1; Offer 2; Poll; Poll]; [Offer 3; Offer 4; Poll; Poll]; [Offer 5; Poll; Offer 6; Poll] ].

Example bound_progsC : bound progsC = 2724.
Proof. vm_compute. reflexivity. Qed.

(** lock-step round robin makes every CAS collide: the most contended run found *)
Example progsC_rr_steps : nsteps progsC (rounds 3 200) = 112.
Proof. vm_compute. reflexivity. Qed.

Example progsC_rr_finished : all_finished (final jdk (jdk_init progsC) (rounds 3 200)) = true.
Proof. vm_compute. reflexivity. Qed.

Example progsC_lcg_steps : nsteps progsC (lcg 900 7) = 96.
Proof. vm_compute. reflexivity. Qed.

Example progsC_bursts_steps : nsteps progsC (bursts 100) = 111.
Proof. vm_compute. reflexivity. Qed.

(** the instance of (B) for [progs3] *)
Example progs3_fair : forall sched,
  (forall t, t < 3 -> bound progs3 <= count_occ Nat.eq_dec sched t) ->
  forall t th, nth_error (c_thr (final jdk (jdk_init progs3) sched)) t = Some th ->
    t_prog th = [] /\ t_cur th = None /\ t_dead th = false.
Proof. exact (jdk_fair_all_return progs3). Qed.
